package main

// R-chan-send / R-wait, round 4: the link between "a core is in the list that
// VM.Wait polls" and "that core sends its one signal".
//
// Wait removes a core from the live list only after it received the core's
// signal, and returns only when the list is empty (or an interrupt arrived).
// So every core that is ever put into the list has to send exactly one signal
// on every path of its life. R-chan-send (1) proves that for the body of
// Core.Run; this file proves the two remaining links:
//
//   - R-chan-send: every goroutine that reaches a send on the signal channel
//     (every `go` statement of the module whose function — a literal, a declared
//     function, helpers followed — contains or calls a send) sends exactly once
//     on every non-panicking path of the goroutine body: the sender must not be
//     skipped by a condition or an early return, and must not run in a loop.
//     The sender the goroutine runs must belong to the core that was registered
//     on the same path (data flow from the registering call to the receiver of
//     the sender).
//   - R-wait: every registration (a store into the live-core list that adds an
//     element which does not come from the list itself; filters and clears of
//     the list are recognised by data flow on go/ssa) is followed, on every
//     non-panicking path, by the start of exactly one such goroutine — in the
//     registering function itself or in every function that calls it (wrappers
//     are followed upwards through their callers).

import (
	"fmt"
	"go/ast"
	"go/constant"
	"go/token"
	"go/types"
	"sort"
	"strings"

	"golang.org/x/tools/go/packages"
	"golang.org/x/tools/go/ssa"
)

// ---- shared model ----

type r4aGo struct {
	p       *packages.Package
	fd      *ast.FuncDecl
	gs      *ast.GoStmt
	lit     *ast.FuncLit // goroutine body is a function literal
	callee  *types.Func  // … or a declared function
	reaches bool
	dynamic string // the target cannot be resolved, but may reach a send
	ord     int    // ordinal among the sending goroutines of fd (1-based)
}

type r4aModel struct {
	c  *Ctx
	w  *wtAnchors
	sc *wtSendCounter
	// sreach: the declared functions that may send on the signal channel
	// synchronously, i.e. in their own body or through static calls — not
	// counting what a goroutine they start does (the body / callee of a `go`
	// statement belongs to that goroutine).
	sreach map[*types.Func]bool
	// goOnly: function literals bound to a local that is only ever used as the
	// target of `go` statements (`run := func() {…}; go run()`): their body
	// belongs to the goroutine, not to the enclosing function.
	goOnly map[*ast.FuncLit]bool
	gos    []*r4aGo // the go statements that reach a send, in file / source order
}

var r4aModelCache = map[*Ctx]*r4aModel{}

func r4aNewSendCounter(c *Ctx, w *wtAnchors) *wtSendCounter {
	sc := &wtSendCounter{c: c, w: w, memo: map[*types.Func][2]int{}, active: map[*types.Func]bool{}, accounted: map[*types.Func]bool{}}
	sc.reach = dfReaching(c, func(p *packages.Package, n ast.Node) bool {
		ss, ok := n.(*ast.SendStmt)
		if !ok {
			return false
		}
		sel, ok := ast.Unparen(ss.Chan).(*ast.SelectorExpr)
		return ok && p.TypesInfo.Uses[sel.Sel] == w.sigField
	})
	return sc
}

func (m *r4aModel) isSigSend(info *types.Info, n ast.Node) (*ast.SelectorExpr, bool) {
	ss, ok := n.(*ast.SendStmt)
	if !ok {
		return nil, false
	}
	sel, ok := ast.Unparen(ss.Chan).(*ast.SelectorExpr)
	if !ok || info.Uses[sel.Sel] != m.w.sigField {
		return nil, false
	}
	return sel, true
}

func r4aOrigin(fn *types.Func) *types.Func {
	if fn == nil {
		return nil
	}
	if o := fn.Origin(); o != nil {
		return o
	}
	return fn
}

// nodeReaches: n contains (outside nested `go` statements) a send on the signal
// channel or a call of a module function that synchronously reaches one.
func (m *r4aModel) nodeReaches(info *types.Info, n ast.Node) bool {
	hit := false
	ast.Inspect(n, func(x ast.Node) bool {
		if hit || x == nil {
			return false
		}
		if _, isGo := x.(*ast.GoStmt); isGo && x != n {
			return false
		}
		if lit, isLit := x.(*ast.FuncLit); isLit && m.goOnly[lit] {
			return false
		}
		if _, ok := m.isSigSend(info, x); ok {
			hit = true
		}
		if call, ok := x.(*ast.CallExpr); ok {
			if fn := r4aOrigin(CalleeOf(info, call)); fn != nil && m.sreach[fn] {
				hit = true
			}
		}
		return true
	})
	return hit
}

// findGoOnly: the function literals of fd that are only started as goroutines.
func (m *r4aModel) findGoOnly(info *types.Info, fd *ast.FuncDecl) {
	goTargets := map[*ast.Ident]bool{}
	cands := map[types.Object]bool{}
	ast.Inspect(fd.Body, func(n ast.Node) bool {
		if gs, ok := n.(*ast.GoStmt); ok {
			if id, ok := ast.Unparen(gs.Call.Fun).(*ast.Ident); ok {
				if obj, isVar := info.Uses[id].(*types.Var); isVar && !obj.IsField() {
					goTargets[id] = true
					cands[obj] = true
				}
			}
		}
		return true
	})
	if len(cands) == 0 {
		return
	}
	ast.Inspect(fd.Body, func(n ast.Node) bool {
		if id, ok := n.(*ast.Ident); ok && !goTargets[id] {
			if obj := info.Uses[id]; obj != nil && cands[obj] {
				cands[obj] = false // used in another way too (called, passed on, reassigned)
			}
		}
		return true
	})
	for obj, only := range cands {
		if !only {
			continue
		}
		if def := wtSoleDef(info, fd, obj); def != nil {
			if lit, ok := ast.Unparen(def).(*ast.FuncLit); ok {
				m.goOnly[lit] = true
			}
		}
	}
}

func (m *r4aModel) computeSyncReach() {
	m.sreach = map[*types.Func]bool{}
	m.goOnly = map[*ast.FuncLit]bool{}
	for _, p := range m.c.All {
		for _, fd := range AllFuncDecls(p) {
			m.findGoOnly(p.TypesInfo, fd)
		}
	}
	calls := map[*types.Func][]*types.Func{}
	var order []*types.Func
	for _, p := range m.c.All {
		for _, fd := range AllFuncDecls(p) {
			obj, _ := p.TypesInfo.Defs[fd.Name].(*types.Func)
			if obj == nil {
				continue
			}
			order = append(order, obj)
			ast.Inspect(fd.Body, func(n ast.Node) bool {
				if n == nil {
					return true
				}
				if _, isGo := n.(*ast.GoStmt); isGo {
					return false
				}
				if lit, isLit := n.(*ast.FuncLit); isLit && m.goOnly[lit] {
					return false
				}
				if _, ok := m.isSigSend(p.TypesInfo, n); ok {
					m.sreach[obj] = true
				}
				if call, ok := n.(*ast.CallExpr); ok {
					if fn := r4aOrigin(CalleeOf(p.TypesInfo, call)); fn != nil {
						calls[obj] = append(calls[obj], fn)
					}
				}
				return true
			})
		}
	}
	for changed := true; changed; {
		changed = false
		for _, f := range order {
			if m.sreach[f] {
				continue
			}
			for _, g := range calls[f] {
				if m.sreach[g] {
					m.sreach[f] = true
					changed = true
					break
				}
			}
		}
	}
}

func r4aGetModel(c *Ctx) *r4aModel {
	if m := r4aModelCache[c]; m != nil {
		return m
	}
	w := wtResolve(c)
	m := &r4aModel{c: c, w: w, sc: r4aNewSendCounter(c, w)}
	r4aModelCache[c] = m
	m.computeSyncReach()
	a := determMod(c)
	for _, p := range c.All {
		info := p.TypesInfo
		for _, fd := range AllFuncDecls(p) {
			ord := 0
			ast.Inspect(fd.Body, func(n ast.Node) bool {
				gs, ok := n.(*ast.GoStmt)
				if !ok {
					return true
				}
				g := &r4aGo{p: p, fd: fd, gs: gs}
				switch f := ast.Unparen(gs.Call.Fun).(type) {
				case *ast.FuncLit:
					g.lit = f
				default:
					if fn := r4aOrigin(CalleeOf(info, gs.Call)); fn != nil {
						g.callee = fn
					} else if id, ok := f.(*ast.Ident); ok {
						if obj := moObj(info, id); obj != nil {
							if def := wtSoleDef(info, fd, obj); def != nil {
								if lit, ok := ast.Unparen(def).(*ast.FuncLit); ok {
									g.lit = lit
								}
							}
						}
					}
				}
				switch {
				case g.lit != nil:
					g.reaches = m.nodeReaches(info, g.lit.Body)
				case g.callee != nil:
					g.reaches = m.sreach[g.callee]
				default:
					// a function value: ask the call graph
					for _, cal := range a.sitePos[gs.Go] {
						if o, ok := cal.Object().(*types.Func); ok && m.sreach[r4aOrigin(o)] {
							g.dynamic = "may run " + r4aFnName(cal)
						} else if lit, ok := cal.Syntax().(*ast.FuncLit); ok && cal.Pkg != nil {
							if lp := c.byPath[cal.Pkg.Pkg.Path()]; lp != nil && m.nodeReaches(lp.TypesInfo, lit.Body) {
								g.dynamic = "may run " + r4aFnName(cal)
							}
						}
					}
					g.reaches = g.dynamic != ""
				}
				if g.reaches {
					ord++
					g.ord = ord
					m.gos = append(m.gos, g)
				}
				return true
			})
		}
	}
	return m
}

func (g *r4aGo) name() string {
	s := relPkgShort(g.p.PkgPath) + "." + FuncName(g.fd) + "|goroutine"
	if g.ord > 1 {
		s += fmt.Sprintf(" #%d", g.ord)
	}
	return s
}

// ---- (min, max) sends of a goroutine body, with a witness path ----

type r4aCnt struct {
	n     [2]int
	trail []string
}

type r4aCountRes struct {
	min, max   int
	trailMin   []string
	trailMax   []string
	any        bool
	incomplete string
}

func r4aAdd(n, d [2]int) [2]int { return [2]int{n[0] + d[0], n[1] + d[1]} }

func (m *r4aModel) countBody(info *types.Info, body *ast.BlockStmt, depth int) r4aCountRes {
	sc := m.sc
	res := r4aCountRes{min: 1 << 30}
	// a select statement that neither sends on the signal channel nor calls a sender is skipped safely
	harmless := map[token.Pos]bool{}
	ast.Inspect(body, func(n ast.Node) bool {
		if s, ok := n.(*ast.SelectStmt); ok && !m.nodeReaches(info, s) {
			harmless[s.Pos()] = true
		}
		return true
	})
	var wk *Walker[r4aCnt]
	wk = &Walker[r4aCnt]{
		Clone: func(s r4aCnt) r4aCnt { return r4aCnt{n: s.n, trail: append([]string(nil), s.trail...)} },
		OnStmt: func(st r4aCnt, s ast.Stmt) (r4aCnt, bool) {
			if sc.isSend(info, s) {
				st.n = r4aAdd(st.n, [2]int{1, 1})
			}
			if _, isGo := s.(*ast.GoStmt); isGo {
				return st, true // a nested goroutine has its own obligation
			}
			if es, ok := s.(*ast.ExprStmt); ok {
				if call, ok := es.X.(*ast.CallExpr); ok {
					if lit, ok := ast.Unparen(call.Fun).(*ast.FuncLit); ok {
						if depth >= 3 {
							res.incomplete = "nested function literals"
						} else {
							r := m.countBody(info, lit.Body, depth+1)
							if r.incomplete != "" {
								res.incomplete = r.incomplete
							}
							if r.any {
								st.n = r4aAdd(st.n, [2]int{r.min, r.max})
							}
						}
					}
				}
			}
			st.n = r4aAdd(st.n, sc.callSends(info, s))
			return st, true
		},
		OnCond: func(st r4aCnt, cond ast.Expr, taken bool) (r4aCnt, bool) {
			if tv, ok := info.Types[cond]; ok && tv.Value != nil && tv.Value.Kind() == constant.Bool {
				return st, constant.BoolVal(tv.Value) == taken
			}
			st.trail = append(st.trail, fmt.Sprintf("`%s` is %v", exprStr(cond), taken))
			if call, ok := ast.Unparen(cond).(*ast.CallExpr); ok {
				if fn := r4aOrigin(CalleeOf(info, call)); fn != nil {
					sc.count(fn)
					if pr, ok := sc.byRet[fn]; ok {
						d, feasible := pr[taken]
						if !feasible {
							return st, false
						}
						for _, a := range call.Args {
							d = r4aAdd(d, sc.callSends(info, a))
						}
						st.n = r4aAdd(st.n, d)
						return st, true
					}
				}
			}
			st.n = r4aAdd(st.n, sc.callSends(info, cond))
			return st, true
		},
		OnCase: func(st r4aCnt, sw *ast.SwitchStmt, vals []ast.Expr, others []ast.Expr) (r4aCnt, bool) {
			if vals == nil {
				st.trail = append(st.trail, fmt.Sprintf("switch `%s`: default", exprStr(sw.Tag)))
			} else {
				st.trail = append(st.trail, fmt.Sprintf("switch `%s`: case %s", exprStr(sw.Tag), exprStr(vals[0])))
			}
			return st, true
		},
		OnDefer: func(st r4aCnt, d *ast.DeferStmt) (r4aCnt, bool) { return st, true },
		IsPanic: func(s ast.Stmt) bool { return IsPanicCall(info, s) },
	}
	wk.MaxPaths = 4000
	wk.Exit = func(st r4aCnt, o outcome) {
		if o.kind == cPanic {
			return
		}
		n := st.n
		for _, d := range wk.PendingDefers() {
			if lit, ok := ast.Unparen(d.Call.Fun).(*ast.FuncLit); ok {
				if depth >= 3 {
					res.incomplete = "nested function literals"
					continue
				}
				r := m.countBody(info, lit.Body, depth+1)
				if r.incomplete != "" {
					res.incomplete = r.incomplete
				}
				if r.any {
					n = r4aAdd(n, [2]int{r.min, r.max})
				}
				continue
			}
			n = r4aAdd(n, sc.callSends(info, d.Call))
		}
		how := "end of the body"
		if o.ret != nil {
			how = "return"
		}
		trail := append(append([]string(nil), st.trail...), how)
		if !res.any || n[0] < res.min {
			res.min, res.trailMin = n[0], trail
		}
		if !res.any || n[1] > res.max {
			res.max, res.trailMax = n[1], trail
		}
		res.any = true
	}
	wk.Run(body, r4aCnt{})
	if wk.Overflow {
		res.incomplete = "too many paths"
	}
	for _, u := range wk.Unsupported {
		if !harmless[u] {
			res.incomplete = "goto / fallthrough / select around the sender"
		}
	}
	if sc.incomplete != "" {
		res.incomplete = sc.incomplete
	}
	if !res.any {
		res.min, res.max = 0, 0
	}
	return res
}

func r4aTrail(t []string) string {
	if len(t) == 0 {
		return "straight line"
	}
	return strings.Join(t, " → ")
}

// r4aGoSenders: R-chan-send obligations, one (count) + one (data flow) per sending goroutine.
func r4aGoSenders(c *Ctx) []Obligation {
	m := r4aGetModel(c)
	pr := r4aGetPairing(c)
	sig := m.w.sigField.Name()
	var obs []Obligation
	for _, g := range m.gos {
		info := g.p.TypesInfo
		ob := Obligation{Key: g.name() + "|sends exactly one signal on every path", Pos: c.Pos(g.gs.Pos()), Nontrivial: true}
		switch {
		case g.dynamic != "":
			ob.Status, ob.Detail = Undecided, "the goroutine runs a function value ("+g.dynamic+") that may send on "+sig+": the rule cannot count its sends"
		default:
			body, binfo, what := (*ast.BlockStmt)(nil), info, "the goroutine body"
			if g.lit != nil {
				body = g.lit.Body
			} else if ref := moDeclOf(c, g.callee); ref != nil && ref.fd.Body != nil {
				body, binfo, what = ref.fd.Body, ref.pkg.TypesInfo, fmt.Sprintf("%s (started by `go %s(…)`)", r4aFuncLabel(g.callee), exprStr(g.gs.Call.Fun))
			}
			if body == nil {
				ob.Status, ob.Detail = Undecided, "no body for the function the goroutine runs"
				break
			}
			r := m.countBody(binfo, body, 0)
			switch {
			case r.incomplete != "":
				ob.Status, ob.Detail = Undecided, "paths of "+what+" could not be enumerated: "+r.incomplete
			case !r.any:
				ob.Status, ob.Detail = Undecided, what+" has no non-panicking path"
			case r.min == 1 && r.max == 1:
				ob.Status, ob.Detail = Discharged, fmt.Sprintf("every non-panicking path of %s performs exactly one send on %s (the sender is called unconditionally, once)", what, sig)
			case r.min == 0:
				ob.Status = Violated
				ob.Detail = fmt.Sprintf("a path of %s ends without a send on %s (path: %s): the sender is skipped, but the core has already been put into the live-core list — VM.Wait keeps polling its channel and never returns (no later cancel can reach a core that never runs). Every core that is registered must send its one signal unconditionally.", what, sig, r4aTrail(r.trailMin))
			default:
				ob.Status = Violated
				ob.Detail = fmt.Sprintf("a path of %s performs %d sends on %s (path: %s): Wait consumes one value per core, a further send blocks forever or is taken for the signal of another wait", what, r.max, sig, r4aTrail(r.trailMax))
			}
		}
		obs = append(obs, ob)
		obs = append(obs, pr.linkObligation(g))
	}
	if len(m.gos) == 0 {
		obs = append(obs, Obligation{Key: "runtime|goroutines that send on " + sig, Status: Violated, Pos: c.Pos(m.w.run.Pos()), Detail: "no `go` statement of the module reaches a send on the signal channel: no core is ever started concurrently, a registered core never signals"})
	}
	return obs
}

// ---- registrations: stores into the live-core list, classified on go/ssa ----

const (
	r4aStoreKeep = iota // clear / filter: only elements of the list itself (or none)
	r4aStoreNew         // adds an element that does not come from the list
	r4aStoreUnknown
)

type r4aListStore struct {
	p    *packages.Package
	fd   *ast.FuncDecl
	as   *ast.AssignStmt
	kind int
	why  string
}

type r4aSliceInfo struct{ hasNew, unknown bool }

func (x r4aSliceInfo) join(y r4aSliceInfo) r4aSliceInfo {
	return r4aSliceInfo{x.hasNew || y.hasNew, x.unknown || y.unknown}
}

type r4aListClass struct {
	a    *dmAnalysis
	list *types.Var
	seen map[ssa.Value]bool
	bind map[*ssa.Parameter]ssa.Value // parameters of helpers being looked through → the caller's operand
	call int                          // nesting depth of helper calls
}

// result: what result idx of a module helper is made of (its parameters stand
// for the operands of this call).
func (k *r4aListClass) result(call *ssa.Call, idx int, d int) r4aSliceInfo {
	callee := call.Common().StaticCallee()
	if callee == nil || len(callee.Blocks) == 0 || !dmInModule(callee) || k.call >= 3 {
		return r4aSliceInfo{unknown: true}
	}
	if k.bind == nil {
		k.bind = map[*ssa.Parameter]ssa.Value{}
	}
	for i, p := range callee.Params {
		if arg := dmArgFor(call.Common(), callee, i); arg != nil {
			if _, bound := k.bind[p]; bound {
				return r4aSliceInfo{unknown: true} // recursion
			}
			k.bind[p] = arg
		}
	}
	k.call++
	var r r4aSliceInfo
	n := 0
	for _, b := range callee.Blocks {
		for _, in := range b.Instrs {
			if ret, ok := in.(*ssa.Return); ok && idx < len(ret.Results) {
				n++
				r = r.join(k.slice(ret.Results[idx], d+1))
			}
		}
	}
	k.call--
	for _, p := range callee.Params {
		delete(k.bind, p)
	}
	if n == 0 {
		return r4aSliceInfo{unknown: true}
	}
	return r
}

func (k *r4aListClass) slice(v ssa.Value, d int) r4aSliceInfo {
	v = hcStrip(v)
	if d > 12 {
		return r4aSliceInfo{unknown: true}
	}
	if k.seen[v] {
		return r4aSliceInfo{}
	}
	k.seen[v] = true
	defer delete(k.seen, v)
	switch x := v.(type) {
	case *ssa.Const:
		if x.IsNil() {
			return r4aSliceInfo{}
		}
	case *ssa.MakeSlice:
		return r4aSliceInfo{}
	case *ssa.UnOp:
		if x.Op != token.MUL {
			break
		}
		if fa, ok := x.X.(*ssa.FieldAddr); ok && dmFieldOf(fa.X.Type(), fa.Field) == k.list {
			return r4aSliceInfo{}
		}
		if al, ok := x.X.(*ssa.Alloc); ok {
			var r r4aSliceInfo
			st := k.a.storesTo[al]
			if len(st) == 0 {
				return r4aSliceInfo{} // zero value: nil slice
			}
			for _, s := range st {
				r = r.join(k.slice(s, d+1))
			}
			return r
		}
	case *ssa.Field:
		if dmFieldOf(x.X.Type(), x.Field) == k.list {
			return r4aSliceInfo{}
		}
	case *ssa.Slice:
		if al, ok := x.X.(*ssa.Alloc); ok {
			if _, isArr := al.Type().Underlying().(*types.Pointer).Elem().Underlying().(*types.Array); isArr {
				// variadic arguments / composite literal: the elements stored into the array
				var r r4aSliceInfo
				if refs := al.Referrers(); refs != nil {
					for _, ref := range *refs {
						ia, ok := ref.(*ssa.IndexAddr)
						if !ok {
							continue
						}
						if irefs := ia.Referrers(); irefs != nil {
							for _, ir := range *irefs {
								if st, ok := ir.(*ssa.Store); ok && st.Addr == ssa.Value(ia) {
									r = r.join(k.elem(st.Val, d+1))
								}
							}
						}
					}
				}
				return r
			}
		}
		return k.slice(x.X, d+1)
	case *ssa.Phi:
		var r r4aSliceInfo
		for _, e := range x.Edges {
			r = r.join(k.slice(e, d+1))
		}
		return r
	case *ssa.Call:
		if b, ok := x.Common().Value.(*ssa.Builtin); ok && b.Name() == "append" && len(x.Common().Args) == 2 {
			return k.slice(x.Common().Args[0], d+1).join(k.slice(x.Common().Args[1], d+1))
		}
		if callee := x.Common().StaticCallee(); callee != nil {
			// the slice helpers of the standard library
			fn := callee
			if o := fn.Origin(); o != nil {
				fn = o
			}
			if obj := fn.Object(); obj != nil && obj.Pkg() != nil && obj.Pkg().Path() == "slices" && len(x.Common().Args) > 0 {
				args := x.Common().Args
				switch obj.Name() {
				case "Clone", "Clip", "Grow", "Delete", "DeleteFunc", "Compact", "CompactFunc":
					return k.slice(args[0], d+1) // a subset / copy of the argument
				case "Insert":
					if len(args) == 3 {
						return k.slice(args[0], d+1).join(k.slice(args[2], d+1))
					}
				case "Concat":
					if len(args) == 1 {
						// Concat(lists ...S): the variadic slice of slices
						return r4aSliceInfo{unknown: true}
					}
				}
			}
		}
		if x.Common().Signature().Results().Len() == 1 {
			return k.result(x, 0, d)
		}
	case *ssa.Extract:
		if call, ok := x.Tuple.(*ssa.Call); ok {
			return k.result(call, x.Index, d)
		}
	case *ssa.Parameter:
		if arg, ok := k.bind[x]; ok {
			return k.slice(arg, d+1)
		}
	}
	return r4aSliceInfo{unknown: true}
}

// elem: a value of the element type — does it come from the list itself?
func (k *r4aListClass) elem(v ssa.Value, d int) r4aSliceInfo {
	v = hcStrip(v)
	switch x := v.(type) {
	case *ssa.UnOp:
		if ia, ok := x.X.(*ssa.IndexAddr); ok && x.Op == token.MUL {
			r := k.slice(ia.X, d+1)
			return r
		}
		if al, ok := x.X.(*ssa.Alloc); ok && x.Op == token.MUL {
			// a loop variable / local copy that lives in a cell: look at what is stored into it
			st := k.a.storesTo[al]
			if len(st) > 0 {
				var r r4aSliceInfo
				for _, s := range st {
					r = r.join(k.elem(s, d+1))
				}
				return r
			}
		}
	case *ssa.Index:
		return k.slice(x.X, d+1)
	case *ssa.Phi:
		if d > 12 || k.seen[v] {
			return r4aSliceInfo{}
		}
		k.seen[v] = true
		defer delete(k.seen, v)
		var r r4aSliceInfo
		for _, e := range x.Edges {
			r = r.join(k.elem(e, d+1))
		}
		return r
	}
	return r4aSliceInfo{hasNew: true}
}

func r4aAllSSAFuncs(fn *ssa.Function, out *[]*ssa.Function) {
	if fn == nil {
		return
	}
	*out = append(*out, fn)
	for _, an := range fn.AnonFuncs {
		r4aAllSSAFuncs(an, out)
	}
}

func r4aListStores(c *Ctx, w *wtAnchors) []*r4aListStore {
	a := determMod(c)
	var out []*r4aListStore
	for _, p := range c.All {
		info := p.TypesInfo
		for _, fd := range AllFuncDecls(p) {
			var sfs []*ssa.Function
			ast.Inspect(fd.Body, func(n ast.Node) bool {
				as, ok := n.(*ast.AssignStmt)
				if !ok {
					return true
				}
				for _, lh := range as.Lhs {
					lh = ast.Unparen(lh)
					if ix, ok := lh.(*ast.IndexExpr); ok {
						if sel, ok := ast.Unparen(ix.X).(*ast.SelectorExpr); ok && info.Uses[sel.Sel] == w.coreList {
							out = append(out, &r4aListStore{p: p, fd: fd, as: as, kind: r4aStoreUnknown, why: "an element of the list is overwritten in place"})
						}
						continue
					}
					sel, ok := lh.(*ast.SelectorExpr)
					if !ok || info.Uses[sel.Sel] != w.coreList {
						continue
					}
					if sfs == nil {
						if obj, _ := info.Defs[fd.Name].(*types.Func); obj != nil {
							r4aAllSSAFuncs(a.prog.FuncValue(obj), &sfs)
						}
					}
					ls := &r4aListStore{p: p, fd: fd, as: as, kind: r4aStoreUnknown, why: "no SSA store found for the assignment"}
					for _, sf := range sfs {
						for _, b := range sf.Blocks {
							for _, in := range b.Instrs {
								st, ok := in.(*ssa.Store)
								if !ok || st.Pos() != sel.Sel.Pos() && st.Pos() != as.TokPos {
									continue
								}
								fa, ok := st.Addr.(*ssa.FieldAddr)
								if !ok || dmFieldOf(fa.X.Type(), fa.Field) != w.coreList {
									continue
								}
								k := &r4aListClass{a: a, list: w.coreList, seen: map[ssa.Value]bool{}}
								r := k.slice(st.Val, 0)
								switch {
								case r.unknown:
									ls.kind, ls.why = r4aStoreUnknown, "the stored slice is built in a way the rule does not follow"
								case r.hasNew:
									ls.kind, ls.why = r4aStoreNew, ""
								default:
									ls.kind, ls.why = r4aStoreKeep, ""
								}
							}
						}
					}
					out = append(out, ls)
				}
				return true
			})
		}
	}
	return out
}

// ---- pairing: registration ↔ start of the sending goroutine ----

type r4aPend struct {
	reg, start int
	unknown    string
	trail      []string
}

type r4aSum struct {
	vals     map[int][]string // reg-start at a non-panicking exit → a witness path
	unknown  string
	hasReg   bool
	hasStart bool
}

func (s *r4aSum) uniform() (int, bool) {
	if s.unknown != "" || len(s.vals) != 1 {
		return 0, false
	}
	for v := range s.vals {
		return v, true
	}
	return 0, false
}

type r4aPairing struct {
	c        *Ctx
	m        *r4aModel
	stores   []*r4aListStore
	regStmts map[*ast.AssignStmt]bool
	regObjs  map[types.Object]string // locals that are appended to the list by a registration → the registering function
	starters map[*ast.GoStmt]*r4aGo
	zreach   map[*types.Func]bool
	sums     map[*types.Func]*r4aSum
	active   map[*types.Func]bool
	callers  map[*types.Func][]*types.Func
}

var r4aPairingCache = map[*Ctx]*r4aPairing{}

func r4aGetPairing(c *Ctx) *r4aPairing {
	if p := r4aPairingCache[c]; p != nil {
		return p
	}
	m := r4aGetModel(c)
	pr := &r4aPairing{c: c, m: m, regStmts: map[*ast.AssignStmt]bool{}, starters: map[*ast.GoStmt]*r4aGo{}, sums: map[*types.Func]*r4aSum{}, active: map[*types.Func]bool{}, callers: map[*types.Func][]*types.Func{}}
	r4aPairingCache[c] = pr
	pr.stores = r4aListStores(c, m.w)
	pr.regObjs = map[types.Object]string{}
	for _, s := range pr.stores {
		if s.kind == r4aStoreNew {
			pr.regStmts[s.as] = true
			// the variables whose value the statement puts into the list
			for _, rh := range s.as.Rhs {
				ast.Inspect(rh, func(n ast.Node) bool {
					call, ok := n.(*ast.CallExpr)
					if !ok {
						return true
					}
					if id, ok := ast.Unparen(call.Fun).(*ast.Ident); !ok || id.Name != "append" {
						return true
					} else if _, isB := s.p.TypesInfo.Uses[id].(*types.Builtin); !isB {
						return true
					}
					for _, a := range call.Args[1:] {
						for {
							switch x := a.(type) {
							case *ast.ParenExpr:
								a = x.X
								continue
							case *ast.StarExpr:
								a = x.X
								continue
							}
							break
						}
						if id, ok := a.(*ast.Ident); ok {
							if obj := moObj(s.p.TypesInfo, id); obj != nil {
								pr.regObjs[obj] = relPkgShort(s.p.PkgPath) + "." + FuncName(s.fd)
							}
						}
					}
					return true
				})
			}
		}
	}
	for _, g := range m.gos {
		pr.starters[g.gs] = g
	}
	pr.zreach = dfReaching(c, func(p *packages.Package, n ast.Node) bool {
		switch x := n.(type) {
		case *ast.AssignStmt:
			return pr.regStmts[x]
		case *ast.GoStmt:
			return pr.starters[x] != nil
		}
		return false
	})
	seen := map[[2]*types.Func]bool{}
	for _, p := range c.All {
		for _, fd := range AllFuncDecls(p) {
			caller, _ := p.TypesInfo.Defs[fd.Name].(*types.Func)
			if caller == nil {
				continue
			}
			ast.Inspect(fd.Body, func(n ast.Node) bool {
				if call, ok := n.(*ast.CallExpr); ok {
					if fn := r4aOrigin(CalleeOf(p.TypesInfo, call)); fn != nil && pr.zreach[fn] && !seen[[2]*types.Func{fn, caller}] {
						seen[[2]*types.Func{fn, caller}] = true
						pr.callers[fn] = append(pr.callers[fn], caller)
					}
				}
				return true
			})
		}
	}
	for k := range pr.callers {
		cs := pr.callers[k]
		sort.Slice(cs, func(i, j int) bool { return cs[i].FullName() < cs[j].FullName() })
	}
	return pr
}

func r4aFuncLabel(fn *types.Func) string {
	name := fn.Name()
	if sig, ok := fn.Type().(*types.Signature); ok && sig.Recv() != nil {
		name = dfOwnerName(sig.Recv().Type()) + "." + name
	}
	if fn.Pkg() != nil {
		return relPkgShort(fn.Pkg().Path()) + "." + name
	}
	return name
}

// summary: reg - start over the non-panicking paths of fn.
func (pr *r4aPairing) summary(fn *types.Func) *r4aSum {
	if s, ok := pr.sums[fn]; ok {
		return s
	}
	s := &r4aSum{vals: map[int][]string{}}
	ref := moDeclOf(pr.c, fn)
	if ref == nil || ref.fd.Body == nil || pr.active[fn] {
		s.vals[0] = nil
		return s
	}
	pr.active[fn] = true
	defer delete(pr.active, fn)
	info := ref.pkg.TypesInfo
	// events inside function literals (other than the body of a counted goroutine) are not followed
	ast.Inspect(ref.fd.Body, func(n ast.Node) bool {
		lit, ok := n.(*ast.FuncLit)
		if !ok {
			return true
		}
		ast.Inspect(lit.Body, func(x ast.Node) bool {
			switch y := x.(type) {
			case *ast.AssignStmt:
				if pr.regStmts[y] {
					s.unknown = "a registration inside a function literal of " + r4aFuncLabel(fn)
				}
			case *ast.GoStmt:
				if pr.starters[y] != nil {
					s.unknown = "a sending goroutine started inside a function literal of " + r4aFuncLabel(fn)
				}
			case *ast.CallExpr:
				if g := r4aOrigin(CalleeOf(info, y)); g != nil && pr.zreach[g] && g != fn {
					if v, ok := pr.summary(g).uniform(); !ok || v != 0 {
						s.unknown = "a call of " + r4aFuncLabel(g) + " (registers / starts a core) inside a function literal of " + r4aFuncLabel(fn)
					}
				}
			}
			return true
		})
		return false
	})
	calls := func(st r4aPend, n ast.Node) r4aPend {
		if n == nil {
			return st
		}
		ast.Inspect(n, func(x ast.Node) bool {
			switch y := x.(type) {
			case *ast.FuncLit:
				return false
			case *ast.CallExpr:
				g := r4aOrigin(CalleeOf(info, y))
				if g == nil {
					return true
				}
				if pr.zreach[g] {
					gs := pr.summary(g)
					v, ok := gs.uniform()
					switch {
					case !ok && gs.unknown != "":
						st.unknown = gs.unknown
					case !ok:
						st.unknown = r4aFuncLabel(g) + " registers / starts a core on some of its paths only"
					case v > 0:
						st.reg += v
						st.trail = append(st.trail, fmt.Sprintf("%s() registers a core", g.Name()))
					case v < 0:
						st.start += -v
						st.trail = append(st.trail, fmt.Sprintf("%s() starts the sender", g.Name()))
					}
				}
			}
			return true
		})
		return st
	}
	wk := &Walker[r4aPend]{
		Clone: func(s r4aPend) r4aPend { s.trail = append([]string(nil), s.trail...); return s },
		OnStmt: func(st r4aPend, s ast.Stmt) (r4aPend, bool) {
			switch x := s.(type) {
			case *ast.AssignStmt:
				if pr.regStmts[x] {
					st.reg++
					st.trail = append(st.trail, "registration")
				}
			case *ast.GoStmt:
				if pr.starters[x] != nil {
					st.start++
					st.trail = append(st.trail, "go (sender started)")
				}
				for _, a := range x.Call.Args {
					st = calls(st, a)
				}
				return st, true
			}
			return calls(st, s), true
		},
		OnCond: func(st r4aPend, cond ast.Expr, taken bool) (r4aPend, bool) {
			if tv, ok := info.Types[cond]; ok && tv.Value != nil && tv.Value.Kind() == constant.Bool {
				return st, constant.BoolVal(tv.Value) == taken
			}
			st.trail = append(st.trail, fmt.Sprintf("`%s` is %v", exprStr(cond), taken))
			return calls(st, cond), true
		},
		OnCase: func(st r4aPend, sw *ast.SwitchStmt, vals []ast.Expr, others []ast.Expr) (r4aPend, bool) {
			return st, true
		},
		OnDefer: func(st r4aPend, d *ast.DeferStmt) (r4aPend, bool) { return calls(st, d.Call), true },
		IsPanic: func(s ast.Stmt) bool { return IsPanicCall(info, s) },
	}
	wk.MaxPaths = 6000
	wk.Exit = func(st r4aPend, o outcome) {
		if o.kind == cPanic {
			return
		}
		if st.unknown != "" && s.unknown == "" {
			s.unknown = st.unknown
		}
		if st.reg > 0 {
			s.hasReg = true
		}
		if st.start > 0 {
			s.hasStart = true
		}
		v := st.reg - st.start
		if _, ok := s.vals[v]; !ok {
			how := "end of the function"
			if o.ret != nil {
				how = "return at " + pr.c.Pos(o.ret.Pos())
			}
			s.vals[v] = append(append([]string(nil), st.trail...), how)
		}
	}
	wk.Run(ref.fd.Body, r4aPend{})
	if wk.Overflow && s.unknown == "" {
		s.unknown = "too many paths in " + r4aFuncLabel(fn)
	}
	if len(s.vals) == 0 {
		s.vals[0] = nil // no non-panicking path
	}
	pr.sums[fn] = s
	return s
}

// check: does every path through fn (and, for wrappers, through its callers)
// pair the registration with one started sender?
func (pr *r4aPairing) check(fn *types.Func, depth int, chain []string) (st Status, detail string) {
	s := pr.summary(fn)
	label := r4aFuncLabel(fn)
	chain = append(append([]string(nil), chain...), label)
	if s.unknown != "" {
		return Undecided, s.unknown
	}
	var vs []int
	for v := range s.vals {
		vs = append(vs, v)
	}
	sort.Ints(vs)
	if len(vs) == 1 && vs[0] == 0 {
		return Discharged, fmt.Sprintf("%s starts exactly one sending goroutine on every non-panicking path that registers a core", label)
	}
	if len(vs) > 1 || vs[0] < 0 || vs[0] > 1 {
		var parts []string
		for _, v := range vs {
			switch {
			case v > 0:
				parts = append(parts, fmt.Sprintf("path [%s] registers a core but starts no goroutine that runs its sender", r4aTrail(s.vals[v])))
			case v < 0:
				parts = append(parts, fmt.Sprintf("path [%s] starts more senders than cores were registered", r4aTrail(s.vals[v])))
			}
		}
		if !s.hasStart && len(vs) == 2 && vs[0] == 0 && vs[1] == 1 {
			return Undecided, fmt.Sprintf("%s registers a core on some paths only and starts no sender itself: the rule cannot pair the registration with a start in its callers", label)
		}
		return Violated, fmt.Sprintf("in %s: %s. A core that is in the live-core list but never sends makes VM.Wait poll forever.", label, strings.Join(parts, "; "))
	}
	// a pure registrar (every path registers one core, none starts it): its callers have to start it
	cs := pr.callers[fn]
	if len(cs) == 0 {
		return Violated, fmt.Sprintf("%s registers a core and returns without starting its sender, and no function of the module calls it and does (chain: %s)", label, strings.Join(chain, " ← "))
	}
	if depth >= 3 {
		return Violated, fmt.Sprintf("no goroutine running the sender is started within 3 call levels above the registration (chain: %s)", strings.Join(chain, " ← "))
	}
	var okBy []string
	for _, caller := range cs {
		cst, cd := pr.check(caller, depth+1, chain)
		if cst != Discharged {
			return cst, cd
		}
		okBy = append(okBy, cd)
	}
	return Discharged, fmt.Sprintf("%s only registers; %s", label, strings.Join(okBy, "; "))
}

func (pr *r4aPairing) listName() string {
	w := pr.m.w
	// owner type of the list field
	for _, p := range pr.c.All {
		sc := p.Types.Scope()
		for _, n := range sc.Names() {
			tn, ok := sc.Lookup(n).(*types.TypeName)
			if !ok {
				continue
			}
			if st, ok := tn.Type().Underlying().(*types.Struct); ok {
				for i := 0; i < st.NumFields(); i++ {
					if st.Field(i) == w.coreList {
						return tn.Name() + "." + w.coreList.Name()
					}
				}
			}
		}
	}
	return w.coreList.Name()
}

// r4aRegistrations: the R-wait obligations, one per registration site.
func r4aRegistrations(c *Ctx) []Obligation {
	pr := r4aGetPairing(c)
	list := pr.listName()
	var obs []Obligation
	perFn := map[string]int{}
	nReg := 0
	for _, s := range pr.stores {
		fnObj, _ := s.p.TypesInfo.Defs[s.fd.Name].(*types.Func)
		base := relPkgShort(s.p.PkgPath) + "." + FuncName(s.fd)
		switch s.kind {
		case r4aStoreKeep:
			continue
		case r4aStoreUnknown:
			perFn[base+"?"]++
			k := fmt.Sprintf("%s|store into %s|registration or not", base, list)
			if perFn[base+"?"] > 1 {
				k += fmt.Sprintf(" #%d", perFn[base+"?"])
			}
			obs = append(obs, Obligation{Key: k, Pos: c.Pos(s.as.Pos()), Status: Undecided, Detail: "cannot decide whether this store adds a new core to the list that Wait polls: " + s.why})
			continue
		}
		nReg++
		perFn[base]++
		key := fmt.Sprintf("%s|registers a core in %s|its sender goroutine is started exactly once on every path", base, list)
		if perFn[base] > 1 {
			key += fmt.Sprintf(" #%d", perFn[base])
		}
		ob := Obligation{Key: key, Pos: c.Pos(s.as.Pos()), Nontrivial: true}
		if fnObj == nil {
			ob.Status, ob.Detail = Undecided, "no function object for the registering function"
		} else {
			ob.Status, ob.Detail = pr.check(fnObj, 0, nil)
		}
		obs = append(obs, ob)
	}
	if nReg == 0 {
		obs = append(obs, Obligation{Key: "runtime|registrations in " + list, Status: Undecided, Pos: c.Pos(pr.m.w.wait.Pos()), Detail: "no store of the module adds a new element to the list that VM.Wait polls: the anchor of the rule moved"})
	}
	return obs
}

// ---- data flow: the started sender belongs to the registered core ----

type r4aOwner struct {
	param int    // >= 0: the receiver (0) / parameter of the enclosing declared function
	reg   string // result of this registering function
	other string // something else
	unk   string // cannot resolve
}

type r4aRCtx struct {
	info    *types.Info
	fd      *ast.FuncDecl
	lit     *ast.FuncLit // the goroutine literal being examined (its parameters are bound to litArgs)
	litArgs []ast.Expr
}

func r4aParamObjs(info *types.Info, recv *ast.FieldList, params *ast.FieldList) []types.Object {
	var out []types.Object
	add := func(fl *ast.FieldList, isRecv bool) {
		if fl == nil {
			return
		}
		for _, f := range fl.List {
			if len(f.Names) == 0 {
				out = append(out, nil)
				continue
			}
			for _, id := range f.Names {
				out = append(out, info.Defs[id])
			}
		}
	}
	if recv != nil {
		add(recv, true)
	}
	add(params, false)
	return out
}

func (pr *r4aPairing) isRegistrar(fn *types.Func) bool {
	if fn == nil || !pr.zreach[fn] {
		return false
	}
	v, ok := pr.summary(fn).uniform()
	return ok && v > 0
}

func (pr *r4aPairing) resolve(cx r4aRCtx, e ast.Expr, depth int) r4aOwner {
	if depth > 6 {
		return r4aOwner{param: -1, unk: "definition chain too long"}
	}
	for {
		switch x := e.(type) {
		case *ast.ParenExpr:
			e = x.X
			continue
		case *ast.StarExpr:
			e = x.X
			continue
		case *ast.UnaryExpr:
			if x.Op == token.AND {
				e = x.X
				continue
			}
		}
		break
	}
	switch x := e.(type) {
	case *ast.Ident:
		obj := moObj(cx.info, x)
		if obj == nil {
			return r4aOwner{param: -1, unk: "unresolved identifier " + x.Name}
		}
		if cx.lit != nil {
			for i, po := range r4aParamObjs(cx.info, nil, cx.lit.Type.Params) {
				if po != nil && po == obj {
					if i < len(cx.litArgs) {
						return pr.resolve(r4aRCtx{info: cx.info, fd: cx.fd}, cx.litArgs[i], depth+1)
					}
					return r4aOwner{param: -1, unk: "unbound parameter of the goroutine literal"}
				}
			}
		}
		for i, po := range r4aParamObjs(cx.info, cx.fd.Recv, cx.fd.Type.Params) {
			if po != nil && po == obj {
				return r4aOwner{param: i}
			}
		}
		if by := pr.regObjs[obj]; by != "" {
			return r4aOwner{param: -1, reg: "the registration in " + by}
		}
		if obj.Pos() >= cx.fd.Pos() && obj.Pos() <= cx.fd.End() {
			if def := wtSoleDef(cx.info, cx.fd, obj); def != nil {
				return pr.resolve(cx, def, depth+1)
			}
			return r4aOwner{param: -1, unk: "local `" + x.Name + "` has no single definition"}
		}
		return r4aOwner{param: -1, other: "the package-level variable " + x.Name}
	case *ast.CallExpr:
		if tv, ok := cx.info.Types[x.Fun]; ok && tv.IsType() && len(x.Args) == 1 {
			return pr.resolve(cx, x.Args[0], depth+1)
		}
		if g := r4aOrigin(CalleeOf(cx.info, x)); g != nil {
			if pr.isRegistrar(g) {
				return r4aOwner{param: -1, reg: r4aFuncLabel(g) + "()"}
			}
			return r4aOwner{param: -1, other: "the result of " + r4aFuncLabel(g) + "(), which does not register a core"}
		}
		return r4aOwner{param: -1, unk: "result of a dynamic call"}
	}
	return r4aOwner{param: -1, other: "`" + exprStr(e) + "`"}
}

// argOf: the expression bound to parameter idx (receiver = 0 for methods) at call.
func r4aArgOf(call *ast.CallExpr, g *types.Func, idx int) ast.Expr {
	sig, _ := g.Type().(*types.Signature)
	if sig != nil && sig.Recv() != nil {
		if idx == 0 {
			if sel, ok := ast.Unparen(call.Fun).(*ast.SelectorExpr); ok {
				return sel.X
			}
			return nil
		}
		idx--
	}
	if idx < len(call.Args) {
		return call.Args[idx]
	}
	return nil
}

// owners: whose signal channel is sent on by the code in body (sends and calls of senders).
func (pr *r4aPairing) owners(cx r4aRCtx, body ast.Node, depth int, active map[*types.Func]bool) []r4aOwner {
	var out []r4aOwner
	m := pr.m
	ast.Inspect(body, func(n ast.Node) bool {
		if n == nil {
			return true
		}
		if sel, ok := m.isSigSend(cx.info, n); ok {
			out = append(out, pr.resolve(cx, sel.X, 0))
			return true
		}
		call, ok := n.(*ast.CallExpr)
		if !ok {
			return true
		}
		g := r4aOrigin(CalleeOf(cx.info, call))
		if g == nil || !m.sreach[g] || active[g] {
			return true
		}
		if depth > 4 {
			out = append(out, r4aOwner{param: -1, unk: "call chain to the send too deep"})
			return true
		}
		ref := moDeclOf(pr.c, g)
		if ref == nil || ref.fd.Body == nil {
			return true
		}
		active[g] = true
		inner := pr.owners(r4aRCtx{info: ref.pkg.TypesInfo, fd: ref.fd}, ref.fd.Body, depth+1, active)
		delete(active, g)
		for _, o := range inner {
			if o.param >= 0 {
				arg := r4aArgOf(call, g, o.param)
				if arg == nil {
					out = append(out, r4aOwner{param: -1, unk: "cannot bind the core argument of " + g.Name()})
				} else {
					out = append(out, pr.resolve(cx, arg, 0))
				}
			} else {
				out = append(out, o)
			}
		}
		return true
	})
	return out
}

func (pr *r4aPairing) linkObligation(g *r4aGo) Obligation {
	c := pr.c
	ob := Obligation{Key: g.name() + "|runs the sender of the core registered on the same path", Pos: c.Pos(g.gs.Pos()), Nontrivial: true}
	if g.dynamic != "" {
		ob.Status, ob.Detail = Undecided, "the goroutine runs a function value"
		return ob
	}
	info := g.p.TypesInfo
	var os []r4aOwner
	if g.lit != nil {
		cx := r4aRCtx{info: info, fd: g.fd}
		if ast.Unparen(g.gs.Call.Fun) == ast.Expr(g.lit) {
			cx.lit, cx.litArgs = g.lit, g.gs.Call.Args
		} else {
			cx.lit = g.lit // started through a local: parameters stay unbound
		}
		os = pr.owners(cx, g.lit.Body, 0, map[*types.Func]bool{})
	} else {
		// `go f(args)`: examine the call expression itself in the context of the enclosing function
		os = pr.owners(r4aRCtx{info: info, fd: g.fd}, g.gs.Call, 0, map[*types.Func]bool{})
	}
	if len(os) == 0 {
		ob.Status, ob.Detail = Undecided, "found no send / sender call inside the goroutine to trace"
		return ob
	}
	fnObj, _ := info.Defs[g.fd.Name].(*types.Func)
	regs := map[string]bool{}
	var bad, unk []string
	for _, o := range os {
		switch {
		case o.reg != "":
			regs[o.reg] = true
		case o.param >= 0:
			// the enclosing function is handed the core: every caller must pass a registered one
			st, d := pr.callerPasses(fnObj, o.param, 0)
			switch st {
			case Discharged:
				regs[d] = true
			case Violated:
				bad = append(bad, d)
			default:
				unk = append(unk, d)
			}
		case o.other != "":
			bad = append(bad, o.other)
		default:
			unk = append(unk, o.unk)
		}
	}
	bad, unk = r4aDedup(bad), r4aDedup(unk)
	switch {
	case len(bad) > 0:
		ob.Status = Violated
		ob.Detail = fmt.Sprintf("the goroutine sends on the %s of %s, not of the core that was just registered: the registered core never signals (VM.Wait hangs), and another core signals twice", pr.m.w.sigField.Name(), strings.Join(bad, ", "))
	case len(unk) > 0:
		ob.Status, ob.Detail = Undecided, "cannot trace the core whose sender the goroutine runs: "+strings.Join(unk, ", ")
	default:
		var rs []string
		for k := range regs {
			rs = append(rs, k)
		}
		sort.Strings(rs)
		ob.Status, ob.Detail = Discharged, fmt.Sprintf("the receiver of every send reached from the goroutine is the core registered by %s", strings.Join(rs, ", "))
	}
	return ob
}

// callerPasses: every call of fn passes, as parameter idx, the result of a registrar.
func (pr *r4aPairing) callerPasses(fn *types.Func, idx int, depth int) (Status, string) {
	if fn == nil || depth > 2 {
		return Undecided, "the core is handed down through too many call levels"
	}
	var regs []string
	n := 0
	var st Status = Discharged
	detail := ""
	for _, p := range pr.c.All {
		for _, fd := range AllFuncDecls(p) {
			caller, _ := p.TypesInfo.Defs[fd.Name].(*types.Func)
			ast.Inspect(fd.Body, func(x ast.Node) bool {
				call, ok := x.(*ast.CallExpr)
				if !ok || st != Discharged || r4aOrigin(CalleeOf(p.TypesInfo, call)) != fn {
					return true
				}
				n++
				arg := r4aArgOf(call, fn, idx)
				if arg == nil {
					st, detail = Undecided, "cannot bind the core argument at a call of "+fn.Name()
					return true
				}
				o := pr.resolve(r4aRCtx{info: p.TypesInfo, fd: fd}, arg, 0)
				switch {
				case o.reg != "":
					regs = append(regs, o.reg)
				case o.param >= 0:
					cst, cd := pr.callerPasses(caller, o.param, depth+1)
					if cst != Discharged {
						st, detail = cst, cd
					} else {
						regs = append(regs, cd)
					}
				case o.other != "":
					st, detail = Violated, o.other+" (passed by "+r4aFuncLabel(caller)+")"
				default:
					st, detail = Undecided, o.unk
				}
				return true
			})
		}
	}
	if st != Discharged {
		return st, detail
	}
	if n == 0 {
		return Undecided, "no call of " + r4aFuncLabel(fn) + " found"
	}
	sort.Strings(regs)
	return Discharged, regs[0]
}

func r4aDedup(xs []string) []string {
	sort.Strings(xs)
	var out []string
	for i, x := range xs {
		if i == 0 || x != xs[i-1] {
			out = append(out, x)
		}
	}
	return out
}
