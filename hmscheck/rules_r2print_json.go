package main

// r2print: R-json-list-length — marshalling a list to JSON keeps one output
// element per input element, except for elements whose marshaller says "skip".

import (
	"fmt"
	"go/ast"
	"go/token"
	"go/types"
	"strings"

	"golang.org/x/tools/go/packages"
)

func init() {
	register(&Rule{ID: "R-json-list-length", Floor: 4, Run: ruleR2pJSONList,
		Doc: "The JSON marshallers of the two value libraries (found by role: a self-recursive function from the library's value interface to (interface{}, bool, …) whose bool result is the `skip this value` signal) marshal a list " +
			"in a loop over its elements. For every such loop over a slice and every path through one iteration that goes on to the next element: the element's marshalled payload has been appended to the output, unless the path took " +
			"the recursive call's skip result as true (or returned/aborted). In particular the payload itself (nil = JSON null = `none`/`null`) and the element must not decide the append. " +
			"Necessary: `[?1, none, ?3].to_json()` must give `[1,null,3]`; dropping an element shifts every later index, so parsing the text back under the list's type yields a different value (C13). " +
			"Both twins are checked on their own, so an identical change in both is still seen (twin comparison is blind to it)."})
}

type r2pJSONState struct {
	appended bool
	skipTrue bool
	trace    []string
}

func ruleR2pJSONList(c *Ctx) []Obligation {
	var obs []Obligation
	found := 0
	for _, rel := range []string{"homescript/runtime/value", "homescript/interpreter/value"} {
		if !c.HasPkg(rel) {
			continue
		}
		p := c.Pkg(rel)
		for _, fd := range AllFuncDecls(p) {
			if fd.Recv != nil || !r2pIsMarshaller(p, fd) {
				continue
			}
			found++
			obs = append(obs, r2pJSONLoops(c, p, fd)...)
		}
	}
	if found < 2 {
		obs = append(obs, Obligation{Key: "<anchor>|marshallers", Status: Undecided,
			Detail: fmt.Sprintf("expected a JSON marshaller (Value -> (interface{}, bool, …), self-recursive) in both value libraries, found %d", found)})
	}
	return obs
}

// r2pIsMarshaller: func(v <value interface of this package>, …) (interface{}, bool, …) that calls itself.
func r2pIsMarshaller(p *packages.Package, fd *ast.FuncDecl) bool {
	fn, _ := p.TypesInfo.Defs[fd.Name].(*types.Func)
	if fn == nil {
		return false
	}
	sg := fn.Type().(*types.Signature)
	if sg.Results().Len() < 2 || sg.Params().Len() < 1 {
		return false
	}
	r0, ok := types.Unalias(sg.Results().At(0).Type()).Underlying().(*types.Interface)
	if !ok || !r0.Empty() {
		return false
	}
	if b, ok := types.Unalias(sg.Results().At(1).Type()).Underlying().(*types.Basic); !ok || b.Kind() != types.Bool {
		return false
	}
	hasValue := false
	for i := 0; i < sg.Params().Len(); i++ {
		if n, ok := types.Unalias(sg.Params().At(i).Type()).(*types.Named); ok && n.Obj().Pkg() == p.Types {
			if it, ok := n.Underlying().(*types.Interface); ok && !it.Empty() {
				hasValue = true
			}
		}
	}
	if !hasValue {
		return false
	}
	rec := false
	ast.Inspect(fd.Body, func(n ast.Node) bool {
		if call, ok := n.(*ast.CallExpr); ok && CalleeOf(p.TypesInfo, call) == fn {
			rec = true
		}
		return !rec
	})
	return rec
}

func r2pJSONLoops(c *Ctx, p *packages.Package, fd *ast.FuncDecl) []Obligation {
	info := p.TypesInfo
	fn := info.Defs[fd.Name].(*types.Func)
	var obs []Obligation
	nloops := 0
	// clause label of a loop: the enclosing type-switch case
	var visit func(n ast.Node, label string)
	visit = func(n ast.Node, label string) {
		ast.Inspect(n, func(x ast.Node) bool {
			switch y := x.(type) {
			case *ast.CaseClause:
				lbl := "default"
				if y.List != nil {
					var ks []string
					for _, e := range y.List {
						ks = append(ks, exprStr(e))
					}
					lbl = strings.Join(ks, ",")
				}
				for _, s := range y.Body {
					visit(s, lbl)
				}
				return false
			case *ast.ForStmt, *ast.RangeStmt:
				// `for _, v := range xs` or the counting form `for i := 0; i < len(xs); i++`
				var lp struct {
					X    ast.Expr
					Body *ast.BlockStmt
				}
				switch l := x.(type) {
				case *ast.RangeStmt:
					lp.X, lp.Body = l.X, l.Body
				case *ast.ForStmt:
					lx := r2pCountingLoop(l)
					if lx == nil {
						return true
					}
					lp.X, lp.Body = lx, l.Body
				}
				t := types.Unalias(info.TypeOf(lp.X)).Underlying()
				if _, isSlice := t.(*types.Slice); !isSlice {
					if _, isArr := t.(*types.Array); !isArr {
						return true
					}
				}
				// the recursive call in the body: payload, skip[, err] := f(elem…)
				var payload, skip types.Object
				ast.Inspect(lp.Body, func(z ast.Node) bool {
					as, ok := z.(*ast.AssignStmt)
					if !ok || len(as.Rhs) != 1 || len(as.Lhs) < 2 {
						return true
					}
					call, ok := ast.Unparen(as.Rhs[0]).(*ast.CallExpr)
					if !ok || CalleeOf(info, call) != fn {
						return true
					}
					if id, ok := as.Lhs[0].(*ast.Ident); ok {
						payload = info.Defs[id]
						if payload == nil {
							payload = info.Uses[id]
						}
					}
					if id, ok := as.Lhs[1].(*ast.Ident); ok {
						skip = info.Defs[id]
						if skip == nil {
							skip = info.Uses[id]
						}
					}
					return true
				})
				if payload == nil && skip == nil {
					return true // not the element loop of the marshaller
				}
				nloops++
				key := fmt.Sprintf("%s.%s|case %s|range %s|one output element per input element", strings.TrimPrefix(relPkg(p.PkgPath), "homescript/"), fd.Name.Name, label, exprStr(lp.X))
				ob := Obligation{Key: key, Pos: c.Pos(x.Pos()), Nontrivial: true}
				if payload == nil || skip == nil {
					ob.Status, ob.Detail = Undecided, "the element loop discards the payload or the skip result of the recursive call (blank identifier): cannot relate the append to them"
					obs = append(obs, ob)
					return false
				}
				mentions := func(e ast.Node, o types.Object) bool {
					f := false
					ast.Inspect(e, func(z ast.Node) bool {
						if id, ok := z.(*ast.Ident); ok && info.Uses[id] == o {
							f = true
						}
						return !f
					})
					return f
				}
				var bad []string
				iter := 0
				w := &Walker[*r2pJSONState]{
					Clone: func(s *r2pJSONState) *r2pJSONState {
						return &r2pJSONState{s.appended, s.skipTrue, append([]string(nil), s.trace...)}
					},
					OnStmt: func(st *r2pJSONState, s ast.Stmt) (*r2pJSONState, bool) {
						ast.Inspect(s, func(z ast.Node) bool {
							if call, ok := z.(*ast.CallExpr); ok && r2pIsBuiltin(info, call, "append") {
								for _, a := range call.Args[1:] {
									if mentions(a, payload) {
										st.appended = true
									}
								}
							}
							// out[i] = payload
							if as, ok := z.(*ast.AssignStmt); ok && len(as.Lhs) == len(as.Rhs) {
								for i, l := range as.Lhs {
									if _, isIdx := ast.Unparen(l).(*ast.IndexExpr); isIdx && mentions(as.Rhs[i], payload) {
										st.appended = true
									}
								}
							}
							return true
						})
						return st, true
					},
					OnCond: func(st *r2pJSONState, cond ast.Expr, taken bool) (*r2pJSONState, bool) {
						cond = ast.Unparen(cond)
						if id, ok := cond.(*ast.Ident); ok && info.Uses[id] == skip && taken {
							st.skipTrue = true
						}
						if be, ok := cond.(*ast.BinaryExpr); ok && (be.Op == token.EQL || be.Op == token.NEQ) {
							// skip == true / skip != false
							xi, xok := ast.Unparen(be.X).(*ast.Ident)
							yi, yok := ast.Unparen(be.Y).(*ast.Ident)
							if xok && yok && info.Uses[xi] == skip && (yi.Name == "true" || yi.Name == "false") {
								if ((yi.Name == "true") == (be.Op == token.EQL)) == taken {
									st.skipTrue = true
								}
							}
						}
						st.trace = append(st.trace, fmt.Sprintf("%s is %v (line %d)", exprStr(cond), taken, c.Fset.Position(cond.Pos()).Line))
						return st, true
					},
					IsPanic: func(s ast.Stmt) bool { return IsPanicCall(info, s) },
					Exit: func(st *r2pJSONState, o outcome) {
						// only iterations that go on to the next element matter
						if o.kind != cNormal && o.kind != cContinue {
							return
						}
						iter++
						if !st.appended && !st.skipTrue {
							bad = append(bad, strings.Join(st.trace, "; "))
						}
					},
				}
				w.Run(lp.Body, &r2pJSONState{})
				switch {
				case w.Overflow || len(w.Unsupported) > 0:
					ob.Status, ob.Detail = Undecided, "path enumeration of the loop body gave up"
				case len(bad) > 0:
					ob.Status = Violated
					ob.Detail = fmt.Sprintf("%s, list clause: an iteration goes on to the next element without appending the element's payload `%s` although the element's marshaller did not ask to skip it (`%s` is not true on that path): [%s]. "+
						"A nil payload is JSON null (none / null) and must keep its position; %d of %d iteration paths drop the element",
						fd.Name.Name, payload.Name(), skip.Name(), bad[0], len(bad), iter)
				case iter == 0:
					ob.Status, ob.Detail = Undecided, "the loop body has no path that reaches the next element"
				default:
					ob.Status, ob.Detail = Discharged, fmt.Sprintf("every one of the %d iteration paths that reaches the next element appends `%s` or has `%s` true", iter, payload.Name(), skip.Name())
				}
				obs = append(obs, ob)
				return false
			}
			return true
		})
	}
	visit(fd.Body, "-")
	ob := Obligation{Key: fmt.Sprintf("%s.%s|has an element loop over a list", strings.TrimPrefix(relPkg(p.PkgPath), "homescript/"), fd.Name.Name), Pos: c.Pos(fd.Pos())}
	if nloops == 0 {
		ob.Status, ob.Detail = Undecided, "the marshaller has no loop over a slice that calls itself per element: the list clause moved or changed shape"
	} else {
		ob.Status, ob.Detail = Discharged, fmt.Sprintf("%d element loop(s) over slices", nloops)
	}
	obs = append(obs, ob)
	return obs
}
