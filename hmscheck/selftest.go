package main

import (
	"encoding/json"
	"fmt"
	"os"
	"os/exec"
	"path/filepath"
	"sort"
	"strings"
	"sync"
)

// Self-test (thorough tier): every recorded mutant of this property — the
// seeded changes under /verif/seeded/<name>/ and the per-rule patches under
// /verif/selftest/<prop>/ — is applied to a scratch copy of the repository
// outside /repo and /verif, the copy is analysed *statically* by this same
// binary, and the check must report a violation on it. Nothing is executed.

type selfTestCase struct {
	Name     string `json:"name"`
	Patch    string `json:"patch"`
	Outcome  string `json:"outcome"` // detected | missed | not-applicable | expected-miss
	Detail   string `json:"detail,omitempty"`
	Expected string `json:"expected"` // detect | miss
}

type selfTestReport struct {
	Cases       []selfTestCase `json:"cases"`
	Detected    int            `json:"detected"`
	Missed      int            `json:"missed"`
	NotApplic   int            `json:"not_applicable"`
	ExpectMiss  int            `json:"documented_misses"`
	MissedNames []string       `json:"missed_names,omitempty"`
}

type seededMeta struct {
	Property string   `json:"property"`
	Detected []string `json:"detected_by_checks"` // property ids whose check must fire
}

func runSelfTests(prop, repo, verif string) *selfTestReport {
	type job struct {
		name, patch, expected string
	}
	var jobs []job
	// seeded mutants
	ents, _ := os.ReadDir(filepath.Join(verif, "seeded"))
	for _, e := range ents {
		if !e.IsDir() {
			continue
		}
		dir := filepath.Join(verif, "seeded", e.Name())
		b, err := os.ReadFile(filepath.Join(dir, "meta.json"))
		if err != nil {
			continue
		}
		var m seededMeta
		if json.Unmarshal(b, &m) != nil {
			continue
		}
		exp := ""
		for _, d := range m.Detected {
			if d == prop {
				exp = "detect"
			}
		}
		if exp == "" {
			if m.Property == prop {
				exp = "miss"
			} else {
				continue
			}
		}
		jobs = append(jobs, job{"seeded/" + e.Name(), filepath.Join(dir, "patch.diff"), exp})
	}
	ents, _ = os.ReadDir(filepath.Join(verif, "selftest", prop))
	for _, e := range ents {
		if strings.HasSuffix(e.Name(), ".patch") {
			jobs = append(jobs, job{"selftest/" + prop + "/" + e.Name(), filepath.Join(verif, "selftest", prop, e.Name()), "detect"})
		}
	}
	if len(jobs) == 0 {
		return &selfTestReport{}
	}
	sort.Slice(jobs, func(i, j int) bool { return jobs[i].name < jobs[j].name })
	self, _ := os.Executable()
	rep := &selfTestReport{Cases: make([]selfTestCase, len(jobs))}
	sem := make(chan struct{}, 6)
	var wg sync.WaitGroup
	for i, j := range jobs {
		wg.Add(1)
		go func(i int, j job) {
			defer wg.Done()
			sem <- struct{}{}
			defer func() { <-sem }()
			tc := selfTestCase{Name: j.name, Patch: j.patch, Expected: j.expected}
			defer func() { rep.Cases[i] = tc }()
			tmp, err := os.MkdirTemp("", "hmscheck-selftest-")
			if err != nil {
				tc.Outcome, tc.Detail = "not-applicable", err.Error()
				return
			}
			defer os.RemoveAll(tmp)
			scratch := filepath.Join(tmp, "repo")
			if out, err := exec.Command("cp", "-a", repo, scratch).CombinedOutput(); err != nil {
				tc.Outcome, tc.Detail = "not-applicable", "copy failed: "+string(out)
				return
			}
			os.RemoveAll(filepath.Join(scratch, ".git"))
			ap := exec.Command("git", "apply", "--whitespace=nowarn", j.patch)
			ap.Dir = scratch
			if out, err := ap.CombinedOutput(); err != nil {
				tc.Outcome, tc.Detail = "not-applicable", "patch no longer applies to the current tree: "+firstLine(string(out))
				return
			}
			cmd := exec.Command(self, "-prop", prop, "-tier", "quick", "-repo", scratch, "-verif", verif, "-noevidence")
			out, err := cmd.CombinedOutput()
			code := 0
			if ee, ok := err.(*exec.ExitError); ok {
				code = ee.ExitCode()
			} else if err != nil {
				code = -1
			}
			var viol []string
			for _, l := range strings.Split(string(out), "\n") {
				if strings.HasPrefix(l, "VIOLATED ") || strings.HasPrefix(l, "UNDECIDED ") {
					viol = append(viol, l)
				}
			}
			switch {
			case code == 1 && len(viol) > 0:
				tc.Outcome = "detected"
				tc.Detail = viol[0]
			case code == 0:
				if j.expected == "miss" {
					tc.Outcome = "expected-miss"
				} else {
					tc.Outcome = "missed"
				}
			default:
				tc.Outcome, tc.Detail = "not-applicable", fmt.Sprintf("checker exit %d on mutant: %s", code, lastLine(string(out)))
			}
		}(i, j)
	}
	wg.Wait()
	for _, tc := range rep.Cases {
		switch tc.Outcome {
		case "detected":
			rep.Detected++
		case "missed":
			rep.Missed++
			rep.MissedNames = append(rep.MissedNames, tc.Name)
		case "expected-miss":
			rep.ExpectMiss++
		default:
			rep.NotApplic++
		}
	}
	return rep
}

func firstLine(s string) string {
	s = strings.TrimSpace(s)
	if i := strings.IndexByte(s, '\n'); i >= 0 {
		return s[:i]
	}
	return s
}

func lastLine(s string) string {
	s = strings.TrimSpace(s)
	if i := strings.LastIndexByte(s, '\n'); i >= 0 {
		return s[i+1:]
	}
	return s
}
