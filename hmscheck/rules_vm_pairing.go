package main

import (
	"fmt"
	"go/ast"
	"go/token"
	"go/types"
	"sort"
	"strings"
)

func init() {
	register(&Rule{ID: "R-pairing-locks", Floor: 10, Run: ruleVMPairLocks,
		Doc: "package runtime: every sync.Mutex/RWMutex acquisition is released on every path to every return (deferred calls replayed at each exit; panicking exits exempt), the lock state is the same at every loop-iteration boundary, no unlock is deferred inside a loop (defers run at function exit, so the lock accumulates), a lock is not re-acquired for writing while held (lock/unlock helper methods are spliced into their callers), and every write to a field that lives in the same struct as an RWMutex happens under Lock, never under RLock only. Necessary for C02/C10/C16/C17: a return that keeps Cores.Lock read-locked blocks the next spawnCore forever; a map write under RLock races with every other reader/writer"})
	register(&Rule{ID: "R-pairing-scopes", Floor: 5, Run: ruleVMPairScopes,
		Doc: "package compiler: calls of the methods that push onto / pop from the compiler's scope stack and loop stack are balanced on every path of every function (deferred pops included; panicking exits exempt; small helpers every exit of which pushes or pops are spliced into their callers) and across every loop iteration. Necessary for C01/C11: an unbalanced scope stack resolves later identifiers in the wrong scope; an unbalanced loop stack makes break/continue target the wrong loop"})
	register(&Rule{ID: "R-pairing-interp", Floor: 5, Run: ruleVMPairInterp,
		Doc: "package interpreter: the call-depth counter (the Interpreter field that is ++/-- and compared with the configured limit) and the scope stack (methods appending to / shrinking Module.scopes) are balanced on every path of every function, including early and error returns (deferred function literals, deferred closures bound to a local and deferred enter/leave helpers replayed). Necessary for C04/C09/C11: a leaked frame per failing call eventually reports a spurious stack overflow; a leaked scope shadows the locals of the code that continues after return/throw"})
	register(&Rule{ID: "R-pairing-emit", Floor: 24, Run: ruleVMPairEmit,
		Doc: "bytecode pairing in the compiler, on every path of the lowering concerned: try: SetTryLabel is matched by exactly one PopTryLabel on the normal continuation (after the try block, followed by a jump over the handler) and, because the VM's exception branch only peeks at the handler stack, by exactly one PopTryLabel on the handler continuation emitted before any catch code is compiled; function frames: AddMempointer(+n) is matched by AddMempointer(-n) with the same n, the epilogue is cleanup-label, AddMempointer(-n), Return; Opcode_Return is emitted only as such an epilogue (or outside any frame); `return` lowers to a jump to the function's cleanup label, `break`/`continue` to jumps to the innermost loop record's break/continue label; every loop record's labels and every label referenced by a jump are emitted exactly once on every path. Necessary for C09/C11: a return that bypasses the cleanup leaks the frame; a handler that stays installed while its own catch block runs catches the catch block's throws"})
}

// ------------------------------------------------------- generic counters

type vmCounter struct {
	name  string
	delta func(fn *vmFn, e vmEv) int
}

type vmBalanceOpts struct {
	counters []vmCounter
	// initialiser: the function creates the structure the counter lives in; an
	// unmatched +1 is the root element (reported as info).
	initialiser func(fn *vmFn) (bool, string)
	// wrappers: functions whose every exit changes a counter by the same non-zero amount (a
	// push/pop/enter/leave helper). They are not units of their own: their bodies are spliced
	// into their callers, where the balance is decided.
	wrappers *vmWrapperFinder
}

func (o vmBalanceOpts) inline() func(callee *vmFn, call *ast.CallExpr) bool {
	if o.wrappers == nil {
		return nil
	}
	return func(callee *vmFn, call *ast.CallExpr) bool {
		obj, _ := callee.info.Defs[callee.fd.Name].(*types.Func)
		return o.wrappers.isWrapper(obj)
	}
}

// vmTouches: does the function contain a counted event (directly or by calling a wrapper)?
func vmTouches(fn *vmFn, o vmBalanceOpts) bool {
	touched := false
	probe := &vmSt{}
	g := &vmGather{info: fn.info, st: probe}
	ast.Inspect(fn.fd.Body, func(n ast.Node) bool {
		switch x := n.(type) {
		case *ast.CallExpr:
			f := CalleeOf(fn.info, x)
			if f != nil && o.wrappers != nil && o.wrappers.isWrapper(f.Origin()) {
				touched = true
			}
			g.add(vmEv{K: evCall, Fn: f, Call: x})
		case *ast.IncDecStmt:
			g.add(vmEv{K: evIncDec, X: x.X, Tok: x.Tok})
		case *ast.AssignStmt:
			for i, l := range x.Lhs {
				var rhs ast.Expr
				if len(x.Lhs) == len(x.Rhs) {
					rhs = x.Rhs[i]
				}
				g.add(vmEv{K: evAssign, Lhs: l, Rhs: rhs, Tok: x.Tok})
			}
		}
		return true
	})
	for _, e := range probe.ev {
		for _, k := range o.counters {
			if k.delta(fn, e) != 0 {
				touched = true
			}
		}
	}
	return touched
}

// vmStaticCallers: functions of the set that are called statically by another function of the set.
func vmStaticCallers(fns []*vmFn) map[*types.Func]bool {
	out := map[*types.Func]bool{}
	for _, fn := range fns {
		self, _ := fn.info.Defs[fn.fd.Name].(*types.Func)
		ast.Inspect(fn.fd.Body, func(n ast.Node) bool {
			if call, ok := n.(*ast.CallExpr); ok {
				if g := CalleeOf(fn.info, call); g != nil && g.Origin() != self {
					out[g.Origin()] = true
				}
			}
			return true
		})
	}
	return out
}

// vmWrapperFinder decides lazily (bottom-up over the static call graph of the
// package) whether a function is a wrapper: a small helper (at most 64 paths)
// every non-panicking exit of which leaves the counters at the same non-zero
// vector — its callees that are wrappers themselves spliced in —, no loop
// iteration of which changes them, and which some other function of the
// package calls. A function with mixed effects is not a wrapper: it is a unit
// and is reported itself.
type vmWrapperFinder struct {
	c      *Ctx
	o      vmBalanceOpts
	byObj  map[*types.Func]*vmFn
	called map[*types.Func]bool
	skip   func(fn *vmFn, obj *types.Func) bool
	memo   map[*types.Func]bool
	busy   map[*types.Func]bool
	rel    *vmCalleeCloser
}

func vmNewWrapperFinder(c *Ctx, fns []*vmFn, o vmBalanceOpts, skip func(fn *vmFn, obj *types.Func) bool) *vmWrapperFinder {
	w := &vmWrapperFinder{c: c, byObj: map[*types.Func]*vmFn{}, called: vmStaticCallers(fns), skip: skip, memo: map[*types.Func]bool{}, busy: map[*types.Func]bool{}}
	for _, fn := range fns {
		if obj, ok := fn.info.Defs[fn.fd.Name].(*types.Func); ok {
			w.byObj[obj] = fn
		}
	}
	o.wrappers = w
	w.o = o
	// transitive relevance: only functions that can reach a counted event are ever walked
	w.rel = vmNewCloser(c, func(fn *vmFn, n ast.Node) bool {
		var e vmEv
		switch x := n.(type) {
		case *ast.CallExpr:
			e = vmEv{K: evCall, Fn: CalleeOf(fn.info, x), Call: x}
		case *ast.IncDecStmt:
			e = vmEv{K: evIncDec, X: x.X, Tok: x.Tok}
		case *ast.AssignStmt:
			for i, l := range x.Lhs {
				var rhs ast.Expr
				if len(x.Lhs) == len(x.Rhs) {
					rhs = x.Rhs[i]
				}
				for _, k := range o.counters {
					if k.delta(fn, vmEv{K: evAssign, Lhs: l, Rhs: rhs, Tok: x.Tok}) != 0 {
						return true
					}
				}
			}
			return false
		default:
			return false
		}
		for _, k := range o.counters {
			if k.delta(fn, e) != 0 {
				return true
			}
		}
		return false
	})
	return w
}

func (w *vmWrapperFinder) isWrapper(obj *types.Func) bool {
	if obj == nil {
		return false
	}
	obj = obj.Origin()
	if v, ok := w.memo[obj]; ok {
		return v
	}
	fn := w.byObj[obj]
	if fn == nil || w.busy[obj] || !w.called[obj] || (w.skip != nil && w.skip(fn, obj)) || !w.rel.relevant(fn) {
		return false
	}
	if w.o.initialiser != nil {
		if is, _ := w.o.initialiser(fn); is {
			w.memo[obj] = false
			return false
		}
	}
	w.busy[obj] = true
	defer delete(w.busy, obj)
	res := vmWalk(vmWalkOpts{fn: fn, correlate: true, inline: w.o.inline(), maxPaths: 64})
	is := false
	if !res.overflow && len(res.unsupported) == 0 {
		vecs := map[string]bool{}
		nonzero, clean := false, true
		for i := range res.paths {
			p := &res.paths[i]
			if p.o.kind == cPanic {
				continue
			}
			var parts []string
			for _, k := range w.o.counters {
				v := 0
				for _, e := range p.ev {
					if d := k.delta(fn, e); d != 0 {
						if e.DeferCond {
							clean = false
						}
						v += d
					}
				}
				if v != 0 {
					nonzero = true
				}
				parts = append(parts, fmt.Sprint(v))
			}
			vecs[strings.Join(parts, ",")] = true
		}
		for i := range res.iters {
			p := &res.iters[i]
			last := p.ev[len(p.ev)-1]
			for _, k := range w.o.counters {
				for j := last.From; j < len(p.ev); j++ {
					if k.delta(fn, p.ev[j]) != 0 {
						clean = false
					}
				}
			}
		}
		is = len(vecs) == 1 && nonzero && clean
	}
	w.memo[obj] = is
	return is
}

// vmBalanceFn decides, for one function, that every counter returns to its
// entry value on every non-panicking exit and at every loop iteration
// boundary. One obligation per (unit, counter) that the unit touches.
func vmBalanceFn(c *Ctx, fn *vmFn, o vmBalanceOpts) []Obligation {
	// cheap pre-filter: does the function contain any counted event?
	if !vmTouches(fn, o) {
		return nil
	}
	var obs []Obligation
	res := vmWalk(vmWalkOpts{fn: fn, correlate: true, inline: o.inline()})
	if res.overflow {
		return []Obligation{{Key: fn.name + "|<paths>", Pos: c.Pos(fn.fd.Pos()), Status: Undecided, Detail: "path cap exceeded"}}
	}
	for _, p := range res.unsupported {
		obs = append(obs, Obligation{Key: fn.name + "|<unsupported control flow>", Pos: c.Pos(p), Status: Undecided, Detail: "goto/fallthrough"})
	}
	tops := vmTopPosSet(c, fn)
	type acc struct {
		touched   bool
		paths     int
		bad       []string
		undecided []string
		pos       token.Pos
		finals    map[int]bool
	}
	accs := map[string]*acc{}
	for i := range res.paths {
		p := &res.paths[i]
		unit := vmUnitOf(fn.info, tops, p)
		for _, k := range o.counters {
			key := unit + "|" + k.name
			a := accs[key]
			if a == nil {
				a = &acc{pos: fn.fd.Pos(), finals: map[int]bool{}}
				accs[key] = a
			}
			val := 0
			prefix := make([]int, len(p.ev)+1)
			any := false
			for j, e := range p.ev {
				prefix[j] = val
				d := k.delta(fn, e)
				if d != 0 {
					any = true
					if !a.touched {
						a.pos = e.Pos
					}
					a.touched = true
					if e.DeferCond {
						a.undecided = append(a.undecided, fmt.Sprintf("%s at %s happens under a condition inside a deferred function literal", k.name, c.Pos(e.Pos)))
					}
					val += d
				}
			}
			if !any {
				continue
			}
			a.paths++
			if p.o.kind == cPanic {
				continue
			}
			a.finals[val] = true
			if val != 0 {
				a.bad = append(a.bad, fmt.Sprintf("net %+d at %s on path [%s]", val, p.exitStr(c), p.decisions()))
			}
		}
	}
	// loop-iteration boundaries (includes loops that are only left by return: `for {}`)
	for i := range res.iters {
		p := &res.iters[i]
		unit := vmUnitOf(fn.info, tops, p)
		last := p.ev[len(p.ev)-1]
		for _, k := range o.counters {
			val, atFrom := 0, 0
			for j, e := range p.ev {
				if j == last.From {
					atFrom = val
				}
				val += k.delta(fn, e)
			}
			if val != atFrom {
				key := unit + "|" + k.name
				a := accs[key]
				if a == nil {
					a = &acc{pos: last.Pos, finals: map[int]bool{}}
					accs[key] = a
				}
				a.touched = true
				a.bad = append(a.bad, fmt.Sprintf("one iteration of the loop at %s changes %s by %+d (path [%s])", c.Pos(last.Loop.Pos()), k.name, val-atFrom, p.decisions()))
			}
		}
	}
	var keys []string
	for k := range accs {
		keys = append(keys, k)
	}
	sort.Strings(keys)
	isInit, why := false, ""
	if o.initialiser != nil {
		isInit, why = o.initialiser(fn)
	}
	for _, k := range keys {
		a := accs[k]
		if !a.touched {
			continue
		}
		parts := strings.SplitN(k, "|", 2)
		key := fn.name + "|"
		if parts[0] != "" {
			key += parts[0] + "|"
		}
		key += parts[1] + "|balanced on every path to every return"
		ob := Obligation{Key: key, Pos: c.Pos(a.pos), Status: Discharged, Nontrivial: true, Detail: fmt.Sprintf("%d path(s) touching it, net 0 at every non-panicking exit and across every loop iteration", a.paths)}
		bad := vmUniq(a.bad)
		if len(bad) > 0 {
			ob.Status = Violated
			if len(bad) > 4 {
				bad = append(bad[:4], fmt.Sprintf("… %d more", len(bad)-4))
			}
			ob.Detail = strings.Join(bad, " || ")
			if isInit && len(a.finals) == 1 && a.finals[1] {
				ob.Status = Info
				ob.Detail = "initialiser: " + why + "; its single unmatched push is the root element. " + ob.Detail
			}
		}
		if len(a.undecided) > 0 {
			ob.Status = Undecided
			ob.Detail += "; " + strings.Join(vmUniq(a.undecided), "; ")
		}
		obs = append(obs, ob)
	}
	return obs
}

func vmCallCounter(name string, roles *vmStackRoles) vmCounter {
	return vmCounter{name: name, delta: func(fn *vmFn, e vmEv) int {
		// a push / pop written out as a direct write to the stack field (the role methods themselves
		// are never walked as units nor spliced in, so nothing is counted twice)
		if e.K == evAssign && e.Rhs != nil && e.Lhs != nil {
			if d, ok := vmSliceWrite(fn.info, e.Lhs, e.Rhs, roles.field); ok {
				return d
			}
			return 0
		}
		if e.K != evCall || e.Fn == nil {
			return 0
		}
		if n, ok := roles.push[e.Fn]; ok {
			return n
		}
		if n, ok := roles.pop[e.Fn]; ok {
			return -n
		}
		return 0
	}}
}

// --------------------------------------------------------- R-pairing-scopes

var vmCompBalanceCache = map[*Ctx]*vmBalanceOpts{}

func vmCompIsRole(r *vmCompilerRoles) func(fn *vmFn, obj *types.Func) bool {
	return func(fn *vmFn, obj *types.Func) bool {
		for _, roles := range []*vmStackRoles{r.scopes, r.loops} {
			if _, is := roles.push[obj]; is {
				return true
			}
			if _, is := roles.pop[obj]; is {
				return true
			}
		}
		return false
	}
}

// vmCompBalance: the counters of R-pairing-scopes and the wrapper helpers
// (enter-scope / enter-loop functions) found for them.
func vmCompBalance(c *Ctx) vmBalanceOpts {
	if o := vmCompBalanceCache[c]; o != nil {
		return *o
	}
	r := vmCompRoles(c)
	o := vmBalanceOpts{counters: []vmCounter{
		vmCallCounter("scope stack ("+r.scopes.names()+")", r.scopes),
		vmCallCounter("loop stack ("+r.loops.names()+")", r.loops),
	}}
	o.wrappers = vmNewWrapperFinder(c, r.fns, o, vmCompIsRole(r))
	vmCompBalanceCache[c] = &o
	return o
}

func ruleVMPairScopes(c *Ctx) []Obligation {
	r := vmCompRoles(c)
	o := vmCompBalance(c)
	isRole := vmCompIsRole(r)
	var obs []Obligation
	for _, fn := range r.fns {
		obj, _ := fn.info.Defs[fn.fd.Name].(*types.Func)
		if isRole(fn, obj) || o.wrappers.isWrapper(obj) {
			continue
		}
		obs = append(obs, vmBalanceFn(c, fn, o)...)
	}
	return obs
}

// --------------------------------------------------------- R-pairing-interp

type vmInterpRoles struct {
	fns       []*vmFn
	scopes    *vmStackRoles
	counter   *types.Var // Interpreter field that is ++ and --
	limit     *types.Var // Interpreter field the counter is compared with
	modStruct *types.TypeName
}

var vmInterpRolesCache = map[*Ctx]*vmInterpRoles{}

func vmInterp(c *Ctx) *vmInterpRoles {
	if r := vmInterpRolesCache[c]; r != nil {
		return r
	}
	pkg := c.Pkg("homescript/interpreter")
	r := &vmInterpRoles{fns: vmFuncs(c, "homescript/interpreter")}
	// scope stack: the slice field of Module with push and pop methods
	if mobj := pkg.Types.Scope().Lookup("Module"); mobj != nil {
		r.modStruct, _ = mobj.(*types.TypeName)
		if st, ok := mobj.Type().Underlying().(*types.Struct); ok {
			for i := 0; i < st.NumFields(); i++ {
				if _, isSlice := st.Field(i).Type().Underlying().(*types.Slice); !isSlice {
					continue
				}
				roles := vmDiscoverStack(r.fns, st.Field(i))
				if len(roles.push) > 0 && len(roles.pop) > 0 {
					if r.scopes != nil {
						fatalf("anchor ambiguous: two push/pop stacks in interpreter.Module")
					}
					r.scopes = roles
				}
			}
		}
	}
	if r.scopes == nil {
		fatalf("anchor unresolved: interpreter scope stack (slice field of Module with push and pop methods)")
	}
	// call-depth counter: Interpreter field with both ++ and --
	inc, dec := map[*types.Var]bool{}, map[*types.Var]bool{}
	for _, fn := range r.fns {
		ast.Inspect(fn.fd.Body, func(n ast.Node) bool {
			if x, ok := n.(*ast.IncDecStmt); ok {
				if f := vmFieldOf(fn.info, x.X); f != nil {
					if tn, _ := vmOwnerStruct(f); tn != nil && tn.Name() == "Interpreter" {
						if x.Tok == token.INC {
							inc[f] = true
						} else {
							dec[f] = true
						}
					}
				}
			}
			return true
		})
	}
	for f := range inc {
		if dec[f] {
			if r.counter != nil {
				fatalf("anchor ambiguous: two ++/-- counters in interpreter.Interpreter")
			}
			r.counter = f
		}
	}
	if r.counter == nil {
		fatalf("anchor unresolved: interpreter call-depth counter (Interpreter field with ++ and --)")
	}
	// limit: the Interpreter field the counter is compared with
	for _, fn := range r.fns {
		ast.Inspect(fn.fd.Body, func(n ast.Node) bool {
			if b, ok := n.(*ast.BinaryExpr); ok {
				switch b.Op {
				case token.GTR, token.GEQ, token.LSS, token.LEQ:
					x, y := vmFieldOf(fn.info, vmStripConv(fn.info, b.X)), vmFieldOf(fn.info, vmStripConv(fn.info, b.Y))
					if x == r.counter && y != nil {
						r.limit = y
					} else if y == r.counter && x != nil {
						r.limit = x
					}
				}
			}
			return true
		})
	}
	vmInterpRolesCache[c] = r
	return r
}

var vmInterpBalanceCache = map[*Ctx]*vmBalanceOpts{}

// vmInterpBalance: the counters of R-pairing-interp and the wrapper helpers
// (enter/leave-frame functions) found for them.
func vmInterpBalance(c *Ctx) vmBalanceOpts {
	if o := vmInterpBalanceCache[c]; o != nil {
		return *o
	}
	r := vmInterp(c)
	o := vmBalanceOpts{
		counters: []vmCounter{
			vmCallCounter("scope stack ("+r.scopes.names()+")", r.scopes),
			{name: "call-depth counter " + vmFieldName(r.counter), delta: func(fn *vmFn, e vmEv) int {
				if e.K == evIncDec && vmFieldOf(fn.info, e.X) == r.counter {
					if e.Tok == token.INC {
						return 1
					}
					return -1
				}
				if e.K == evAssign && vmFieldOf(fn.info, e.Lhs) == r.counter {
					switch e.Tok {
					case token.ADD_ASSIGN:
						return 1
					case token.SUB_ASSIGN:
						return -1
					}
				}
				return 0
			}},
		},
		initialiser: func(fn *vmFn) (bool, string) {
			// the function builds a fresh Module (the owner of the scope stack): its push creates the root scope
			found := false
			ast.Inspect(fn.fd.Body, func(n ast.Node) bool {
				if cl, ok := n.(*ast.CompositeLit); ok {
					if nt := vmNamed(fn.info.TypeOf(cl)); nt != nil && r.modStruct != nil && nt.Obj() == r.modStruct {
						found = true
					}
				}
				return true
			})
			return found, "the function constructs a fresh " + r.modStruct.Name() + " (a new, empty scope stack)"
		},
	}
	o.wrappers = vmNewWrapperFinder(c, r.fns, o, vmInterpIsRole(r))
	vmInterpBalanceCache[c] = &o
	return o
}

func vmInterpIsRole(r *vmInterpRoles) func(fn *vmFn, obj *types.Func) bool {
	return func(fn *vmFn, obj *types.Func) bool {
		if _, is := r.scopes.push[obj]; is {
			return true
		}
		_, is := r.scopes.pop[obj]
		return is
	}
}

func ruleVMPairInterp(c *Ctx) []Obligation {
	r := vmInterp(c)
	o := vmInterpBalance(c)
	isRole := vmInterpIsRole(r)
	var obs []Obligation
	for _, fn := range r.fns {
		obj, _ := fn.info.Defs[fn.fd.Name].(*types.Func)
		if isRole(fn, obj) || o.wrappers.isWrapper(obj) {
			continue
		}
		obs = append(obs, vmBalanceFn(c, fn, o)...)
	}
	return obs
}

// ---------------------------------------------------------- R-pairing-locks

type vmMutexOp struct {
	field *types.Var // the mutex field (nil: a local mutex)
	name  string
	op    string // Lock RLock Unlock RUnlock
}

func vmMutexOpOf(info *types.Info, e vmEv) (vmMutexOp, bool) {
	if e.K != evCall || e.Fn == nil || e.Fn.Pkg() == nil || e.Fn.Pkg().Path() != "sync" {
		return vmMutexOp{}, false
	}
	sig, _ := e.Fn.Type().(*types.Signature)
	if sig == nil || sig.Recv() == nil {
		return vmMutexOp{}, false
	}
	rn := vmNamed(sig.Recv().Type())
	if rn == nil || (rn.Obj().Name() != "Mutex" && rn.Obj().Name() != "RWMutex") {
		return vmMutexOp{}, false
	}
	sel, ok := ast.Unparen(e.Call.Fun).(*ast.SelectorExpr)
	if !ok {
		return vmMutexOp{}, false
	}
	m := vmMutexOp{op: e.Fn.Name(), field: vmFieldOf(info, sel.X)}
	if m.field != nil {
		m.name = vmFieldName(m.field)
	} else {
		m.name = exprStr(sel.X)
	}
	return m, true
}

func vmIsSyncMutex(t types.Type) bool {
	n := vmNamed(t)
	return n != nil && n.Obj().Pkg() != nil && n.Obj().Pkg().Path() == "sync" && (n.Obj().Name() == "Mutex" || n.Obj().Name() == "RWMutex")
}

func ruleVMPairLocks(c *Ctx) []Obligation {
	fns := vmFuncs(c, "homescript/runtime")
	pkg := c.Pkg("homescript/runtime")
	// protected fields: siblings of a mutex field in the same struct
	protectedBy := map[*types.Var]*types.Var{}
	sc := pkg.Types.Scope()
	for _, n := range sc.Names() {
		tn, ok := sc.Lookup(n).(*types.TypeName)
		if !ok {
			continue
		}
		st, ok := tn.Type().Underlying().(*types.Struct)
		if !ok {
			continue
		}
		var mu *types.Var
		for i := 0; i < st.NumFields(); i++ {
			if vmIsSyncMutex(st.Field(i).Type()) {
				mu = st.Field(i)
			}
		}
		if mu == nil {
			continue
		}
		for i := 0; i < st.NumFields(); i++ {
			if st.Field(i) != mu {
				protectedBy[st.Field(i)] = mu
			}
		}
	}
	// which mutexes does each function acquire itself (for re-entrancy)?
	acquires := map[*types.Func]map[string]string{} // fn → mutex name → strongest op
	for _, fn := range fns {
		obj, _ := fn.info.Defs[fn.fd.Name].(*types.Func)
		if obj == nil {
			continue
		}
		acquires[obj] = map[string]string{}
		ast.Inspect(fn.fd.Body, func(n ast.Node) bool {
			if _, ok := n.(*ast.FuncLit); ok {
				return false
			}
			if call, ok := n.(*ast.CallExpr); ok {
				if m, ok := vmMutexOpOf(fn.info, vmEv{K: evCall, Fn: CalleeOf(fn.info, call), Call: call}); ok {
					if m.op == "Lock" || (m.op == "RLock" && acquires[obj][m.name] == "") {
						acquires[obj][m.name] = m.op
					}
				}
			}
			return true
		})
	}
	for changed := true; changed; {
		changed = false
		for _, fn := range fns {
			obj, _ := fn.info.Defs[fn.fd.Name].(*types.Func)
			if obj == nil {
				continue
			}
			ast.Inspect(fn.fd.Body, func(n ast.Node) bool {
				if _, ok := n.(*ast.FuncLit); ok {
					return false
				}
				if call, ok := n.(*ast.CallExpr); ok {
					if g := CalleeOf(fn.info, call); g != nil && acquires[g] != nil && g != obj {
						for mname, op := range acquires[g] {
							if cur := acquires[obj][mname]; cur == "" || (cur == "RLock" && op == "Lock") {
								acquires[obj][mname] = op
								changed = true
							}
						}
					}
				}
				return true
			})
		}
	}
	// lock wrappers (`func (vm *VM) lockCores() { vm.Cores.Lock.Lock() }`): helpers every exit of which
	// leaves a mutex acquired or released. They are spliced into their callers.
	lockDelta := func(ops ...string) func(fn *vmFn, e vmEv) int {
		return func(fn *vmFn, e vmEv) int {
			if m, ok := vmMutexOpOf(fn.info, e); ok {
				switch m.op {
				case ops[0]:
					return 1
				case ops[1]:
					return -1
				}
			}
			return 0
		}
	}
	wr := vmNewWrapperFinder(c, fns, vmBalanceOpts{counters: []vmCounter{
		{name: "write lock", delta: lockDelta("Lock", "Unlock")},
		{name: "read lock", delta: lockDelta("RLock", "RUnlock")},
	}}, nil)
	var obs []Obligation
	for _, fn := range fns {
		if obj, _ := fn.info.Defs[fn.fd.Name].(*types.Func); wr.isWrapper(obj) {
			continue
		}
		// does the function (outside nested literals) touch a mutex or a protected field?
		relevant := false
		var litLocks []token.Pos
		ast.Inspect(fn.fd.Body, func(n ast.Node) bool {
			switch x := n.(type) {
			case *ast.CallExpr:
				if _, ok := vmMutexOpOf(fn.info, vmEv{K: evCall, Fn: CalleeOf(fn.info, x), Call: x}); ok {
					relevant = true
				}
				if wr.isWrapper(CalleeOf(fn.info, x)) {
					relevant = true
				}
			case *ast.AssignStmt:
				for _, l := range x.Lhs {
					if protectedBy[vmFieldOf(fn.info, vmBaseOfIndex(l))] != nil {
						relevant = true
					}
				}
			case *ast.GoStmt:
				if lit, ok := ast.Unparen(x.Call.Fun).(*ast.FuncLit); ok {
					ast.Inspect(lit, func(m ast.Node) bool {
						if call, ok := m.(*ast.CallExpr); ok {
							if _, ok := vmMutexOpOf(fn.info, vmEv{K: evCall, Fn: CalleeOf(fn.info, call), Call: call}); ok {
								litLocks = append(litLocks, call.Pos())
							}
						}
						return true
					})
				}
			}
			return true
		})
		for _, p := range litLocks {
			obs = append(obs, Obligation{Key: fn.name + "|mutex operation inside a goroutine literal", Pos: c.Pos(p), Status: Undecided, Detail: "lock operations inside `go func(){…}` bodies are not analysed"})
		}
		if !relevant {
			continue
		}
		obs = append(obs, vmLockFn(c, fn, protectedBy, acquires, wr)...)
	}
	return obs
}

type vmLockState struct{ r, w int }

func vmLockFn(c *Ctx, fn *vmFn, protectedBy map[*types.Var]*types.Var, acquires map[*types.Func]map[string]string, wr *vmWrapperFinder) []Obligation {
	info := fn.info
	var obs []Obligation
	res := vmWalk(vmWalkOpts{fn: fn, correlate: true, inline: wr.o.inline()})
	if res.overflow {
		return []Obligation{{Key: fn.name + "|<paths>", Pos: c.Pos(fn.fd.Pos()), Status: Undecided, Detail: "path cap exceeded"}}
	}
	for _, p := range res.unsupported {
		obs = append(obs, Obligation{Key: fn.name + "|<unsupported control flow>", Pos: c.Pos(p), Status: Undecided, Detail: "goto/fallthrough"})
	}
	tops := vmTopPosSet(c, fn)
	self, _ := info.Defs[fn.fd.Name].(*types.Func)

	rel := map[string]*vmAcc{}     // unit|mutex → release obligation
	loopInv := map[string]*vmAcc{} // unit|mutex → loop invariance (only when a loop iteration contains an op)
	writes := map[string]*vmAcc{}  // unit|field|ordinal
	writeOrd := map[token.Pos]string{}
	ordCount := map[string]int{}
	get := func(m map[string]*vmAcc, k string, pos token.Pos) *vmAcc {
		if m[k] == nil {
			m[k] = &vmAcc{pos: pos}
		}
		return m[k]
	}
	noteWrite := func(lhs ast.Expr, pos token.Pos, unit string, p *vmPath, st map[string]vmLockState) {
		f := vmFieldOf(info, vmBaseOfIndex(lhs))
		mu := protectedBy[f]
		if mu == nil {
			return
		}
		mname := vmFieldName(mu)
		k, ok := writeOrd[pos]
		if !ok {
			base := unit + "|write " + vmFieldName(f)
			ordCount[base]++
			k = fmt.Sprintf("%s #%d (guarded by %s)", base, ordCount[base], mname)
			writeOrd[pos] = k
		}
		a := get(writes, k, pos)
		a.paths++
		s := st[mname]
		switch {
		case s.w > 0:
		case s.r > 0:
			a.bad = append(a.bad, fmt.Sprintf("`%s` at %s is written while only the READ lock of %s is held (r=%d,w=0): RLock is shared, so this write races with every other reader and writer (path [%s])", exprStr(lhs), c.Pos(pos), mname, s.r, p.decisions()))
		default:
			a.note = append(a.note, fmt.Sprintf("`%s` at %s is written with %s not held in this function (caller-held locks are R-lockset's business)", exprStr(lhs), c.Pos(pos), mname))
		}
	}
	stateStr := func(s map[string]vmLockState) string {
		var ks []string
		for k, v := range s {
			if v.r != 0 || v.w != 0 {
				ks = append(ks, fmt.Sprintf("%s{r=%d,w=%d}", k, v.r, v.w))
			}
		}
		sort.Strings(ks)
		return strings.Join(ks, ",")
	}
	for i := range res.paths {
		p := &res.paths[i]
		unit := vmUnitOf(info, tops, p)
		st := map[string]vmLockState{}
		touchedMu := map[string]token.Pos{}
		for _, e := range p.ev {
			if m, ok := vmMutexOpOf(info, e); ok {
				if _, seen := touchedMu[m.name]; !seen {
					touchedMu[m.name] = e.Pos
				}
				a := get(rel, unit+"|"+m.name, e.Pos)
				if e.DeferCond {
					a.und = append(a.und, fmt.Sprintf("%s at %s under a condition inside a deferred literal", m.op, c.Pos(e.Pos)))
				}
				s := st[m.name]
				switch m.op {
				case "Lock":
					if s.r > 0 || s.w > 0 {
						a.bad = append(a.bad, fmt.Sprintf("Lock at %s while the same mutex is already held (r=%d,w=%d): self-deadlock (path [%s])", c.Pos(e.Pos), s.r, s.w, p.decisions()))
					}
					s.w++
				case "RLock":
					if s.w > 0 {
						a.bad = append(a.bad, fmt.Sprintf("RLock at %s while holding the write lock: self-deadlock (path [%s])", c.Pos(e.Pos), p.decisions()))
					}
					s.r++
				case "Unlock":
					if s.w == 0 {
						a.bad = append(a.bad, fmt.Sprintf("Unlock at %s without a matching Lock on path [%s]", c.Pos(e.Pos), p.decisions()))
					} else {
						s.w--
					}
				case "RUnlock":
					if s.r == 0 {
						a.bad = append(a.bad, fmt.Sprintf("RUnlock at %s without a matching RLock on path [%s]", c.Pos(e.Pos), p.decisions()))
					} else {
						s.r--
					}
				default:
					a.und = append(a.und, fmt.Sprintf("%s at %s is not modelled", m.op, c.Pos(e.Pos)))
				}
				st[m.name] = s
				continue
			}
			switch e.K {
			case evCall:
				// re-entrant acquisition through a callee
				if e.Fn != nil && e.Fn != self {
					for mname, op := range acquires[e.Fn] {
						s := st[mname]
						if (op == "Lock" && (s.r > 0 || s.w > 0)) || (op == "RLock" && s.w > 0) {
							a := get(rel, unit+"|"+mname, e.Pos)
							a.bad = append(a.bad, fmt.Sprintf("call of %s at %s acquires %s (%s) while it is held here (r=%d,w=%d): self-deadlock", e.Fn.Name(), c.Pos(e.Pos), mname, op, s.r, s.w))
						}
					}
				}
				// delete(x.F, k)
				if id, ok := e.Call.Fun.(*ast.Ident); ok && len(e.Call.Args) == 2 {
					if b, isB := info.Uses[id].(*types.Builtin); isB && b.Name() == "delete" {
						noteWrite(e.Call.Args[0], e.Pos, unit, p, st)
					}
				}
			case evAssign:
				if e.Tok == token.DEFINE {
					continue
				}
				noteWrite(e.Lhs, e.Pos, unit, p, st)
			case evIncDec:
				noteWrite(e.X, e.Pos, unit, p, st)
			}
		}
		for mname, pos := range touchedMu {
			a := get(rel, unit+"|"+mname, pos)
			a.paths++
			if p.o.kind == cPanic {
				continue
			}
			if s := st[mname]; s.r != 0 || s.w != 0 {
				a.bad = append(a.bad, fmt.Sprintf("%s still held (r=%d,w=%d) at %s on path [%s]", mname, s.r, s.w, p.exitStr(c), p.decisions()))
			}
		}
	}
	// loop-iteration boundaries
	for i := range res.iters {
		p := &res.iters[i]
		unit := vmUnitOf(info, tops, p)
		last := p.ev[len(p.ev)-1]
		st := map[string]vmLockState{}
		atFrom := ""
		inIter := map[string]bool{}
		for j, e := range p.ev {
			if j == last.From {
				atFrom = stateStr(st)
			}
			if m, ok := vmMutexOpOf(info, e); ok {
				if j >= last.From {
					inIter[m.name] = true
				}
				s := st[m.name]
				switch m.op {
				case "Lock":
					s.w++
				case "RLock":
					s.r++
				case "Unlock":
					if s.w > 0 {
						s.w--
					}
				case "RUnlock":
					if s.r > 0 {
						s.r--
					}
				}
				st[m.name] = s
			}
		}
		for mname := range inIter {
			a := get(loopInv, unit+"|"+mname, last.Loop.Pos())
			a.paths++
			if atFrom != stateStr(st) {
				a.bad = append(a.bad, fmt.Sprintf("lock state {%s} at the start of an iteration of the loop at %s, {%s} at its end: the lock accumulates with every iteration (path [%s])", atFrom, c.Pos(last.Loop.Pos()), stateStr(st), p.decisions()))
			}
		}
	}
	emit := func(m map[string]*vmAcc, suffix string, okDetail string) {
		var keys []string
		for k := range m {
			keys = append(keys, k)
		}
		sort.Strings(keys)
		for _, k := range keys {
			a := m[k]
			parts := strings.SplitN(k, "|", 2)
			key := fn.name + "|"
			if parts[0] != "" {
				key += parts[0] + "|"
			}
			key += parts[1] + "|" + suffix
			ob := Obligation{Key: key, Pos: c.Pos(a.pos), Status: Discharged, Nontrivial: true, Detail: fmt.Sprintf(okDetail, a.paths)}
			if bad := vmUniq(a.bad); len(bad) > 0 {
				ob.Status = Violated
				if len(bad) > 3 {
					bad = append(bad[:3], fmt.Sprintf("… %d more", len(bad)-3))
				}
				ob.Detail = strings.Join(bad, " || ")
			}
			if len(a.und) > 0 {
				ob.Status = Undecided
				ob.Detail += "; " + strings.Join(vmUniq(a.und), "; ")
			}
			if ob.Status == Discharged && len(a.note) > 0 {
				ob.Status = Info
				ob.Detail = strings.Join(vmUniq(a.note), "; ")
			}
			obs = append(obs, ob)
		}
	}
	emit(rel, "released on every path to every return", "%d path(s): every acquisition is released before every non-panicking exit")
	emit(loopInv, "same lock state at every loop iteration boundary", "%d iteration path(s): lock state unchanged across an iteration")
	emit(writes, "write holds the write lock", "%d path(s) reach the write, all holding Lock")

	// deferred unlocks inside loops (syntactic: a defer runs at function exit, not at the end of the iteration)
	var visit func(n ast.Node, loop ast.Stmt)
	nDefer := map[string]int{}
	visit = func(n ast.Node, loop ast.Stmt) {
		ast.Inspect(n, func(m ast.Node) bool {
			if m == n {
				return true
			}
			switch x := m.(type) {
			case *ast.FuncLit:
				return false
			case *ast.ForStmt:
				visit(x.Body, x)
				return false
			case *ast.RangeStmt:
				visit(x.Body, x)
				return false
			case *ast.DeferStmt:
				var ops []vmMutexOp
				var scan func(n ast.Node, depth int)
				scan = func(n ast.Node, depth int) {
					ast.Inspect(n, func(k ast.Node) bool {
						if call, ok := k.(*ast.CallExpr); ok {
							f := CalleeOf(info, call)
							if mo, ok := vmMutexOpOf(info, vmEv{K: evCall, Fn: f, Call: call}); ok && (mo.op == "Unlock" || mo.op == "RUnlock") {
								ops = append(ops, mo)
							}
							// a deferred unlock helper
							if depth < 3 && wr.isWrapper(f) {
								scan(wr.byObj[f.Origin()].fd.Body, depth+1)
							}
						}
						return true
					})
				}
				scan(x.Call, 0)
				for _, mo := range ops {
					nDefer[mo.name]++
					key := fmt.Sprintf("%s|%s|deferred %s #%d is not inside a loop", fn.name, mo.name, mo.op, nDefer[mo.name])
					ob := Obligation{Key: key, Pos: c.Pos(x.Pos()), Status: Discharged, Detail: "the deferred unlock is registered once per call"}
					if loop != nil {
						ob.Status = Violated
						ob.Detail = fmt.Sprintf("`defer …%s()` inside the loop at %s: deferred calls run when the function returns, so every iteration acquires the lock again and none is released until then (unbounded read-lock accumulation; writers starve while the loop runs)", mo.op, c.Pos(loop.Pos()))
					}
					obs = append(obs, ob)
				}
				return false
			}
			return true
		})
	}
	visit(fn.fd.Body, nil)
	return obs
}

type vmAcc struct {
	pos   token.Pos
	paths int
	bad   []string
	und   []string
	note  []string
}
