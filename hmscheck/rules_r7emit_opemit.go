package main

// R-operator-emission (r7emit): whether an operator's instruction is emitted
// does not depend on the static type of an operand.

import (
	"fmt"
	"go/ast"
	"go/types"
	"sort"
	"strings"
)

func init() {
	register(&Rule{ID: "R-operator-emission", Floor: 2, Run: ruleR7OperatorEmission,
		Doc: "operator lowering is decided by the operator, not by operand types: an operator emitter is a compiler method that takes a value of an operator enumeration of the AST packages and emits the instruction for it. For every call site of an operator emitter inside a clause of a kind dispatcher (or a plain function), every non-panicking path through the same clause that does NOT reach an operator-emitter call must not have decided a condition on the static type of a node (a call of the node's Type() method): the interpreter applies the operator to whatever value the operand produced, so skipping the instruction for some operand types changes the result exactly for those (`?x` with x: ?int must produce ??int, Some(Some(..)); without Opcode_Some the VM yields the operand itself). Skips decided by the operator itself (plain `=` needs no arithmetic) or by the node kind are fine. Necessary for C18 (VM and interpreter agree) / C01"})
}

func ruleR7OperatorEmission(c *Ctx) []Obligation {
	r2LoopCtx = c
	roles := vmCompRoles(c)
	// operator emitters
	isOpEnum := func(t types.Type) bool {
		n := vmNamed(t)
		if n == nil || n.Obj().Pkg() == nil || !strings.Contains(n.Obj().Pkg().Path(), "/ast") {
			return false
		}
		return c.EnumOf(t) != nil && strings.Contains(n.Obj().Name(), "Operator")
	}
	opEmit := map[*types.Func]bool{}
	for _, fn := range roles.fns {
		obj, _ := fn.info.Defs[fn.fd.Name].(*types.Func)
		if obj == nil || !roles.emitters[obj] {
			continue
		}
		sig := obj.Type().(*types.Signature)
		for i := 0; i < sig.Params().Len(); i++ {
			if isOpEnum(sig.Params().At(i).Type()) {
				opEmit[obj] = true
			}
		}
	}
	var obs []Obligation
	total := 0
	for _, fn := range roles.fns {
		info := fn.info
		self, _ := info.Defs[fn.fd.Name].(*types.Func)
		var sites []*ast.CallExpr
		ast.Inspect(fn.fd.Body, func(n ast.Node) bool {
			if call, ok := n.(*ast.CallExpr); ok {
				if g := CalleeOf(info, call); g != nil && opEmit[g] && g != self {
					sites = append(sites, call)
				}
			}
			return true
		})
		if len(sites) == 0 {
			continue
		}
		mentionsType := func(e ast.Expr) string {
			out := ""
			ast.Inspect(e, func(n ast.Node) bool {
				if call, ok := n.(*ast.CallExpr); ok {
					if g := CalleeOf(info, call); g != nil && g.Name() == "Type" && g.Type().(*types.Signature).Recv() != nil && g.Pkg() != nil && strings.Contains(g.Pkg().Path(), "/ast") {
						out = exprStr(e)
					}
				}
				return out == ""
			})
			return out
		}
		relevant := func(n ast.Node) bool {
			call, ok := n.(*ast.CallExpr)
			if !ok {
				return false
			}
			g := CalleeOf(info, call)
			if g == nil {
				if id, ok := call.Fun.(*ast.Ident); ok {
					if b, isB := info.Uses[id].(*types.Builtin); isB && b.Name() == "panic" {
						return true
					}
				}
				return false
			}
			return opEmit[g] || (g.Name() == "Type" && g.Pkg() != nil && strings.Contains(g.Pkg().Path(), "/ast"))
		}
		res := vmWalk(vmWalkOpts{fn: fn, correlate: true, replace: vmSlicer(relevant), maxPaths: 50000})
		if res.overflow {
			obs = append(obs, Obligation{Key: fn.name + "|<paths>", Pos: c.Pos(fn.fd.Pos()), Status: Undecided, Detail: "path cap exceeded"})
			continue
		}
		tops := vmTopPosSet(c, fn)
		// group the sites by clause
		byUnit := map[string][]*ast.CallExpr{}
		var unitNames []string
		for _, s := range sites {
			u := r2EnclosingClause(c, fn, s.Pos())
			if _, ok := byUnit[u]; !ok {
				unitNames = append(unitNames, u)
			}
			byUnit[u] = append(byUnit[u], s)
		}
		sort.Strings(unitNames)
		for _, u := range unitNames {
			total++
			key := fn.name
			if u != "" {
				key += "|" + u
			}
			ob := Obligation{Key: key + "|skipping the operator's instruction is not decided by an operand's static type", Pos: c.Pos(byUnit[u][0].Pos()), Nontrivial: true}
			var bad []string
			nReach, nSkip := 0, 0
			for i := range res.paths {
				p := &res.paths[i]
				if u != "" && vmUnitOf(info, tops, p) != u {
					continue
				}
				reached := false
				var typeConds []string
				for _, e := range p.ev {
					switch e.K {
					case evCall:
						if e.Fn != nil && opEmit[e.Fn] { // deferred emitter calls run at the exit of the clause: seen as well
							reached = true
						}
					case evCond:
						if t := mentionsType(e.X); t != "" {
							typeConds = append(typeConds, fmt.Sprintf("`%s`:%v", vmTrunc(t, 90), e.Taken))
						}
					}
				}
				if reached {
					// also when the walker classifies the rest of the path as panicking (an emitter that ends
					// in an "unreachable" panic behind its returns): the call was seen
					nReach++
					continue
				}
				if !vmNormalExit(p) {
					continue
				}
				nSkip++
				if len(typeConds) > 0 {
					bad = append(bad, fmt.Sprintf("path [%s] leaves the clause without emitting the operator after deciding %s", vmTrunc(p.decisions(), 160), strings.Join(typeConds, ", ")))
				}
			}
			switch {
			case nReach == 0:
				// the exploration does not see the call in this clause: nothing is concluded (the floor guards vacuity)
				ob.Status, ob.Nontrivial, ob.Detail = Info, false, "no explored path reaches the operator emitter: not judged"
			case len(bad) > 0:
				ob.Status = Violated
				ob.Detail = strings.Join(vmUniq(bad), " | ") + ". The interpreter applies the operator to whatever value the operand has; a lowering that omits the instruction for some static operand types computes something else for exactly those operands (`?x` with x: ?int: the VM yields x itself, the interpreter and the analyzer's type say Some(x))"
			default:
				ob.Status, ob.Detail = Discharged, fmt.Sprintf("%d path(s) emit the operator, %d skip it without a decision on a static type", nReach, nSkip)
			}
			obs = append(obs, ob)
		}
	}
	if total == 0 {
		obs = append(obs, Obligation{Key: "compiler|operator emitters", Status: Undecided, Detail: "no call of a compiler method taking an operator enumeration was found: re-anchor the rule"})
	}
	sort.SliceStable(obs, func(i, j int) bool { return obs[i].Key < obs[j].Key })
	return obs
}
