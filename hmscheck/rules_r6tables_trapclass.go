package main

// R-trap-class (C11, C04, C02): the operators of both engines refuse some
// operand values (zero divisor, negative shift count). Every such refusal is
// the same kind of failure: all operand-value guards of an engine's operator
// dispatch raise an interrupt of one class, and the two engines raise the same
// class. A guard that raises a catchable exception where its siblings raise a
// fatal error makes `try { x % 0 }` recover in one place only.

import (
	"fmt"
	"go/ast"
	"go/token"
	"go/types"
	"sort"
	"strings"

	"golang.org/x/tools/go/packages"
)

func init() {
	register(&Rule{ID: "R-trap-class", Floor: 8, Run: ruleTrapClass,
		Doc: "C11/C04/C02: an operand-value guard is an `if` in an engine's operator dispatch (the VM's run loop, the interpreter's infix evaluation) that compares the payload of an operand value with a constant and leaves with a freshly built interrupt (division or remainder by zero, negative shift count). (a) Within one engine all these guards build an interrupt of the same class — constructor class and error-kind constant, resolved through the engine's helper wrappers (`fatalErr(msg, kind, span)`) — because they refuse the same sort of thing; (b) the classes used by the VM and by the interpreter are the same. Whether a failure is fatal or catchable is part of the language: a remainder guard that raises a normal exception is caught by an enclosing `try` while the division guard next to it, and the other engine, end the run."})
}

type r6tGuard struct {
	where string
	pos   token.Pos
	class string
	cond  string
}

// r6tClass: class of the interrupt a call builds: "<interrupt class>[/<kind constants>]".
func r6tClass(l *mbLib, p *packages.Package, decls map[*types.Func]*ast.FuncDecl, call *ast.CallExpr, depth int) string {
	info := p.TypesInfo
	var kinds []string
	for _, a := range call.Args {
		if k := ConstOf(info, a); k != nil {
			if _, isNamed := types.Unalias(k.Type()).(*types.Named); isNamed {
				kinds = append(kinds, mbTwin(k.Name()))
			}
		}
	}
	suffix := ""
	if len(kinds) > 0 {
		suffix = "/" + strings.Join(kinds, ",")
	}
	if cls := l.errClassIn(info, call); cls != "" {
		return mbTwin(cls) + suffix
	}
	fn := CalleeOf(info, call)
	if fd := decls[fn]; fd != nil && depth < 3 {
		// an engine helper that builds the interrupt: its (single) class, plus the kinds given here
		classes := map[string]bool{}
		ast.Inspect(fd.Body, func(n ast.Node) bool {
			if _, ok := n.(*ast.FuncLit); ok {
				return false
			}
			r, ok := n.(*ast.ReturnStmt)
			if !ok || len(r.Results) == 0 {
				return true
			}
			if inner, ok := ast.Unparen(r.Results[len(r.Results)-1]).(*ast.CallExpr); ok {
				if c := r6tClass(l, p, decls, inner, depth+1); c != "" {
					classes[c] = true
				}
			}
			return true
		})
		if len(classes) == 1 {
			for c := range classes {
				// kinds passed through parameters show at this call, constants inside the helper show there
				if suffix != "" && !strings.Contains(c, "/") {
					return c + suffix
				}
				return c
			}
		}
	}
	return ""
}

// r6tGuards: the trapping Go operators (/ % << >> on non-constant operands) of an engine package and,
// for each, the classes of the interrupts its region can raise. The region is the innermost case
// clause around the operator (else the function body); interrupts built by in-package helpers the
// region calls (`checkDivisor(x)`, `divisionByZero()`) count as raised in the region.
func r6tGuards(c *Ctx, l *mbLib, rel string) ([]r6tGuard, string) {
	p := c.Pkg(rel)
	info := p.TypesInfo
	decls := map[*types.Func]*ast.FuncDecl{}
	for _, fd := range AllFuncDecls(p) {
		if fn, ok := info.Defs[fd.Name].(*types.Func); ok {
			decls[fn] = fd
		}
	}
	isIntr := func(t types.Type) bool {
		pt, ok := t.(*types.Pointer)
		return ok && types.Identical(pt.Elem(), l.intrT)
	}
	// classes of the fresh interrupts a node builds and returns
	var classesIn func(n ast.Node, depth int, into map[string]bool)
	classesIn = func(n ast.Node, depth int, into map[string]bool) {
		ast.Inspect(n, func(m ast.Node) bool {
			switch x := m.(type) {
			case *ast.FuncLit:
				return false
			case *ast.ReturnStmt:
				if len(x.Results) == 0 {
					return true
				}
				last := x.Results[len(x.Results)-1]
				if call, ok := ast.Unparen(last).(*ast.CallExpr); ok && isIntr(info.TypeOf(last)) {
					if cls := r6tClass(l, p, decls, call, 0); cls != "" {
						into[cls] = true
					}
				}
			case *ast.CallExpr:
				// a checking helper of the package: returns an interrupt (or nil) and nothing else
				fn := CalleeOf(info, x)
				fd := decls[fn]
				if fd == nil || depth >= 2 {
					return true
				}
				sig := fn.Type().(*types.Signature)
				if sig.Results().Len() != 1 || !isIntr(sig.Results().At(0).Type()) {
					return true
				}
				if cls := r6tClass(l, p, decls, x, 0); cls != "" {
					into[cls] = true
				} else {
					classesIn(fd.Body, depth+1, into)
				}
			}
			return true
		})
	}
	var out []r6tGuard
	for _, fd := range AllFuncDecls(p) {
		seen := map[string]int{}
		var stack []ast.Node
		ast.Inspect(fd.Body, func(n ast.Node) bool {
			if n == nil {
				stack = stack[:len(stack)-1]
				return true
			}
			stack = append(stack, n)
			var op token.Token
			var pos token.Pos
			var operands []ast.Expr
			switch x := n.(type) {
			case *ast.BinaryExpr:
				op, pos, operands = x.Op, x.OpPos, []ast.Expr{x.X, x.Y}
			case *ast.AssignStmt:
				switch x.Tok {
				case token.QUO_ASSIGN:
					op = token.QUO
				case token.REM_ASSIGN:
					op = token.REM
				case token.SHL_ASSIGN:
					op = token.SHL
				case token.SHR_ASSIGN:
					op = token.SHR
				}
				pos = x.TokPos
				operands = append(append([]ast.Expr(nil), x.Lhs...), x.Rhs...)
			}
			if op != token.QUO && op != token.REM && op != token.SHL && op != token.SHR {
				return true
			}
			// the divisor / count must not be a constant
			if tv := info.Types[operands[len(operands)-1]]; tv.Value != nil {
				return true
			}
			var region ast.Node = fd.Body
			where := strings.TrimPrefix(rel, "homescript/") + "." + FuncName(fd)
			for _, s := range stack {
				if cc, ok := s.(*ast.CaseClause); ok {
					region = cc
					if len(cc.List) > 0 {
						if k := ConstOf(info, cc.List[0]); k != nil {
							where += "/" + k.Name()
						}
					}
				}
			}
			classes := map[string]bool{}
			classesIn(region, 0, classes)
			if len(classes) == 0 {
				return true // no refusal in reach: whether one is needed is R-trap-guard's business
			}
			where += "|" + op.String()
			seen[where]++
			if seen[where] > 1 {
				where = fmt.Sprintf("%s #%d", where, seen[where])
			}
			out = append(out, r6tGuard{where: where, pos: pos, class: strings.Join(mbSortedKeys(classes), "+"), cond: "operator " + op.String()})
			return true
		})
	}
	return out, ""
}

func ruleTrapClass(c *Ctx) []Obligation {
	var obs []Obligation
	vm := mbLoadLib(c, mbRelVM, "vm")
	in := mbLoadLib(c, mbRelInterp, "interp")
	sets := map[string]map[string]bool{}
	for _, side := range []struct {
		l   *mbLib
		rel string
	}{{vm, mbRelVMEngine}, {in, mbRelInEngine}} {
		gs, _ := r6tGuards(c, side.l, side.rel)
		count := map[string]int{}
		for _, g := range gs {
			count[g.class]++
		}
		major, best := "", 0
		for _, cl := range mbSortedKeysInt(count) {
			if count[cl] > best {
				major, best = cl, count[cl]
			}
		}
		sets[side.l.tag] = map[string]bool{}
		for _, g := range gs {
			sets[side.l.tag][g.class] = true
			o := Obligation{Key: "trapclass|" + side.l.tag + "|" + g.where, Pos: c.Pos(g.pos), Nontrivial: true}
			switch {
			case strings.HasPrefix(g.class, "?"):
				o.Status, o.Detail = Undecided, "cannot resolve the interrupt class built under `"+g.cond+"`: "+g.class
			case g.class == major:
				o.Status, o.Detail = Discharged, fmt.Sprintf("the refusals around %s raise %s, like the other %d trapping operator(s) of the %s engine", g.cond, g.class, best-1, side.l.tag)
			default:
				o.Status = Violated
				o.Detail = fmt.Sprintf("the refusals around %s raise %s while the other trapping operators of the %s engine raise %s: this refusal is caught (or not) by `try` differently from its siblings and from the other engine", g.cond, g.class, side.l.tag, major)
			}
			obs = append(obs, o)
		}
		if len(gs) == 0 {
			obs = append(obs, Obligation{Key: "trapclass|" + side.l.tag + "|guards", Status: Undecided, Pos: "?", Detail: "no operand-value guard found in " + side.rel})
		}
	}
	a, b := mbSortedKeys(sets["vm"]), mbSortedKeys(sets["interp"])
	o := Obligation{Key: "trapclass|twins|classes agree", Pos: "?", Nontrivial: true}
	sort.Strings(a)
	sort.Strings(b)
	if strings.Join(a, " ") == strings.Join(b, " ") {
		o.Status, o.Detail = Discharged, "both engines refuse operand values with {"+strings.Join(a, ", ")+"}"
	} else {
		o.Status, o.Detail = Violated, "the VM refuses operand values with {"+strings.Join(a, ", ")+"}, the interpreter with {"+strings.Join(b, ", ")+"}"
	}
	obs = append(obs, o)
	return obs
}
