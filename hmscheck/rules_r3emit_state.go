package main

// Round 3 additions of the emit / VM-state group:
//   * R-mangle-unique: "taking a fresh number" from a name counter is atomic
//     with respect to re-entrant compilation (r3emTakeAtomic);
//   * R-vm-typestate: typestate of Core.Run — the normal-completion signal is
//     sent only with an empty call stack, a routine that ends without Return
//     pops exactly one frame, and searches over the VM's stacks select the
//     innermost matching entry (r3emRunObligations).

import (
	"fmt"
	"go/ast"
	"go/token"
	"go/types"
	"sort"
	"strings"
)

// ---------------------------------------------------------------- fresh-number atomicity

type r3emTakeState int

const (
	r3emIdle r3emTakeState = iota
	r3emTaken
	r3emAdvanced
	r3emAdvancedStale
	r3emPaired
)

// r3emTakeAtomic: for every name counter of compiler.Compiler (scalar or
// map-valued) and every function that touches it, on every path the read of
// the counter (the number that goes into a name) and the advance of the
// counter are not separated by a call that can — transitively — read the same
// counter, and a number that was read is followed by an advance.
func r3emTakeAtomic(c *Ctx, counters []*types.Var, isMap map[*types.Var]bool) []Obligation {
	roles := vmCompRoles(c)
	var obs []Obligation
	// touches[C]: functions mentioning the field
	touches := map[*types.Var]map[*types.Func]bool{}
	for _, f := range counters {
		touches[f] = map[*types.Func]bool{}
	}
	for _, fn := range roles.fns {
		obj, _ := fn.info.Defs[fn.fd.Name].(*types.Func)
		if obj == nil {
			continue
		}
		ast.Inspect(fn.fd.Body, func(n ast.Node) bool {
			if sel, ok := n.(*ast.SelectorExpr); ok {
				if f := vmFieldOf(fn.info, sel); f != nil && touches[f] != nil {
					touches[f][obj] = true
				}
			}
			return true
		})
	}
	reentrantMemo := map[*types.Var]map[*types.Func]bool{}
	reentrant := func(g *types.Func, f *types.Var) bool {
		if g == nil || roles.byObj[g] == nil {
			return false
		}
		if reentrantMemo[f] == nil {
			reentrantMemo[f] = map[*types.Func]bool{}
		}
		if v, ok := reentrantMemo[f][g]; ok {
			return v
		}
		v := touches[f][g]
		if !v {
			for h := range roles.reachableFrom(g) {
				if touches[f][h] {
					v = true
					break
				}
			}
		}
		reentrantMemo[f][g] = v
		return v
	}
	counterOf := func(info *types.Info, e ast.Expr) *types.Var {
		e = ast.Unparen(e)
		if f := vmFieldOf(info, e); f != nil && touches[f] != nil && !isMap[f] {
			return f
		}
		if ix, ok := e.(*ast.IndexExpr); ok {
			if f := vmFieldOf(info, ix.X); f != nil && touches[f] != nil && isMap[f] {
				return f
			}
		}
		return nil
	}
	for _, f := range counters {
		var fobjs []*types.Func
		for g := range touches[f] {
			fobjs = append(fobjs, g)
		}
		sort.Slice(fobjs, func(i, j int) bool { return roles.byObj[fobjs[i]].name < roles.byObj[fobjs[j]].name })
		for _, g := range fobjs {
			fn := roles.byObj[g]
			info := fn.info
			// constructors only initialise the field
			onlyInit := true
			ast.Inspect(fn.fd.Body, func(n ast.Node) bool {
				if sel, ok := n.(*ast.SelectorExpr); ok && vmFieldOf(info, sel) == f {
					onlyInit = false
				}
				return true
			})
			if onlyInit {
				continue
			}
			relevant := func(n ast.Node) bool {
				switch x := n.(type) {
				case *ast.SelectorExpr:
					return vmFieldOf(info, x) == f
				case *ast.CallExpr:
					h := CalleeOf(info, x)
					if h == nil {
						if id, ok := x.Fun.(*ast.Ident); ok {
							if b, isB := info.Uses[id].(*types.Builtin); isB && b.Name() == "panic" {
								return true
							}
						}
						return false
					}
					return reentrant(h, f) || vmAlwaysPanics(c, h)
				}
				return false
			}
			key := fmt.Sprintf("compiler.Compiler.%s|%s|a fresh number is taken atomically: no call that can read the counter runs between reading it and advancing it", f.Name(), fn.name)
			ob := Obligation{Key: key, Pos: c.Pos(fn.fd.Pos()), Nontrivial: true}
			res := vmWalk(vmWalkOpts{fn: fn, correlate: true, replace: vmSlicer(relevant)})
			if res.overflow {
				ob.Status, ob.Detail = Undecided, "path cap exceeded"
				obs = append(obs, ob)
				continue
			}
			var bad []string
			nTakes := 0
			mentions := func(n ast.Node) bool { return n != nil && vmMentionsField(info, n, f) }
			for i := range res.paths {
				p := &res.paths[i]
				if p.o.kind == cPanic {
					continue
				}
				st := r3emIdle
				var readAt token.Pos
				reported := false
				report := func(msg string) {
					if !reported {
						bad = append(bad, fmt.Sprintf("%s (path [%s])", msg, vmTrunc(p.decisions(), 160)))
						reported = true
					}
				}
				read := func(pos token.Pos) {
					switch st {
					case r3emIdle:
						st, readAt = r3emTaken, pos
						nTakes++
					case r3emAdvanced:
						st = r3emPaired
						nTakes++
					case r3emAdvancedStale:
						report(fmt.Sprintf("the counter is read @%s after it was advanced and after a call that can itself take a number: the value read is the number of the nested activation", c.Pos(pos)))
						st = r3emPaired
					}
				}
				advance := func() {
					switch st {
					case r3emTaken:
						st = r3emIdle
					default:
						st = r3emAdvanced
					}
				}
				for _, e := range p.ev {
					if e.Deferred {
						continue
					}
					switch e.K {
					case evIncDec:
						if counterOf(info, e.X) == f {
							advance()
						}
					case evAssign:
						if counterOf(info, e.Lhs) == f {
							advance()
						} else if mentions(e.Rhs) {
							read(e.Pos)
						}
					case evCond:
						if mentions(e.X) {
							read(e.Pos)
						}
					case evRet:
						if e.Ret != nil {
							for _, r := range e.Ret.Results {
								if mentions(r) {
									read(e.Pos)
								}
							}
						}
					case evCall:
						for _, a := range e.Call.Args {
							if mentions(a) {
								read(e.Pos)
							}
						}
						if e.Fn != nil && reentrant(e.Fn, f) {
							switch st {
							case r3emTaken:
								report(fmt.Sprintf("%s() @%s runs between the read of the counter @%s and its advance; it can (transitively) reach %s and take the SAME number: two constructs receive one name (a function literal nested in a function literal would replace its parent's function record; a repeated label retargets jumps)", e.Fn.Name(), c.Pos(e.Pos), c.Pos(readAt), r3emReaders(roles, touches[f], e.Fn)))
							case r3emAdvanced:
								st = r3emAdvancedStale
							case r3emPaired:
								st = r3emIdle
							}
						}
					}
				}
				if st == r3emTaken {
					report(fmt.Sprintf("the counter is read @%s but not advanced before the function returns (%s): the next reader receives the same number", c.Pos(readAt), p.exitStr(c)))
				}
			}
			switch {
			case len(bad) > 0:
				ob.Status, ob.Detail = Violated, strings.Join(vmUniq(bad), " | ")
			default:
				ob.Status, ob.Detail = Discharged, fmt.Sprintf("%d path(s), %d take(s): every read is paired with an advance and no re-entrant call separates them", len(res.paths), nTakes)
			}
			obs = append(obs, ob)
		}
	}
	return obs
}

func r3emReaders(roles *vmCompilerRoles, touch map[*types.Func]bool, g *types.Func) string {
	var out []string
	if touch[g] {
		out = append(out, g.Name())
	}
	for h := range roles.reachableFrom(g) {
		if touch[h] {
			out = append(out, h.Name())
		}
	}
	sort.Strings(out)
	return strings.Join(vmUniq(out), "/")
}

// ---------------------------------------------------------------- typestate of Core.Run

// r3emEmptyTest: the condition event tests the emptiness of slice field f;
// returns (isTest, decidedEmpty).
func r3emEmptyTest(c *Ctx, info *types.Info, e vmEv, f *types.Var, lenVars map[types.Object]bool) (bool, bool) {
	if e.K != evCond {
		return false, false
	}
	be, ok := ast.Unparen(e.X).(*ast.BinaryExpr)
	if !ok {
		// a predicate helper: `func (c *Core) done() bool { return len(c.CallStack) == 0 }`
		if call, isCall := ast.Unparen(e.X).(*ast.CallExpr); isCall && c != nil {
			if callee := vmDeclIndex(c).of(CalleeOf(info, call)); callee != nil && len(callee.fd.Body.List) == 1 {
				if ret, isRet := callee.fd.Body.List[0].(*ast.ReturnStmt); isRet && len(ret.Results) == 1 {
					inner := vmEv{K: evCond, X: ret.Results[0], Taken: e.Taken, Pos: e.Pos}
					if u, isNot := ast.Unparen(ret.Results[0]).(*ast.UnaryExpr); isNot && u.Op == token.NOT {
						inner.X, inner.Taken = u.X, !e.Taken
					}
					return r3emEmptyTest(c, callee.info, inner, f, nil)
				}
			}
		}
		return false, false
	}
	x, y, op := be.X, be.Y, be.Op
	isLen := func(z ast.Expr) bool {
		if a := r2IsLenOf(info, z); a != nil && vmFieldOf(info, a) == f {
			return true
		}
		if o := vmObjOf(info, vmStripConv(info, z)); o != nil && lenVars[o] {
			return true
		}
		return false
	}
	if !isLen(x) && isLen(y) {
		// k OP len  →  len OP' k
		x, y = y, x
		switch op {
		case token.LSS:
			op = token.GTR
		case token.LEQ:
			op = token.GEQ
		case token.GTR:
			op = token.LSS
		case token.GEQ:
			op = token.LEQ
		}
	}
	if !isLen(x) {
		return false, false
	}
	k, isC := r2ConstInt(info, y)
	if !isC {
		return false, false
	}
	switch {
	case op == token.GTR && k == 0, op == token.GEQ && k == 1, op == token.NEQ && k == 0:
		return true, !e.Taken
	case op == token.EQL && k == 0, op == token.LSS && k == 1, op == token.LEQ && k == 0:
		return true, e.Taken
	}
	return false, false
}

func r3emRunObligations(c *Ctx, r *vmVMRoles, cs *r2FieldSumm) []Obligation {
	fn := r.run
	info := fn.info
	rt := c.Pkg("homescript/runtime")
	callF := r.callStack.field
	sigF := vmStructField(rt, "Core", "SignalHandle")
	ipF := vmStructField(rt, "CallFrame", "InstructionPointer")
	if sigF == nil || ipF == nil {
		fatalf("anchor unresolved: runtime.Core.SignalHandle / CallFrame.InstructionPointer")
	}
	dispObj, _ := r.dispatch.info.Defs[r.dispatch.fd.Name].(*types.Func)
	prefix := fn.name + "|"
	var obs []Obligation

	// routine-end test: IP compared with len(routine)
	isInstrSlice := func(t types.Type) bool {
		if t == nil {
			return false
		}
		sl, ok := t.Underlying().(*types.Slice)
		if !ok {
			return false
		}
		n := vmNamed(sl.Elem())
		return n != nil && n.Obj().Name() == "Instruction" && n.Obj().Pkg() != nil && strings.HasSuffix(n.Obj().Pkg().Path(), "homescript/compiler")
	}
	// pastEnd: the condition event decides "instruction pointer is past the end of the routine"
	pastEnd := func(e vmEv) (isTest, past bool) {
		if e.K != evCond {
			return false, false
		}
		be, ok := ast.Unparen(e.X).(*ast.BinaryExpr)
		if !ok {
			return false, false
		}
		x, y, op := be.X, be.Y, be.Op
		isIP := func(z ast.Expr) bool { return vmMentionsField(info, z, ipF) }
		isLenR := func(z ast.Expr) bool {
			a := r2IsLenOf(info, z)
			return a != nil && isInstrSlice(info.TypeOf(a))
		}
		if isLenR(x) && isIP(y) {
			x, y = y, x
			switch op {
			case token.LSS:
				op = token.GTR
			case token.LEQ:
				op = token.GEQ
			case token.GTR:
				op = token.LSS
			case token.GEQ:
				op = token.LEQ
			}
		}
		if !isIP(x) || !isLenR(y) {
			return false, false
		}
		switch op {
		case token.GEQ, token.EQL, token.GTR:
			return true, e.Taken
		case token.LSS, token.NEQ, token.LEQ:
			return true, !e.Taken
		}
		return false, false
	}

	relevant := func(n ast.Node) bool {
		switch x := n.(type) {
		case *ast.SendStmt:
			return true
		case *ast.SelectorExpr:
			f := vmFieldOf(info, x)
			return f == callF || f == ipF
		case *ast.CallExpr:
			g := CalleeOf(info, x)
			if g == nil {
				if id, ok := x.Fun.(*ast.Ident); ok {
					if b, isB := info.Uses[id].(*types.Builtin); isB && b.Name() == "panic" {
						return true
					}
				}
				return false
			}
			if g == dispObj {
				return true
			}
			if d, u := cs.call(g); d != 0 || u {
				return true
			}
			if callee := vmDeclIndex(c).of(g); callee != nil && vmMentionsField(callee.info, callee.fd.Body, callF) {
				return true
			}
			return vmAlwaysPanics(c, g)
		}
		return false
	}
	// helpers that wrap the send on the signal channel (`func (c *Core) signal(i) { c.SignalHandle <- i }`)
	// are spliced into the walk
	sendsSignal := func(g *vmFn) bool {
		found := false
		ast.Inspect(g.fd.Body, func(n ast.Node) bool {
			if ss, ok := n.(*ast.SendStmt); ok && vmFieldOf(g.info, ss.Chan) == sigF {
				found = true
			}
			return !found
		})
		return found
	}
	inlineSend := func(callee *vmFn, call *ast.CallExpr) bool {
		return callee.fd != fn.fd && len(callee.fd.Body.List) <= 4 && sendsSignal(callee)
	}
	relevant0 := relevant
	relevant = func(n ast.Node) bool {
		if relevant0(n) {
			return true
		}
		if call, ok := n.(*ast.CallExpr); ok {
			if callee := vmDeclIndex(c).of(CalleeOf(info, call)); callee != nil && inlineSend(callee, call) {
				return true
			}
		}
		return false
	}
	res := vmWalk(vmWalkOpts{fn: fn, correlate: true, replace: vmSlicer(relevant), inline: inlineSend})
	if res.overflow {
		return []Obligation{{Key: prefix + "<paths>", Pos: c.Pos(fn.fd.Pos()), Status: Undecided, Detail: "path cap exceeded"}}
	}
	for _, p := range res.unsupported {
		obs = append(obs, Obligation{Key: prefix + "<unsupported control flow>", Pos: c.Pos(p), Status: Undecided, Detail: "goto/fallthrough in Core.Run"})
	}

	// (1) nil is signalled only with an empty call stack
	{
		ob := Obligation{Key: prefix + "normal completion (nil) is signalled only when the call stack is empty", Pos: c.Pos(fn.fd.Pos()), Nontrivial: true}
		var bad []string
		nNil := 0
		for i := range res.paths {
			p := &res.paths[i]
			lenVars := map[types.Object]bool{}
			for j, e := range p.ev {
				if e.K == evAssign && e.Rhs != nil {
					if a := r2IsLenOf(info, e.Rhs); a != nil && vmFieldOf(info, a) == callF {
						if o := vmObjOf(info, e.Lhs); o != nil {
							lenVars[o] = true
						}
					}
				}
				if e.K != evSend || vmFieldOf(info, e.X) != sigF {
					continue
				}
				sent := e.Val
				if res.binds != nil {
					// the value may be the parameter of a spliced send helper
					sent, _, _ = vmResolveAt(info, res.binds, p.ev, j, e.Val)
				}
				if !vmIsNil(info, sent) {
					continue
				}
				nNil++
				ob.Pos = c.Pos(e.Pos)
				why := "no test of the call stack precedes the signal"
				okEmpty := false
			scan:
				for k := j - 1; k >= 0; k-- {
					m := p.ev[k]
					if isT, empty := r3emEmptyTest(c, info, m, callF, lenVars); isT {
						if empty {
							okEmpty = true
						} else {
							why = fmt.Sprintf("the last test of the call stack on the path (`%s` @%s) found it NON-empty", exprStr(m.X), c.Pos(m.Pos))
						}
						break scan
					}
					switch m.K {
					case evCall:
						if m.Fn == nil || m.Deferred {
							continue
						}
						if m.Fn == dispObj {
							why = fmt.Sprintf("an instruction was dispatched @%s after the last emptiness test", c.Pos(m.Pos))
							break scan
						}
						if d, u := cs.call(m.Fn); d > 0 || u {
							why = fmt.Sprintf("%s() @%s pushes a frame after the last emptiness test", m.Fn.Name(), c.Pos(m.Pos))
							break scan
						}
					case evAssign:
						if vmFieldOf(info, vmBaseOfIndex(m.Lhs)) == callF {
							if d, ok := vmSliceWrite(info, m.Lhs, m.Rhs, callF); !ok || d > 0 {
								why = fmt.Sprintf("the call stack is written @%s after the last emptiness test", c.Pos(m.Pos))
								break scan
							}
						}
					}
				}
				if !okEmpty {
					bad = append(bad, fmt.Sprintf("on the path [%s] the core signals normal completion @%s although frames may remain on the call stack: %s. The callers of the abandoned frames never resume (e.g. the entry module's @init chain stops after the first imported module's @init ran off its end, so later modules' globals stay uninitialised)", vmTrunc(p.decisions(), 300), c.Pos(e.Pos), why))
				}
			}
		}
		switch {
		case len(bad) > 0:
			bad = vmUniq(bad)
			sort.Slice(bad, func(i, j int) bool { return len(bad[i]) < len(bad[j]) })
			more := ""
			if len(bad) > 2 {
				more = fmt.Sprintf(" (+%d more paths)", len(bad)-2)
				bad = bad[:2]
			}
			ob.Status, ob.Detail = Violated, strings.Join(bad, " | ")+more
		case nNil == 0:
			ob.Status, ob.Detail = Undecided, "no path of Core.Run sends nil on the signal channel: the completion protocol changed; re-anchor the rule"
		default:
			ob.Status, ob.Detail = Discharged, fmt.Sprintf("%d path(s) send nil; on each the last call-stack-relevant event before the send is a test that found len(%s) == 0", nNil, vmFieldName(callF))
		}
		obs = append(obs, ob)
	}

	// (2) routine end without Return pops exactly one frame and dispatches nothing
	{
		ob := Obligation{Key: prefix + "a routine that ends without Return pops exactly one frame (like Opcode_Return) and the loop goes on", Pos: c.Pos(fn.fd.Pos()), Nontrivial: true}
		var bad []string
		n := 0
		all := append(append([]vmPath{}, res.paths...), res.iters...)
		for i := range all {
			p := &all[i]
			for j, e := range p.ev {
				isT, past := pastEnd(e)
				if !isT || !past {
					continue
				}
				ob.Pos = c.Pos(e.Pos)
				// the rest of this iteration
				end := len(p.ev)
				endsIter := false
				for k := j + 1; k < len(p.ev); k++ {
					if p.ev[k].K == evIter && p.ev[k].From <= j {
						end, endsIter = k, true
						break
					}
				}
				seg := p.ev[j+1 : end]
				eff := cs.trace(info, seg)
				dispatched := false
				for _, m := range seg {
					if m.K == evCall && m.Fn == dispObj {
						dispatched = true
					}
				}
				if !endsIter && i >= len(res.paths) {
					continue // iteration record that ends before this loop's boundary
				}
				n++
				switch {
				case len(eff.unknown) > 0:
					bad = append(bad, "undecided: "+strings.Join(eff.unknown, "; "))
				case dispatched:
					bad = append(bad, fmt.Sprintf("after `%s` found the instruction pointer past the end @%s an instruction is still dispatched", exprStr(e.X), c.Pos(e.Pos)))
				case eff.delta != -1:
					how := "the iteration ends"
					if !endsIter {
						how = "the loop is left (" + p.exitStr(c) + ")"
					}
					bad = append(bad, fmt.Sprintf("after `%s` found the instruction pointer past the end @%s the call stack changes by %+d (want -1) and %s: the caller of the finished routine is not resumed", exprStr(e.X), c.Pos(e.Pos), eff.delta, how))
				}
			}
		}
		switch {
		case len(bad) > 0:
			ob.Status, ob.Detail = Violated, strings.Join(vmUniq(bad), " | ")
			for _, b := range bad {
				if strings.HasPrefix(b, "undecided") {
					ob.Status = Undecided
				}
			}
		case n == 0:
			ob.Status, ob.Detail = Undecided, "Core.Run has no test of CallFrame.InstructionPointer against len(routine): how a routine that ends without Return is handled cannot be decided"
		default:
			ob.Status, ob.Detail = Discharged, fmt.Sprintf("%d path segment(s) behind the routine-end test: each pops exactly one frame and dispatches nothing", n)
		}
		obs = append(obs, ob)
	}
	return obs
}

// r3emStackSearches: loops over the VM's stacks (call stack, handler stack)
// that select an entry (early exit on a match and use of the index/element)
// must visit the innermost entry first.
func r3emStackSearches(c *Ctx, r *vmVMRoles, fields []*types.Var) []Obligation {
	var obs []Obligation
	for _, fn := range r.fns {
		info := fn.info
		count := map[string]int{}
		ast.Inspect(fn.fd.Body, func(n ast.Node) bool {
			s, ok := n.(ast.Stmt)
			if !ok {
				return true
			}
			switch s.(type) {
			case *ast.ForStmt, *ast.RangeStmt:
			default:
				return true
			}
			l := r2LoopOf(info, s)
			if l == nil || l.coll == nil {
				return true
			}
			var f *types.Var
			for _, cand := range fields {
				if vmFieldOf(info, l.coll) == cand {
					f = cand
				}
			}
			if f == nil {
				return true
			}
			base := fmt.Sprintf("%s|loop over %s", fn.name, vmFieldName(f))
			count[base]++
			if count[base] > 1 {
				base += fmt.Sprintf(" #%d", count[base])
			}
			ob := Obligation{Key: base + "|an entry is selected innermost-first", Pos: c.Pos(s.Pos()), Nontrivial: true}
			// early exit of THIS loop: break not nested in an inner loop/switch, labelled break, return
			early := ""
			var walk func(n ast.Node, nested bool)
			walk = func(n ast.Node, nested bool) {
				ast.Inspect(n, func(m ast.Node) bool {
					if early != "" || m == nil {
						return false
					}
					if m != n {
						switch y := m.(type) {
						case *ast.FuncLit:
							return false
						case *ast.ForStmt, *ast.RangeStmt, *ast.SwitchStmt, *ast.TypeSwitchStmt, *ast.SelectStmt:
							walk(y, true)
							return false
						}
					}
					switch y := m.(type) {
					case *ast.ReturnStmt:
						early = "return"
					case *ast.BranchStmt:
						if y.Tok == token.BREAK && (!nested || y.Label != nil) {
							early = "break"
						}
					}
					return early == ""
				})
			}
			walk(l.body, false)
			// does the body use the index / element beyond the match test?
			uses := false
			ast.Inspect(l.body, func(m ast.Node) bool {
				switch y := m.(type) {
				case *ast.AssignStmt:
					for _, rh := range y.Rhs {
						if (l.idx != nil && vmMentionsObj(info, rh, l.idx)) || (l.val != nil && vmMentionsObj(info, rh, l.val)) {
							uses = true
						}
					}
				case *ast.ReturnStmt:
					for _, rh := range y.Results {
						if (l.idx != nil && vmMentionsObj(info, rh, l.idx)) || (l.val != nil && vmMentionsObj(info, rh, l.val)) {
							uses = true
						}
					}
				}
				return true
			})
			switch {
			case early == "":
				ob.Status, ob.Detail = Discharged, "the loop visits every entry (no early exit): it selects nothing by position"
			case !uses:
				ob.Status, ob.Detail = Discharged, "early exit ("+early+") but neither the index nor the element flows out of the loop: an existence test, order-insensitive"
			case l.dir < 0:
				ob.Status, ob.Detail = Discharged, "descending search with early exit: the innermost matching entry is selected"
			case l.dir > 0:
				ob.Status = Violated
				ob.Detail = fmt.Sprintf("ascending search over %s that stops at the FIRST match (%s) and uses the matched position: it selects the OUTERMOST matching entry. The nearest dynamically enclosing handler / activation is the innermost one; when the matched function is active more than once (recursion) every activation above the outermost is discarded (their epilogues and PopTryLabel never run)", vmFieldName(f), early)
			default:
				ob.Status, ob.Detail = Undecided, "search loop with an unrecognised direction"
			}
			obs = append(obs, ob)
			return true
		})
	}
	return obs
}

// r3emPushOps: the opcodes whose dispatcher clause changes the operand stack
// by exactly +1 on every non-panicking, non-interrupt path without popping.
func r3emPushOps(c *Ctx) map[*types.Const]bool {
	r := vmRoles(c)
	fn := r.dispatch
	info := fn.info
	ss := r2NewFieldSumm(c, r.fns, r.stack.field, r.stack)
	relevant := func(n ast.Node) bool {
		switch x := n.(type) {
		case *ast.CallExpr:
			g := CalleeOf(info, x)
			if g == nil {
				if id, ok := x.Fun.(*ast.Ident); ok {
					if b, isB := info.Uses[id].(*types.Builtin); isB && b.Name() == "panic" {
						return true
					}
				}
				return false
			}
			if d, u := ss.call(g); d != 0 || u {
				return true
			}
			return vmAlwaysPanics(c, g)
		case *ast.AssignStmt:
			for _, l := range x.Lhs {
				if vmFieldOf(info, vmBaseOfIndex(l)) == r.stack.field {
					return true
				}
			}
		}
		return false
	}
	res := vmWalk(vmWalkOpts{fn: fn, replace: vmSlicer(relevant)})
	out := map[*types.Const]bool{}
	if res.overflow {
		return out
	}
	tops := map[token.Pos]bool{r.dispSw.Pos(): true}
	type acc struct {
		n   int
		bad bool
	}
	byUnit := map[string]*acc{}
	for i := range res.paths {
		p := &res.paths[i]
		u := vmUnitOf(info, tops, p)
		if u == "" || u == "default" || p.o.kind == cPanic {
			continue
		}
		a := byUnit[u]
		if a == nil {
			a = &acc{}
			byUnit[u] = a
		}
		a.n++
		pops := false
		for _, e := range p.ev {
			if e.K == evCall && e.Fn != nil {
				if _, isPop := r.stack.pop[e.Fn]; isPop {
					pops = true
				}
			}
		}
		eff := ss.trace(info, p.ev)
		if len(eff.unknown) > 0 || eff.delta != 1 || pops {
			a.bad = true
		}
	}
	for _, cl := range r.dispSw.Body.List {
		cc := cl.(*ast.CaseClause)
		var names []string
		var ks []*types.Const
		for _, e := range cc.List {
			if k := ConstOf(info, e); k != nil {
				names = append(names, k.Name())
				ks = append(ks, k)
			}
		}
		if a := byUnit["case "+strings.Join(names, ",")]; a != nil && a.n > 0 && !a.bad {
			for _, k := range ks {
				out[k] = true
			}
		}
	}
	return out
}
