package main

// Interprocedural pieces of E4:
//  * post-conditions of pure boolean helpers ("inBounds" style results);
//  * the capacity invariant of a pre-sized slice field indexed through a
//    pointer field (Core.Memory / Core.MemoryPointer).

import (
	"fmt"
	"go/types"

	"golang.org/x/tools/go/ssa"
)

// gdAddSummaryFacts: when a dominating branch tests a boolean result of a pure
// module function, add the integer facts that result implies in the callee
// (evaluated in the callee frame of that call: parameters = arguments, memory
// as of the call).
func gdAddSummaryFacts(s *gdSolver, b *ssa.BasicBlock) {
	for _, f := range gdDomFacts(b) {
		var call *ssa.Call
		k := 0
		switch c := f.cond.(type) {
		case *ssa.Extract:
			call, _ = c.Tuple.(*ssa.Call)
			k = c.Index
		case *ssa.Call:
			call = c
		}
		if call == nil {
			continue
		}
		if bt, ok := f.cond.Type().Underlying().(*types.Basic); !ok || bt.Kind() != types.Bool {
			continue
		}
		ctx := s.ctxFor(call)
		if ctx == nil {
			continue
		}
		gdImpliedByResult(s, ctx, k, f.truth)
	}
}

// gdImpliedByResult adds the facts implied by "result k of ctx.callee == truth"
// when exactly one (return, phi edge) can produce that value.
func gdImpliedByResult(s *gdSolver, ctx *gdCallCtx, k int, truth bool) {
	type way struct {
		blk   *ssa.BasicBlock // block whose dominating facts hold
		cond  ssa.Value       // additional condition (may be nil)
		truth bool
	}
	var ways []way
	isConst := func(v ssa.Value) (bool, bool) {
		if c, ok := v.(*ssa.Const); ok && c.Value != nil {
			return c.Value.String() == "true", true
		}
		return false, false
	}
	for _, blk := range ctx.callee.Blocks {
		if len(blk.Instrs) == 0 {
			continue
		}
		r, ok := blk.Instrs[len(blk.Instrs)-1].(*ssa.Return)
		if !ok || k >= len(r.Results) {
			continue
		}
		rv := r.Results[k]
		if cv, ok := isConst(rv); ok {
			if cv == truth {
				ways = append(ways, way{blk: blk})
			}
			continue
		}
		if phi, ok := rv.(*ssa.Phi); ok && phi.Block() == blk {
			for i, e := range phi.Edges {
				if cv, ok := isConst(e); ok {
					if cv == truth {
						ways = append(ways, way{blk: blk.Preds[i]})
					}
					continue
				}
				ways = append(ways, way{blk: blk.Preds[i], cond: e, truth: truth})
			}
			continue
		}
		ways = append(ways, way{blk: blk, cond: rv, truth: truth})
	}
	if len(ways) != 1 {
		return
	}
	w := ways[0]
	for _, f := range gdDomFacts(w.blk) {
		s.addCondIn(f.cond, f.truth, ctx)
	}
	if w.cond != nil {
		s.addCondIn(w.cond, w.truth, ctx)
	}
}

// ---------------------------------------------------------------------------
// capacity invariant

// capacityInvariants: a slice field M of a struct T that is sized once, in a
// constructor, with make([]E, G) where the same G is stored in T (directly or
// as a field of a stored struct), and that is indexed with `int(P - rel)`
// where P is an integer field of T, stays in bounds only if P < G is
// re-established after every change of P. For every store to P outside the
// constructor: a dominated branch must compare P with G and its continuing
// edge must establish P < G (= len(M)).
func (env *gdTrapEnv) capacityInvariants(all []*ssa.Function) {
	type sized struct {
		m    *types.Var   // slice field
		gPth []*types.Var // field path of the capacity inside T (e.g. Limits.MaxMemorySize)
		ctor *ssa.Function
	}
	var found []sized
	// 1. constructors: Store(FieldAddr(t, M), MakeSlice(len = conv(X))) and Store(FieldAddr(t, L…), Y) with X derived from Y
	for _, fn := range all {
		for _, b := range fn.Blocks {
			for _, in := range b.Instrs {
				st, ok := in.(*ssa.Store)
				if !ok {
					continue
				}
				fa, ok := st.Addr.(*ssa.FieldAddr)
				if !ok {
					continue
				}
				mk, ok := st.Val.(*ssa.MakeSlice)
				if !ok {
					continue
				}
				if _, isConst := mk.Len.(*ssa.Const); isConst {
					continue
				}
				m := gdStructField(fa.X.Type(), fa.Field)
				// the length: a field chain of some value Y
				lp := gdPathOf(mk.Len)
				var chain []*types.Var
				okChain := true
				for _, sp := range lp.steps {
					if sp.kind == gdField {
						chain = append(chain, sp.field)
					} else if sp.kind != gdDeref {
						okChain = false
					}
				}
				if !okChain {
					continue
				}
				// find the sibling store of Y (or a prefix of the chain) into the same struct
				for _, in2 := range b.Instrs {
					st2, ok := in2.(*ssa.Store)
					if !ok || st2 == st {
						continue
					}
					fa2, ok := st2.Addr.(*ssa.FieldAddr)
					if !ok || fa2.X != fa.X {
						continue
					}
					yp := gdPathOf(st2.Val)
					if yp.root != lp.root {
						continue
					}
					var ychain []*types.Var
					okY := true
					for _, sp := range yp.steps {
						if sp.kind == gdField {
							ychain = append(ychain, sp.field)
						} else if sp.kind != gdDeref {
							okY = false
						}
					}
					if !okY || len(ychain) > len(chain) {
						continue
					}
					prefix := true
					for i := range ychain {
						if ychain[i] != chain[i] {
							prefix = false
						}
					}
					if prefix {
						g := append([]*types.Var{gdStructField(fa2.X.Type(), fa2.Field)}, chain[len(ychain):]...)
						found = append(found, sized{m: m, gPth: g, ctor: fn})
					}
				}
			}
		}
	}
	for _, sz := range found {
		// 2. M and the capacity path must not be written outside the constructor
		stable := true
		for _, fn := range all {
			if fn == sz.ctor {
				continue
			}
			for _, b := range fn.Blocks {
				for _, in := range b.Instrs {
					if st, ok := in.(*ssa.Store); ok {
						if fa, ok := st.Addr.(*ssa.FieldAddr); ok {
							f := gdStructField(fa.X.Type(), fa.Field)
							if f == sz.m {
								stable = false
							}
							for _, g := range sz.gPth {
								if f == g {
									stable = false
								}
							}
						}
					}
				}
			}
		}
		if !stable {
			continue
		}
		// 3. index sites M[int(P - rel)] → P
		bases := map[*types.Var]bool{}
		for _, fn := range all {
			for _, b := range fn.Blocks {
				for _, in := range b.Instrs {
					ia, ok := in.(*ssa.IndexAddr)
					if !ok || gdFieldOfPath(ia.X) != sz.m {
						continue
					}
					s := newGdSolver(&gdEq{mod: env.mod})
					l := s.lin(ia.Index)
					for a, c := range l.t {
						if c == 1 && !s.atoms[a].isLen {
							if f := gdFieldOfPath(s.atoms[a].v); f != nil && gdIsInteger(f.Type()) {
								bases[f] = true
							}
						}
					}
				}
			}
		}
		// 4. every store to P outside the constructor
		for p := range bases {
			for _, fn := range all {
				if fn == sz.ctor {
					continue
				}
				for _, b := range fn.Blocks {
					for _, in := range b.Instrs {
						st, ok := in.(*ssa.Store)
						if !ok {
							continue
						}
						fa, ok := st.Addr.(*ssa.FieldAddr)
						if !ok || gdStructField(fa.X.Type(), fa.Field) != p {
							continue
						}
						env.capacityStore(fn, st, fa, p, sz.m, sz.gPth)
					}
				}
			}
		}
	}
}

func (env *gdTrapEnv) capacityStore(fn *ssa.Function, st *ssa.Store, fa *ssa.FieldAddr, p, m *types.Var, gPth []*types.Var) {
	gName := ""
	for i, g := range gPth {
		if i > 0 {
			gName += "."
		}
		gName += g.Name()
	}
	what := fmt.Sprintf("%s bound: %s < %s = len(%s)", gdShort(env.nm.exprAt(st.Pos()), 50), p.Name(), gName, m.Name())
	// a value of P read after the store, with nothing in between
	var reload func(v ssa.Value) bool
	reload = func(v ssa.Value) bool {
		pp := gdPathOf(v)
		if len(pp.steps) < 2 {
			return false
		}
		last := pp.steps[len(pp.steps)-1]
		return last.kind == gdField && last.field == p
	}
	isCap := func(v ssa.Value) bool {
		pp := gdPathOf(v)
		var chain []*types.Var
		for _, sp := range pp.steps {
			if sp.kind == gdField {
				chain = append(chain, sp.field)
			}
		}
		if len(chain) < len(gPth) {
			return false
		}
		chain = chain[len(chain)-len(gPth):]
		for i := range gPth {
			if chain[i] != gPth[i] {
				return false
			}
		}
		return true
	}
	eq := &gdEq{mod: env.mod}
	// candidate guards: Ifs dominated by the store comparing P with the capacity
	for _, b := range fn.Blocks {
		if !st.Block().Dominates(b) || len(b.Instrs) == 0 {
			continue
		}
		iff, ok := b.Instrs[len(b.Instrs)-1].(*ssa.If)
		if !ok {
			continue
		}
		cmp, ok := iff.Cond.(*ssa.BinOp)
		if !ok {
			continue
		}
		var pv, gv ssa.Value
		switch {
		case reload(cmp.X) && isCap(cmp.Y):
			pv, gv = cmp.X, cmp.Y
		case reload(cmp.Y) && isCap(cmp.X):
			pv, gv = cmp.Y, cmp.X
		default:
			continue
		}
		if b == st.Block() && gdIndexIn(b, iff) < gdIndexIn(b, st) {
			continue
		}
		// no further write of P between the store and the test
		pl, _ := gdStrip(pv).(*ssa.UnOp)
		if pl == nil {
			continue
		}
		clob := false
		rd := gdStep{kind: gdDeref, addr: pl.X, isFA: true, at: pl}
		for _, in := range gdRegion(st, pl) {
			if eq.clobbers(in, rd) {
				clob = true
			}
		}
		if clob {
			continue
		}
		// which edge establishes P < G ?
		for i, succ := range b.Succs {
			s := newGdSolver(eq)
			s.addCond(iff.Cond, i == 0)
			goal := s.lin(pv).add(s.lin(gv), -1).plus(1) // P - G + 1 <= 0
			if s.proveLE(goal) == gdProved {
				// the other edge must not fall through to the same continuation without stopping
				other := b.Succs[1-i]
				if gdEndsInReturnOrPanic(other) {
					env.add(fn, st.Pos(), what, Discharged, fmt.Sprintf("after the write the branch at %s continues only with %s; the other edge returns", env.c.Pos(iff.Cond.Pos()), s.factsString()))
					return
				}
				_ = succ
			}
		}
		env.add(fn, st.Pos(), what, Violated, fmt.Sprintf("the limit test at %s (%s %s %s) does not establish %s < %s on its continuing edge: %s[%s] can be indexed at len(%s)", env.c.Pos(iff.Cond.Pos()), p.Name(), cmp.Op, gName, p.Name(), gName, m.Name(), p.Name(), m.Name()))
		return
	}
	env.add(fn, st.Pos(), what, Violated, fmt.Sprintf("%s is written but no following test against %s (= len(%s)) exists in this function", p.Name(), gName, m.Name()))
}

// gdEndsInReturnOrPanic: every path from b reaches a return/panic without a
// join with other code (b and its unique-successor chain end in Return/Panic).
func gdEndsInReturnOrPanic(b *ssa.BasicBlock) bool {
	for i := 0; i < 8 && b != nil; i++ {
		if len(b.Instrs) == 0 {
			return false
		}
		switch b.Instrs[len(b.Instrs)-1].(type) {
		case *ssa.Return, *ssa.Panic:
			return true
		case *ssa.Jump:
			if len(b.Succs[0].Preds) != 1 {
				return false
			}
			b = b.Succs[0]
		default:
			return false
		}
	}
	return false
}
