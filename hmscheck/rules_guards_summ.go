package main

// Interprocedural pieces of E4:
//  * post-conditions of pure boolean helpers ("inBounds" style results);
//  * the capacity invariant of a pre-sized slice field indexed through a
//    pointer field (Core.Memory / Core.MemoryPointer).

import (
	"fmt"
	"go/constant"
	"go/token"
	"go/types"

	"golang.org/x/tools/go/ssa"
)

// gdWay: one way a call of a function can return: through the Return `ret`
// and — when a result of `ret` is a phi of the returning block — through the
// predecessor edge `edge` of that block. The branch decisions `facts()` hold (in
// the callee frame) whenever the call returns this way.
type gdWay struct {
	ret  *ssa.Return
	blk  *ssa.BasicBlock
	edge int // -1: no edge selection
}

func gdWaysOf(fn *ssa.Function) []gdWay {
	var out []gdWay
	for _, b := range fn.Blocks {
		if len(b.Instrs) == 0 {
			continue
		}
		r, ok := b.Instrs[len(b.Instrs)-1].(*ssa.Return)
		if !ok {
			continue
		}
		split := false
		for _, rv := range r.Results {
			if phi, ok := rv.(*ssa.Phi); ok && phi.Block() == b {
				split = true
			}
		}
		if split && len(b.Preds) > 0 {
			for i, p := range b.Preds {
				out = append(out, gdWay{ret: r, blk: p, edge: i})
			}
		} else {
			out = append(out, gdWay{ret: r, blk: b, edge: -1})
		}
	}
	return out
}

// result: the value of result k when the call returns this way (nil = no such result).
func (w gdWay) result(k int) ssa.Value {
	if k < 0 || k >= len(w.ret.Results) {
		return nil
	}
	rv := w.ret.Results[k]
	if phi, ok := rv.(*ssa.Phi); ok && w.edge >= 0 && phi.Block() == w.ret.Block() {
		return phi.Edges[w.edge]
	}
	return rv
}

func (w gdWay) facts() []gdFact {
	if w.edge >= 0 {
		return gdEdgeFacts(w.blk, w.ret.Block())
	}
	return gdDomFacts(w.blk)
}

// gdEdgeFacts: the branch decisions that hold whenever control passes from
// block p to its successor b: those dominating p, and p's own decision when p
// ends in an If whose two successors differ.
func gdEdgeFacts(p, b *ssa.BasicBlock) []gdFact {
	out := gdDomFacts(p)
	if len(p.Instrs) > 0 && len(p.Succs) == 2 && p.Succs[0] != p.Succs[1] {
		if iff, ok := p.Instrs[len(p.Instrs)-1].(*ssa.If); ok && (b == p.Succs[0] || b == p.Succs[1]) {
			out = append(out, gdNormFact(iff.Cond, b == p.Succs[0], iff))
		}
	}
	return out
}

// gdCallResult: v is result k of a static call.
func gdCallResult(v ssa.Value) (*ssa.Call, int) {
	switch x := v.(type) {
	case *ssa.Extract:
		if c, ok := x.Tuple.(*ssa.Call); ok {
			return c, x.Index
		}
	case *ssa.Call:
		if _, isTuple := x.Type().(*types.Tuple); !isTuple {
			return x, 0
		}
	}
	return nil, 0
}

// gdResCons: what a branch decision says about result k of a call: a boolean
// result has the value `truth`, or (isNil) a nil-able result is non-nil
// (truth) / nil (!truth).
type gdResCons struct {
	k     int
	isNil bool
	truth bool
}

// gdResultConstraints: the constraints the branch decisions dominating b put on
// the results of the calls they test.
func gdResultConstraints(b *ssa.BasicBlock) ([]*ssa.Call, map[*ssa.Call][]gdResCons) {
	var order []*ssa.Call
	m := map[*ssa.Call][]gdResCons{}
	add := func(call *ssa.Call, c gdResCons) {
		if _, ok := m[call]; !ok {
			order = append(order, call)
		}
		m[call] = append(m[call], c)
	}
	for _, f := range gdDomFacts(b) {
		if w, nonNil := gdNilCompare(f.cond, f.truth); w != nil {
			if call, k := gdCallResult(w); call != nil {
				add(call, gdResCons{k: k, isNil: true, truth: nonNil})
			}
			continue
		}
		if bt, ok := f.cond.Type().Underlying().(*types.Basic); !ok || bt.Kind() != types.Bool {
			continue
		}
		if call, k := gdCallResult(f.cond); call != nil {
			add(call, gdResCons{k: k, truth: f.truth})
		}
	}
	return order, m
}

func gdBoolConst(v ssa.Value) (bool, bool) {
	if c, ok := v.(*ssa.Const); ok && c.Value != nil && c.Value.Kind() == constant.Bool {
		return constant.BoolVal(c.Value), true
	}
	return false, false
}

// admits: returning this way is compatible with the constraint.
func (w gdWay) admits(c gdResCons) bool {
	v := w.result(c.k)
	if v == nil {
		return false
	}
	if c.isNil {
		if c.truth {
			return !gdIsNilConst(v)
		}
		return !gdNonNil(v, 0)
	}
	if cv, ok := gdBoolConst(v); ok {
		return cv == c.truth
	}
	return true
}

// gdAdmittedWays: the ways of fn compatible with every constraint.
func gdAdmittedWays(fn *ssa.Function, cons []gdResCons) []gdWay {
	var out []gdWay
	for _, w := range gdWaysOf(fn) {
		ok := true
		for _, c := range cons {
			if !w.admits(c) {
				ok = false
				break
			}
		}
		if ok {
			out = append(out, w)
		}
	}
	return out
}

// gdFrameStable: v (a value of a callee) is an expression over the callee's
// parameters and constants only — it reads no memory and calls nothing, so it
// has the same value whatever else the callee does (used for callees that are
// not pure).
func gdFrameStable(v ssa.Value, depth int) bool {
	if depth > 12 {
		return false
	}
	switch x := v.(type) {
	case *ssa.Const, *ssa.Parameter:
		return true
	case *ssa.BinOp:
		return gdFrameStable(x.X, depth+1) && gdFrameStable(x.Y, depth+1)
	case *ssa.UnOp:
		if x.Op == token.MUL {
			// a spilled parameter (`t0 = local T (p); *t0 = p`) or a field of it
			switch a := x.X.(type) {
			case *ssa.Alloc:
				return gdSpillOf(a) != nil
			case *ssa.FieldAddr:
				if al, ok := a.X.(*ssa.Alloc); ok {
					return gdSpillOf(al) != nil
				}
			}
			return false
		}
		if x.Op == token.ARROW {
			return false
		}
		return gdFrameStable(x.X, depth+1)
	case *ssa.Convert:
		return gdFrameStable(x.X, depth+1)
	case *ssa.ChangeType:
		return gdFrameStable(x.X, depth+1)
	case *ssa.Field:
		return gdFrameStable(x.X, depth+1)
	case *ssa.TypeAssert:
		return !x.CommaOk && gdFrameStable(x.X, depth+1)
	case *ssa.Call:
		if b, ok := x.Call.Value.(*ssa.Builtin); ok && (b.Name() == "len" || b.Name() == "cap") && len(x.Call.Args) == 1 {
			return gdFrameStable(x.Call.Args[0], depth+1)
		}
	}
	return false
}

func gdFrameStableCond(cond ssa.Value) bool {
	for {
		if u, ok := cond.(*ssa.UnOp); ok && u.Op == token.NOT {
			cond = u.X
			continue
		}
		break
	}
	b, ok := cond.(*ssa.BinOp)
	return ok && gdFrameStable(b.X, 0) && gdFrameStable(b.Y, 0)
}

// gdAddSummaryFacts: when the branches dominating b test results of a call of
// a module function (a boolean result, or a nil-able result against nil — the
// `if !inBounds(i, n)` / `if err := check(x); err != nil { return err }` forms
// of a guard) and exactly one way of returning is compatible with what they
// saw, add the integer facts that hold on that way, evaluated in the callee
// frame of that call (parameters = arguments, memory as of the call), and tie
// the call's other results to the values returned that way. For a callee that
// is not pure only facts over its parameters are taken.
func gdAddSummaryFacts(s *gdSolver, b *ssa.BasicBlock) {
	calls, cons := gdResultConstraints(b)
	for _, call := range calls {
		gdAddCallFacts(s, call, cons[call])
	}
}

// gdAddCallFacts: the facts implied by the constraints cons on the results of
// one call (see gdAddSummaryFacts).
func gdAddCallFacts(s *gdSolver, call *ssa.Call, cons []gdResCons) {
	gdAddCallFactsIn(s, call, cons, nil, 0)
}

// gdAddCallFactsIn: the same for a call made in frame outer (a helper that
// tests the boolean result of a further pure helper).
func gdAddCallFactsIn(s *gdSolver, call *ssa.Call, cons []gdResCons, outer *gdCallCtx, depth int) {
	ctx := s.frameForIn(call, outer)
	if ctx == nil {
		return
	}
	pure := s.ctxForIn(call, outer) != nil
	ways := gdAdmittedWays(ctx.callee, cons)
	if len(ways) != 1 {
		return
	}
	w := ways[0]
	addC := func(cond ssa.Value, truth bool) {
		if !pure && !gdFrameStableCond(cond) {
			return
		}
		if s.addCondIn(cond, truth, ctx) || !pure || depth >= 2 {
			return
		}
		nf := gdNormFact(cond, truth, nil)
		if bt, ok := nf.cond.Type().Underlying().(*types.Basic); !ok || bt.Kind() != types.Bool {
			return
		}
		if c2, k2 := gdCallResult(nf.cond); c2 != nil {
			gdAddCallFactsIn(s, c2, []gdResCons{{k: k2, truth: nf.truth}}, ctx, depth+1)
		}
	}
	for _, f := range w.facts() {
		addC(f.cond, f.truth)
	}
	for _, c := range cons {
		if c.isNil {
			continue
		}
		if v := w.result(c.k); v != nil {
			if _, isConst := gdBoolConst(v); !isConst {
				addC(v, c.truth)
			}
		}
	}
	// the other (integer) results of the call are the values returned that way
	tie := func(res ssa.Value, k int) {
		v := w.result(k)
		if v == nil || !gdIsInteger(res.Type()) || !(pure || gdFrameStable(v, 0)) {
			return
		}
		l := s.linIn(res, outer, 0).add(s.linIn(v, ctx, 0), -1)
		if len(l.t) == 0 && l.k == 0 {
			return
		}
		s.addLE(l)
		s.addLE(l.neg())
	}
	if _, isTuple := call.Type().(*types.Tuple); isTuple {
		if refs := call.Referrers(); refs != nil {
			for _, r := range *refs {
				if ex, ok := r.(*ssa.Extract); ok {
					tie(ex, ex.Index)
				}
			}
		}
	} else {
		tie(call, 0)
	}
}

// gdCtxFact: a branch decision of frame ctx.
type gdCtxFact struct {
	gdFact
	ctx *gdCallCtx
}

func gdInFrame(fs []gdFact, ctx *gdCallCtx, pre []gdCtxFact) []gdCtxFact {
	out := append([]gdCtxFact{}, pre...)
	for _, f := range fs {
		out = append(out, gdCtxFact{f, ctx})
	}
	return out
}

// gdAlt: one of the alternatives a value can come from: the value v of frame
// ctx, taken only when the branch decisions `facts` hold.
type gdAlt struct {
	v     ssa.Value
	ctx   *gdCallCtx
	facts []gdCtxFact
}

func gdPhiAlts(phi *ssa.Phi, ctx *gdCallCtx, pre []gdCtxFact) []gdAlt {
	var out []gdAlt
	for i, e := range phi.Edges {
		if i < len(phi.Block().Preds) {
			out = append(out, gdAlt{v: e, ctx: ctx, facts: gdInFrame(gdEdgeFacts(phi.Block().Preds[i], phi.Block()), ctx, pre)})
		}
	}
	return out
}

// resultAlts: the alternatives of the atom a as seen from block `use`:
//   - a phi: its edges (each under the decisions of its incoming edge);
//   - result k of a call of a pure module function: the values returned on the
//     ways of returning that are compatible with what the branches dominating
//     `use` saw of the call's results, evaluated in the callee frame; a returned
//     phi contributes its edges, a returned result of a further pure call that
//     call's alternatives (two levels).
//
// nil when a is neither.
func (s *gdSolver) resultAlts(a gdAtom, use *ssa.BasicBlock) []gdAlt {
	if a.isLen {
		return nil
	}
	if phi, ok := a.v.(*ssa.Phi); ok {
		return gdPhiAlts(phi, a.ctx, nil)
	}
	call, k := gdCallResult(a.v)
	if call == nil {
		return nil
	}
	var cons []gdResCons
	if a.ctx == nil {
		_, m := gdResultConstraints(use)
		cons = m[call]
	}
	return s.callAlts(call, k, a.ctx, cons, nil, 0)
}

func (s *gdSolver) callAlts(call *ssa.Call, k int, outer *gdCallCtx, cons []gdResCons, pre []gdCtxFact, depth int) []gdAlt {
	cc := s.ctxForIn(call, outer)
	if cc == nil {
		return nil
	}
	type altKey struct {
		v   ssa.Value
		blk *ssa.BasicBlock
		ctx *gdCallCtx
	}
	var out []gdAlt
	seen := map[altKey]int{}
	add := func(al gdAlt, blk *ssa.BasicBlock) {
		key := altKey{al.v, blk, al.ctx}
		if i, dup := seen[key]; dup {
			// the same value reached in two ways: only the decisions common to both hold
			var common []gdCtxFact
			for _, f := range out[i].facts {
				for _, g := range al.facts {
					if f.cond == g.cond && f.truth == g.truth && f.ctx == g.ctx {
						common = append(common, f)
						break
					}
				}
			}
			out[i].facts = common
			return
		}
		seen[key] = len(out)
		out = append(out, al)
	}
	for _, w := range gdAdmittedWays(cc.callee, cons) {
		v := w.result(k)
		if v == nil {
			return nil
		}
		if phi, ok := v.(*ssa.Phi); ok && phi.Parent() == cc.callee {
			for i, al := range gdPhiAlts(phi, cc, pre) {
				add(al, phi.Block().Preds[i])
			}
			continue
		}
		wf := gdInFrame(w.facts(), cc, pre)
		if c2, k2 := gdCallResult(v); c2 != nil && depth < 2 {
			if nested := s.callAlts(c2, k2, cc, nil, wf, depth+1); nested != nil {
				for _, al := range nested {
					add(al, c2.Block())
				}
				continue
			}
		}
		add(gdAlt{v: v, ctx: cc, facts: wf}, w.blk)
	}
	return out
}

// ---------------------------------------------------------------------------
// capacity invariant

// capacityInvariants: a slice field M of a struct T that is sized once, in a
// constructor, with make([]E, G) where the same G is stored in T (directly or
// as a field of a stored struct), and that is indexed with `int(P - rel)`
// where P is an integer field of T, stays in bounds only if P < G is
// re-established after every change of P. For every store to P outside the
// constructor: a dominated branch must compare P with G and its continuing
// edge must establish P < G (= len(M)).
func (env *gdTrapEnv) capacityInvariants(all []*ssa.Function) {
	type sized struct {
		m    *types.Var   // slice field
		gPth []*types.Var // field path of the capacity inside T (e.g. Limits.MaxMemorySize)
		ctor *ssa.Function
	}
	var found []sized
	// 1. constructors: Store(FieldAddr(t, M), MakeSlice(len = conv(X))) and Store(FieldAddr(t, L…), Y) with X derived from Y
	for _, fn := range all {
		for _, b := range fn.Blocks {
			for _, in := range b.Instrs {
				st, ok := in.(*ssa.Store)
				if !ok {
					continue
				}
				fa, ok := st.Addr.(*ssa.FieldAddr)
				if !ok {
					continue
				}
				mk, ok := st.Val.(*ssa.MakeSlice)
				if !ok {
					continue
				}
				if _, isConst := mk.Len.(*ssa.Const); isConst {
					continue
				}
				m := gdStructField(fa.X.Type(), fa.Field)
				// the length: a field chain of some value Y
				lp := gdPathOf(mk.Len)
				var chain []*types.Var
				okChain := true
				for _, sp := range lp.steps {
					if sp.kind == gdField {
						chain = append(chain, sp.field)
					} else if sp.kind != gdDeref {
						okChain = false
					}
				}
				if !okChain {
					continue
				}
				// find the sibling store of Y (or a prefix of the chain) into the same struct
				for _, in2 := range b.Instrs {
					st2, ok := in2.(*ssa.Store)
					if !ok || st2 == st {
						continue
					}
					fa2, ok := st2.Addr.(*ssa.FieldAddr)
					if !ok || fa2.X != fa.X {
						continue
					}
					yp := gdPathOf(st2.Val)
					if yp.root != lp.root {
						continue
					}
					var ychain []*types.Var
					okY := true
					for _, sp := range yp.steps {
						if sp.kind == gdField {
							ychain = append(ychain, sp.field)
						} else if sp.kind != gdDeref {
							okY = false
						}
					}
					if !okY || len(ychain) > len(chain) {
						continue
					}
					prefix := true
					for i := range ychain {
						if ychain[i] != chain[i] {
							prefix = false
						}
					}
					if prefix {
						g := append([]*types.Var{gdStructField(fa2.X.Type(), fa2.Field)}, chain[len(ychain):]...)
						found = append(found, sized{m: m, gPth: g, ctor: fn})
					}
				}
			}
		}
	}
	for _, sz := range found {
		// 2. M and the capacity path must not be written outside the constructor
		stable := true
		for _, fn := range all {
			if fn == sz.ctor {
				continue
			}
			for _, b := range fn.Blocks {
				for _, in := range b.Instrs {
					if st, ok := in.(*ssa.Store); ok {
						if fa, ok := st.Addr.(*ssa.FieldAddr); ok {
							f := gdStructField(fa.X.Type(), fa.Field)
							if f == sz.m {
								stable = false
							}
							for _, g := range sz.gPth {
								if f == g {
									stable = false
								}
							}
						}
					}
				}
			}
		}
		if !stable {
			continue
		}
		// 3. index sites M[int(P - rel)] → P
		bases := map[*types.Var]bool{}
		for _, fn := range all {
			for _, b := range fn.Blocks {
				for _, in := range b.Instrs {
					ia, ok := in.(*ssa.IndexAddr)
					if !ok || gdFieldOfPath(ia.X) != sz.m {
						continue
					}
					s := newGdSolver(&gdEq{mod: env.mod})
					l := s.lin(ia.Index)
					for a, c := range l.t {
						if c == 1 && !s.atoms[a].isLen {
							if f := gdFieldOfPath(s.atoms[a].v); f != nil && gdIsInteger(f.Type()) {
								bases[f] = true
							}
						}
					}
				}
			}
		}
		// 4. every store to P outside the constructor
		for p := range bases {
			for _, fn := range all {
				if fn == sz.ctor {
					continue
				}
				for _, b := range fn.Blocks {
					for _, in := range b.Instrs {
						st, ok := in.(*ssa.Store)
						if !ok {
							continue
						}
						fa, ok := st.Addr.(*ssa.FieldAddr)
						if !ok || gdStructField(fa.X.Type(), fa.Field) != p {
							continue
						}
						env.capacityStore(fn, st, fa, p, sz.m, sz.gPth)
					}
				}
			}
		}
	}
}

func (env *gdTrapEnv) capacityStore(fn *ssa.Function, st *ssa.Store, fa *ssa.FieldAddr, p, m *types.Var, gPth []*types.Var) {
	gName := ""
	for i, g := range gPth {
		if i > 0 {
			gName += "."
		}
		gName += g.Name()
	}
	what := fmt.Sprintf("%s bound: %s < %s = len(%s)", gdShort(env.nm.exprAt(st.Pos()), 50), p.Name(), gName, m.Name())
	eq := &gdEq{mod: env.mod}
	// P / capacity among the atoms of the facts of one branch edge: a read of the
	// field P (in the function itself, or in the frame of a pure helper the branch
	// calls — `if self.memoryExceeded() {…}`), and a read of the capacity path.
	isReload := func(pp gdPath) bool {
		if len(pp.steps) < 2 {
			return false
		}
		last := pp.steps[len(pp.steps)-1]
		return last.kind == gdField && last.field == p
	}
	isCapPath := func(pp gdPath) bool {
		var chain []*types.Var
		for _, sp := range pp.steps {
			if sp.kind == gdField {
				chain = append(chain, sp.field)
			}
		}
		if len(chain) < len(gPth) {
			return false
		}
		chain = chain[len(chain)-len(gPth):]
		for i := range gPth {
			if chain[i] != gPth[i] {
				return false
			}
		}
		return true
	}
	after := func(in ssa.Instruction) bool { // in executes after the store, on every path to it
		if in.Block() == st.Block() {
			return gdIndexIn(in.Block(), in) > gdIndexIn(st.Block(), st)
		}
		return st.Block().Dominates(in.Block())
	}
	// candidate guards: Ifs dominated by the store comparing P with the capacity
	for _, b := range fn.Blocks {
		if !st.Block().Dominates(b) || len(b.Instrs) == 0 {
			continue
		}
		iff, ok := b.Instrs[len(b.Instrs)-1].(*ssa.If)
		if !ok || len(b.Succs) != 2 {
			continue
		}
		if b == st.Block() && gdIndexIn(b, iff) < gdIndexIn(b, st) {
			continue
		}
		// the facts of the two edges
		var sol [2]*gdSolver
		var pAt, gAt [2]int
		how := ""
		isTest := false
		for i := 0; i < 2; i++ {
			s := newGdSolver(eq)
			nf := gdNormFact(iff.Cond, i == 0, iff)
			if call, k := gdCallResult(nf.cond); call != nil {
				if !after(call) {
					continue
				}
				gdAddCallFacts(s, call, []gdResCons{{k: k, truth: nf.truth}})
				if cal := call.Call.StaticCallee(); cal != nil {
					how = cal.Name() + "(): "
				}
			} else {
				s.addCond(nf.cond, nf.truth)
			}
			sol[i], pAt[i], gAt[i] = s, -1, -1
			for ai, a := range s.atoms {
				if a.isLen {
					continue
				}
				pp := gdPathIn(a.v, a.ctx)
				switch {
				case isReload(pp) && pAt[i] < 0:
					// no further write of P between the store and this read
					pl, _ := gdStrip(a.v).(*ssa.UnOp)
					if pl == nil || pl.Op != token.MUL {
						continue
					}
					var readAt ssa.Instruction = pl
					if a.ctx != nil {
						readAt = a.ctx.call
					}
					if !after(readAt) {
						continue
					}
					clob := false
					rd := gdStep{kind: gdDeref, addr: pl.X, isFA: true, at: readAt}
					for _, in := range gdRegion(st, readAt) {
						if eq.clobbers(in, rd) {
							clob = true
						}
					}
					if !clob {
						pAt[i] = ai
					}
				case isCapPath(pp) && gAt[i] < 0:
					gAt[i] = ai
				}
			}
			if pAt[i] >= 0 && gAt[i] >= 0 {
				isTest = true
			}
		}
		if !isTest {
			continue
		}
		// which edge establishes P < G ?
		for i := 0; i < 2; i++ {
			s := sol[i]
			if s == nil || pAt[i] < 0 || gAt[i] < 0 {
				continue
			}
			pl := gdLin{t: map[int]int64{pAt[i]: 1}}
			gl := gdLin{t: map[int]int64{gAt[i]: 1}}
			goal := pl.add(gl, -1).plus(1) // P - G + 1 <= 0
			if s.proveLE(goal) == gdProved {
				// the other edge must not fall through to the same continuation without stopping
				other := b.Succs[1-i]
				if gdEndsInReturnOrPanic(other) {
					env.add(fn, st.Pos(), what, Discharged, fmt.Sprintf("after the write the branch at %s continues only with %s%s; the other edge returns", env.c.Pos(iff.Cond.Pos()), how, s.factsString()))
					return
				}
			}
		}
		op := "test"
		if cmp, ok := iff.Cond.(*ssa.BinOp); ok {
			op = cmp.Op.String()
		}
		env.add(fn, st.Pos(), what, Violated, fmt.Sprintf("the limit test at %s (%s%s %s %s) does not establish %s < %s on its continuing edge: %s[%s] can be indexed at len(%s)", env.c.Pos(iff.Cond.Pos()), how, p.Name(), op, gName, p.Name(), gName, m.Name(), p.Name(), m.Name()))
		return
	}
	env.add(fn, st.Pos(), what, Violated, fmt.Sprintf("%s is written but no following test against %s (= len(%s)) exists in this function", p.Name(), gName, m.Name()))
}

// gdEndsInReturnOrPanic: every path from b reaches a return/panic without a
// join with other code (b and its unique-successor chain end in Return/Panic).
func gdEndsInReturnOrPanic(b *ssa.BasicBlock) bool {
	for i := 0; i < 8 && b != nil; i++ {
		if len(b.Instrs) == 0 {
			return false
		}
		switch b.Instrs[len(b.Instrs)-1].(type) {
		case *ssa.Return, *ssa.Panic:
			return true
		case *ssa.Jump:
			if len(b.Succs[0].Preds) != 1 {
				return false
			}
			b = b.Succs[0]
		default:
			return false
		}
	}
	return false
}
