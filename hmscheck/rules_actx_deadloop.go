package main

import (
	"fmt"
	"go/ast"
	"go/token"
	"go/types"
	"sort"
	"strings"
)

func init() {
	register(&Rule{ID: "R-dead-loop", Floor: 9, Run: ruleDeadLoop,
		Doc: "for every local slice that a function creates empty (make(_,0[,n]) / []T{} / nil / var) and ranges over: the loop is dead, and the slice stays empty for good, when every statement that could make the slice non-empty lies inside the body of a (dead) loop over that same slice or can only execute after the loop. Fixpoint over the loops of the function. Necessary for C03: ConvertType builds the parameter list of a function type with the only append inside such a loop, so every `fn(a: int) -> T` annotation is converted to `fn() -> T` and well-typed programs are rejected / ill-typed ones accepted."})
}

var actxDeadLoopPkgs = []string{"homescript/analyzer", "homescript/analyzer/ast", "homescript/parser", "homescript/parser/ast", "homescript/compiler",
	"homescript/interpreter", "homescript/interpreter/value", "homescript/runtime", "homescript/runtime/value", "homescript/optimizer", "homescript/fuzzer", "homescript/lexer", "homescript/diagnostic", "homescript/errors", "homescript"}

func actxEmptyInit(info *types.Info, e ast.Expr) bool {
	e = ast.Unparen(e)
	switch x := e.(type) {
	case *ast.Ident:
		return x.Name == "nil"
	case *ast.CompositeLit:
		return len(x.Elts) == 0
	case *ast.CallExpr:
		if id, ok := x.Fun.(*ast.Ident); ok && id.Name == "make" && len(x.Args) >= 2 {
			if tv := info.Types[x.Args[1]]; tv.Value != nil && tv.Value.String() == "0" {
				return true
			}
		}
		// conversion []T(nil)
		if len(x.Args) == 1 {
			if tv := info.Types[x.Fun]; tv.IsType() {
				return actxEmptyInit(info, x.Args[0])
			}
		}
	}
	return false
}

type actxSliceVar struct {
	obj      types.Object
	escapes  bool
	nonLocal bool
	writes   []ast.Node // statements that may make it non-empty
	loops    []ast.Stmt // *ast.RangeStmt over the slice, or *ast.ForStmt bounded by its length
	inits    int
}

func ruleDeadLoop(c *Ctx) []Obligation {
	var out []Obligation
	for _, rel := range actxDeadLoopPkgs {
		if !c.HasPkg(rel) {
			continue
		}
		p := c.Pkg(rel)
		info := p.TypesInfo
		for _, fd := range AllFuncDecls(p) {
			vars := map[types.Object]*actxSliceVar{}
			get := func(obj types.Object) *actxSliceVar {
				if obj == nil {
					return nil
				}
				if _, ok := obj.Type().Underlying().(*types.Slice); !ok {
					return nil
				}
				v := vars[obj]
				if v == nil {
					v = &actxSliceVar{obj: obj}
					// declared inside this function body?
					if obj.Pos() < fd.Body.Pos() || obj.Pos() > fd.Body.End() {
						v.nonLocal = true
					}
					vars[obj] = v
				}
				return v
			}
			// enclosing-loop bookkeeping
			var stack []ast.Node
			parents := map[ast.Node][]ast.Node{} // node → enclosing loops (outermost first)
			ast.Inspect(fd.Body, func(n ast.Node) bool {
				if n == nil {
					stack = stack[:len(stack)-1]
					return true
				}
				var loops []ast.Node
				for _, s := range stack {
					switch s.(type) {
					case *ast.RangeStmt, *ast.ForStmt:
						loops = append(loops, s)
					}
				}
				switch x := n.(type) {
				case *ast.RangeStmt:
					parents[x] = loops
					if id, ok := ast.Unparen(x.X).(*ast.Ident); ok {
						if v := get(info.Uses[id]); v != nil {
							v.loops = append(v.loops, x)
						}
					}
				case *ast.ForStmt:
					// counted form of the same loop: `for i := …; i < len(s); …`
					parents[x] = loops
					if be, ok := ast.Unparen(x.Cond).(*ast.BinaryExpr); ok && (be.Op == token.LSS || be.Op == token.GTR || be.Op == token.NEQ) {
						for _, side := range []ast.Expr{be.X, be.Y} {
							if ce, ok := ast.Unparen(side).(*ast.CallExpr); ok && len(ce.Args) == 1 {
								if fid, ok := ce.Fun.(*ast.Ident); ok && fid.Name == "len" {
									if _, isBuiltin := info.Uses[fid].(*types.Builtin); isBuiltin {
										if id, ok := ast.Unparen(ce.Args[0]).(*ast.Ident); ok {
											if v := get(info.Uses[id]); v != nil {
												v.loops = append(v.loops, x)
											}
										}
									}
								}
							}
						}
					}
				case *ast.AssignStmt:
					for i, l := range x.Lhs {
						id, ok := l.(*ast.Ident)
						if !ok {
							continue
						}
						obj := info.Defs[id]
						if obj == nil {
							obj = info.Uses[id]
						}
						v := get(obj)
						if v == nil {
							continue
						}
						if len(x.Rhs) == len(x.Lhs) && actxEmptyInit(info, x.Rhs[i]) {
							v.inits++
							continue
						}
						parents[x] = loops
						v.writes = append(v.writes, x)
					}
				case *ast.ValueSpec:
					for i, id := range x.Names {
						v := get(info.Defs[id])
						if v == nil {
							continue
						}
						if i >= len(x.Values) || actxEmptyInit(info, x.Values[i]) {
							v.inits++
						} else {
							parents[x] = loops
							v.writes = append(v.writes, x)
						}
					}
				case *ast.UnaryExpr:
					if x.Op == token.AND {
						if id, ok := ast.Unparen(x.X).(*ast.Ident); ok {
							if v := get(info.Uses[id]); v != nil {
								v.escapes = true
							}
						}
					}
				}
				stack = append(stack, n)
				return true
			})
			// range key/value variables assigned by `for x = range` don't matter here.
			var objs []types.Object
			for o := range vars {
				objs = append(objs, o)
			}
			sort.Slice(objs, func(i, j int) bool { return objs[i].Pos() < objs[j].Pos() })
			for _, o := range objs {
				v := vars[o]
				if len(v.loops) == 0 || v.nonLocal || v.inits == 0 {
					continue
				}
				key := fmt.Sprintf("%s.%s|range %s", relPkg(p.PkgPath), FuncName(fd), o.Name())
				if v.escapes {
					out = append(out, Obligation{Key: key, Pos: c.Pos(v.loops[0].Pos()), Status: Discharged, Detail: "address taken: the slice may be filled elsewhere"})
					continue
				}
				// fixpoint: dead = loops over v that no effective write can precede
				dead := map[ast.Stmt]bool{}
				for _, l := range v.loops {
					dead[l] = true
				}
				inside := func(n ast.Node, l ast.Node) bool {
					var body *ast.BlockStmt
					switch x := l.(type) {
					case *ast.RangeStmt:
						body = x.Body
					case *ast.ForStmt:
						body = x.Body
					}
					return n.Pos() >= body.Pos() && n.End() <= body.End()
				}
				effective := func(w ast.Node) bool { // not inside the body of a loop still assumed dead
					for l := range dead {
						if dead[l] && inside(w, l) {
							return false
						}
					}
					return true
				}
				reaches := func(w ast.Node, l ast.Stmt) bool {
					if inside(w, l) {
						return false // handled through `effective`
					}
					if w.Pos() < l.Pos() {
						return true
					}
					for _, e := range parents[l] { // an enclosing loop brings later writes round again
						if inside(w, e) {
							return true
						}
					}
					return false
				}
				witness := map[ast.Stmt]ast.Node{}
				for changed := true; changed; {
					changed = false
					for _, l := range v.loops {
						if !dead[l] {
							continue
						}
						for _, w := range v.writes {
							if effective(w) && reaches(w, l) {
								dead[l] = false
								witness[l] = w
								changed = true
								break
							}
						}
					}
				}
				var deadPos []string
				for _, l := range v.loops {
					if dead[l] {
						deadPos = append(deadPos, c.Pos(l.Pos()))
					}
				}
				if len(deadPos) == 0 {
					w := witness[v.loops[0]]
					out = append(out, Obligation{Key: key, Pos: c.Pos(v.loops[0].Pos()), Status: Discharged, Nontrivial: true,
						Detail: fmt.Sprintf("%s can be filled before the loop (%s at %s)", o.Name(), actxShort(w, c), c.Pos(w.Pos()))})
					continue
				}
				var ws []string
				for _, w := range v.writes {
					ws = append(ws, c.Pos(w.Pos()))
				}
				det := fmt.Sprintf("%s is created empty and is still empty whenever the loop(s) at %s are reached: ", o.Name(), strings.Join(deadPos, ", "))
				if len(ws) == 0 {
					det += "nothing in the function ever fills it"
				} else {
					det += "the only statements that fill it (" + strings.Join(ws, ", ") + ") are inside those loops or after them, so the loop bodies never run"
				}
				out = append(out, Obligation{Key: key, Pos: c.Pos(v.loops[0].Pos()), Status: Violated, Nontrivial: true, Detail: det})
			}
		}
	}
	return out
}

func actxShort(n ast.Node, c *Ctx) string {
	switch x := n.(type) {
	case *ast.AssignStmt:
		s := exprStr(x.Lhs[0]) + " " + x.Tok.String() + " " + exprStr(x.Rhs[0])
		if len(s) > 60 {
			s = s[:60] + "…"
		}
		return s
	}
	return fmt.Sprintf("%T", n)
}
