package main

import (
	"fmt"
	"go/ast"
	"go/token"
	"go/types"
	"sort"
	"strings"
)

// R-span-shape (parser part of C08).
//
// Abstract domain. Along one path through a parser method the walker keeps
//   D   a lower bound of the number of tokens consumed since function entry
//       (sum of the success lower bounds of the consuming calls passed),
//   U   an upper bound of the same (saturating),
//   seq a counter of captures.
// A *capture* (spCap) names a token relative to the path: "the token that was
// current (off 0) / previous (off -1) when D,U,seq had these values". A
// location value is an edge (Start/End of a token) plus an upper-bound capture
// and a lower-bound capture of its token; exact reads have lb == ub. AST nodes
// returned by sub-parsers are spans from "current at the call" to "previous
// after the call" (inductively: that is what this rule checks for the callee).
//
// For a construction Start.Until(End, file) the rule decides
//   filename  file is the parser's filename field or the Filename of a token span;
//   end-edge  End is the End edge of a token;
//   consumed  End's token has been consumed by this function when it returns
//             successfully: a PreviousToken read, a node end, or a CurrentToken
//             read that is followed on every successful path by a call that
//             definitely consumes (>= 1 token) before the function returns;
//   order     token(Start) <= token(End) on every path (lower bound of the
//             token distance computed from D/U at the two captures).

const spBig = 1 << 20

type spCap struct {
	off  int // 0 = current token at capture, -1 = previous token
	D, U int
	seq  int
	why  string
}

type spKind int

const (
	spUnknown spKind = iota
	spLoc
	spSpan // also used for AST nodes (a node is its span)
	spFilename
	spZeroSpan
	spTok      // a lexer token read from the parser (span = start..end of that token)
	spTokPiece // another field of such a token (Value, Kind): which token a message talks about
)

const (
	edgeStart = 1
	edgeEnd   = 2
)

type spVal struct {
	k     spKind
	edge  int
	lb    *spCap // nil = unbounded below
	ub    *spCap // nil = unbounded above
	start *spVal // for spSpan
	end   *spVal
	hasFn bool // span carries a filename (token spans, constructed spans)
	cur   bool // location read from the current (not yet consumed) token
	desc  string
}

func (v *spVal) String() string {
	if v == nil {
		return "?"
	}
	return v.desc
}

type spCallRec struct {
	dBefore int
	pend    []bool
}

type spPend struct {
	site      string
	cap       *spCap
	satisfied bool
}

type spState struct {
	D, U, seq int
	env       map[types.Object]*spVal
	errNil    map[types.Object]int8 // 1 = nil, 2 = non-nil
	calls     map[types.Object]*spCallRec
	pend      []spPend
	trail     []string
	defers    []*ast.DeferStmt
}

func spClone(s *spState) *spState {
	n := &spState{D: s.D, U: s.U, seq: s.seq,
		env: make(map[types.Object]*spVal, len(s.env)), errNil: make(map[types.Object]int8, len(s.errNil)),
		calls: make(map[types.Object]*spCallRec, len(s.calls))}
	for k, v := range s.env {
		n.env[k] = v
	}
	for k, v := range s.errNil {
		n.errNil[k] = v
	}
	for k, v := range s.calls {
		n.calls[k] = v
	}
	n.pend = append([]spPend(nil), s.pend...)
	n.trail = append([]string(nil), s.trail...)
	n.defers = append([]*ast.DeferStmt(nil), s.defers...)
	return n
}

func (s *spState) note(format string, a ...any) {
	if len(s.trail) < 24 {
		s.trail = append(s.trail, fmt.Sprintf(format, a...))
	}
}

// ---- roles ----

type spRoles struct {
	c        *Ctx
	info     *types.Info
	pkgT     *types.Package
	parserT  *types.Named
	curF     *types.Var // Parser field holding the current token
	prevF    *types.Var // Parser field holding the previous (last consumed) token
	fileF    *types.Var // Parser field holding the file name
	next     *types.Func
	spanT    *types.Named
	locT     *types.Named
	until    *types.Func
	errT     *types.Named // errors.Error
	astPkg   string
	decls    map[*types.Func]*ast.FuncDecl
	summ     map[string]int // summary key -> success lower bound
	summHi   map[string]int
	changed  bool
	tokSpanF *types.Var // lexer.Token.Span
	// pure: parser methods that cannot move the parser and only compute a value
	// (local definitions, then one return): evaluated at the call site.
	pure    map[*types.Func]*spPure
	inlined map[*types.Func]int // how often a pure helper with a construction was decided at a call site
	// lead: for a location parameter of a consuming method, the least number of
	// tokens every caller has definitely consumed between reading the start
	// location it passes and the call (collected while the summaries are computed)
	lead   map[*types.Func]map[int]int
	frozen bool
	// errSink: functions that build a syntax error from a span operand (errors.New…Error,
	// and parser methods that forward a span parameter to one): index of that operand
	errSink map[*types.Func]int
}

type spPure struct {
	fd     *ast.FuncDecl
	recv   types.Object
	params []types.Object
	pre    []ast.Stmt
	ret    ast.Expr
	builds bool // contains a span construction
}

func spResolveRoles(c *Ctx) *spRoles {
	p := c.Pkg("homescript/parser")
	ep := c.Pkg("homescript/errors")
	lp := c.Pkg("homescript/lexer")
	r := &spRoles{c: c, info: p.TypesInfo, pkgT: p.Types, decls: map[*types.Func]*ast.FuncDecl{}, summ: map[string]int{}, summHi: map[string]int{}}
	r.astPkg = ModPath + "/homescript/parser/ast"
	lookupNamed := func(pk *types.Package, name string) *types.Named {
		o := pk.Scope().Lookup(name)
		if o == nil {
			fatalf("anchor unresolved: %s.%s", pk.Path(), name)
		}
		n, _ := o.Type().(*types.Named)
		if n == nil {
			fatalf("anchor unresolved: %s.%s is not a named type", pk.Path(), name)
		}
		return n
	}
	r.spanT = lookupNamed(ep.Types, "Span")
	r.locT = lookupNamed(ep.Types, "Location")
	r.errT = lookupNamed(ep.Types, "Error")
	tokT := lookupNamed(lp.Types, "Token")
	if st, ok := tokT.Underlying().(*types.Struct); ok {
		for i := 0; i < st.NumFields(); i++ {
			if types.Identical(st.Field(i).Type(), r.spanT) {
				r.tokSpanF = st.Field(i)
			}
		}
	}
	if r.tokSpanF == nil {
		fatalf("anchor unresolved: lexer.Token has no field of type errors.Span")
	}
	for i := 0; i < r.locT.NumMethods(); i++ {
		m := r.locT.Method(i)
		sig := m.Type().(*types.Signature)
		if sig.Results().Len() == 1 && types.Identical(sig.Results().At(0).Type(), r.spanT) && sig.Params().Len() == 2 &&
			types.Identical(sig.Params().At(0).Type(), r.locT) {
			r.until = m
		}
	}
	if r.until == nil {
		fatalf("anchor unresolved: errors.Location has no method (Location, string) Span")
	}
	// the parser type: receiver of the exported Parse method
	parse := c.MustFunc("homescript/parser", "Parser", "Parse")
	pf, _ := r.info.Defs[parse.Name].(*types.Func)
	r.parserT = recvNamed(pf.Type().(*types.Signature).Recv().Type())
	pst := r.parserT.Underlying().(*types.Struct)
	var tokFields []*types.Var
	for i := 0; i < pst.NumFields(); i++ {
		f := pst.Field(i)
		if types.Identical(f.Type(), tokT) {
			tokFields = append(tokFields, f)
		}
		if b, ok := f.Type().(*types.Basic); ok && b.Kind() == types.String {
			if r.fileF != nil {
				fatalf("anchor ambiguous: parser has two string fields (%s, %s)", r.fileF.Name(), f.Name())
			}
			r.fileF = f
		}
	}
	if len(tokFields) != 2 || r.fileF == nil {
		fatalf("anchor unresolved: parser token fields (%d found) / filename field", len(tokFields))
	}
	for _, fd := range AllFuncDecls(p) {
		if fn, ok := r.info.Defs[fd.Name].(*types.Func); ok {
			r.decls[fn] = fd
		}
	}
	// next(): the method that calls NextToken and assigns both token fields;
	// current = the field assigned from the fresh token, previous = the field
	// assigned from the current field.
	for fn, fd := range r.decls {
		sig := fn.Type().(*types.Signature)
		if sig.Recv() == nil || recvNamed(sig.Recv().Type()) != r.parserT {
			continue
		}
		callsNext := false
		ast.Inspect(fd.Body, func(n ast.Node) bool {
			if call, ok := n.(*ast.CallExpr); ok {
				if cf := CalleeOf(r.info, call); cf != nil && cf.Name() == "NextToken" && cf.Pkg() == lp.Types {
					callsNext = true
				}
			}
			return true
		})
		if !callsNext {
			continue
		}
		var cur, prev *types.Var
		// the shift current→previous, in the method itself or in a parser method it
		// calls (`self.shift(tok)`), as single or parallel assignment
		bodies := []*ast.BlockStmt{fd.Body}
		ast.Inspect(fd.Body, func(n ast.Node) bool {
			if call, ok := n.(*ast.CallExpr); ok {
				if cf := CalleeOf(r.info, call); cf != nil && cf != fn {
					if cfd := r.decls[cf]; cfd != nil {
						if csig := cf.Type().(*types.Signature); csig.Recv() != nil && recvNamed(csig.Recv().Type()) == r.parserT {
							bodies = append(bodies, cfd.Body)
						}
					}
				}
			}
			return true
		})
		for _, body := range bodies {
			ast.Inspect(body, func(n ast.Node) bool {
				as, ok := n.(*ast.AssignStmt)
				if !ok || len(as.Lhs) != len(as.Rhs) {
					return true
				}
				for i := range as.Lhs {
					lf := spFieldOf(r.info, as.Lhs[i])
					if lf == nil || (lf != tokFields[0] && lf != tokFields[1]) {
						continue
					}
					if rf := spFieldOf(r.info, as.Rhs[i]); rf != nil && rf != lf && (rf == tokFields[0] || rf == tokFields[1]) {
						prev, cur = lf, rf
					}
				}
				return true
			})
		}
		if cur != nil && prev != nil && cur != prev {
			if r.next != nil {
				fatalf("anchor ambiguous: two token-advancing methods (%s, %s)", r.next.Name(), fn.Name())
			}
			r.next, r.curF, r.prevF = fn, cur, prev
		}
	}
	if r.next == nil {
		fatalf("anchor unresolved: the parser method that calls Lexer.NextToken and shifts current→previous")
	}
	r.resolvePure()
	r.errSink = map[*types.Func]int{}
	esc := ep.Types.Scope()
	for _, name := range esc.Names() {
		fn, ok := esc.Lookup(name).(*types.Func)
		if !ok {
			continue
		}
		sig := fn.Type().(*types.Signature)
		if sig.Results().Len() != 1 || !r.isErrPtr(sig.Results().At(0).Type()) {
			continue
		}
		for i := 0; i < sig.Params().Len(); i++ {
			if types.Identical(sig.Params().At(i).Type(), r.spanT) {
				r.errSink[fn] = i
			}
		}
	}
	for fn, fd := range r.decls {
		sig := fn.Type().(*types.Signature)
		for i := 0; i < sig.Params().Len(); i++ {
			if !types.Identical(sig.Params().At(i).Type(), r.spanT) {
				continue
			}
			po := sig.Params().At(i)
			ast.Inspect(fd.Body, func(n ast.Node) bool {
				if call, ok := n.(*ast.CallExpr); ok {
					if cf := CalleeOf(r.info, call); cf != nil && cf.Pkg() == ep.Types {
						if j, ok := r.errSink[cf]; ok && j < len(call.Args) {
							if id, ok := ast.Unparen(call.Args[j]).(*ast.Ident); ok && r.info.Uses[id] == po {
								r.errSink[fn] = i
							}
						}
					}
				}
				return true
			})
		}
	}
	return r
}

// resolvePure finds the parser methods whose body is `[x := e]* ; return e`
// and that call no parser method except other such helpers: they consume no
// token, so a call is the value of the returned expression with the operands
// substituted.
func (r *spRoles) resolvePure() {
	r.pure = map[*types.Func]*spPure{}
	r.inlined = map[*types.Func]int{}
	r.lead = map[*types.Func]map[int]int{}
	cand := map[*types.Func]*spPure{}
	for fn, fd := range r.decls {
		sig := fn.Type().(*types.Signature)
		if sig.Recv() == nil || recvNamed(sig.Recv().Type()) != r.parserT || fn == r.next || sig.Results().Len() != 1 || sig.Variadic() {
			continue
		}
		if r.isErrPtr(sig.Results().At(0).Type()) {
			continue
		}
		n := len(fd.Body.List)
		if n == 0 {
			continue
		}
		ret, ok := fd.Body.List[n-1].(*ast.ReturnStmt)
		if !ok || len(ret.Results) != 1 {
			continue
		}
		shape := true
		for _, st := range fd.Body.List[:n-1] {
			as, ok := st.(*ast.AssignStmt)
			if !ok || as.Tok != token.DEFINE || len(as.Lhs) != len(as.Rhs) {
				shape = false
			}
		}
		if !shape {
			continue
		}
		pu := &spPure{fd: fd, pre: fd.Body.List[:n-1], ret: ret.Results[0]}
		if fd.Recv != nil && len(fd.Recv.List) > 0 && len(fd.Recv.List[0].Names) > 0 {
			pu.recv = r.info.Defs[fd.Recv.List[0].Names[0]]
		}
		ok = true
		for _, f := range fd.Type.Params.List {
			if len(f.Names) == 0 {
				ok = false
			}
			for _, nm := range f.Names {
				pu.params = append(pu.params, r.info.Defs[nm])
			}
		}
		if !ok {
			continue
		}
		ast.Inspect(fd.Body, func(m ast.Node) bool {
			switch x := m.(type) {
			case *ast.FuncLit:
				ok = false
			case *ast.CallExpr:
				if CalleeOf(r.info, x) == r.until {
					pu.builds = true
				}
			case *ast.CompositeLit:
				if tv := r.info.Types[x]; tv.Type != nil && types.Identical(tv.Type, r.spanT) {
					pu.builds = true
				}
			}
			return true
		})
		if ok {
			cand[fn] = pu
		}
	}
	// drop candidates that call a parser method which is not itself a candidate
	for changed := true; changed; {
		changed = false
		for fn, pu := range cand {
			bad := false
			ast.Inspect(pu.fd.Body, func(m ast.Node) bool {
				if call, ok := m.(*ast.CallExpr); ok {
					if cf := CalleeOf(r.info, call); cf != nil && cf != fn && r.decls[cf] != nil {
						if sig := cf.Type().(*types.Signature); sig.Recv() != nil && recvNamed(sig.Recv().Type()) == r.parserT && cand[cf] == nil {
							bad = true
						}
					} else if cf == fn {
						bad = true
					}
				}
				return true
			})
			if bad {
				delete(cand, fn)
				changed = true
			}
		}
	}
	r.pure = cand
}

func spFieldOf(info *types.Info, e ast.Expr) *types.Var {
	if s, ok := ast.Unparen(e).(*ast.SelectorExpr); ok {
		if sel := info.Selections[s]; sel != nil && sel.Kind() == types.FieldVal {
			if v, ok := sel.Obj().(*types.Var); ok {
				return v
			}
		}
	}
	return nil
}

func (r *spRoles) isConsumer(fn *types.Func) bool {
	if fn == nil || r.pure[fn] != nil {
		return false
	}
	sig, ok := fn.Type().(*types.Signature)
	if !ok || sig.Recv() == nil {
		return false
	}
	if _, ptr := sig.Recv().Type().(*types.Pointer); !ptr {
		return false // value receiver: cannot move the parser
	}
	return recvNamed(sig.Recv().Type()) == r.parserT && r.decls[fn] != nil
}

func (r *spRoles) returnsErr(fn *types.Func) bool {
	sig := fn.Type().(*types.Signature)
	n := sig.Results().Len()
	if n == 0 {
		return false
	}
	return r.isErrPtr(sig.Results().At(n - 1).Type())
}

func (r *spRoles) isErrPtr(t types.Type) bool {
	p, ok := t.(*types.Pointer)
	return ok && types.Identical(p.Elem(), r.errT)
}

func (r *spRoles) isAstType(t types.Type) bool {
	if p, ok := t.(*types.Pointer); ok {
		t = p.Elem()
	}
	n, ok := t.(*types.Named)
	return ok && n.Obj().Pkg() != nil && n.Obj().Pkg().Path() == r.astPkg
}

// ---- walking one function ----

type spSite struct {
	key     string
	pos     token.Pos
	checks  map[string]Status // check name -> worst status
	detail  map[string]string
	paths   int
	summary string
}

type spOrderFact struct {
	seen int
	ok   bool
}

type spFuncRun struct {
	r       *spRoles
	fd      *ast.FuncDecl
	fn      *types.Func
	recv    *types.Var
	consts  map[types.Object]bool
	sites   map[ast.Node]*spSite  // nil in summary mode
	recvs   map[types.Object]bool // receivers of the pure helpers being evaluated
	over    []*spSite             // call-site obligations the constructions of an inlined helper belong to
	depth   int
	siteKey map[ast.Node]string
	order   map[string]*spOrderFact // "Type|f<g"
	argObs  map[string]*spSite
	errKeys map[ast.Node]string
	// summary results
	lo, hi  int
	success int
	undec   []string
}

func spSat(a, b int) int {
	if a+b >= spBig {
		return spBig
	}
	return a + b
}

func (r *spRoles) summaryKey(fn *types.Func, consts map[int]bool) string {
	k := fn.Name()
	var idx []int
	for i := range consts {
		idx = append(idx, i)
	}
	sort.Ints(idx)
	for _, i := range idx {
		k += fmt.Sprintf("|%d=%v", i, consts[i])
	}
	return k
}

// summary returns (lo, hi) of tokens consumed by a successful call.
func (r *spRoles) summary(fn *types.Func, call *ast.CallExpr, consts map[types.Object]bool) (int, int) {
	if fn == r.next {
		return 1, 1
	}
	bind := map[int]bool{}
	if call != nil {
		sig := fn.Type().(*types.Signature)
		for i, a := range call.Args {
			if i >= sig.Params().Len() {
				break
			}
			if b, ok := sig.Params().At(i).Type().Underlying().(*types.Basic); !ok || b.Kind() != types.Bool {
				continue
			}
			if tv := r.info.Types[a]; tv.Value != nil {
				bind[i] = tv.Value.String() == "true"
			} else if id, ok := ast.Unparen(a).(*ast.Ident); ok {
				if v, ok := consts[r.info.Uses[id]]; ok {
					bind[i] = v
				}
			}
		}
	}
	key := r.summaryKey(fn, bind)
	if lo, ok := r.summ[key]; ok {
		return lo, r.summHi[key]
	}
	r.summ[key] = spBig
	r.summHi[key] = spBig
	r.changed = true
	return spBig, spBig
}

func (r *spRoles) computeSummaries() {
	// seed: every consumer unspecialised
	for fn := range r.decls {
		if r.isConsumer(fn) && fn != r.next {
			r.summary(fn, nil, nil)
		}
	}
	for iter := 0; iter < 40; iter++ {
		r.changed = false
		keys := make([]string, 0, len(r.summ))
		for k := range r.summ {
			keys = append(keys, k)
		}
		sort.Strings(keys)
		for _, key := range keys {
			parts := strings.Split(key, "|")
			var fn *types.Func
			for f := range r.decls {
				if f.Name() == parts[0] && r.isConsumer(f) {
					fn = f
				}
			}
			if fn == nil {
				continue
			}
			fd := r.decls[fn]
			consts := map[types.Object]bool{}
			sig := fn.Type().(*types.Signature)
			for _, p := range parts[1:] {
				var i int
				var v bool
				fmt.Sscanf(p, "%d=%t", &i, &v)
				consts[sig.Params().At(i)] = v
			}
			run := &spFuncRun{r: r, fd: fd, fn: fn, consts: consts}
			run.walk()
			lo, hi := run.lo, run.hi
			if run.success == 0 {
				lo, hi = spBig, spBig
			}
			if lo != r.summ[key] || hi != r.summHi[key] {
				r.summ[key], r.summHi[key] = lo, hi
				r.changed = true
			}
		}
		if !r.changed {
			return
		}
	}
	fatalf("R-span-shape: consumption summaries did not converge")
}

func (run *spFuncRun) walk() {
	r := run.r
	info := r.info
	if run.fd.Recv != nil && len(run.fd.Recv.List) > 0 && len(run.fd.Recv.List[0].Names) > 0 {
		run.recv, _ = info.Defs[run.fd.Recv.List[0].Names[0]].(*types.Var)
	}
	run.lo, run.hi = spBig, 0
	st := &spState{env: map[types.Object]*spVal{}, errNil: map[types.Object]int8{}, calls: map[types.Object]*spCallRec{}}
	entryCur := &spCap{off: 0, why: "current token at entry"}
	entryPrev := &spCap{off: -1, why: "previous token at entry"}
	pidx := -1
	for _, f := range run.fd.Type.Params.List {
		if len(f.Names) == 0 {
			pidx++
		}
		for _, n := range f.Names {
			pidx++
			obj := info.Defs[n]
			if obj == nil {
				continue
			}
			switch {
			case types.Identical(obj.Type(), r.locT):
				// a start location captured by the caller before this construct: its
				// token is at or before the token current at entry — by as many tokens
				// as every caller definitely consumes between the capture and the call
				ub := entryCur
				if r.frozen && run.sites != nil {
					if l, ok := r.lead[run.fn][pidx]; ok && l > 0 {
						ub = &spCap{off: 0, D: -l, why: fmt.Sprintf("current token at entry (every caller consumes >=%d token(s) after reading the start it passes)", l)}
					}
				}
				st.env[obj] = &spVal{k: spLoc, edge: edgeStart, ub: ub, desc: "param " + n.Name}
			case r.isAstType(obj.Type()):
				e := &spVal{k: spLoc, edge: edgeEnd, ub: entryPrev, desc: "param " + n.Name + " end"}
				s := &spVal{k: spLoc, edge: edgeStart, ub: entryPrev, desc: "param " + n.Name + " start"}
				st.env[obj] = &spVal{k: spSpan, start: s, end: e, hasFn: true, desc: "param node " + n.Name}
			}
		}
	}
	w := &Walker[*spState]{
		Clone:   spClone,
		IsPanic: func(s ast.Stmt) bool { return IsPanicCall(info, s) },
		OnStmt: func(st *spState, s ast.Stmt) (*spState, bool) {
			run.stmt(st, s)
			return st, true
		},
		OnCond: func(st *spState, cond ast.Expr, taken bool) (*spState, bool) {
			return st, run.cond(st, cond, taken)
		},
		OnRange: func(st *spState, rg *ast.RangeStmt) (*spState, bool) {
			return st, true
		},
		OnDefer: func(st *spState, d *ast.DeferStmt) (*spState, bool) {
			st.defers = append(st.defers, d)
			return st, true
		},
		Exit: func(st *spState, o outcome) { run.exit(st, o) },
	}
	w.Run(run.fd.Body, st)
	if w.Overflow {
		run.undec = append(run.undec, "path cap exceeded")
	}
	for _, p := range w.Unsupported {
		// fallthrough only drops the fallen-into clause from the explored paths:
		// D stays a lower bound. goto/select are not understood.
		if !spIsFallthroughAt(run.fd, p) {
			run.undec = append(run.undec, "unsupported control flow at "+r.c.Pos(p))
		}
	}
}

func spIsFallthroughAt(fd *ast.FuncDecl, p token.Pos) bool {
	found := false
	ast.Inspect(fd.Body, func(n ast.Node) bool {
		if b, ok := n.(*ast.BranchStmt); ok && b.Pos() == p && b.Tok == token.FALLTHROUGH {
			found = true
		}
		return !found
	})
	return found
}

func (run *spFuncRun) isRecv(e ast.Expr) bool {
	id, ok := ast.Unparen(e).(*ast.Ident)
	if !ok {
		return false
	}
	obj := run.r.info.Uses[id]
	return obj != nil && (run.recv != nil && obj == run.recv || run.recvs[obj])
}

// tokenField: e is self.<cur|prev> → 0 / -1.
func (run *spFuncRun) tokenField(e ast.Expr) (int, bool) {
	s, ok := ast.Unparen(e).(*ast.SelectorExpr)
	if !ok || !run.isRecv(s.X) {
		return 0, false
	}
	switch spFieldOf(run.r.info, s) {
	case run.r.curF:
		return 0, true
	case run.r.prevF:
		return -1, true
	}
	return 0, false
}

func (run *spFuncRun) capNow(st *spState, off int) *spCap {
	st.seq++
	name := "current"
	if off == -1 {
		name = "previous"
	}
	return &spCap{off: off, D: st.D, U: st.U, seq: st.seq, why: fmt.Sprintf("%s token after >=%d consumed", name, st.D)}
}

func spTokSpan(c *spCap, cur bool, desc string) *spVal {
	s := &spVal{k: spLoc, edge: edgeStart, lb: c, ub: c, cur: cur, desc: desc + ".Start"}
	e := &spVal{k: spLoc, edge: edgeEnd, lb: c, ub: c, cur: cur, desc: desc + ".End"}
	return &spVal{k: spSpan, start: s, end: e, hasFn: true, desc: desc}
}

var spUnk = &spVal{k: spUnknown, desc: "?"}

// eval computes the abstract value of an expression and decides every span
// construction inside it.
func (run *spFuncRun) eval(st *spState, e ast.Expr, ctx string) *spVal {
	r := run.r
	info := r.info
	e = ast.Unparen(e)
	switch x := e.(type) {
	case *ast.Ident:
		if obj := info.Uses[x]; obj != nil {
			if v := st.env[obj]; v != nil {
				return v
			}
		}
		return &spVal{k: spUnknown, desc: x.Name}
	case *ast.SelectorExpr:
		f := spFieldOf(info, x)
		if f == nil {
			return &spVal{k: spUnknown, desc: exprStr(x)}
		}
		// self.Filename
		if run.isRecv(x.X) && f == r.fileF {
			return &spVal{k: spFilename, desc: exprStr(x)}
		}
		// self.Cur.Span / self.Prev.Span
		if f == r.tokSpanF {
			if off, ok := run.tokenField(x.X); ok {
				return spTokSpan(run.capNow(st, off), off == 0, exprStr(x))
			}
		}
		// self.Cur / self.Prev as a value (copied into a local, passed to a helper)
		if off, ok := run.tokenField(x); ok {
			c := run.capNow(st, off)
			return &spVal{k: spTok, lb: c, ub: c, cur: off == 0, desc: exprStr(x)}
		}
		base := run.eval(st, x.X, ctx)
		if base.k == spTok {
			if f == r.tokSpanF {
				return spTokSpan(base.lb, base.cur, base.desc+"."+f.Name())
			}
			return &spVal{k: spTokPiece, lb: base.lb, ub: base.ub, cur: base.cur, desc: exprStr(x)}
		}
		if base.k == spSpan {
			switch {
			case types.Identical(f.Type(), r.locT) && f.Name() == "Start":
				return base.start
			case types.Identical(f.Type(), r.locT) && f.Name() == "End":
				return base.end
			case types.Identical(f.Type(), r.locT):
				return &spVal{k: spUnknown, desc: exprStr(x)}
			case f.Name() == "Filename" && base.hasFn:
				return &spVal{k: spFilename, desc: exprStr(x)}
			case types.Identical(f.Type(), r.spanT):
				return base // a node's own span field
			case r.isAstType(f.Type()):
				// a sub-node lies inside its parent
				s := &spVal{k: spLoc, edge: edgeStart, lb: base.start.lb, ub: base.end.ub, desc: exprStr(x) + " start (inside " + base.desc + ")"}
				en := &spVal{k: spLoc, edge: edgeEnd, lb: base.start.lb, ub: base.end.ub, desc: exprStr(x) + " end (inside " + base.desc + ")"}
				return &spVal{k: spSpan, start: s, end: en, hasFn: base.hasFn, desc: exprStr(x)}
			}
		}
		return &spVal{k: spUnknown, desc: exprStr(x)}
	case *ast.StarExpr:
		return run.eval(st, x.X, ctx)
	case *ast.UnaryExpr:
		if x.Op == token.AND {
			return run.eval(st, x.X, ctx)
		}
	case *ast.CompositeLit:
		tv := info.Types[x]
		if tv.Type != nil && types.Identical(tv.Type, r.spanT) {
			return run.construct(st, x, nil, nil, nil, x, ctx)
		}
		// an AST node literal: evaluate the fields (constructions inside), the
		// node's span is its errors.Span field
		var own *spVal
		fields := map[string]*spVal{}
		for _, el := range x.Elts {
			kv, ok := el.(*ast.KeyValueExpr)
			if !ok {
				run.eval(st, el, ctx)
				continue
			}
			name := exprStr(kv.Key)
			tn := spTypeName(tv.Type)
			v := run.eval(st, kv.Value, tn+"."+name)
			fields[name] = v
			if v.k == spSpan && types.Identical(info.Types[kv.Value].Type, r.spanT) && (own == nil || name == "Range" || name == "Span") {
				own = v
			}
		}
		if tv.Type != nil && r.isAstType(tv.Type) {
			run.recordOrder(spTypeName(tv.Type), fields)
		}
		if own != nil {
			return &spVal{k: spSpan, start: own.start, end: own.end, hasFn: own.hasFn, desc: spTypeName(tv.Type) + " literal"}
		}
		return &spVal{k: spUnknown, desc: "literal"}
	case *ast.CallExpr:
		// conversion
		if tv, ok := info.Types[x.Fun]; ok && tv.IsType() && len(x.Args) == 1 {
			return run.eval(st, x.Args[0], ctx)
		}
		fn := CalleeOf(info, x)
		if fn == r.until {
			sel := ast.Unparen(x.Fun).(*ast.SelectorExpr)
			return run.construct(st, x, sel.X, x.Args[0], x.Args[1], nil, ctx)
		}
		if pu := r.pure[fn]; fn != nil && pu != nil {
			return run.inline(st, x, pu, ctx)
		}
		if fn != nil && r.isConsumer(fn) {
			// effects are applied by stmt(); the value is bound there
			for _, a := range x.Args {
				run.eval(st, a, ctx)
			}
			return &spVal{k: spUnknown, desc: "call " + fn.Name()}
		}
		// X.Span() on a node
		if fn != nil && len(x.Args) == 0 {
			sig := fn.Type().(*types.Signature)
			if sig.Recv() != nil && sig.Results().Len() == 1 && types.Identical(sig.Results().At(0).Type(), r.spanT) {
				if sel, ok := ast.Unparen(x.Fun).(*ast.SelectorExpr); ok {
					if b := run.eval(st, sel.X, ctx); b.k == spSpan {
						return b
					}
				}
				return &spVal{k: spUnknown, desc: exprStr(x)}
			}
		}
		if idx, ok := r.errSink[fn]; ok && fn != nil && idx < len(x.Args) {
			run.errorAbout(st, x, idx)
		}
		// constructor of an AST value taking one span: the node is that span
		var spanArg *spVal
		nspan := 0
		for i, a := range x.Args {
			sub := ctx
			if fn != nil {
				sub = fmt.Sprintf("%s(arg%d)", fn.Name(), i)
			}
			v := run.eval(st, a, sub)
			if t := info.Types[a].Type; t != nil && types.Identical(t, r.spanT) {
				nspan++
				spanArg = v
			}
		}
		if fn != nil && fn.Pkg() != nil && fn.Pkg().Path() == r.astPkg && nspan == 1 && spanArg.k == spSpan {
			return &spVal{k: spSpan, start: spanArg.start, end: spanArg.end, hasFn: spanArg.hasFn, desc: fn.Name() + "(…" + spanArg.desc + ")"}
		}
		return &spVal{k: spUnknown, desc: exprStr(x.Fun) + "(…)"}
	}
	return &spVal{k: spUnknown, desc: exprStr(e)}
}

// errorAbout: a syntax error whose message is formatted from a token (its Value
// or Kind) is an error ABOUT that token: the span it is placed at, when it is
// the span of a token, must be the span of the same token — not of its
// neighbour (the previous token before anything was consumed is the last token
// of the construct in front).
func (run *spFuncRun) errorAbout(st *spState, call *ast.CallExpr, idx int) {
	if run.argObs == nil {
		return
	}
	sv := run.eval(st, call.Args[idx], "")
	if sv.k != spSpan || sv.start == nil || sv.end == nil || sv.start.lb == nil || sv.start.lb != sv.start.ub || sv.end.lb != sv.start.lb {
		return // not the span of one token
	}
	a := sv.start.lb
	var pieces []*spVal
	for i, arg := range call.Args {
		if i == idx {
			continue
		}
		ast.Inspect(arg, func(n ast.Node) bool {
			switch x := n.(type) {
			case *ast.FuncLit:
				return false
			case *ast.SelectorExpr:
				if v := run.eval(st, x, ""); v.k == spTokPiece && v.lb != nil {
					pieces = append(pieces, v)
					return false
				}
			case *ast.Ident:
				if obj := run.r.info.Uses[x]; obj != nil {
					if v := st.env[obj]; v != nil && v.k == spTokPiece && v.lb != nil {
						pieces = append(pieces, v)
					}
				}
			}
			return true
		})
	}
	if len(pieces) == 0 {
		return
	}
	if run.errKeys == nil {
		run.errKeys = map[ast.Node]string{}
	}
	key, ok := run.errKeys[call]
	if !ok {
		key = fmt.Sprintf("%s|error about a token|placed at that token", spFuncKey(run.fd))
		if n := len(run.errKeys); n > 0 {
			key = fmt.Sprintf("%s#%d", key, n+1)
		}
		run.errKeys[call] = key
	}
	s := run.argObs[key]
	if s == nil {
		s = &spSite{key: key, pos: call.Pos(), checks: map[string]Status{}, detail: map[string]string{}}
		run.argObs[key] = s
	}
	for _, pc := range pieces {
		b := pc.lb
		same, decided := false, false
		switch {
		case a.D == b.D && a.U == b.U:
			same, decided = a.off == b.off, true
		case a.D == a.U && b.D == b.U:
			same, decided = a.D+a.off == b.D+b.off, true
		}
		switch {
		case !decided:
		case same:
			s.set("arg", Discharged, fmt.Sprintf("message formatted from %s, placed at %s: the same token", pc.desc, sv.desc))
		default:
			s.set("arg", Violated, fmt.Sprintf("the message is formatted from %s (%s) but the error is placed at %s (%s): the span of a different token — on path {%s} the offending token is not the one the error points at", pc.desc, spCapStr(b), sv.desc, spCapStr(a), strings.Join(st.trail, "; ")))
		}
	}
}

func spTypeName(t types.Type) string {
	if t == nil {
		return "?"
	}
	if p, ok := t.(*types.Pointer); ok {
		t = p.Elem()
	}
	if n, ok := t.(*types.Named); ok {
		return n.Obj().Name()
	}
	return t.String()
}

// tokDiffLB: lower bound of token(b) - token(a); ok=false when not derivable.
func spTokDiffLB(a, b *spCap) (int, bool) {
	if a == nil || b == nil {
		return 0, false
	}
	if a.seq <= b.seq {
		return (b.D - a.D) + b.off - a.off, true
	}
	if a.U >= spBig || b.U >= spBig {
		return -spBig, true
	}
	return -(a.U - b.U) + b.off - a.off, true
}

func (run *spFuncRun) site(n ast.Node) *spSite {
	if run.sites == nil {
		return nil
	}
	if len(run.over) > 0 {
		return run.over[len(run.over)-1]
	}
	return run.sites[n]
}

// inline evaluates a call of a pure helper: parameters and receiver bound to
// the operands, local definitions applied, the returned expression evaluated
// in the caller's state. Constructions inside belong to the call site.
func (run *spFuncRun) inline(st *spState, call *ast.CallExpr, pu *spPure, ctx string) *spVal {
	if run.depth >= 4 || len(call.Args) != len(pu.params) {
		return &spVal{k: spUnknown, desc: exprStr(call.Fun) + "(…)"}
	}
	vals := make([]*spVal, len(call.Args))
	for i, a := range call.Args {
		vals[i] = run.eval(st, a, ctx)
	}
	for i, o := range pu.params {
		if o == nil {
			continue
		}
		if vals[i].k == spUnknown {
			delete(st.env, o)
		} else {
			st.env[o] = vals[i]
		}
	}
	if pu.recv != nil {
		if run.recvs == nil {
			run.recvs = map[types.Object]bool{}
		}
		if sel, ok := ast.Unparen(call.Fun).(*ast.SelectorExpr); ok && run.isRecv(sel.X) {
			run.recvs[pu.recv] = true
		}
	}
	if run.sites != nil {
		if s := run.sites[call]; s != nil && len(run.over) == 0 {
			run.over = append(run.over, s)
			defer func() { run.over = run.over[:len(run.over)-1] }()
			run.r.inlined[run.r.info.Defs[pu.fd.Name].(*types.Func)]++
		}
	}
	run.depth++
	defer func() { run.depth-- }()
	for _, s := range pu.pre {
		run.stmt(st, s)
	}
	return run.eval(st, pu.ret, ctx)
}

func (s *spSite) set(check string, status Status, detail string) {
	if s == nil {
		return
	}
	rank := func(x Status) int {
		switch x {
		case Violated:
			return 3
		case Undecided:
			return 2
		case Discharged:
			return 1
		}
		return 0
	}
	if old, ok := s.checks[check]; !ok || rank(status) > rank(old) {
		s.checks[check] = status
		s.detail[check] = detail
	}
}

// construct decides one span construction. Either (a, b, f) are the operands
// of a.Until(b, f) or lit is an errors.Span composite literal.
func (run *spFuncRun) construct(st *spState, node ast.Node, a, b, f ast.Expr, lit *ast.CompositeLit, ctx string) *spVal {
	r := run.r
	site := run.site(node)
	if lit != nil {
		for _, el := range lit.Elts {
			kv, ok := el.(*ast.KeyValueExpr)
			if !ok {
				site.set("shape", Undecided, "positional errors.Span literal")
				return spUnk
			}
			switch exprStr(kv.Key) {
			case "Start":
				a = kv.Value
			case "End":
				b = kv.Value
			case "Filename":
				f = kv.Value
			}
		}
		if a == nil && b == nil && f == nil {
			if site != nil {
				site.summary = "zero"
			}
			return &spVal{k: spZeroSpan, desc: "errors.Span{}"}
		}
	}
	path := strings.Join(st.trail, "; ")
	// filename
	switch {
	case f == nil:
		site.set("filename", Violated, "span built without a Filename")
	default:
		fv := run.eval(st, f, ctx)
		if fv.k == spFilename {
			site.set("filename", Discharged, "Filename = "+fv.desc)
		} else if tv := r.info.Types[f]; tv.Value != nil {
			site.set("filename", Violated, "Filename is the constant "+tv.Value.String())
		} else {
			site.set("filename", Undecided, "Filename = "+exprStr(f)+": neither the parser's filename field nor a token span's filename")
		}
	}
	var av, bv *spVal
	if a != nil {
		av = run.eval(st, a, ctx)
	}
	if b != nil {
		bv = run.eval(st, b, ctx)
	}
	if av == nil || bv == nil {
		site.set("shape", Violated, "span literal sets only one of Start/End")
		return spUnk
	}
	if av.k != spLoc || bv.k != spLoc {
		site.set("shape", Undecided, fmt.Sprintf("provenance of Start (%s) / End (%s) not understood", av, bv))
		return &spVal{k: spSpan, start: spUnkLoc(edgeStart), end: spUnkLoc(edgeEnd), hasFn: true, desc: "span"}
	}
	site.set("shape", Discharged, fmt.Sprintf("Start=%s, End=%s", av, bv))
	// end edge
	if bv.edge != edgeEnd {
		site.set("end-edge", Violated, fmt.Sprintf("End is taken from %s, the first rune of a token, not its end", bv))
	} else {
		site.set("end-edge", Discharged, "")
	}
	// consumed
	if bv.cur && bv.lb != nil {
		if st.D-bv.lb.D >= 1 {
			site.set("consumed", Discharged, "current token read, then >=1 token consumed before the construction")
		} else if site != nil {
			st.pend = append(st.pend, spPend{site: site.key, cap: bv.lb})
			run.pendSite(site)
		}
	} else {
		site.set("consumed", Discharged, "End = "+bv.String())
	}
	// order
	d, ok := spTokDiffLB(av.ub, bv.lb)
	need := 0
	if av.edge == edgeEnd {
		need = 1
	}
	switch {
	case !ok:
		site.set("order", Undecided, fmt.Sprintf("no bound relating Start (%s) and End (%s)", av, bv))
	case d < need:
		between := fmt.Sprintf("only %d token(s) are definitely consumed between the two reads", d-bv.lb.off+av.ub.off)
		if av.ub.seq > bv.lb.seq {
			between = "Start is read AFTER End on this path and tokens may be consumed in between"
		}
		site.set("order", Violated, fmt.Sprintf("End token may precede Start token: Start=%s [%s], End=%s [%s]; %s; path {%s}", av, spCapStr(av.ub), bv, spCapStr(bv.lb), between, path))
	default:
		site.set("order", Discharged, fmt.Sprintf("token(End)-token(Start) >= %d", d))
	}
	if site != nil {
		site.paths++
	}
	return &spVal{k: spSpan, start: av, end: bv, hasFn: true, desc: "span(" + av.String() + ".." + bv.String() + ")"}
}

func spCapStr(c *spCap) string {
	if c == nil {
		return "unbounded"
	}
	return c.why
}

func spUnkLoc(edge int) *spVal { return &spVal{k: spLoc, edge: edge, desc: "?"} }

var spPendSites = map[*spSite]bool{}

func (run *spFuncRun) pendSite(s *spSite) { spPendSites[s] = true }

// recordOrder: for a node literal, which span-valued fields provably precede
// which (token-wise) on this path.
func (run *spFuncRun) recordOrder(typ string, fields map[string]*spVal) {
	if run.order == nil {
		return
	}
	for fn, fv := range fields {
		if fv.k != spSpan || fv.end == nil {
			continue
		}
		for gn, gv := range fields {
			if fn == gn || gv.k != spSpan || gv.start == nil {
				continue
			}
			key := typ + "|" + fn + "<" + gn
			d, ok := spTokDiffLB(fv.end.ub, gv.start.lb)
			fact := run.order[key]
			if fact == nil {
				fact = &spOrderFact{ok: true}
				run.order[key] = fact
			}
			fact.seen++
			if !ok || d < 1 {
				fact.ok = false
			}
		}
	}
}

// applyCall applies the effect of a consuming call; returns the node value of
// its first result.
func (run *spFuncRun) applyCall(st *spState, call *ast.CallExpr, fn *types.Func) *spVal {
	r := run.r
	if idx, ok := r.errSink[fn]; ok && idx < len(call.Args) {
		run.errorAbout(st, call, idx)
	}
	// location arguments must be starts captured earlier
	sig := fn.Type().(*types.Signature)
	for i, a := range call.Args {
		if i < sig.Params().Len() && types.Identical(sig.Params().At(i).Type(), r.locT) {
			v := run.eval(st, a, "")
			if !r.frozen {
				lead := 0
				if v.k == spLoc && v.ub != nil {
					lead = st.D - v.ub.D - v.ub.off
					if lead < 0 {
						lead = 0
					}
				}
				if r.lead[fn] == nil {
					r.lead[fn] = map[int]int{}
				}
				if old, ok := r.lead[fn][i]; !ok || lead < old {
					r.lead[fn][i] = lead
				}
			}
			key := fmt.Sprintf("%s|start argument of %s", spFuncKey(run.fd), fn.Name())
			if run.argObs != nil {
				s := run.argObs[key]
				if s == nil {
					s = &spSite{key: key, pos: a.Pos(), checks: map[string]Status{}, detail: map[string]string{}}
					run.argObs[key] = s
				}
				switch {
				case v.k != spLoc:
					s.set("arg", Undecided, "location argument "+exprStr(a)+" has no understood provenance")
				case v.edge != edgeStart:
					s.set("arg", Violated, "start argument "+exprStr(a)+" is the end of a token: "+v.String())
				default:
					s.set("arg", Discharged, exprStr(a)+" = "+v.String())
				}
			}
		}
	}
	before := run.capNow(st, 0)
	lo, hi := r.summary(fn, call, run.consts)
	rec := &spCallRec{dBefore: st.D}
	for _, p := range st.pend {
		rec.pend = append(rec.pend, p.satisfied)
	}
	st.D = spSat(st.D, lo)
	st.U = spSat(st.U, hi)
	if lo >= 1 {
		for i := range st.pend {
			st.pend[i].satisfied = true
		}
	}
	st.note("%s()", fn.Name())
	after := run.capNow(st, -1)
	st.calls[nil] = rec // last call (bound to an error variable by the caller)
	s := &spVal{k: spLoc, edge: edgeStart, lb: before, ub: before, desc: fn.Name() + "() result start"}
	e := &spVal{k: spLoc, edge: edgeEnd, lb: after, ub: after, desc: fn.Name() + "() result end"}
	if lo < 1 {
		// a node that may be empty has no token of its own
		s.lb, e.ub = before, after
	}
	return &spVal{k: spSpan, start: s, end: e, hasFn: true, desc: "node from " + fn.Name() + "()"}
}

func spFuncKey(fd *ast.FuncDecl) string { return "parser." + FuncName(fd) }

func (run *spFuncRun) consumerCall(e ast.Expr) (*ast.CallExpr, *types.Func) {
	call, ok := ast.Unparen(e).(*ast.CallExpr)
	if !ok {
		return nil, nil
	}
	fn := CalleeOf(run.r.info, call)
	if fn != nil && run.r.isConsumer(fn) {
		return call, fn
	}
	return nil, nil
}

func (run *spFuncRun) objOf(e ast.Expr) types.Object {
	id, ok := ast.Unparen(e).(*ast.Ident)
	if !ok || id.Name == "_" {
		return nil
	}
	if o := run.r.info.Defs[id]; o != nil {
		return o
	}
	return run.r.info.Uses[id]
}

func (run *spFuncRun) stmt(st *spState, s ast.Stmt) {
	r := run.r
	switch x := s.(type) {
	case *ast.ExprStmt:
		if call, fn := run.consumerCall(x.X); call != nil {
			run.applyCall(st, call, fn)
			delete(st.calls, nil)
			return
		}
		run.eval(st, x.X, "")
		run.nestedCalls(st, x.X)
	case *ast.AssignStmt:
		if len(x.Rhs) == 1 {
			if call, fn := run.consumerCall(x.Rhs[0]); call != nil {
				for _, a := range call.Args {
					run.eval(st, a, fn.Name()+"(arg)")
				}
				node := run.applyCall(st, call, fn)
				rec := st.calls[nil]
				delete(st.calls, nil)
				sig := fn.Type().(*types.Signature)
				for i, l := range x.Lhs {
					obj := run.objOf(l)
					if obj == nil || i >= sig.Results().Len() {
						continue
					}
					rt := sig.Results().At(i).Type()
					switch {
					case r.isErrPtr(rt):
						st.calls[obj] = rec
						delete(st.errNil, obj)
					case i == 0 && r.isAstType(rt):
						st.env[obj] = node
					default:
						delete(st.env, obj)
					}
				}
				return
			}
		}
		if len(x.Lhs) == len(x.Rhs) {
			vals := make([]*spVal, len(x.Rhs))
			for i, rhs := range x.Rhs {
				ctx := exprStr(x.Lhs[i])
				vals[i] = run.eval(st, rhs, ctx)
				run.nestedCalls(st, rhs)
			}
			for i, l := range x.Lhs {
				if obj := run.objOf(l); obj != nil {
					if vals[i].k == spUnknown {
						delete(st.env, obj)
					} else {
						st.env[obj] = vals[i]
					}
					if r.isErrPtr(obj.Type()) {
						delete(st.calls, obj)
						delete(st.errNil, obj)
					}
				}
			}
		} else {
			for _, rhs := range x.Rhs {
				run.eval(st, rhs, "")
				run.nestedCalls(st, rhs)
			}
			for _, l := range x.Lhs {
				if obj := run.objOf(l); obj != nil {
					delete(st.env, obj)
				}
			}
		}
	case *ast.DeclStmt:
		if gd, ok := x.Decl.(*ast.GenDecl); ok {
			for _, sp := range gd.Specs {
				vs, ok := sp.(*ast.ValueSpec)
				if !ok {
					continue
				}
				for i, n := range vs.Names {
					obj := r.info.Defs[n]
					if obj == nil {
						continue
					}
					if i < len(vs.Values) {
						v := run.eval(st, vs.Values[i], n.Name)
						run.nestedCalls(st, vs.Values[i])
						if v.k != spUnknown {
							st.env[obj] = v
						}
					} else if r.isErrPtr(obj.Type()) {
						st.errNil[obj] = 1
					}
				}
			}
		}
	case *ast.ReturnStmt:
		// constructions inside the results are decided here; the tail call (if
		// any) is applied in exit()
		for i, e := range x.Results {
			if call, _ := run.consumerCall(e); call != nil {
				continue
			}
			ctx := "return"
			if len(x.Results) > 1 {
				ctx = fmt.Sprintf("return#%d", i)
			}
			run.eval(st, e, ctx)
		}
	case *ast.IncDecStmt, *ast.SendStmt, *ast.GoStmt:
	}
}

// nestedCalls applies consuming calls buried in an expression (not the
// statement's top-level call).
func (run *spFuncRun) nestedCalls(st *spState, e ast.Expr) {
	ast.Inspect(e, func(n ast.Node) bool {
		if _, ok := n.(*ast.FuncLit); ok {
			return false
		}
		if call, ok := n.(*ast.CallExpr); ok {
			if fn := CalleeOf(run.r.info, call); fn != nil && run.r.isConsumer(fn) {
				run.applyCall(st, call, fn)
				delete(st.calls, nil)
			}
		}
		return true
	})
}

func (run *spFuncRun) cond(st *spState, cond ast.Expr, taken bool) bool {
	r := run.r
	cond = ast.Unparen(cond)
	// constant-bound bool parameter
	if id, ok := cond.(*ast.Ident); ok {
		if v, ok := run.consts[r.info.Uses[id]]; ok {
			return v == taken
		}
	}
	if be, ok := cond.(*ast.BinaryExpr); ok && (be.Op == token.NEQ || be.Op == token.EQL) {
		var idE ast.Expr
		if spIsNil(r.info, be.Y) {
			idE = be.X
		} else if spIsNil(r.info, be.X) {
			idE = be.Y
		}
		if idE != nil {
			if obj := run.objOf(idE); obj != nil && r.isErrPtr(obj.Type()) {
				nonNil := (be.Op == token.NEQ) == taken
				if k, ok := st.errNil[obj]; ok {
					if (k == 2) != nonNil {
						return false
					}
					return true
				}
				if nonNil {
					st.errNil[obj] = 2
					if rec := st.calls[obj]; rec != nil {
						// the call failed: nothing was definitely consumed by it
						st.D = rec.dBefore
						for i := range st.pend {
							if i < len(rec.pend) {
								st.pend[i].satisfied = rec.pend[i]
							}
						}
						st.note("%s failed", exprStr(idE))
					}
				} else {
					st.errNil[obj] = 1
				}
				return true
			}
		}
	}
	run.nestedCalls(st, cond)
	st.note("%s:%v", spShort(exprStr(cond)), taken)
	return true
}

func spShort(s string) string {
	s = strings.ReplaceAll(s, "self.", "")
	s = strings.ReplaceAll(s, "lexer.", "")
	if len(s) > 48 {
		s = s[:45] + "…"
	}
	return s
}

func spIsNil(info *types.Info, e ast.Expr) bool {
	id, ok := ast.Unparen(e).(*ast.Ident)
	if !ok {
		return false
	}
	_, isNil := info.Uses[id].(*types.Nil)
	return isNil
}

func (run *spFuncRun) exit(st *spState, o outcome) {
	r := run.r
	if o.kind == cPanic {
		return
	}
	success := true
	if o.ret != nil && r.returnsErr(run.fn) && len(o.ret.Results) > 0 {
		last := o.ret.Results[len(o.ret.Results)-1]
		if len(o.ret.Results) == 1 {
			// return f(...) forwarding several results
			if call, fn := run.consumerCall(last); call != nil {
				run.applyCall(st, call, fn)
				last = nil
			}
		}
		if last != nil {
			switch {
			case spIsNil(r.info, last):
			default:
				if call, fn := run.consumerCall(last); call != nil {
					run.applyCall(st, call, fn)
				} else if _, isCall := ast.Unparen(last).(*ast.CallExpr); isCall {
					success = false // an error constructor
				} else if obj := run.objOf(last); obj != nil {
					if st.errNil[obj] == 2 {
						success = false
					}
				} else if u, ok := ast.Unparen(last).(*ast.UnaryExpr); ok && u.Op == token.AND {
					success = false
				}
			}
		}
	}
	if !success {
		return
	}
	// deferred calls run after the result operands were evaluated: a deferred
	// consuming call consumes the token a pending End was read from; a deferred
	// closure that builds a span (into a named result) sees the final state
	for i := len(st.defers) - 1; i >= 0; i-- {
		d := st.defers[i]
		if call, fn := run.consumerCall(d.Call); call != nil {
			run.applyCall(st, call, fn)
			delete(st.calls, nil)
			continue
		}
		if fl, ok := ast.Unparen(d.Call.Fun).(*ast.FuncLit); ok {
			// `if err == nil { result.Range = … }`: on a successful exit the guarded
			// statements run; they are evaluated in sequence
			var flat func(list []ast.Stmt)
			flat = func(list []ast.Stmt) {
				for _, s := range list {
					switch x := s.(type) {
					case *ast.ExprStmt, *ast.AssignStmt, *ast.DeclStmt, *ast.IncDecStmt:
						run.stmt(st, s)
					case *ast.BlockStmt:
						flat(x.List)
					case *ast.IfStmt:
						if x.Init != nil {
							run.stmt(st, x.Init)
						}
						flat(x.Body.List)
						if x.Else != nil {
							flat([]ast.Stmt{x.Else})
						}
					case *ast.ReturnStmt, *ast.EmptyStmt:
					default:
						run.undec = append(run.undec, "deferred closure with control flow at "+r.c.Pos(s.Pos()))
					}
				}
			}
			flat(fl.Body.List)
			continue
		}
		run.eval(st, d.Call, "defer")
	}
	run.success++
	if st.D < run.lo {
		run.lo = st.D
	}
	if st.U > run.hi {
		run.hi = st.U
	}
	if run.sites == nil {
		return
	}
	for _, p := range st.pend {
		site := run.siteByKey(p.site)
		if site == nil {
			continue
		}
		if p.satisfied {
			site.set("consumed", Discharged, "End read from the current token; every successful path consumes it afterwards")
		} else {
			where := "falling off the end"
			if o.ret != nil {
				where = "return at " + r.c.Pos(o.ret.Pos())
			}
			site.set("consumed", Violated, fmt.Sprintf("End is read from the CURRENT token (%s), which this function never consumes on the successful path {%s} → %s: the span ends at the token AFTER the construct", p.cap.why, strings.Join(st.trail, "; "), where))
		}
	}
}

func (run *spFuncRun) siteByKey(k string) *spSite {
	for _, s := range run.sites {
		if s.key == k {
			return s
		}
	}
	return nil
}

// ---- the rule ----

func init() {
	register(&Rule{ID: "R-span-shape", Floor: 45, Run: ruleSpanShape,
		Doc: "every errors.Span built in package parser (composite literal or Location.Until) names the parser's file, ends at the End edge of a token the construct has consumed (the previous token, the end of a parsed child, or the current token only when every successful path consumes it before returning), and on every path its Start token is not after its End token (path-sensitive count of definitely-consumed tokens between the two reads, with per-method success summaries). A span ending at an unconsumed token points past the construct (possibly onto another line or EOF); an inverted span makes the renderers' End.Column-Start.Column negative (strings.Repeat panics)."})
}

type spanShapeResult struct {
	obs   []Obligation
	order map[string]*spOrderFact
}

var spanShapeCache = map[*Ctx]*spanShapeResult{}

func spanShapeAnalyse(c *Ctx) *spanShapeResult {
	if res := spanShapeCache[c]; res != nil {
		return res
	}
	r := spResolveRoles(c)
	r.computeSummaries()
	r.frozen = true
	res := &spanShapeResult{order: map[string]*spOrderFact{}}
	p := c.Pkg("homescript/parser")
	var fds []*ast.FuncDecl
	for _, fd := range AllFuncDecls(p) {
		fds = append(fds, fd)
	}
	sort.Slice(fds, func(i, j int) bool { return fds[i].Pos() < fds[j].Pos() })
	var helperObs []spHelperOb
	for _, fd := range fds {
		fn, _ := r.info.Defs[fd.Name].(*types.Func)
		if fn == nil {
			continue
		}
		// enumerate the construction sites of this function
		sites := map[ast.Node]*spSite{}
		var ordered []*spSite
		count := map[string]int{}
		var visit func(n ast.Node, ctx string)
		visit = func(n ast.Node, ctx string) {
			ast.Inspect(n, func(m ast.Node) bool {
				switch x := m.(type) {
				case *ast.KeyValueExpr:
					visit(x.Value, exprStr(x.Key))
					return false
				case *ast.AssignStmt:
					if len(x.Lhs) == len(x.Rhs) {
						for i := range x.Rhs {
							lctx := exprStr(x.Lhs[i])
							// result.Field = … on a node-typed variable is the field of that node type
							if sel, ok := ast.Unparen(x.Lhs[i]).(*ast.SelectorExpr); ok {
								if id, ok := ast.Unparen(sel.X).(*ast.Ident); ok {
									if t := r.info.Types[id].Type; t != nil && r.isAstType(t) {
										lctx = spTypeName(t) + "." + sel.Sel.Name
									}
								}
							}
							visit(x.Rhs[i], lctx)
						}
						return false
					}
				case *ast.CallExpr:
					if CalleeOf(r.info, x) == r.until {
						spAddSite(r, fd, x, ctx, sites, &ordered, count)
					} else if pu := r.pure[CalleeOf(r.info, x)]; pu != nil && pu.builds {
						// a helper that builds the span from its operands: the
						// construction is decided here, where the operands are known
						spAddSite(r, fd, x, ctx, sites, &ordered, count)
						return false
					} else if f := CalleeOf(r.info, x); f != nil {
						visit(x.Fun, ctx)
						for _, a := range x.Args {
							visit(a, f.Name()+"()")
						}
						return false
					}
				case *ast.CompositeLit:
					if tv := r.info.Types[x]; tv.Type != nil && types.Identical(tv.Type, r.spanT) {
						spAddSite(r, fd, x, ctx, sites, &ordered, count)
					} else if tv.Type != nil {
						tn := spTypeName(tv.Type)
						for _, el := range x.Elts {
							if kv, ok := el.(*ast.KeyValueExpr); ok {
								visit(kv.Value, tn+"."+exprStr(kv.Key))
							} else {
								visit(el, ctx)
							}
						}
						return false
					}
				}
				return true
			})
		}
		visit(fd.Body, "")
		sig := fn.Type().(*types.Signature)
		if sig.Recv() == nil || recvNamed(sig.Recv().Type()) != r.parserT {
			for _, s := range ordered {
				res.obs = append(res.obs, Obligation{Key: s.key, Pos: c.Pos(s.pos), Status: Undecided, Detail: "span built outside a parser method"})
			}
			continue
		}
		run := &spFuncRun{r: r, fd: fd, fn: fn, consts: map[types.Object]bool{}, sites: sites, order: res.order, argObs: map[string]*spSite{}}
		run.walk()
		for _, s := range ordered {
			ob := spSiteObligation(c, s, run)
			if pu := r.pure[fn]; pu != nil && pu.builds && len(pu.params) > 0 {
				helperObs = append(helperObs, spHelperOb{fn, len(res.obs)})
			}
			res.obs = append(res.obs, ob)
		}
		var akeys []string
		for k := range run.argObs {
			akeys = append(akeys, k)
		}
		sort.Strings(akeys)
		for _, k := range akeys {
			s := run.argObs[k]
			if _, decided := s.checks["arg"]; !decided {
				continue
			}
			res.obs = append(res.obs, Obligation{Key: k, Pos: c.Pos(s.pos), Status: s.checks["arg"], Detail: s.detail["arg"]})
		}
	}
	// a span-building helper is decided with the operands of each call site; on
	// its own (operands unknown) it says nothing once every use was decided
	for _, h := range helperObs {
		if n := r.inlined[h.fn]; n > 0 {
			ob := &res.obs[h.idx]
			ob.Status, ob.Nontrivial = Info, false
			ob.Detail = fmt.Sprintf("span-building helper without token consumption: decided at its %d call site(s) with the operands given there", n)
		}
	}
	spanShapeCache[c] = res
	return res
}

type spHelperOb struct {
	fn  *types.Func
	idx int
}

func spAddSite(r *spRoles, fd *ast.FuncDecl, n ast.Node, ctx string, sites map[ast.Node]*spSite, ordered *[]*spSite, count map[string]int) {
	if ctx == "" {
		ctx = "span"
	}
	base := spFuncKey(fd) + "|" + ctx
	count[base]++
	key := base
	if count[base] > 1 {
		key = fmt.Sprintf("%s#%d", base, count[base])
	}
	s := &spSite{key: key, pos: n.Pos(), checks: map[string]Status{}, detail: map[string]string{}}
	sites[n] = s
	*ordered = append(*ordered, s)
}

func spSiteObligation(c *Ctx, s *spSite, run *spFuncRun) Obligation {
	ob := Obligation{Key: s.key, Pos: c.Pos(s.pos), Nontrivial: true}
	if s.summary == "zero" && len(s.checks) == 0 {
		ob.Status = Info
		ob.Nontrivial = false
		ob.Detail = "errors.Span{} placeholder (no position): only acceptable for a value that never reaches a diagnostic as a real position"
		return ob
	}
	if len(run.undec) > 0 {
		ob.Status = Undecided
		ob.Detail = strings.Join(run.undec, "; ")
		return ob
	}
	if s.paths == 0 {
		ob.Status = Undecided
		ob.Detail = "construction not reached on any explored path"
		return ob
	}
	worst := Discharged
	var parts []string
	for _, chk := range []string{"filename", "shape", "end-edge", "consumed", "order"} {
		stt, ok := s.checks[chk]
		if !ok {
			if chk == "consumed" && spPendSites[s] {
				// pending read never resolved on a successful path
				stt = Discharged
				s.detail[chk] = "current-token read; no successful path leaves it unconsumed"
			} else if chk == "shape" || chk == "filename" {
				stt = Undecided
				s.detail[chk] = "not decided"
			} else {
				continue
			}
		}
		switch stt {
		case Violated:
			worst = Violated
			parts = append(parts, chk+": "+s.detail[chk])
		case Undecided:
			if worst != Violated {
				worst = Undecided
			}
			parts = append(parts, chk+": "+s.detail[chk])
		}
	}
	ob.Status = worst
	if worst == Discharged {
		ob.Detail = fmt.Sprintf("%s; %s; %s (%d path visits)", s.detail["shape"], s.detail["consumed"], s.detail["order"], s.paths)
	} else {
		ob.Detail = strings.Join(parts, " | ")
	}
	return ob
}

func ruleSpanShape(c *Ctx) []Obligation {
	return spanShapeAnalyse(c).obs
}
