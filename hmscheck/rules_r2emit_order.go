package main

// R-operand-order (r2emit group): the order in which the compiler pushes the
// operands of a host call / call / spawn agrees with the order in which the
// VM pops and hands them on.

import (
	"fmt"
	"go/ast"
	"go/constant"
	"go/token"
	"go/types"
	"sort"
	"strings"
)

func init() {
	register(&Rule{ID: "R-operand-order", Floor: 8, Run: ruleR2OperandOrder,
		Doc: "pusher/popper agreement for multi-operand instructions. HostCall pops argc and then argc operands into args[0..] (top of stack first), so for every host function the compiler emits (the trigger registration, the list-literal push): the operands the compiler pushes, read backwards from the HostCall instruction, are exactly the operands the host function reads by index — same number of fixed operands, the variadic segment at the same position, argc = fixed + len(variadic list), the concrete value type pushed for a fixed operand is the type the host asserts at that index — and the variadic operands arrive in SOURCE order: the direction of the compiler's push loop composed with the stack reversal and with the direction/gathering (append vs. prepend) of the host's loop over the remaining args is the identity. Likewise for calls: the argument push loop of the call lowering composed with the pop order of the callee's parameter binding loop, with the builtin-call gathering loop of Call_Val, and with the pop-and-re-push transfer of Spawn (the new core's stack must have the layout a call would have produced). Necessary for C01/C17 (host-visible effects: triggers registered with their arguments in order; list literals; arguments bound to the right parameters) — whatever the evaluation order of the arguments is (R-eval-order), pusher and popper must agree"})
}

type r2ItemKind int

const (
	r2ItLit r2ItemKind = iota
	r2ItExpr
	r2ItSeg
)

type r2Item struct {
	kind    r2ItemKind
	src     ast.Expr // lit: the pushed value expression; expr: the compiled AST expression; seg: the element expression
	loop    *r2Loop
	fn      *vmFn
	pos     token.Pos
	carried bool // lies before the loop that contains the instruction (loop-carried operand)
	inner   *r2Item
}

func (it *r2Item) String() string {
	switch it.kind {
	case r2ItLit:
		return "push " + vmTrunc(exprStr(it.src), 50)
	case r2ItExpr:
		return "«" + vmTrunc(exprStr(it.src), 50) + "»"
	}
	return fmt.Sprintf("loop(%s over %s: %s)", r2DirStr(it.loop.dir), vmTrunc(exprStr(it.loop.coll), 40), it.inner.String())
}

type r2Order struct {
	c       *Ctx
	roles   *vmCompilerRoles
	pushOps map[*types.Const]bool // opcodes whose VM clause nets exactly one push on every path
	lenient bool                  // locating an argument loop only: conditional / non-literal single pushes are skipped
	depth   int
}

func (x *r2Order) emits(fn *vmFn, n ast.Node) bool {
	found := false
	ast.Inspect(n, func(m ast.Node) bool {
		if call, ok := m.(*ast.CallExpr); ok {
			if g := CalleeOf(fn.info, call); g != nil && x.roles.emitters[g] {
				found = true
			}
		}
		return !found
	})
	return found
}

// insertOf: statement appends one instruction (insert primitive, forwarding wrapper or
// single-instruction emission helper) → the emission (opcode, operands as seen at the call).
func (x *r2Order) insertOf(fn *vmFn, s ast.Stmt) *r2Emission {
	es, ok := s.(*ast.ExprStmt)
	if !ok {
		return nil
	}
	call, ok := ast.Unparen(es.X).(*ast.CallExpr)
	if !ok {
		return nil
	}
	em, ok := r2EmitIdx(x.c).of(fn, call)
	if !ok {
		return nil
	}
	return em
}

// single: the statement pushes exactly one operand.
func (x *r2Order) single(fn *vmFn, s ast.Stmt) *r2Item {
	if em := x.insertOf(fn, s); em != nil {
		if em.op == nil {
			return nil
		}
		if !x.pushOps[em.op] {
			return nil
		}
		for _, a := range em.args {
			if vmIsNamed(fn.info.TypeOf(a), "homescript/runtime/value", "Value") {
				return &r2Item{kind: r2ItLit, src: a, fn: fn, pos: s.Pos()}
			}
		}
		if x.lenient {
			// any instruction with a net effect of one push (variable / global read)
			return &r2Item{kind: r2ItLit, src: em.call, fn: fn, pos: s.Pos()}
		}
		return nil
	}
	es, ok := s.(*ast.ExprStmt)
	if !ok {
		return nil
	}
	call, ok := ast.Unparen(es.X).(*ast.CallExpr)
	if !ok {
		return nil
	}
	g := CalleeOf(fn.info, call)
	if g == nil || !x.roles.emitters[g] || r2EmitIdx(x.c).isForward(g) {
		return nil
	}
	// child compilation of an expression node (pushes its value)
	for _, a := range call.Args {
		if n := vmNamed(fn.info.TypeOf(a)); n != nil && n.Obj().Pkg() == x.roles.astPkg {
			if _, isIface := n.Underlying().(*types.Interface); isIface && strings.Contains(n.Obj().Name(), "Expression") {
				return &r2Item{kind: r2ItExpr, src: a, fn: fn, pos: s.Pos()}
			}
		}
	}
	return nil
}

// classify: item (one operand or a loop pushing one operand per element), skip
// (emits nothing), or boundary (item == nil, skip == false).
func (x *r2Order) classify(fn *vmFn, s ast.Stmt) (item *r2Item, skip bool) {
	if !x.emits(fn, s) {
		return nil, true
	}
	if it := x.single(fn, s); it != nil {
		return it, false
	}
	// a helper that consists of one push loop over one of its parameters (the argument loop
	// extracted into a function): the loop, with the parameter replaced by the argument
	if es, ok := s.(*ast.ExprStmt); ok {
		if call, ok := ast.Unparen(es.X).(*ast.CallExpr); ok {
			if g := CalleeOf(fn.info, call); g != nil && !r2EmitIdx(x.c).isForward(g) && r2EmitIdx(x.c).singleOf(g) == nil && x.roles.byObj[g] != nil && x.depth < 2 {
				gfn := x.roles.byObj[g]
				var only *r2Item
				var singles []*r2Item
				nEmit := 0
				x.depth++
				for _, b := range gfn.fd.Body.List {
					if !x.emits(gfn, b) {
						continue
					}
					nEmit++
					if it, _ := x.classify(gfn, b); it != nil && it.kind == r2ItSeg {
						only = it
					} else if it != nil {
						singles = append(singles, it)
					}
				}
				x.depth--
				// a helper that only pushes single operands (the argument count)
				if nEmit > 0 && len(singles) == nEmit {
					if nEmit == 1 {
						return singles[0], false
					}
					if x.lenient {
						return nil, true
					}
				}
				if nEmit == 1 && only != nil {
					// map the parameter the loop ranges over to the actual argument
					root := vmRootOf(only.loop.coll)
					if id, ok := root.(*ast.Ident); ok {
						po := vmObjOf(gfn.info, id)
						idx := 0
						for _, fl := range gfn.fd.Type.Params.List {
							for _, nm := range fl.Names {
								if gfn.info.Defs[nm] == po && idx < len(call.Args) {
									l2 := *only.loop
									l2.coll = r2Subst(only.loop.coll, id, call.Args[idx])
									return &r2Item{kind: r2ItSeg, loop: &l2, inner: only.inner, src: only.src, fn: fn, pos: s.Pos()}, false
								}
								idx++
							}
						}
					}
					return only, false
				}
			}
		}
	}
	switch y := s.(type) {
	case *ast.IfStmt:
		// `if c { …; return }` without else: on the path that continues behind it the
		// body did not run
		if y.Else == nil && len(y.Body.List) > 0 && !x.emits(fn, y.Cond) && (y.Init == nil || !x.emits(fn, y.Init)) {
			last := y.Body.List[len(y.Body.List)-1]
			if _, isRet := last.(*ast.ReturnStmt); isRet || IsPanicCall(fn.info, last) {
				return nil, true
			}
			if x.lenient {
				// conditional extra operands (the argc of a spawn): irrelevant for locating the argument loop
				only := true
				for _, b := range y.Body.List {
					if !x.emits(fn, b) {
						continue
					}
					if it, skip := x.classify(fn, b); !skip && (it == nil || it.kind == r2ItSeg) {
						only = false
					}
				}
				if only {
					return nil, true
				}
			}
		}
		return nil, false
	case *ast.ForStmt, *ast.RangeStmt:
		l := r2LoopOf(fn.info, s)
		if l == nil || l.coll == nil {
			return nil, false
		}
		var inner *r2Item
		for _, b := range l.body.List {
			if !x.emits(fn, b) {
				continue
			}
			it := x.single(fn, b)
			if it == nil || inner != nil {
				return nil, false
			}
			inner = it
		}
		if inner == nil {
			return nil, false
		}
		return &r2Item{kind: r2ItSeg, loop: l, inner: inner, src: inner.src, fn: fn, pos: s.Pos()}, false
	}
	return nil, false
}

// scanBack lists the operands pushed before statement s, nearest first.
func (x *r2Order) scanBack(fn *vmFn, par map[ast.Node]ast.Node, s ast.Stmt) []*r2Item {
	var out []*r2Item
	carried := false
	cur := ast.Node(s)
	for depth := 0; depth < 12; depth++ {
		p := par[cur]
		var list []ast.Stmt
		switch b := p.(type) {
		case *ast.BlockStmt:
			list = b.List
		case *ast.CaseClause:
			list = b.Body
		default:
			return out
		}
		idx := -1
		for i, st := range list {
			if ast.Node(st) == cur {
				idx = i
			}
		}
		for j := idx - 1; j >= 0; j-- {
			it, skip := x.classify(fn, list[j])
			if skip {
				continue
			}
			if it == nil {
				return out
			}
			it.carried = carried
			out = append(out, it)
		}
		if _, isCase := p.(*ast.CaseClause); isCase {
			return out
		}
		gp := par[p]
		switch g := gp.(type) {
		case *ast.ForStmt, *ast.RangeStmt:
			carried = true
			cur = gp
		case *ast.IfStmt:
			cur = gp
			// else-if chains: climb to the outermost if
			for {
				if up, ok := par[cur].(*ast.IfStmt); ok && up.Else == cur {
					cur = up
					continue
				}
				break
			}
			_ = g
		case *ast.BlockStmt, *ast.CaseClause:
			cur = p
		default:
			return out
		}
	}
	return out
}

// argcOf parses the operand-count expression: constant part + len(collection) parts.
func (x *r2Order) argcOf(fn *vmFn, e ast.Expr, depth int) (c int64, colls []ast.Expr, ok bool) {
	info := fn.info
	e = vmStripConv(info, e)
	if n, isC := r2ConstInt(info, e); isC {
		return n, nil, true
	}
	if a := r2IsLenOf(info, e); a != nil {
		return 0, []ast.Expr{a}, true
	}
	switch y := e.(type) {
	case *ast.BinaryExpr:
		if y.Op == token.ADD {
			c1, l1, ok1 := x.argcOf(fn, y.X, depth)
			c2, l2, ok2 := x.argcOf(fn, y.Y, depth)
			return c1 + c2, append(l1, l2...), ok1 && ok2
		}
	case *ast.Ident:
		if depth > 3 {
			return 0, nil, false
		}
		o := vmObjOf(info, y)
		var def ast.Expr
		n := 0
		ast.Inspect(fn.fd.Body, func(m ast.Node) bool {
			if as, ok := m.(*ast.AssignStmt); ok {
				for i, l := range as.Lhs {
					if vmObjOf(info, l) == o && i < len(as.Rhs) {
						def = as.Rhs[i]
						n++
					}
				}
			}
			return true
		})
		if n == 1 {
			return x.argcOf(fn, def, depth+1)
		}
	}
	return 0, nil, false
}

// ctorType: the concrete value type a value constructor builds (NewValueString → ValueString).
func (x *r2Order) ctorType(g *types.Func, depth int) *types.Named {
	fn := vmDeclIndex(x.c).of(g)
	if fn == nil || depth > 2 {
		return nil
	}
	var out *types.Named
	ast.Inspect(fn.fd.Body, func(n ast.Node) bool {
		if out != nil {
			return false
		}
		switch y := n.(type) {
		case *ast.CompositeLit:
			if nt := vmNamed(fn.info.TypeOf(y)); nt != nil {
				if _, isStruct := nt.Underlying().(*types.Struct); isStruct && nt.Obj().Pkg() == g.Pkg() {
					out = nt
				}
			}
		case *ast.ReturnStmt:
			if len(y.Results) == 1 {
				if call, ok := ast.Unparen(y.Results[0]).(*ast.CallExpr); ok {
					if h := CalleeOf(fn.info, call); h != nil && h != g {
						out = x.ctorType(h, depth+1)
					}
				}
			}
		}
		return out == nil
	})
	return out
}

func (x *r2Order) litType(it *r2Item) *types.Named {
	if it.kind != r2ItLit {
		return nil
	}
	e := ast.Unparen(it.src)
	if s, ok := e.(*ast.StarExpr); ok {
		e = ast.Unparen(s.X)
	}
	call, ok := e.(*ast.CallExpr)
	if !ok {
		return nil
	}
	g := CalleeOf(it.fn.info, call)
	if g == nil {
		return nil
	}
	return x.ctorType(g, 0)
}

// ---- host side

type r2HostRead struct {
	idx    int
	assert *types.Named
	pos    token.Pos
	bound  types.Object // local variable the operand is bound to
}

type r2HostSeg struct {
	start  int64
	dir    int // order in which the consumer receives the operands relative to the index order
	desc   string
	pos    token.Pos
	target types.Object
}

type r2HostClause struct {
	name    string
	cc      *ast.CaseClause
	reads   []r2HostRead
	seg     *r2HostSeg
	unknown []string
}

// gatherDir: how the loop body collects `elem` into a slice: +1 append, -1 prepend, +1 otherwise.
func r2GatherDir(info *types.Info, body *ast.BlockStmt, mentions func(e ast.Expr) bool) (int, string, types.Object) {
	dir, desc := +1, "used in index order"
	var target types.Object
	ast.Inspect(body, func(n ast.Node) bool {
		as, ok := n.(*ast.AssignStmt)
		if !ok || len(as.Lhs) != 1 || len(as.Rhs) != 1 {
			return true
		}
		call, ok := ast.Unparen(as.Rhs[0]).(*ast.CallExpr)
		if !ok || !r2IsBuiltin(info, call, "append") || len(call.Args) < 2 {
			return true
		}
		lhs := vmObjOf(info, as.Lhs[0])
		if lhs == nil {
			return true
		}
		if vmObjOf(info, call.Args[0]) == lhs && !call.Ellipsis.IsValid() {
			for _, a := range call.Args[1:] {
				if mentions(a) {
					dir, desc, target = +1, "appended to `"+lhs.Name()+"`", lhs
				}
			}
		} else if call.Ellipsis.IsValid() && vmObjOf(info, call.Args[len(call.Args)-1]) == lhs && mentions(call.Args[0]) {
			dir, desc, target = -1, "prepended to `"+lhs.Name()+"`", lhs
		}
		return true
	})
	return dir, desc, target
}

func (x *r2Order) hostClauses() (fn *vmFn, out map[string]*r2HostClause) {
	c := x.c
	rt := c.Pkg("homescript/runtime")
	// the host-call hook of a core, by role: the func-typed field of Core whose signature takes a
	// name (string) and the popped operands ([]*Value)
	var hf *types.Var
	if obj := rt.Types.Scope().Lookup("Core"); obj != nil {
		if st, ok := obj.Type().Underlying().(*types.Struct); ok {
			for i := 0; i < st.NumFields(); i++ {
				sig, ok := st.Field(i).Type().Underlying().(*types.Signature)
				if !ok {
					continue
				}
				hasName, hasArgs := false, false
				for j := 0; j < sig.Params().Len(); j++ {
					t := sig.Params().At(j).Type()
					if types.Identical(t, types.Typ[types.String]) {
						hasName = true
					}
					if sl, ok := t.Underlying().(*types.Slice); ok {
						if pt, ok := sl.Elem().Underlying().(*types.Pointer); ok && vmIsNamed(pt.Elem(), "homescript/runtime/value", "Value") {
							hasArgs = true
						}
					}
				}
				if hasName && hasArgs {
					hf = st.Field(i)
				}
			}
		}
	}
	if hf == nil {
		fatalf("anchor unresolved: the host-call hook field of runtime.Core (func(…, string, …, []*value.Value) …)")
	}
	var cands []*vmFn
	for _, f := range vmFuncs(c, "homescript/runtime") {
		obj, _ := f.info.Defs[f.fd.Name].(*types.Func)
		if obj != nil && f.fd.Recv == nil && types.Identical(obj.Type(), hf.Type()) {
			cands = append(cands, f)
		}
	}
	if len(cands) != 1 {
		fatalf("anchor unresolved: exactly one runtime function with the type of Core.hostCall expected, found %d", len(cands))
	}
	fn = cands[0]
	info := fn.info
	sig := info.Defs[fn.fd.Name].(*types.Func).Type().(*types.Signature)
	var nameP, argsP types.Object
	for i := 0; i < sig.Params().Len(); i++ {
		p := sig.Params().At(i)
		if types.Identical(p.Type(), types.Typ[types.String]) {
			nameP = p
		}
		if _, ok := p.Type().Underlying().(*types.Slice); ok {
			argsP = p
		}
	}
	if nameP == nil || argsP == nil {
		fatalf("anchor unresolved: name / args parameters of %s", fn.name)
	}
	var sw *ast.SwitchStmt
	for _, s := range fn.fd.Body.List {
		if y, ok := s.(*ast.SwitchStmt); ok && y.Tag != nil && vmObjOf(info, y.Tag) == nameP {
			sw = y
		}
	}
	if sw == nil {
		fatalf("anchor unresolved: %s has no statement-level switch over its name parameter", fn.name)
	}
	out = map[string]*r2HostClause{}
	for _, cl := range sw.Body.List {
		cc := cl.(*ast.CaseClause)
		for _, e := range cc.List {
			tv := info.Types[e]
			if tv.Value == nil || tv.Value.Kind() != constant.String {
				continue
			}
			hc := &r2HostClause{name: constant.StringVal(tv.Value), cc: cc}
			out[hc.name] = hc
			x.parseHostClause(fn, hc, argsP)
		}
	}
	return fn, out
}

func (x *r2Order) parseHostClause(fn *vmFn, hc *r2HostClause, argsP types.Object) {
	info := fn.info
	c := x.c
	body := &ast.BlockStmt{List: hc.cc.Body}
	par := r2Parents(body)
	isArgs := func(e ast.Expr) bool { return vmObjOf(info, e) == argsP }
	enclosingLoop := func(n ast.Node, idx types.Object) *r2Loop {
		for cur := par[n]; cur != nil; cur = par[cur] {
			if s, ok := cur.(ast.Stmt); ok {
				if l := r2LoopOf(info, s); l != nil && l.idx == idx && idx != nil {
					return l
				}
			}
		}
		return nil
	}
	handled := map[ast.Node]bool{}
	ast.Inspect(body, func(n ast.Node) bool {
		switch y := n.(type) {
		case *ast.IndexExpr:
			if !isArgs(y.X) {
				return true
			}
			handled[ast.Unparen(y.X)] = true
			if k, ok := r2ConstInt(info, y.Index); ok {
				rd := r2HostRead{idx: int(k), pos: y.Pos()}
				// (*args[k]).(T)
				var up ast.Node = y
				for i := 0; i < 4; i++ {
					up = par[up]
					if ta, ok := up.(*ast.TypeAssertExpr); ok && ta.Type != nil {
						rd.assert = vmNamed(info.TypeOf(ta.Type))
						break
					}
					switch up.(type) {
					case *ast.StarExpr, *ast.ParenExpr:
						continue
					}
					break
				}
				// bound variable: `v := …args[k]…`
				for up = y; up != nil; up = par[up] {
					if as, ok := up.(*ast.AssignStmt); ok && len(as.Lhs) == 1 {
						rd.bound = vmObjOf(info, as.Lhs[0])
						break
					}
					if _, ok := up.(ast.Stmt); ok {
						break
					}
				}
				hc.reads = append(hc.reads, rd)
				return true
			}
			io := vmObjOf(info, y.Index)
			l := enclosingLoop(y, io)
			if l == nil || l.coll == nil || !isArgs(l.coll) || !l.full || l.dir == 0 {
				hc.unknown = append(hc.unknown, fmt.Sprintf("args[%s] @%s: the index is neither a constant nor the variable of a loop over args", exprStr(y.Index), c.Pos(y.Pos())))
				return true
			}
			var start int64
			if l.start != nil {
				if l.startC != nil {
					start = *l.startC
				} else if s, ok := r2ConstInt(info, l.start); ok {
					start = s
				} else {
					hc.unknown = append(hc.unknown, fmt.Sprintf("loop over args @%s starts at the non-constant %s", c.Pos(l.stmt.Pos()), exprStr(l.start)))
					return true
				}
			}
			g, desc, target := r2GatherDir(info, l.body, func(e ast.Expr) bool {
				f := false
				ast.Inspect(e, func(m ast.Node) bool {
					if m == ast.Node(y) {
						f = true
					}
					return !f
				})
				return f
			})
			seg := &r2HostSeg{start: start, dir: l.dir * g, desc: fmt.Sprintf("%s loop over args[%d:], each %s", r2DirStr(l.dir), start, desc), pos: l.stmt.Pos(), target: target}
			if hc.seg != nil && (hc.seg.start != seg.start || hc.seg.dir != seg.dir) {
				hc.unknown = append(hc.unknown, "two different loops over the remaining args")
			}
			hc.seg = seg
		case *ast.SliceExpr:
			if !isArgs(y.X) {
				return true
			}
			handled[ast.Unparen(y.X)] = true
			var start int64
			if y.Low != nil {
				s, ok := r2ConstInt(info, y.Low)
				if !ok || y.High != nil {
					hc.unknown = append(hc.unknown, fmt.Sprintf("args[%s] @%s: not a constant-offset tail", exprStr(y), c.Pos(y.Pos())))
					return true
				}
				start = s
			}
			seg := &r2HostSeg{start: start, dir: +1, desc: fmt.Sprintf("args[%d:] used as a whole", start), pos: y.Pos()}
			// `for _, a := range args[s:]`
			if rs, ok := par[y].(*ast.RangeStmt); ok && ast.Unparen(rs.X) == ast.Expr(y) {
				vo := vmObjOf(info, rs.Value)
				g, desc, target := r2GatherDir(info, rs.Body, func(e ast.Expr) bool { return vo != nil && vmMentionsObj(info, e, vo) })
				seg.dir, seg.desc, seg.target = g, fmt.Sprintf("range over args[%d:], each %s", start, desc), target
			}
			hc.seg = seg
		case *ast.CallExpr:
			if r2IsBuiltin(info, y, "len") && len(y.Args) == 1 && isArgs(y.Args[0]) {
				handled[ast.Unparen(y.Args[0])] = true
			}
		case *ast.RangeStmt:
			if isArgs(y.X) {
				handled[ast.Unparen(y.X)] = true
				vo := vmObjOf(info, y.Value)
				g, desc, target := r2GatherDir(info, y.Body, func(e ast.Expr) bool { return vo != nil && vmMentionsObj(info, e, vo) })
				hc.seg = &r2HostSeg{start: 0, dir: g, desc: "range over args, each " + desc, pos: y.Pos(), target: target}
			}
		}
		return true
	})
	ast.Inspect(body, func(n ast.Node) bool {
		if id, ok := n.(*ast.Ident); ok && info.Uses[id] == argsP && !handled[id] {
			// `return args[1], nil` etc. are IndexExpr (handled); anything else is a whole-slice use
			hc.unknown = append(hc.unknown, fmt.Sprintf("`%s` used as a whole @%s", id.Name, c.Pos(id.Pos())))
		}
		return true
	})
}

// ---- the rule

func ruleR2OperandOrder(c *Ctx) []Obligation {
	r2LoopCtx = c
	roles := vmCompRoles(c)
	x := &r2Order{c: c, roles: roles, pushOps: r3emPushOps(c)}
	hostOp := vmConst(c, "homescript/compiler", "Opcode_HostCall")
	hostFn, clauses := x.hostClauses()
	var obs []Obligation

	type site struct {
		fn    *vmFn
		stmt  ast.Stmt
		name  string
		nameE ast.Expr
	}
	var sites []site
	for _, fn := range roles.fns {
		par := r2Parents(fn.fd.Body)
		_ = par
		ast.Inspect(fn.fd.Body, func(n ast.Node) bool {
			s, ok := n.(ast.Stmt)
			if !ok {
				return true
			}
			em := x.insertOf(fn, s)
			if em == nil || em.op != hostOp {
				return true
			}
			for _, a := range em.args {
				if tv := fn.info.Types[a]; tv.Value != nil && tv.Value.Kind() == constant.String {
					sites = append(sites, site{fn, s, constant.StringVal(tv.Value), a})
					return true
				}
			}
			sites = append(sites, site{fn, s, "", nil})
			return true
		})
	}
	if len(sites) == 0 {
		return []Obligation{{Key: "compiler|host call sites", Status: Undecided, Detail: "the compiler emits no Opcode_HostCall: re-anchor the rule"}}
	}
	seenName := map[string]int{}
	emitted := map[string]bool{}
	for _, st := range sites {
		fn := st.fn
		pos := c.Pos(st.stmt.Pos())
		if st.name == "" {
			obs = append(obs, Obligation{Key: r2UnitKey(c, fn, st.stmt.Pos()) + "|host call with a non-constant name", Pos: pos, Status: Undecided, Detail: "the host function name is not a constant"})
			continue
		}
		emitted[st.name] = true
		seenName[st.name]++
		base := fmt.Sprintf("hostcall %q", st.name)
		if seenName[st.name] > 1 {
			base += fmt.Sprintf(" #%d", seenName[st.name])
		}
		base += "|" + r2UnitKey(c, fn, st.stmt.Pos())
		hc := clauses[st.name]
		if hc == nil {
			obs = append(obs, Obligation{Key: base + "|the host implements the function", Pos: pos, Status: Violated, Nontrivial: true, Detail: fmt.Sprintf("%s has no clause for %q: the VM panics (`Invalid hostcall`)", hostFn.name, st.name)})
			continue
		}
		items := x.scanBack(fn, r2Parents(fn.fd.Body), st.stmt)
		var its []string
		for _, it := range items {
			t := it.String()
			if it.carried {
				t += " [before the loop]"
			}
			its = append(its, t)
		}
		hostDesc := func() string {
			var rs []string
			sort.Slice(hc.reads, func(i, j int) bool { return hc.reads[i].idx < hc.reads[j].idx })
			for _, r := range hc.reads {
				t := fmt.Sprintf("args[%d]", r.idx)
				if r.assert != nil {
					t += ".(" + r.assert.Obj().Name() + ")"
				}
				if r.bound != nil {
					t += "→" + r.bound.Name()
				}
				rs = append(rs, t)
			}
			if hc.seg != nil {
				rs = append(rs, hc.seg.desc)
			}
			return strings.Join(vmUniq(rs), ", ")
		}()
		witness := fmt.Sprintf("compiler pushes, nearest to the HostCall first: [%s]; host %s @%s reads: %s", strings.Join(its, " | "), hostFn.name, c.Pos(hc.cc.Pos()), hostDesc)

		// ---- layout: argc, fixed count, variadic position
		ob := Obligation{Key: base + "|operand layout: argc, fixed operands, variadic segment", Pos: pos, Nontrivial: true}
		var bad, und []string
		und = append(und, hc.unknown...)
		var argcC int64
		var argcColls []ast.Expr
		var operands []*r2Item
		if len(items) == 0 || items[0].kind != r2ItLit {
			und = append(und, "the instruction before the HostCall is not a constant push (argc)")
		} else {
			e := ast.Unparen(items[0].src)
			if s, ok := e.(*ast.StarExpr); ok {
				e = ast.Unparen(s.X)
			}
			okA := false
			if call, ok := e.(*ast.CallExpr); ok && len(call.Args) == 1 {
				argcC, argcColls, okA = x.argcOf(fn, call.Args[0], 0)
			}
			if !okA {
				und = append(und, "argc `"+exprStr(items[0].src)+"` is not constant + len(list)")
			}
			operands = items[1:]
		}
		// host layout
		nFixed := 0
		idxSeen := map[int]bool{}
		for _, r := range hc.reads {
			idxSeen[r.idx] = true
			if r.idx+1 > nFixed {
				nFixed = r.idx + 1
			}
		}
		if hc.seg != nil {
			nFixed = int(hc.seg.start)
			for k := range idxSeen {
				if k >= nFixed {
					und = append(und, fmt.Sprintf("the host reads args[%d] by constant index although the variadic segment starts at %d", k, nFixed))
				}
			}
		}
		// compiler layout in pop order
		var fixedItems []*r2Item
		var segItem *r2Item
		if len(und) == 0 {
			for i, it := range operands {
				if it.kind == r2ItSeg {
					segItem = it
					if i != int(argcC) {
						bad = append(bad, fmt.Sprintf("the variadic loop is operand #%d in pop order, but argc counts %d fixed operands before it", i, argcC))
					}
					break
				}
				fixedItems = append(fixedItems, it)
				if len(fixedItems) == int(argcC) && len(argcColls) == 0 {
					break
				}
			}
			if len(fixedItems) < int(argcC) {
				bad = append(bad, fmt.Sprintf("argc announces %d fixed operand(s) but only %d single push(es) precede the HostCall", argcC, len(fixedItems)))
			}
			if int(argcC) != nFixed {
				bad = append(bad, fmt.Sprintf("argc announces %d fixed operand(s); the host reads %d fixed operand(s) (args[0..%d])", argcC, nFixed, nFixed-1))
			}
			for k := 0; k < nFixed; k++ {
				if !idxSeen[k] && hc.seg == nil {
					bad = append(bad, fmt.Sprintf("the host never reads args[%d]", k))
				}
			}
			switch {
			case len(argcColls) > 1:
				und = append(und, "argc adds the lengths of several lists")
			case len(argcColls) == 1 && hc.seg == nil:
				bad = append(bad, fmt.Sprintf("argc includes len(%s) but the host reads no variadic tail", exprStr(argcColls[0])))
			case len(argcColls) == 0 && hc.seg != nil:
				bad = append(bad, "the host loops over the remaining args but argc is a constant")
			case len(argcColls) == 1 && segItem == nil:
				bad = append(bad, fmt.Sprintf("argc includes len(%s) but no loop pushes one operand per element before the fixed operands", exprStr(argcColls[0])))
			case len(argcColls) == 1 && !r2SameColl(fn.info, argcColls[0], segItem.fn.info, segItem.loop.coll):
				bad = append(bad, fmt.Sprintf("argc counts len(%s) but the loop pushes the elements of %s", exprStr(argcColls[0]), exprStr(segItem.loop.coll)))
			}
			if segItem != nil && (!segItem.loop.full || segItem.loop.start != nil) {
				bad = append(bad, "the variadic push loop does not cover the whole list")
			}
		}
		switch {
		case len(bad) > 0:
			ob.Status, ob.Detail = Violated, strings.Join(bad, " | ")+". "+witness
		case len(und) > 0:
			ob.Status, ob.Detail = Undecided, strings.Join(und, " | ")+". "+witness
		default:
			ob.Status, ob.Detail = Discharged, witness
		}
		obs = append(obs, ob)
		decided := ob.Status == Discharged

		// ---- variadic order
		if hc.seg != nil || segItem != nil {
			ob := Obligation{Key: base + "|variadic operands reach the host function's consumer in source order", Pos: pos, Nontrivial: true}
			switch {
			case !decided || hc.seg == nil || segItem == nil:
				ob.Status, ob.Detail = Undecided, "layout undecided, see the layout obligation. "+witness
			case segItem.loop.dir == 0:
				ob.Status, ob.Detail = Undecided, "the push loop has no recognisable direction. "+witness
			default:
				// pop order relative to source order = -pushDir; consumer order relative to pop order = seg.dir
				final := -segItem.loop.dir * hc.seg.dir
				expl := fmt.Sprintf("the compiler pushes the elements of %s in %s order, HostCall pops them into args[%d..] in the reverse of the push order, the host hands them on by a %s", exprStr(segItem.loop.coll), r2DirStr(segItem.loop.dir), hc.seg.start, hc.seg.desc)
				if final == +1 {
					ob.Status, ob.Detail = Discharged, expl+": source order"
				} else {
					ob.Status = Violated
					ob.Detail = expl + fmt.Sprintf(": the consumer receives them in REVERSE source order (a statement with arguments (a, b, c) registers (c, b, a)). Push loop @%s, host loop @%s", c.Pos(segItem.pos), c.Pos(hc.seg.pos))
				}
			}
			obs = append(obs, ob)
		}

		// ---- kinds of the fixed operands
		{
			ob := Obligation{Key: base + "|the value type pushed for a fixed operand is the type the host asserts at that index", Pos: pos, Nontrivial: true}
			var bad, okk []string
			if decided {
				for _, r := range hc.reads {
					if r.assert == nil || r.idx >= len(fixedItems) {
						continue
					}
					it := fixedItems[r.idx]
					lt := x.litType(it)
					switch {
					case it.kind != r2ItLit:
						okk = append(okk, fmt.Sprintf("args[%d] ← %s (compiled expression; type checked by the analyzer)", r.idx, it.String()))
					case lt == nil:
						okk = append(okk, fmt.Sprintf("args[%d] ← %s (constructor not resolved)", r.idx, it.String()))
					case lt.Obj() != r.assert.Obj():
						bad = append(bad, fmt.Sprintf("args[%d] is asserted to %s @%s but the compiler pushes a %s (%s): the assertion panics and kills the core", r.idx, r.assert.Obj().Name(), c.Pos(r.pos), lt.Obj().Name(), it.String()))
					default:
						okk = append(okk, fmt.Sprintf("args[%d].(%s) ← %s", r.idx, r.assert.Obj().Name(), it.String()))
					}
				}
			}
			if decided {
				// the converse: a literal of concrete type T pushed at index k, while the host
				// expects T at another index where the compiler pushes something else
				asserted := map[int]*types.Named{}
				for _, r := range hc.reads {
					if r.assert != nil {
						asserted[r.idx] = r.assert
					}
				}
				for k, it := range fixedItems {
					lt := x.litType(it)
					if lt == nil || asserted[k] != nil {
						continue
					}
					for k2, t := range asserted {
						if t.Obj() != lt.Obj() || k2 >= len(fixedItems) {
							continue
						}
						if lt2 := x.litType(fixedItems[k2]); lt2 == nil || lt2.Obj() != t.Obj() {
							bad = append(bad, fmt.Sprintf("the compiler pushes a %s literal (%s) as operand #%d, where the host asserts nothing, while the host asserts %s at args[%d], where the compiler pushes %s: the two operands are swapped", lt.Obj().Name(), it.String(), k, t.Obj().Name(), k2, fixedItems[k2].String()))
						}
					}
				}
			}
			switch {
			case !decided:
				ob.Status, ob.Detail = Undecided, "layout undecided, see the layout obligation"
			case len(bad) > 0:
				ob.Status, ob.Detail = Violated, strings.Join(bad, " | ")
			default:
				ob.Status, ob.Detail = Discharged, strings.Join(okk, "; ")
				if len(okk) == 0 {
					ob.Detail = "the host asserts no concrete type"
				}
			}
			obs = append(obs, ob)
		}

		// ---- roles of same-typed fixed operands (by name correspondence with the consumer's parameters)
		if decided {
			if ob, ok := x.roleObligation(base, pos, fn, hostFn, hc, fixedItems); ok {
				obs = append(obs, ob)
			}
		}
	}
	// host clauses never emitted
	var dead []string
	for n := range clauses {
		if !emitted[n] {
			dead = append(dead, n)
		}
	}
	sort.Strings(dead)
	if len(dead) > 0 {
		obs = append(obs, Obligation{Key: "hostcall|clauses without an emitting site", Status: Info, Detail: fmt.Sprintf("%v", dead)})
	}
	obs = append(obs, x.callObligations()...)
	return obs
}

// roleObligation: when the host forwards fixed operands to a method whose
// parameters are named, the AST field pushed for an operand must be the one
// whose name matches the parameter (CallbackIdent ↔ callbackFunctionIdent).
func (x *r2Order) roleObligation(base, pos string, fn, hostFn *vmFn, hc *r2HostClause, fixed []*r2Item) (Obligation, bool) {
	info := hostFn.info
	// consumer call: a call in the clause that receives >= 2 bound operands
	type bind struct {
		idx   int
		param string
	}
	var binds []bind
	consumer := ""
	ast.Inspect(&ast.BlockStmt{List: hc.cc.Body}, func(n ast.Node) bool {
		call, ok := n.(*ast.CallExpr)
		if !ok {
			return true
		}
		g := CalleeOf(info, call)
		if g == nil {
			return true
		}
		sig := g.Type().(*types.Signature)
		var bs []bind
		for i, a := range call.Args {
			o := vmObjOf(info, a)
			if o == nil || i >= sig.Params().Len() {
				continue
			}
			for _, r := range hc.reads {
				if r.bound == o && sig.Params().At(i).Name() != "" {
					bs = append(bs, bind{r.idx, sig.Params().At(i).Name()})
				}
			}
		}
		if len(bs) >= 2 {
			binds, consumer = bs, g.Name()
		}
		return true
	})
	if len(binds) < 2 {
		return Obligation{}, false
	}
	tokens := func(s string) map[string]bool {
		out := map[string]bool{}
		cur := ""
		flush := func() {
			if cur != "" {
				out[strings.ToLower(cur)] = true
			}
			cur = ""
		}
		for _, r := range s {
			if r >= 'A' && r <= 'Z' {
				flush()
			}
			if r == '.' || r == '(' || r == ')' || r == '_' {
				flush()
				continue
			}
			cur += string(r)
		}
		flush()
		return out
	}
	// tokens shared by all parameters carry no information
	common := map[string]int{}
	for _, b := range binds {
		for t := range tokens(b.param) {
			common[t]++
		}
	}
	score := func(field, param string) int {
		n := 0
		ft := tokens(field)
		for t := range tokens(param) {
			if common[t] == len(binds) {
				continue
			}
			if ft[t] {
				n++
			}
		}
		return n
	}
	ob := Obligation{Key: base + "|fixed operands are pushed for the consumer parameter of the same name", Pos: pos, Nontrivial: true}
	var bad, okk []string
	ambiguous := false
	for _, b := range binds {
		if b.idx >= len(fixed) || fixed[b.idx].kind != r2ItLit {
			ambiguous = true
			continue
		}
		chain := r2FieldChain(fixed[b.idx].fn.info, r2LitArg(fixed[b.idx].src))
		best, bestParam, tie := -1, "", false
		for _, b2 := range binds {
			sc := score(chain, b2.param)
			if sc > best {
				best, bestParam, tie = sc, b2.param, false
			} else if sc == best {
				tie = true
			}
		}
		switch {
		case best <= 0 || tie:
			ambiguous = true
		case bestParam != b.param:
			bad = append(bad, fmt.Sprintf("args[%d] is forwarded to %s's parameter `%s`, but the compiler pushes `%s` there, which names the parameter `%s`", b.idx, consumer, b.param, chain, bestParam))
		default:
			okk = append(okk, fmt.Sprintf("args[%d] ← %s → %s(%s)", b.idx, chain, consumer, b.param))
		}
	}
	switch {
	case len(bad) > 0:
		ob.Status, ob.Detail = Violated, strings.Join(bad, " | ")
	case ambiguous:
		ob.Status, ob.Detail = Info, "name correspondence between pushed AST fields and the consumer's parameters is not unambiguous; not decided"
	default:
		ob.Status, ob.Detail = Discharged, strings.Join(okk, "; ")
	}
	return ob, true
}

// r2LitArg: `*value.NewValueString(e)` → e
func r2LitArg(e ast.Expr) ast.Expr {
	e = ast.Unparen(e)
	if s, ok := e.(*ast.StarExpr); ok {
		e = ast.Unparen(s.X)
	}
	if call, ok := e.(*ast.CallExpr); ok && len(call.Args) == 1 {
		return call.Args[0]
	}
	return e
}

// ---- calls and spawn

func (x *r2Order) callObligations() []Obligation {
	c := x.c
	roles := x.roles
	var obs []Obligation
	opc := func(n string) *types.Const { return vmConst(c, "homescript/compiler", n) }
	callOps := map[*types.Const]bool{opc("Opcode_Call_Imm"): true, opc("Opcode_Call_Val"): true, opc("Opcode_Spawn"): true}
	setVar := opc("Opcode_SetVarImm")

	// (A) argument push loops: every loop of the compiler over a list of call arguments (the
	// element type of the call node's argument list) that compiles one expression per element
	type argLoop struct {
		it  *r2Item
		op  string
		pos token.Pos
	}
	var argLoops []argLoop
	x.lenient = true
	defer func() { x.lenient = false }()
	_ = callOps
	var argElem types.Type
	{
		sc := roles.astPkg.Scope()
		names := sc.Names()
		sort.Strings(names)
		var find func(t types.Type, depth int)
		find = func(t types.Type, depth int) {
			if argElem != nil || depth > 2 {
				return
			}
			switch u := t.Underlying().(type) {
			case *types.Slice:
				if st, ok := u.Elem().Underlying().(*types.Struct); ok {
					for i := 0; i < st.NumFields(); i++ {
						if n := vmNamed(st.Field(i).Type()); n != nil && n.Obj().Pkg() == roles.astPkg {
							if _, isIface := n.Underlying().(*types.Interface); isIface && strings.Contains(n.Obj().Name(), "Expression") {
								argElem = u.Elem()
							}
						}
					}
				}
			case *types.Struct:
				for i := 0; i < u.NumFields(); i++ {
					find(u.Field(i).Type(), depth+1)
				}
			}
		}
		for _, n := range names {
			tn, ok := sc.Lookup(n).(*types.TypeName)
			if !ok || !strings.Contains(n, "CallExpression") {
				continue
			}
			if st, ok := tn.Type().Underlying().(*types.Struct); ok {
				for i := 0; i < st.NumFields() && argElem == nil; i++ {
					if _, isSlice := st.Field(i).Type().Underlying().(*types.Slice); isSlice {
						continue // the base / type arguments are not the call arguments' wrapper
					}
					find(st.Field(i).Type(), 1)
				}
			}
		}
	}
	if argElem != nil {
		for _, fn := range roles.fns {
			ast.Inspect(fn.fd.Body, func(n ast.Node) bool {
				s, ok := n.(ast.Stmt)
				if !ok {
					return true
				}
				switch s.(type) {
				case *ast.ForStmt, *ast.RangeStmt:
				default:
					return true
				}
				l := r2LoopOf(fn.info, s)
				if l == nil || l.coll == nil {
					return true
				}
				sl, ok := fn.info.TypeOf(l.coll).Underlying().(*types.Slice)
				if !ok || !types.Identical(sl.Elem(), argElem) {
					return true
				}
				if !x.fromCallNode(fn, l.coll, 0) {
					return true // arguments of another construct (trigger statement, …)
				}
				if it, _ := x.classify(fn, s); it != nil && it.kind == r2ItSeg {
					argLoops = append(argLoops, argLoop{it, "", s.Pos()})
				}
				return true
			})
		}
	}
	pushDir := 0
	var pushDesc []string
	consistent := true
	var pushLoop *r2Item
	for _, a := range argLoops {
		if a.it == nil {
			pushDesc = append(pushDesc, fmt.Sprintf("call instruction @%s: no argument loop found behind it", c.Pos(a.pos)))
			consistent = false
			continue
		}
		if pushDir != 0 && a.it.loop.dir != pushDir {
			consistent = false
		}
		pushDir = a.it.loop.dir
		pushLoop = a.it
		pushDesc = append(pushDesc, fmt.Sprintf("%s loop over %s @%s", r2DirStr(a.it.loop.dir), exprStr(a.it.loop.coll), c.Pos(a.it.pos)))
	}
	pushDesc = vmUniq(pushDesc)
	obA := Obligation{Key: "call|every call / spawn lowering pushes the arguments by one loop direction", Nontrivial: true}
	switch {
	case len(argLoops) == 0:
		obA.Status, obA.Detail = Undecided, "no loop of the compiler over a list of call arguments compiles one expression per element"
	case !consistent || pushDir == 0:
		obA.Status, obA.Detail = Undecided, strings.Join(pushDesc, "; ")
	default:
		obA.Pos = c.Pos(pushLoop.pos)
		obA.Status, obA.Detail = Discharged, fmt.Sprintf("%d argument loop(s): %s", len(argLoops), strings.Join(pushDesc, "; "))
	}
	obs = append(obs, obA)
	if obA.Status != Discharged {
		return obs
	}

	// (B) parameter binding: the loop over the parameter list that pops into SetVarImm
	{
		ob := Obligation{Key: "call|VM function: parameters are bound in the order the arguments are popped", Nontrivial: true}
		var found []string
		bad := false
		for _, fn := range roles.fns {
			ast.Inspect(fn.fd.Body, func(n ast.Node) bool {
				s, ok := n.(ast.Stmt)
				if !ok {
					return true
				}
				switch s.(type) {
				case *ast.ForStmt, *ast.RangeStmt:
				default:
					return true
				}
				l := r2LoopOf(fn.info, s)
				if l == nil || l.coll == nil {
					return true
				}
				sl, ok := fn.info.TypeOf(l.coll).Underlying().(*types.Slice)
				if !ok {
					return true
				}
				if nt := vmNamed(sl.Elem()); nt == nil || nt.Obj().Pkg() != roles.astPkg || !strings.Contains(nt.Obj().Name(), "Param") {
					return true
				}
				// body pops one operand per (non-skipped) element into a variable slot
				pops, others := 0, 0
				for _, b := range l.body.List {
					if em := x.insertOf(fn, b); em != nil && em.op == setVar {
						pops++
					} else if em != nil || (x.emits(fn, b) && !r2OnlySkips(b)) {
						others++
					}
				}
				if pops != 1 || others != 0 {
					return true
				}
				ob.Pos = c.Pos(s.Pos())
				final := -pushDir * l.dir
				t := fmt.Sprintf("arguments pushed %s, parameters of %s popped by a %s loop @%s", r2DirStr(pushDir), exprStr(l.coll), r2DirStr(l.dir), c.Pos(s.Pos()))
				if l.dir == 0 || final != +1 {
					bad = true
					t += ": parameter k receives argument n-1-k"
				}
				found = append(found, t)
				return true
			})
		}
		switch {
		case len(found) == 0:
			ob.Status, ob.Detail = Undecided, "no loop over a parameter list pops one operand per parameter into a variable"
		case bad:
			ob.Status, ob.Detail = Violated, strings.Join(found, " | ")
		default:
			ob.Status, ob.Detail = Discharged, strings.Join(found, " | ")
		}
		obs = append(obs, ob)
	}

	// (C)+(D) VM side: the loops of the Call_Val and Spawn clauses that pop the arguments
	r := vmRoles(c)
	info := r.dispatch.info
	// pop-like: the pop primitive, or a helper built from the primitives that nets one pop
	stackSumm := r2NewFieldSumm(c, r.fns, r.stack.field, r.stack)
	isPop := func(g *types.Func) bool {
		if g == nil {
			return false
		}
		if _, ok := r.stack.pop[g]; ok {
			return true
		}
		d, unknown := stackSumm.call(g)
		return !unknown && d == -1 && stackSumm.writes[g]
	}
	for _, spec := range []struct {
		op   *types.Const
		key  string
		want string
	}{
		{opc("Opcode_Call_Val"), "call|builtin function: the popped arguments are handed over in source order", "builtin"},
		{opc("Opcode_Spawn"), "spawn|the new core's operand stack gets the layout a call would have produced", "spawn"},
	} {
		ob := Obligation{Key: spec.key, Nontrivial: true}
		cc := vmClauseOf(info, r.dispSw, spec.op)
		if cc == nil {
			ob.Status, ob.Detail = Undecided, "no clause for "+spec.op.Name()
			obs = append(obs, ob)
			continue
		}
		ob.Pos = c.Pos(cc.Pos())
		// loops whose body pops one operand and gathers it
		type gl struct {
			dir    int
			desc   string
			target types.Object
			pos    token.Pos
			end    token.Pos
		}
		var loops []gl
		// the clause and the handler functions it delegates to
		regions := []*ast.BlockStmt{{List: cc.Body}}
		{
			seenFn := map[*types.Func]bool{}
			var add func(b *ast.BlockStmt, depth int)
			add = func(b *ast.BlockStmt, depth int) {
				ast.Inspect(b, func(n ast.Node) bool {
					call, ok := n.(*ast.CallExpr)
					if !ok || depth > 2 {
						return true
					}
					g := CalleeOf(info, call)
					if g == nil || seenFn[g] || isPop(g) {
						return true
					}
					if _, isPush := r.stack.push[g]; isPush {
						return true
					}
					for _, h := range r.fns {
						if ho, _ := h.info.Defs[h.fd.Name].(*types.Func); ho == g && h.fd.Recv != nil && recvTypeName(h.fd.Recv.List[0].Type) == "Core" {
							seenFn[g] = true
							regions = append(regions, h.fd.Body)
							add(h.fd.Body, depth+1)
						}
					}
					return true
				})
			}
			add(regions[0], 0)
		}
		var loopRegion *ast.BlockStmt
		for _, region := range regions {
			region := region
			ast.Inspect(region, func(n ast.Node) bool {
				s, ok := n.(ast.Stmt)
				if !ok {
					return true
				}
				var body *ast.BlockStmt
				switch y := s.(type) {
				case *ast.ForStmt:
					body = y.Body
				case *ast.RangeStmt:
					body = y.Body
				default:
					return true
				}
				nPop := 0
				var popObjs []types.Object
				ast.Inspect(body, func(m ast.Node) bool {
					if call, ok := m.(*ast.CallExpr); ok {
						if isPop(CalleeOf(info, call)) {
							nPop++
						}
					}
					if as, ok := m.(*ast.AssignStmt); ok && len(as.Lhs) == 1 && len(as.Rhs) == 1 {
						hasPop := false
						ast.Inspect(as.Rhs[0], func(q ast.Node) bool {
							if call, ok := q.(*ast.CallExpr); ok {
								if isPop(CalleeOf(info, call)) {
									hasPop = true
								}
							}
							return true
						})
						if hasPop {
							if o := vmObjOf(info, as.Lhs[0]); o != nil {
								popObjs = append(popObjs, o)
							}
						}
					}
					return true
				})
				if nPop != 1 {
					return true
				}
				// variables derived from the popped operand (`cloned := (*popped).Clone()`)
				for round := 0; round < 3; round++ {
					ast.Inspect(body, func(m ast.Node) bool {
						if as, ok := m.(*ast.AssignStmt); ok && len(as.Lhs) == 1 && len(as.Rhs) == 1 {
							for _, o := range popObjs {
								if vmMentionsObj(info, as.Rhs[0], o) {
									if lo := vmObjOf(info, as.Lhs[0]); lo != nil && lo != o {
										dup := false
										for _, q := range popObjs {
											if q == lo {
												dup = true
											}
										}
										// the gathering slice itself is not a derived operand
										if call, isCall := ast.Unparen(as.Rhs[0]).(*ast.CallExpr); isCall && r2IsBuiltin(info, call, "append") {
											dup = true
										}
										if !dup {
											popObjs = append(popObjs, lo)
										}
									}
									break
								}
							}
						}
						return true
					})
				}
				g, desc, target := r2GatherDir(info, body, func(e ast.Expr) bool {
					f := false
					ast.Inspect(e, func(q ast.Node) bool {
						if call, ok := q.(*ast.CallExpr); ok {
							if isPop(CalleeOf(info, call)) {
								f = true
							}
						}
						if id, ok := q.(*ast.Ident); ok {
							for _, o := range popObjs {
								if info.Uses[id] == o {
									f = true
								}
							}
						}
						return !f
					})
					return f
				})
				if target == nil {
					return true
				}
				loops = append(loops, gl{g, desc, target, s.Pos(), s.End()})
				loopRegion = region
				return true
			})
		}
		if len(loops) != 1 {
			ob.Status, ob.Detail = Undecided, fmt.Sprintf("%d loops pop one operand per iteration and gather it into a slice (expected 1)", len(loops))
			obs = append(obs, ob)
			continue
		}
		l := loops[0]
		// the gathered slice must reach its consumer as gathered: no later write / reordering
		var later []string
		ast.Inspect(loopRegion, func(n ast.Node) bool {
			switch y := n.(type) {
			case *ast.AssignStmt:
				if y.Pos() <= l.end {
					return true
				}
				for _, lh := range y.Lhs {
					if root, ok := vmRootOf(lh).(*ast.Ident); ok && vmObjOf(info, root) == l.target {
						later = append(later, fmt.Sprintf("`%s` is written again @%s", l.target.Name(), c.Pos(y.Pos())))
					}
				}
			case *ast.CallExpr:
				if y.Pos() <= l.end {
					return true
				}
				if g := CalleeOf(info, y); g != nil && g.Pkg() != nil && (g.Pkg().Path() == "slices" || g.Pkg().Path() == "sort") {
					for _, a := range y.Args {
						if vmMentionsObj(info, a, l.target) {
							later = append(later, fmt.Sprintf("`%s` is passed to %s.%s @%s", l.target.Name(), g.Pkg().Path(), g.Name(), c.Pos(y.Pos())))
						}
					}
				}
			}
			return true
		})
		if len(later) > 0 {
			ob.Status, ob.Detail = Undecided, fmt.Sprintf("the slice gathered by the loop @%s is modified afterwards (%s): its final order is not decided by this rule", c.Pos(l.pos), strings.Join(later, "; "))
			obs = append(obs, ob)
			continue
		}
		// slice order relative to source order: pop order is -pushDir; gathering dir l.dir
		sliceOrder := -pushDir * l.dir
		switch spec.want {
		case "builtin":
			t := fmt.Sprintf("arguments pushed %s; the loop @%s pops them, each %s", r2DirStr(pushDir), c.Pos(l.pos), l.desc)
			if sliceOrder == +1 {
				ob.Status, ob.Detail = Discharged, t+": the callback receives them in source order"
			} else {
				ob.Status, ob.Detail = Violated, t+": the callback receives (c, b, a) for a call f(a, b, c)"
			}
		case "spawn":
			// the slice is re-pushed by the spawning method: find its loop over the []Value parameter
			repush := 0
			repushDesc := ""
			// the spawning method and the helpers it hands its []Value parameter to
			// (`core := self.spawnCoreWithStack(addToStack)`)
			var spawnFns []*vmFn
			{
				byObjRT := map[*types.Func]*vmFn{}
				for _, g := range r.fns {
					if obj, _ := g.info.Defs[g.fd.Name].(*types.Func); obj != nil {
						byObjRT[obj] = g
					}
				}
				seenSp := map[*vmFn]bool{}
				var addSp func(g *vmFn, depth int)
				addSp = func(g *vmFn, depth int) {
					if seenSp[g] || depth > 2 {
						return
					}
					seenSp[g] = true
					spawnFns = append(spawnFns, g)
					params := map[types.Object]bool{}
					for _, po := range vmParamObjs(g) {
						if po != nil {
							params[po] = true
						}
					}
					ast.Inspect(g.fd.Body, func(n ast.Node) bool {
						call, ok := n.(*ast.CallExpr)
						if !ok {
							return true
						}
						h := byObjRT[CalleeOf(g.info, call)]
						if h == nil {
							return true
						}
						for _, a := range call.Args {
							if o := vmObjOf(g.info, a); o != nil && params[o] {
								if sl, ok := o.Type().Underlying().(*types.Slice); ok && vmIsNamed(sl.Elem(), "homescript/runtime/value", "Value") {
									addSp(h, depth+1)
								}
							}
						}
						return true
					})
				}
				for _, g := range r.fns {
					if obj, _ := g.info.Defs[g.fd.Name].(*types.Func); obj != nil && lsSpawnsCore(c, obj, nil) {
						addSp(g, 0)
					}
				}
			}
			for _, g := range spawnFns {
				ast.Inspect(g.fd.Body, func(n ast.Node) bool {
					s, ok := n.(ast.Stmt)
					if !ok {
						return true
					}
					switch s.(type) {
					case *ast.ForStmt, *ast.RangeStmt:
					default:
						return true
					}
					lp := r2LoopOf(g.info, s)
					if lp == nil || lp.coll == nil {
						return true
					}
					if _, isParam := vmObjOf(g.info, lp.coll).(*types.Var); !isParam {
						return true
					}
					sl, ok := g.info.TypeOf(lp.coll).Underlying().(*types.Slice)
					if !ok || !vmIsNamed(sl.Elem(), "homescript/runtime/value", "Value") {
						return true
					}
					pushes := false
					ast.Inspect(lp.body, func(m ast.Node) bool {
						if call, ok := m.(*ast.CallExpr); ok {
							if _, isPush := r.stack.push[CalleeOf(g.info, call)]; isPush {
								pushes = true
							}
						}
						return true
					})
					if pushes {
						repush = lp.dir
						repushDesc = fmt.Sprintf("%s re-pushes `%s` by a %s loop @%s", g.name, exprStr(lp.coll), r2DirStr(lp.dir), c.Pos(s.Pos()))
					}
					return true
				})
			}
			if repush == 0 {
				ob.Status, ob.Detail = Undecided, "the loop of the core-spawning method that pushes the transferred values was not found"
				break
			}
			// new stack order relative to the caller's push order: slice relative to push order = -l.dir ... re-push dir
			// caller's push sequence P; pops give reverse(P); gathered: l.dir=+1 → reverse(P), -1 → P; re-pushed asc → same as slice
			rel := -l.dir * repush // +1: the new core's stack repeats the caller's push order
			t := fmt.Sprintf("the Spawn clause pops the arguments, each %s (loop @%s); %s", l.desc, c.Pos(l.pos), repushDesc)
			if rel == +1 {
				ob.Status, ob.Detail = Discharged, t+": the new core's stack has the caller's layout, so the callee's prologue binds parameters as for a call"
			} else {
				ob.Status, ob.Detail = Violated, t+": the new core's stack is the mirror image of the caller's, `spawn f(a, b)` runs f(b, a)"
			}
		}
		obs = append(obs, ob)
	}
	return obs
}

// r2OnlySkips: `if c { …; continue }` — a filter of the loop, emits nothing on the continuing path.
func r2OnlySkips(s ast.Stmt) bool {
	is, ok := s.(*ast.IfStmt)
	if !ok || is.Else != nil || len(is.Body.List) == 0 {
		return false
	}
	br, ok := is.Body.List[len(is.Body.List)-1].(*ast.BranchStmt)
	return ok && br.Tok == token.CONTINUE
}

// r2Subst rebuilds a selector chain with its root identifier replaced (args.List → node.Arguments.List).
func r2Subst(e ast.Expr, root *ast.Ident, by ast.Expr) ast.Expr {
	switch x := ast.Unparen(e).(type) {
	case *ast.Ident:
		if x == root {
			return by
		}
	case *ast.SelectorExpr:
		return &ast.SelectorExpr{X: r2Subst(x.X, root, by), Sel: x.Sel}
	}
	return e
}

// fromCallNode: the expression is taken from an analysed CALL expression node — it mentions a
// value of that type, or its root is a local defined from such an expression, or a parameter
// that every caller binds to one.
func (x *r2Order) fromCallNode(fn *vmFn, e ast.Expr, depth int) bool {
	if e == nil || depth > 3 {
		return false
	}
	info := fn.info
	found := false
	ast.Inspect(e, func(n ast.Node) bool {
		if ex, ok := n.(ast.Expr); ok {
			if nt := vmNamed(info.TypeOf(ex)); nt != nil && nt.Obj().Pkg() == x.roles.astPkg && strings.Contains(nt.Obj().Name(), "CallExpression") {
				found = true
			}
		}
		return !found
	})
	if found {
		return true
	}
	root, ok := vmRootOf(e).(*ast.Ident)
	if !ok {
		return false
	}
	o := vmObjOf(info, root)
	if o == nil {
		return false
	}
	// parameter: what the callers pass
	for i, po := range vmParamObjs(fn) {
		if po != o {
			continue
		}
		obj, _ := info.Defs[fn.fd.Name].(*types.Func)
		any, all := false, true
		for _, g := range x.roles.fns {
			ast.Inspect(g.fd.Body, func(n ast.Node) bool {
				if call, ok := n.(*ast.CallExpr); ok && obj != nil && CalleeOf(g.info, call) == obj && i < len(call.Args) {
					any = true
					if !x.fromCallNode(g, call.Args[i], depth+1) {
						all = false
					}
				}
				return true
			})
		}
		return any && all
	}
	if def := vmSingleDef(fn, o); def != nil {
		return x.fromCallNode(fn, def, depth+1)
	}
	return false
}
