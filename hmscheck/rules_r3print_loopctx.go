package main

// r3print: the loop context of the analyzer, learnt through helpers.
//
// R-traversal's learnLoopContext recognises `counter++ … analyse(node.Body)` in
// one function (and a helper that receives the block). The bookkeeping may just
// as well live in a helper pair (`old := enterLoop(); body := block(node.Body);
// leaveLoop(old)`) or in a wrapper that runs a closure at the raised depth
// (`insideLoop(func() { body = block(node.Body) })`). r3pLearnLoopContext adds
// those shapes to the loopBody / loopCtl tables of a travRun, so that the rules
// of this group (R-predicate-all-paths, R-context-move) keep the same notion of
// "this block opens a new loop context" under such refactorings. On a tree that
// uses the inline form it adds nothing.

import (
	"fmt"
	"go/ast"
	"go/token"
	"go/types"
	"sort"
)

func r3pLearnLoopContext(r *travRun) {
	m := r.m
	an := r.c.Pkg("homescript/analyzer")
	info := an.TypesInfo
	if r.loopBody == nil {
		r.loopBody = map[*travStruct]map[string]string{}
	}
	if r.loopCtl == nil {
		r.loopCtl = map[*travStruct]string{}
	}
	fieldOf := func(x ast.Expr) *types.Var {
		se, ok := ast.Unparen(x).(*ast.SelectorExpr)
		if !ok {
			return nil
		}
		v, ok := info.Uses[se.Sel].(*types.Var)
		if !ok || !v.IsField() {
			return nil
		}
		return v
	}
	// per function: net effect on counter fields of the statements outside function literals
	type fnEff struct {
		fd  *ast.FuncDecl
		net map[*types.Var]int
		inc map[*types.Var]token.Pos // first increment
	}
	effs := map[*types.Func]*fnEff{}
	var fns []*types.Func
	for _, fd := range AllFuncDecls(an) {
		fn, _ := info.Defs[fd.Name].(*types.Func)
		if fn == nil {
			continue
		}
		e := &fnEff{fd: fd, net: map[*types.Var]int{}, inc: map[*types.Var]token.Pos{}}
		ast.Inspect(fd.Body, func(n ast.Node) bool {
			if _, isLit := n.(*ast.FuncLit); isLit {
				return false
			}
			if x, ok := n.(*ast.IncDecStmt); ok {
				if v := fieldOf(x.X); v != nil {
					if x.Tok == token.INC {
						e.net[v]++
						if _, seen := e.inc[v]; !seen {
							e.inc[v] = x.Pos()
						}
					} else {
						e.net[v]--
					}
				}
			}
			return true
		})
		if len(e.inc) > 0 {
			effs[fn] = e
			fns = append(fns, fn)
		}
	}
	sort.Slice(fns, func(i, j int) bool { return fns[i].Pos() < fns[j].Pos() })
	// enterers: net +1 (the raised depth persists after the call); wrappers: increment before calling a func-typed parameter
	type wrapper struct {
		param int
		field *types.Var
	}
	enterers := map[*types.Func][]*types.Var{}
	wrappers := map[*types.Func][]wrapper{}
	for _, fn := range fns {
		e := effs[fn]
		var fields []*types.Var
		for v := range e.inc {
			fields = append(fields, v)
		}
		sort.Slice(fields, func(i, j int) bool { return fields[i].Pos() < fields[j].Pos() })
		for _, v := range fields {
			if e.net[v] > 0 {
				enterers[fn] = append(enterers[fn], v)
			}
		}
		sg := fn.Type().(*types.Signature)
		for i := 0; i < sg.Params().Len(); i++ {
			pv := sg.Params().At(i)
			if _, isFunc := types.Unalias(pv.Type()).Underlying().(*types.Signature); !isFunc {
				continue
			}
			ast.Inspect(e.fd.Body, func(n ast.Node) bool {
				call, ok := n.(*ast.CallExpr)
				if !ok {
					return true
				}
				if id, ok := ast.Unparen(call.Fun).(*ast.Ident); ok && info.Uses[id] == pv {
					for _, v := range fields {
						if e.inc[v] < call.Pos() {
							wrappers[fn] = append(wrappers[fn], wrapper{i, v})
						}
					}
				}
				return true
			})
		}
	}
	if len(enterers) == 0 && len(wrappers) == 0 {
		return
	}
	counters := map[*types.Var]bool{}
	for _, fd := range AllFuncDecls(an) {
		fn, _ := info.Defs[fd.Name].(*types.Func)
		if fn == nil {
			continue
		}
		sg := fn.Type().(*types.Signature)
		for i := 0; i < sg.Params().Len(); i++ {
			pv := sg.Params().At(i)
			ps := m.structs[travNamed(pv.Type())]
			if ps == nil || !m.inP(ps.T) {
				continue
			}
			// positions at which the depth is raised by a call of an enterer
			type raise struct {
				pos   token.Pos
				field *types.Var
				by    string
			}
			var raises []raise
			// closures handed to a wrapper
			inWrapper := map[*ast.FuncLit]raise{}
			ast.Inspect(fd.Body, func(n ast.Node) bool {
				call, ok := n.(*ast.CallExpr)
				if !ok {
					return true
				}
				callee := CalleeOf(info, call)
				if callee == nil {
					return true
				}
				for _, v := range enterers[callee] {
					raises = append(raises, raise{call.Pos(), v, callee.Name()})
				}
				for _, w := range wrappers[callee] {
					if w.param < len(call.Args) {
						if lit, ok := ast.Unparen(call.Args[w.param]).(*ast.FuncLit); ok {
							inWrapper[lit] = raise{call.Pos(), w.field, callee.Name()}
						}
					}
				}
				return true
			})
			if len(raises) == 0 && len(inWrapper) == 0 {
				continue
			}
			note := func(field string, rs raise, how string) {
				counters[rs.field] = true
				if r.loopBody[ps] == nil {
					r.loopBody[ps] = map[string]string{}
				}
				if r.loopBody[ps][field] == "" {
					r.loopBody[ps][field] = fmt.Sprintf("%s analyses %s.%s %s %s, which increments %s (%s)", travFuncKey(an, fd), ps.Short(), field, how, rs.by, rs.field.Name(), r.c.Pos(rs.pos))
				}
			}
			blockArg := func(call *ast.CallExpr) string {
				for _, a := range call.Args {
					se, ok := ast.Unparen(a).(*ast.SelectorExpr)
					if !ok {
						continue
					}
					id, ok := ast.Unparen(se.X).(*ast.Ident)
					if ok && info.Uses[id] == pv && m.isBlockType(info.TypeOf(se)) {
						return se.Sel.Name
					}
				}
				return ""
			}
			var walk func(n ast.Node, lit *ast.FuncLit)
			walk = func(root ast.Node, lit *ast.FuncLit) {
				ast.Inspect(root, func(n ast.Node) bool {
					if fl, ok := n.(*ast.FuncLit); ok && ast.Node(fl) != root {
						walk(fl.Body, fl)
						return false
					}
					call, ok := n.(*ast.CallExpr)
					if !ok {
						return true
					}
					f := blockArg(call)
					if f == "" {
						return true
					}
					if lit != nil {
						if rs, ok := inWrapper[lit]; ok {
							note(f, rs, "inside a closure run by")
						}
					}
					for _, rs := range raises {
						if rs.pos < call.Pos() {
							note(f, rs, "after the call of")
						}
					}
					return true
				})
			}
			walk(fd.Body, nil)
		}
	}
	// handlers that compare such a counter with zero: statements only legal inside a loop
	for _, fd := range AllFuncDecls(an) {
		fn, _ := info.Defs[fd.Name].(*types.Func)
		if fn == nil {
			continue
		}
		sg := fn.Type().(*types.Signature)
		for i := 0; i < sg.Params().Len(); i++ {
			ps := m.structs[travNamed(sg.Params().At(i).Type())]
			if ps == nil || !m.inP(ps.T) || r.loopCtl[ps] != "" {
				continue
			}
			ast.Inspect(fd.Body, func(n ast.Node) bool {
				x, ok := n.(*ast.BinaryExpr)
				if !ok {
					return true
				}
				v := fieldOf(x.X)
				if v == nil || !counters[v] {
					return true
				}
				if bl, ok := ast.Unparen(x.Y).(*ast.BasicLit); ok && bl.Value == "0" && r.loopCtl[ps] == "" {
					r.loopCtl[ps] = fmt.Sprintf("%s compares %s with 0 (%s)", travFuncKey(an, fd), v.Name(), r.c.Pos(x.Pos()))
				}
				return true
			})
		}
	}
}
