package main

// trav: the R-traversal obligation for the run-time value structs of both
// engines: Display() and IsEqual() of a value kind read every payload field of
// the struct. Payload = a field that the kind's constructor initialises
// directly from one of its parameters (iteration cursors are initialised from
// locals and are state, not payload).

import (
	"fmt"
	"go/ast"
	"go/token"
	"go/types"
	"sort"

	"golang.org/x/tools/go/packages"
)

func travValueObligations(c *Ctx) []Obligation {
	var obs []Obligation
	for _, rel := range []string{"homescript/runtime/value", "homescript/interpreter/value"} {
		if !c.HasPkg(rel) {
			continue
		}
		p := c.Pkg(rel)
		// anchor: the value interface = first parameter type of DeepCast
		dc := FuncDecl(p, "", "DeepCast")
		if dc == nil {
			obs = append(obs, Obligation{Key: rel + "|anchor DeepCast", Status: Undecided, Detail: "anchor unresolved: " + rel + ".DeepCast"})
			continue
		}
		fn := p.TypesInfo.Defs[dc.Name].(*types.Func)
		vi := travNamed(fn.Type().(*types.Signature).Params().At(0).Type())
		if vi == nil {
			obs = append(obs, Obligation{Key: rel + "|anchor Value", Status: Undecided, Detail: "anchor moved: DeepCast's first parameter is not the value interface"})
			continue
		}
		iface, ok := vi.Underlying().(*types.Interface)
		if !ok {
			continue
		}
		payload := travValuePayload(p, vi)
		var names []string
		for _, name := range p.Types.Scope().Names() {
			names = append(names, name)
		}
		sort.Strings(names)
		for _, name := range names {
			tn, ok := p.Types.Scope().Lookup(name).(*types.TypeName)
			if !ok {
				continue
			}
			n, _ := tn.Type().(*types.Named)
			if n == nil {
				continue
			}
			st, ok := n.Underlying().(*types.Struct)
			if !ok || !types.Implements(n, iface) {
				continue
			}
			for _, mname := range []string{"Display", "IsEqual"} {
				fd := FuncDecl(p, name, mname)
				if fd == nil || fd.Body == nil {
					continue
				}
				if rn := fd.Recv.List[0].Names; len(rn) == 0 || rn[0].Name == "_" {
					// blank receiver: the method is value-independent by declaration (callables print as a
					// placeholder and never compare equal) — it cannot tell any two values of the kind apart, on purpose.
					obs = append(obs, Obligation{Key: fmt.Sprintf("%s.%s.%s|opaque", rel[len("homescript/"):], name, mname), Pos: c.Pos(fd.Pos()), Status: Discharged,
						Detail: "[value] blank receiver: the method does not depend on the value by declaration"})
					continue
				}
				// fields of the struct selected in the method, and in the functions of the package the
				// value (or a pointer to it) is handed to (Display → displayRange(self))
				reads := map[string]bool{}
				seenFd := map[*ast.FuncDecl]bool{}
				var collect func(body *ast.FuncDecl, depth int)
				collect = func(cur *ast.FuncDecl, depth int) {
					if cur == nil || cur.Body == nil || seenFd[cur] || depth > 3 {
						return
					}
					seenFd[cur] = true
					ast.Inspect(cur.Body, func(x ast.Node) bool {
						switch y := x.(type) {
						case *ast.SelectorExpr:
							if sel := p.TypesInfo.Selections[y]; sel != nil && sel.Kind() == types.FieldVal && travNamed(sel.Recv()) == n {
								reads[y.Sel.Name] = true
							}
						case *ast.CallExpr:
							callee := CalleeOf(p.TypesInfo, y)
							if callee == nil || callee.Pkg() != p.Types {
								return true
							}
							carries := false
							exprs := y.Args
							if se, ok := ast.Unparen(y.Fun).(*ast.SelectorExpr); ok {
								if sel := p.TypesInfo.Selections[se]; sel != nil && sel.Kind() == types.MethodVal {
									exprs = append([]ast.Expr{se.X}, y.Args...)
								}
							}
							for _, a := range exprs {
								if t := p.TypesInfo.TypeOf(a); t != nil && travNamed(t) == n {
									carries = true
								}
							}
							if carries {
								// not a shape test of the value (IsSome(): `return self.Inner != nil` does not look at the
								// payload), and for Display only a function that produces text
								cd := travValueDecl(p, callee)
								if cd == nil || travShapeTest(p.TypesInfo, cd) != "" {
									return true
								}
								if mname == "Display" {
									text := false
									rs := callee.Type().(*types.Signature).Results()
									for k := 0; k < rs.Len(); k++ {
										if travIsStringType(rs.At(k).Type()) {
											text = true
										}
									}
									if !text {
										return true
									}
								}
								collect(cd, depth+1)
							}
						}
						return true
					})
				}
				collect(fd, 0)
				for i := 0; i < st.NumFields(); i++ {
					f := st.Field(i)
					why, isPayload := payload[n][f.Name()]
					if !isPayload {
						continue
					}
					if _, isFunc := f.Type().Underlying().(*types.Signature); isFunc {
						continue // a Go function can be neither printed nor compared
					}
					ob := Obligation{Key: fmt.Sprintf("%s.%s.%s|%s.%s", rel[len("homescript/"):], name, mname, name, f.Name()), Pos: c.Pos(fd.Pos()), Nontrivial: true}
					if reads[f.Name()] {
						ob.Status, ob.Detail = Discharged, fmt.Sprintf("[value] payload field %s (%s) is read", f.Name(), why)
					} else {
						ob.Status = Violated
						ob.Detail = fmt.Sprintf("[value] %s.%s never reads payload field %s (%s); fields read: %s — two values that differ only in %s are displayed/compared as the same", name, mname, f.Name(), why, travSortedKeys(reads), f.Name())
					}
					obs = append(obs, ob)
				}
			}
		}
	}
	return obs
}

// travValueDecl: the declaration of a function / method of the package.
func travValueDecl(p *packages.Package, fn *types.Func) *ast.FuncDecl {
	for _, fd := range AllFuncDecls(p) {
		if p.TypesInfo.Defs[fd.Name] == fn {
			return fd
		}
	}
	return nil
}

// travValuePayload: struct -> field -> witness, for fields a constructor
// (package-level function returning the value interface or a pointer to it)
// sets directly from a parameter (p, &p, *p, T(p)).
func travValuePayload(p *packages.Package, vi *types.Named) map[*types.Named]map[string]string {
	out := map[*types.Named]map[string]string{}
	info := p.TypesInfo
	for _, fd := range AllFuncDecls(p) {
		if fd.Recv != nil {
			continue
		}
		fn, _ := info.Defs[fd.Name].(*types.Func)
		if fn == nil {
			continue
		}
		sg := fn.Type().(*types.Signature)
		if sg.Results().Len() != 1 || travNamed(sg.Results().At(0).Type()) != vi {
			continue
		}
		params := map[types.Object]bool{}
		for i := 0; i < sg.Params().Len(); i++ {
			params[sg.Params().At(i)] = true
		}
		var fromParam func(e ast.Expr) bool
		fromParam = func(e ast.Expr) bool {
			switch x := ast.Unparen(e).(type) {
			case *ast.Ident:
				return params[info.Uses[x]]
			case *ast.UnaryExpr:
				return x.Op == token.AND && fromParam(x.X)
			case *ast.StarExpr:
				return fromParam(x.X)
			case *ast.CallExpr:
				if tv, ok := info.Types[x.Fun]; ok && tv.IsType() && len(x.Args) == 1 {
					return fromParam(x.Args[0])
				}
			}
			return false
		}
		ast.Inspect(fd.Body, func(n ast.Node) bool {
			lit, ok := n.(*ast.CompositeLit)
			if !ok {
				return true
			}
			sn := travNamed(info.TypeOf(lit))
			if sn == nil || sn.Obj().Pkg() != p.Types {
				return true
			}
			if _, ok := sn.Underlying().(*types.Struct); !ok {
				return true
			}
			for _, e := range lit.Elts {
				kv, ok := e.(*ast.KeyValueExpr)
				if !ok {
					continue
				}
				k, ok := kv.Key.(*ast.Ident)
				if !ok || !fromParam(kv.Value) {
					continue
				}
				if out[sn] == nil {
					out[sn] = map[string]string{}
				}
				out[sn][k.Name] = fmt.Sprintf("constructor %s sets it from its parameter `%s`", fd.Name.Name, exprStr(kv.Value))
			}
			return true
		})
	}
	return out
}
