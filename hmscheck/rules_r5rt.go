package main

// Round 5 additions of the rt group (identifier prefix r5rt):
//
//   R-chan-send  "<func>|channel sends|none can be dropped"            (r5rtLossySends)
//   R-wait       "<func>|calls <Owner>.<field>|not on a worker goroutine" (r5rtCancelCallers)
//   R-map-order  "fmt-address|<func>|<callee> operand …"                (r5rtFmtAddress)
//
// All three are type / data-flow based and enumerate every instance in the
// packages they cover.

import (
	"fmt"
	"go/ast"
	"go/constant"
	"go/token"
	"go/types"
	"sort"
	"strings"

	"golang.org/x/tools/go/ssa"
)

var r5rtProtocolPkgs = []string{"homescript/runtime", "homescript", "homescript/interpreter"}

func r5rtFuncName(fn *ssa.Function) string {
	if fn.Parent() != nil {
		// function literal: name of the enclosing declaration + ordinal among its literals
		p := fn.Parent()
		k := 0
		for i, a := range p.AnonFuncs {
			if a == fn {
				k = i + 1
			}
		}
		return fmt.Sprintf("%s$lit%d", r5rtFuncName(p), k)
	}
	n := fn.String()
	n = strings.ReplaceAll(n, ModPath+"/homescript/", "")
	n = strings.ReplaceAll(n, ModPath+"/", "")
	return n
}

// ---------------------------------------------------------------------------
// R-chan-send: no droppable send
// ---------------------------------------------------------------------------

// r5rtLossySends: in the packages that implement the concurrency protocol
// between the host, the VM and its cores, a value sent on a channel is a
// notification somebody blocks on (a core's termination signal, the finish
// notification of a spawned core, a debugger hand-over). A send that is a
// case of a `select` with a `default` clause is dropped when the receiver is
// not ready at that instant, and the receiver then blocks forever. Every send
// must therefore be a plain (blocking) send; a select-with-default send is
// accepted only when the channel is made in the same function with a constant
// capacity >= 1 (a buffered one-shot notification). One obligation per function
// that sends.
func r5rtLossySends(c *Ctx) []Obligation {
	var obs []Obligation
	fns := gdFuncsOf(c, r5rtProtocolPkgs...)
	for _, fn := range fns {
		plain := 0
		var bad, racy []string
		var pos token.Pos
		for _, b := range fn.Blocks {
			for _, in := range b.Instrs {
				switch x := in.(type) {
				case *ssa.Send:
					plain++
					if pos == token.NoPos {
						pos = x.Pos()
					}
				case *ssa.Select:
					for _, st := range x.States {
						if st.Dir != types.SendOnly {
							continue
						}
						if pos == token.NoPos {
							pos = st.Pos
						}
						where := c.Pos(st.Pos)
						if !x.Blocking {
							if mk, ok := r5rtStrip(st.Chan).(*ssa.MakeChan); ok {
								if k, ok := mk.Size.(*ssa.Const); ok && k.Value != nil && constant.Sign(k.Value) > 0 {
									plain++
									continue
								}
							}
							bad = append(bad, fmt.Sprintf("send of %s at %s is a case of a select with a default clause", types.TypeString(st.Chan.Type(), func(p *types.Package) string { return p.Name() }), where))
						} else if len(x.States) > 1 {
							racy = append(racy, where)
						} else {
							plain++
						}
					}
				}
			}
		}
		if plain == 0 && len(bad) == 0 && len(racy) == 0 {
			continue
		}
		ob := Obligation{Key: r5rtFuncName(fn) + "|channel sends|none can be dropped", Pos: c.Pos(pos), Nontrivial: true}
		switch {
		case len(bad) > 0:
			ob.Status = Violated
			ob.Detail = strings.Join(bad, "; ") + ": when the receiver is not ready at that instant the value is dropped and a receiver that starts waiting later blocks forever (the sender believes it has notified). Use a blocking send, or a channel made with capacity >= 1 for a one-shot notification"
		case len(racy) > 0:
			ob.Status = Info
			ob.Detail = fmt.Sprintf("%d blocking send(s); %d send(s) compete with other cases of a blocking select (%s): delivered unless another case fires first", plain, len(racy), strings.Join(racy, ", "))
		default:
			ob.Status = Discharged
			ob.Detail = fmt.Sprintf("%d send(s), all blocking (no select with a default clause)", plain)
		}
		obs = append(obs, ob)
	}
	sort.SliceStable(obs, func(i, j int) bool { return obs[i].Key < obs[j].Key })
	return obs
}

func r5rtStrip(v ssa.Value) ssa.Value {
	for {
		switch x := v.(type) {
		case *ssa.ChangeType:
			v = x.X
		case *ssa.MakeInterface:
			v = x.X
		default:
			return v
		}
	}
}

// ---------------------------------------------------------------------------
// R-wait: who may call the owner's cancel function
// ---------------------------------------------------------------------------

// r5rtCancelCallers: a struct of the runtime that owns a context.CancelFunc
// (the VM) is the coordinator of the goroutines its package starts (the
// cores). The coordinator decides which termination it reports first: it
// receives a worker's interrupt and only then cancels the rest. A worker that
// calls the owner's cancel function itself makes the other workers post their
// `terminated` interrupts concurrently with its own report, so the coordinator
// may report an innocent worker's termination instead of the first failure.
// Condition: no call of a function value loaded from a struct field of type
// (pointer to) context.CancelFunc is reachable (call graph) from the target of
// a `go` statement of the package that declares the owning struct. One
// obligation per call site.
func r5rtCancelCallers(c *Ctx) []Obligation {
	var obs []Obligation
	isCancelT := func(t types.Type) bool {
		if p, ok := t.(*types.Pointer); ok {
			t = p.Elem()
		}
		n, ok := types.Unalias(t).(*types.Named)
		return ok && n.Obj().Pkg() != nil && n.Obj().Pkg().Path() == "context" && n.Obj().Name() == "CancelFunc"
	}
	// the field a called value is loaded from
	var fieldOf func(v ssa.Value, d int) (*types.Var, *types.Named)
	fieldOf = func(v ssa.Value, d int) (*types.Var, *types.Named) {
		if d > 6 {
			return nil, nil
		}
		switch x := v.(type) {
		case *ssa.UnOp:
			if x.Op == token.MUL {
				return fieldOf(x.X, d+1)
			}
		case *ssa.FieldAddr:
			st := x.X.Type().Underlying().(*types.Pointer).Elem()
			if s, ok := st.Underlying().(*types.Struct); ok {
				f := s.Field(x.Field)
				if isCancelT(f.Type()) {
					n, _ := types.Unalias(st).(*types.Named)
					return f, n
				}
			}
		case *ssa.Field:
			if s, ok := x.X.Type().Underlying().(*types.Struct); ok {
				f := s.Field(x.Field)
				if isCancelT(f.Type()) {
					n, _ := types.Unalias(x.X.Type()).(*types.Named)
					return f, n
				}
			}
		case *ssa.ChangeType:
			return fieldOf(x.X, d+1)
		}
		return nil, nil
	}
	all := gdFuncsOf(c, append([]string{"homescript/interpreter/value", "homescript/runtime/value"}, r5rtProtocolPkgs...)...)
	// worker entries per package: targets of `go` statements
	workers := map[*types.Package][]*ssa.Function{}
	for _, fn := range all {
		for _, b := range fn.Blocks {
			for _, in := range b.Instrs {
				g, ok := in.(*ssa.Go)
				if !ok {
					continue
				}
				var tgt *ssa.Function
				switch v := g.Call.Value.(type) {
				case *ssa.Function:
					tgt = v
				case *ssa.MakeClosure:
					tgt, _ = v.Fn.(*ssa.Function)
				}
				if tgt == nil {
					tgt = g.Call.StaticCallee()
				}
				if tgt != nil && fn.Pkg != nil {
					workers[fn.Pkg.Pkg] = append(workers[fn.Pkg.Pkg], tgt)
				}
			}
		}
	}
	reach := map[*types.Package]map[*ssa.Function]bool{}
	for _, fn := range all {
		for _, b := range fn.Blocks {
			for _, in := range b.Instrs {
				call, ok := in.(ssa.CallInstruction)
				if !ok || call.Common().IsInvoke() {
					continue
				}
				f, owner := fieldOf(call.Common().Value, 0)
				if f == nil || owner == nil || owner.Obj().Pkg() == nil {
					continue
				}
				op := owner.Obj().Pkg()
				if reach[op] == nil {
					reach[op] = gdReachable(c, workers[op]...)
				}
				key := fmt.Sprintf("%s|calls %s.%s|not on a worker goroutine of %s", r5rtFuncName(fn), owner.Obj().Name(), r5rtFieldName(f), op.Name())
				ob := Obligation{Key: key, Pos: c.Pos(in.Pos()), Nontrivial: true}
				if reach[op][fn] {
					ob.Status = Violated
					ob.Detail = fmt.Sprintf("%s is reachable from a goroutine that package %s starts for its workers (%d `go` target(s)) and calls the owner's cancel function: the worker cancels its siblings before the coordinator has received the worker's own report, so their `terminated` reports race with it and the coordinator may report the termination of an innocent worker instead of the first failure. Only the coordinator (the code that receives the reports) may cancel", r5rtFuncName(fn), op.Name(), len(workers[op]))
				} else {
					ob.Status = Discharged
					ob.Detail = fmt.Sprintf("not reachable from the %d `go` target(s) of package %s: called by the coordinator only", len(workers[op]), op.Name())
				}
				obs = append(obs, ob)
			}
		}
	}
	sort.SliceStable(obs, func(i, j int) bool { return obs[i].Key < obs[j].Key })
	return obs
}

func r5rtFieldName(f *types.Var) string {
	if f.Exported() {
		return f.Name()
	}
	return "<" + types.TypeString(f.Type(), func(p *types.Package) string { return p.Name() }) + ">"
}

// ---------------------------------------------------------------------------
// R-map-order: no address in formatted text
// ---------------------------------------------------------------------------

// r5rtFmtAddress: package fmt prints a pointer that it cannot look through as
// its address (0xc000012345): a pointer below the top level of the operand
// (element of a slice / map / field of a struct), a pointer to anything but a
// struct / array / slice / map at the top level, a channel, a func, any
// pointer under %p or an integer verb. Addresses differ from run to run, so a
// text that contains one (an interrupt message, a diagnostic, program output)
// makes two runs of the same program differ. Condition: no operand of a
// fmt.Sprint* / Errorf / Fprint* / Print* call in the pipeline packages has a
// static type that fmt renders with an address, unless the value (or the
// element in question) implements fmt.Formatter / Stringer / error, which fmt
// uses instead. Operands inside the argument of panic(...) are exempt (a host
// crash report, not program-visible text). Interface-typed operands are
// decided for their static type only (an `interface{}` operand is not
// followed). One obligation per operand whose type contains a pointer-like
// component.
func r5rtFmtAddress(c *Ctx) []Obligation {
	var obs []Obligation
	total, risky := 0, 0
	var firstPos token.Pos
	// value kinds without a Homescript type (pointer / iterator cells of the
	// engines): a program can neither name nor print them, so the text their
	// methods build is not program-visible
	internalRecv := map[*types.TypeName]string{}
	kmap := mbKindMap(c)
	for _, l := range []*mbLib{mbLoadLib(c, mbRelVM, "vm"), mbLoadLib(c, mbRelInterp, "interp")} {
		for _, im := range l.impls {
			if _, ok := kmap[im.KindName()]; !ok {
				internalRecv[im.named.Obj()] = im.KindName()
			}
		}
	}
	for _, rel := range determPipelinePkgs {
		p := c.Pkg(rel)
		info := p.TypesInfo
		for _, fd := range AllFuncDecls(p) {
			if fd.Body == nil {
				continue
			}
			internalKind := ""
			if fd.Recv != nil && len(fd.Recv.List) == 1 {
				rt := info.TypeOf(fd.Recv.List[0].Type)
				if pt, ok := rt.(*types.Pointer); ok {
					rt = pt.Elem()
				}
				if n, ok := types.Unalias(rt).(*types.Named); ok {
					internalKind = internalRecv[n.Obj()]
				}
			}
			fname := strings.TrimPrefix(rel, "homescript/") + "." + FuncName(fd)
			seen := map[string]int{}
			var visit func(n ast.Node, inPanic bool)
			visit = func(n ast.Node, inPanic bool) {
				ast.Inspect(n, func(nd ast.Node) bool {
					// statically dead branches (`if debugFlag { … }` with a constant flag)
					if ifs, ok := nd.(*ast.IfStmt); ok {
						if tv, ok := info.Types[ifs.Cond]; ok && tv.Value != nil && tv.Value.Kind() == constant.Bool {
							if ifs.Init != nil {
								visit(ifs.Init, inPanic)
							}
							if constant.BoolVal(tv.Value) {
								visit(ifs.Body, inPanic)
							} else if ifs.Else != nil {
								visit(ifs.Else, inPanic)
							}
							return false
						}
						return true
					}
					call, ok := nd.(*ast.CallExpr)
					if !ok {
						return true
					}
					if id, ok := ast.Unparen(call.Fun).(*ast.Ident); ok {
						if b, ok := info.Uses[id].(*types.Builtin); ok && b.Name() == "panic" {
							for _, a := range call.Args {
								visit(a, true)
							}
							return false
						}
					}
					// a module function that never returns (its body ends in panic and
					// has no return): its arguments are crash-report text too
					if cal := CalleeOf(info, call); cal != nil && !inPanic && r5rtNeverReturns(c, cal) {
						visit(call.Fun, inPanic)
						for _, a := range call.Args {
							visit(a, true)
						}
						return false
					}
					fn := CalleeOf(info, call)
					if fn == nil || fn.Pkg() == nil || fn.Pkg().Path() != "fmt" {
						return true
					}
					sig, _ := fn.Type().(*types.Signature)
					if sig == nil || !sig.Variadic() || call.Ellipsis != token.NoPos {
						return true
					}
					nfix := sig.Params().Len() - 1
					if len(call.Args) <= nfix {
						return true
					}
					// verbs
					var verbs []string
					hasFormat := nfix >= 1 && strings.HasSuffix(fn.Name(), "f")
					if hasFormat {
						if tv, ok := info.Types[call.Args[nfix-1]]; ok && tv.Value != nil && tv.Value.Kind() == constant.String {
							verbs = r5rtVerbs(constant.StringVal(tv.Value))
						} else {
							verbs = nil
						}
					}
					for i, a := range call.Args[nfix:] {
						total++
						if firstPos == token.NoPos {
							firstPos = a.Pos()
						}
						verb := "v"
						if hasFormat {
							if i < len(verbs) {
								verb = verbs[i]
							}
						}
						t := info.TypeOf(a)
						if t == nil {
							continue
						}
						why := r5rtPrintsAddress(t, verb, 0, map[types.Type]bool{})
						hasPtr := r5rtHasPointerish(t, 0, map[types.Type]bool{})
						if !hasPtr && why == "" {
							continue
						}
						risky++
						ts := types.TypeString(t, func(p *types.Package) string { return p.Name() })
						base := fmt.Sprintf("fmt-address|%s|fmt.%s operand of type %s under %%%s", fname, fn.Name(), ts, verb)
						seen[base]++
						key := base
						if seen[base] > 1 {
							key = fmt.Sprintf("%s #%d", base, seen[base])
						}
						ob := Obligation{Key: key, Pos: c.Pos(a.Pos()), Nontrivial: true}
						switch {
						case why == "":
							ob.Status, ob.Detail = Discharged, "fmt renders this operand through its String/Error/Format method or looks through the pointer (top-level pointer to a struct, array, slice or map without pointers below): no address in the text"
						case internalKind != "":
							ob.Status, ob.Detail = Info, "would print an address ("+why+"), but this is a method of the value kind "+internalKind+", which has no Homescript type: no program can hold, compare or print such a value"
						case inPanic:
							ob.Status, ob.Detail = Info, "would print an address ("+why+"), but the text is the argument of panic(...): a host crash report, not program-visible text"
						default:
							ob.Status = Violated
							ob.Detail = fmt.Sprintf("the operand `%s` is rendered with a memory address: %s. Addresses differ between runs, so the produced text (an interrupt / diagnostic message or output) is not reproducible. Format the values the pointers refer to (e.g. their Display()) instead", exprStr(a), why)
						}
						obs = append(obs, ob)
					}
					return true
				})
			}
			visit(fd.Body, false)
		}
	}
	obs = append(obs, Obligation{Key: "fmt-address|scope", Pos: c.Pos(firstPos), Status: Info,
		Detail: fmt.Sprintf("%d operands of fmt print/format calls in the pipeline packages examined, %d of a type with a pointer-like component", total, risky)})
	sort.SliceStable(obs, func(i, j int) bool { return obs[i].Key < obs[j].Key })
	return obs
}

var r5rtNeverReturnsCache = map[*types.Func]bool{}

// r5rtNeverReturns: a function declared in the module whose body contains no
// return statement and ends in panic(...).
func r5rtNeverReturns(c *Ctx, fn *types.Func) bool {
	if v, ok := r5rtNeverReturnsCache[fn]; ok {
		return v
	}
	res := false
	if fn.Pkg() != nil && strings.HasPrefix(fn.Pkg().Path(), ModPath) {
		if d := moDeclOf(c, fn); d != nil && d.fd != nil && d.fd.Body != nil && len(d.fd.Body.List) > 0 {
			hasRet := false
			mbInspectNoLit(d.fd.Body, func(n ast.Node) bool {
				if _, ok := n.(*ast.ReturnStmt); ok {
					hasRet = true
				}
				return true
			})
			res = !hasRet && IsPanicCall(d.pkg.TypesInfo, d.fd.Body.List[len(d.fd.Body.List)-1])
		}
	}
	r5rtNeverReturnsCache[fn] = res
	return res
}

// r5rtVerbs: the verb letter consumed by each successive operand of a format
// string ("*" width/precision operands are reported as "d").
func r5rtVerbs(f string) []string {
	var out []string
	for i := 0; i < len(f); i++ {
		if f[i] != '%' {
			continue
		}
		i++
		for i < len(f) && strings.ContainsRune("+-# 0123456789.[]*", rune(f[i])) {
			if f[i] == '*' {
				out = append(out, "d")
			}
			i++
		}
		if i >= len(f) {
			break
		}
		if f[i] == '%' {
			continue
		}
		out = append(out, string(f[i]))
	}
	return out
}

var r5rtFmtIfaces = func() []*types.Interface {
	mk := func(name string, params, results []*types.Var) *types.Interface {
		sig := types.NewSignatureType(nil, nil, nil, types.NewTuple(params...), types.NewTuple(results...), false)
		i := types.NewInterfaceType([]*types.Func{types.NewFunc(token.NoPos, nil, name, sig)}, nil)
		i.Complete()
		return i
	}
	str := types.NewVar(token.NoPos, nil, "", types.Typ[types.String])
	return []*types.Interface{mk("String", nil, []*types.Var{str}), mk("Error", nil, []*types.Var{str})}
}()

func r5rtHasFmtMethod(t types.Type) bool {
	for _, i := range r5rtFmtIfaces {
		if types.Implements(t, i) {
			return true
		}
	}
	// fmt.Formatter / GoStringer: by method name
	ms := types.NewMethodSet(t)
	for k := 0; k < ms.Len(); k++ {
		if ms.At(k).Obj().Name() == "Format" {
			return true
		}
	}
	return false
}

// r5rtPrintsAddress: why fmt renders a value of static type t under the verb
// with an address ("" = it does not). depth 0 = the operand itself.
func r5rtPrintsAddress(t types.Type, verb string, depth int, seen map[types.Type]bool) string {
	ts := func() string { return types.TypeString(t, func(p *types.Package) string { return p.Name() }) }
	if verb == "T" {
		return ""
	}
	if verb == "p" {
		return "%p prints the address of its operand"
	}
	if seen[t] || depth > 6 {
		return ""
	}
	seen[t] = true
	defer delete(seen, t)
	methodsApply := verb == "v" || verb == "s" || verb == "q" || verb == "x" || verb == "X"
	if methodsApply && r5rtHasFmtMethod(t) {
		return ""
	}
	switch u := t.Underlying().(type) {
	case *types.Basic:
		if u.Kind() == types.UnsafePointer {
			return "unsafe.Pointer is printed as an address"
		}
		return ""
	case *types.Pointer:
		if depth == 0 && (verb == "v" || verb == "s") {
			switch u.Elem().Underlying().(type) {
			case *types.Struct, *types.Array, *types.Slice, *types.Map:
				return r5rtPrintsAddress(u.Elem(), verb, depth+1, seen)
			}
		}
		if depth == 0 {
			return "a " + ts() + " is printed as its address"
		}
		return "the nested " + ts() + " is printed as its address (fmt follows a pointer at the top level only)"
	case *types.Slice:
		return r5rtPrintsAddress(u.Elem(), verb, depth+1, seen)
	case *types.Array:
		return r5rtPrintsAddress(u.Elem(), verb, depth+1, seen)
	case *types.Map:
		if w := r5rtPrintsAddress(u.Key(), verb, depth+1, seen); w != "" {
			return w
		}
		return r5rtPrintsAddress(u.Elem(), verb, depth+1, seen)
	case *types.Struct:
		for i := 0; i < u.NumFields(); i++ {
			f := u.Field(i)
			ft := f.Type()
			// fmt cannot call methods on unexported fields
			if !f.Exported() {
				if _, isPtr := ft.Underlying().(*types.Pointer); isPtr {
					return "field " + f.Name() + " (" + types.TypeString(ft, func(p *types.Package) string { return p.Name() }) + ") of " + ts() + " is printed as its address"
				}
			}
			if w := r5rtPrintsAddress(ft, verb, depth+1, seen); w != "" {
				return w
			}
		}
		return ""
	case *types.Chan:
		return "a channel is printed as its address"
	case *types.Signature:
		return "a func value is printed as its address"
	case *types.Interface:
		// an interface declared in the module: any struct of the module that
		// implements it may be the dynamic value (the empty interface and
		// foreign interfaces are not followed)
		n, ok := types.Unalias(t).(*types.Named)
		if !ok || n.Obj().Pkg() == nil || !strings.HasPrefix(n.Obj().Pkg().Path(), ModPath) || u.NumMethods() == 0 {
			return ""
		}
		sc := n.Obj().Pkg().Scope()
		for _, nm := range sc.Names() {
			tn, ok := sc.Lookup(nm).(*types.TypeName)
			if !ok || tn.IsAlias() {
				continue
			}
			if _, isI := tn.Type().Underlying().(*types.Interface); isI {
				continue
			}
			for _, cand := range []types.Type{tn.Type(), types.NewPointer(tn.Type())} {
				if types.Implements(cand, u) {
					if w := r5rtPrintsAddress(cand, verb, depth+1, seen); w != "" {
						return "the dynamic value may be a " + types.TypeString(cand, func(p *types.Package) string { return p.Name() }) + ": " + w
					}
					break
				}
			}
		}
		return ""
	}
	return ""
}

func r5rtHasPointerish(t types.Type, depth int, seen map[types.Type]bool) bool {
	if seen[t] || depth > 6 {
		return false
	}
	seen[t] = true
	defer delete(seen, t)
	switch u := t.Underlying().(type) {
	case *types.Pointer, *types.Chan, *types.Signature:
		return true
	case *types.Slice:
		return r5rtHasPointerish(u.Elem(), depth+1, seen)
	case *types.Array:
		return r5rtHasPointerish(u.Elem(), depth+1, seen)
	case *types.Map:
		return r5rtHasPointerish(u.Key(), depth+1, seen) || r5rtHasPointerish(u.Elem(), depth+1, seen)
	case *types.Struct:
		for i := 0; i < u.NumFields(); i++ {
			if r5rtHasPointerish(u.Field(i).Type(), depth+1, seen) {
				return true
			}
		}
	case *types.Basic:
		return u.Kind() == types.UnsafePointer
	case *types.Interface:
		n, ok := types.Unalias(t).(*types.Named)
		return ok && n.Obj().Pkg() != nil && strings.HasPrefix(n.Obj().Pkg().Path(), ModPath) && u.NumMethods() > 0
	}
	return false
}
