package main

import (
	"fmt"
	"go/ast"
	"go/token"
	"go/types"
	"sort"
	"strings"

	"golang.org/x/tools/go/packages"
)

// R-found-use: the value of a lookup is used only where the lookup is known to have succeeded.

func init() {
	register(&Rule{ID: "R-found-use", Floor: 30, Run: ruleR4FoundUse,
		Doc: "a *guarded lookup* is a definition `v, ok := m[k]` or `v, …, ok := lookup(…)` — lookup being a function of the module whose last result is a bool flag and that returns the zero value of its first result whenever the flag is false (nil, T{}), or hands on the two results of a map lookup / another lookup — in which the programmer binds the flag: absence is an expected outcome, and on that outcome v is the zero value of its type (a nil pointer, a struct whose interface fields are nil). Every use of v that needs a real value (pointer: field / method selection, dereference; interface: method call; struct: a method call on it or on one of its fields, handing it or one of its fields to a call) must be at a place where the flag HAS BEEN EXAMINED: where it is known true — inside `if ok { … }`, as a conjunct `ok && …`, in the else branch of `if !ok`, after an `if !ok { … }` that leaves (return / continue / break / panic) — or inside the not-found handler itself (`if !ok { … }`), where the zero value is used knowingly (a placeholder entry that suppresses follow-up errors). Copies, comparisons, fields of a literal and `return v, ok` are not uses. A use on a path where both outcomes still flow reads the zero value on the not-found path: the error for the unknown name has been reported, and then the zero value is dereferenced or handed to a constructor that rejects nil components — the analyzer panics on an ill-formed program instead of returning its diagnostics (C05), the engines panic the host (C02). Lookups whose flag is discarded (`v, _ :=`) assert presence and are listed as information."})
}

func ruleR4FoundUse(c *Ctx) []Obligation {
	var out []Obligation
	pkgs := append([]*packages.Package(nil), c.All...)
	sort.Slice(pkgs, func(i, j int) bool { return pkgs[i].PkgPath < pkgs[j].PkgPath })
	for _, p := range pkgs {
		if !strings.HasPrefix(p.PkgPath, ModPath) {
			continue
		}
		info := p.TypesInfo
		for _, fd := range AllFuncDecls(p) {
			if fd.Body == nil {
				continue
			}
			parent := map[ast.Node]ast.Node{}
			var stack []ast.Node
			ast.Inspect(fd.Body, func(n ast.Node) bool {
				if n == nil {
					stack = stack[:len(stack)-1]
					return true
				}
				if len(stack) > 0 {
					parent[n] = stack[len(stack)-1]
				}
				stack = append(stack, n)
				return true
			})
			nKey := map[string]int{}
			ast.Inspect(fd.Body, func(n ast.Node) bool {
				as, ok := n.(*ast.AssignStmt)
				if !ok || len(as.Lhs) < 2 || len(as.Rhs) != 1 {
					return true
				}
				what := ""
				switch r := ast.Unparen(as.Rhs[0]).(type) {
				case *ast.IndexExpr:
					if tv, ok := info.Types[r.X]; ok && tv.Type != nil {
						if _, isMap := tv.Type.Underlying().(*types.Map); isMap {
							what = exprStr(r.X) + "[…]"
						}
					}
				case *ast.CallExpr:
					callee := CalleeOf(info, r)
					if callee == nil || callee.Pkg() == nil || !strings.HasPrefix(callee.Pkg().Path(), ModPath) {
						return true
					}
					if !r4fuIsLookup(c, callee, 0) {
						return true
					}
					what = r2sibQualName(callee) + "(…)"
				}
				if what == "" {
					return true
				}
				vid, ok1 := as.Lhs[0].(*ast.Ident)
				oid, ok2 := as.Lhs[len(as.Lhs)-1].(*ast.Ident)
				if !ok1 || !ok2 || vid.Name == "_" {
					return true
				}
				vobj := info.Defs[vid]
				if vobj == nil {
					vobj = info.Uses[vid]
				}
				if vobj == nil {
					return true
				}
				// only values whose zero value is a trap: pointers, interfaces, maps, slices, structs
				switch vobj.Type().Underlying().(type) {
				case *types.Pointer, *types.Interface, *types.Struct, *types.Map, *types.Slice, *types.Signature:
				default:
					return true
				}
				key := fmt.Sprintf("%s.%s|%s, %s := %s", relPkg(p.PkgPath), FuncName(fd), vid.Name, oid.Name, what)
				nKey[key]++
				if k := nKey[key]; k > 1 {
					key = fmt.Sprintf("%s #%d", key, k)
				}
				if oid.Name == "_" {
					out = append(out, Obligation{Key: key, Pos: c.Pos(as.Pos()), Status: Info, Detail: "the flag is discarded: presence is asserted by the programmer"})
					return true
				}
				oobj := info.Defs[oid]
				if oobj == nil {
					oobj = info.Uses[oid]
				}
				if oobj == nil {
					return true
				}
				// both variables must have this single definition (a re-used `found` belongs to the latest lookup: position order)
				ob := Obligation{Key: key, Pos: c.Pos(as.Pos()), Nontrivial: true}
				var bad []string
				nUses, nHandler := 0, 0
				// the region of this definition: from the statement to the next definition of v or ok
				nextDef := token.Pos(fd.Body.End())
				ast.Inspect(fd.Body, func(m ast.Node) bool {
					if a2, ok := m.(*ast.AssignStmt); ok && a2.Pos() > as.Pos() {
						for _, l := range a2.Lhs {
							if id, ok := l.(*ast.Ident); ok {
								o := info.Defs[id]
								if o == nil {
									o = info.Uses[id]
								}
								if (o == vobj || o == oobj) && a2.Pos() < nextDef {
									nextDef = a2.Pos()
								}
							}
						}
					}
					return true
				})
				ast.Inspect(fd.Body, func(m ast.Node) bool {
					id, ok := m.(*ast.Ident)
					if !ok || info.Uses[id] != vobj || id.Pos() <= as.End() || id.Pos() >= nextDef {
						return true
					}
					how := r4fuNeedsValue(info, parent, id, vobj.Type())
					if how == "" {
						return true
					}
					nUses++
					if r4fuGuarded(info, parent, fd.Body, as, id, oobj, 1) {
						return true
					}
					if r4fuGuarded(info, parent, fd.Body, as, id, oobj, -1) {
						nHandler++
						return true // inside the not-found handler: the zero value is used knowingly (a placeholder entry)
					}
					bad = append(bad, fmt.Sprintf("%s %s (%s)", how, r4fuContext(parent, id), c.Pos(id.Pos())))
					return true
				})
				if len(bad) > 0 {
					if len(bad) > 4 {
						bad = append(bad[:4], fmt.Sprintf("… (%d more)", len(bad)-4))
					}
					ob.Status = Violated
					ob.Detail = fmt.Sprintf("%s is used on paths where %s has not been examined: %s — on the not-found path this is the zero value of %s", vid.Name, oid.Name, strings.Join(bad, "; "), types.TypeString(vobj.Type(), func(p *types.Package) string { return p.Name() }))
				} else {
					ob.Detail = fmt.Sprintf("%d use(s) of %s that need a value, all where %s has been examined (%d of them in the not-found handler, knowingly on the zero value)", nUses, vid.Name, oid.Name, nHandler)
				}
				out = append(out, ob)
				return true
			})
		}
	}
	sort.SliceStable(out, func(i, j int) bool { return out[i].Key < out[j].Key })
	return out
}

func r4fuContext(parent map[ast.Node]ast.Node, id *ast.Ident) string {
	var n ast.Node = id
	for {
		pn := parent[n]
		switch pn.(type) {
		case ast.Expr:
			n = pn
			continue
		}
		break
	}
	s := types.ExprString(n.(ast.Expr))
	if len(s) > 90 {
		s = s[:90] + "…"
	}
	return "`" + s + "`"
}

// r4fuFlagLit: how the condition constrains the flag when it is true (+1: flag true, -1: flag false, 0: nothing) and
// when it is false.
func r4fuFlag(info *types.Info, cond ast.Expr, flag types.Object) (whenTrue, whenFalse int) {
	cond = ast.Unparen(cond)
	switch x := cond.(type) {
	case *ast.Ident:
		if info.Uses[x] == flag {
			return 1, -1
		}
	case *ast.UnaryExpr:
		if x.Op == token.NOT {
			t, f := r4fuFlag(info, x.X, flag)
			return f, t
		}
	case *ast.BinaryExpr:
		lt, lf := r4fuFlag(info, x.X, flag)
		rt, rf := r4fuFlag(info, x.Y, flag)
		switch x.Op {
		case token.LAND:
			// true: both true; false: nothing known unless both sides say the same
			t := lt
			if t == 0 {
				t = rt
			}
			f := 0
			if lf == rf {
				f = lf
			}
			return t, f
		case token.LOR:
			f := lf
			if f == 0 {
				f = rf
			}
			t := 0
			if lt == rt {
				t = lt
			}
			return t, f
		case token.EQL, token.NEQ:
			// ok == true / ok == false
			for _, pr := range [][2]ast.Expr{{x.X, x.Y}, {x.Y, x.X}} {
				if id, ok := ast.Unparen(pr[0]).(*ast.Ident); ok && info.Uses[id] == flag {
					if b, ok := ast.Unparen(pr[1]).(*ast.Ident); ok && (b.Name == "true" || b.Name == "false") {
						v := 1
						if (b.Name == "false") != (x.Op == token.NEQ) {
							v = -1
						}
						return v, -v
					}
				}
			}
		}
	}
	return 0, 0
}

func r4fuLeaves(info *types.Info, b *ast.BlockStmt) bool {
	if b == nil || len(b.List) == 0 {
		return false
	}
	switch l := b.List[len(b.List)-1].(type) {
	case *ast.ReturnStmt:
		return true
	case *ast.BranchStmt:
		return l.Tok == token.CONTINUE || l.Tok == token.BREAK || l.Tok == token.GOTO
	case *ast.ExprStmt:
		return IsPanicCall(info, l)
	case *ast.IfStmt:
		if eb, ok := l.Else.(*ast.BlockStmt); ok {
			return r4fuLeaves(info, l.Body) && r4fuLeaves(info, eb)
		}
	}
	return false
}

// r4fuGuarded: the use is at a place where the flag is known to be true.
func r4fuGuarded(info *types.Info, parent map[ast.Node]ast.Node, body *ast.BlockStmt, def *ast.AssignStmt, use *ast.Ident, flag types.Object, want int) bool {
	// handed out together with the flag
	for n := ast.Node(use); n != nil && want == 1; n = parent[n] {
		if rs, ok := n.(*ast.ReturnStmt); ok {
			for _, r := range rs.Results {
				if id, ok := ast.Unparen(r).(*ast.Ident); ok && info.Uses[id] == flag {
					return true
				}
			}
			break
		}
		if _, ok := n.(ast.Stmt); ok {
			break
		}
	}
	var cur ast.Node = use
	for cur != nil && cur != ast.Node(body) {
		pn := parent[cur]
		var list []ast.Stmt
		switch x := pn.(type) {
		case *ast.BinaryExpr:
			// ok && use(v) / !ok || use(v)
			if x.Y == cur {
				t, f := r4fuFlag(info, x.X, flag)
				if x.Op == token.LAND && t == want || x.Op == token.LOR && f == want {
					return true
				}
			}
		case *ast.IfStmt:
			t, f := r4fuFlag(info, x.Cond, flag)
			if ast.Node(x.Body) == cur && t == want {
				return true
			}
			if x.Else == cur && f == want {
				return true
			}
		case *ast.CaseClause:
			list = x.Body
			if sw, ok := parent[parent[pn]].(*ast.SwitchStmt); ok && sw.Tag == nil {
				for _, v := range x.List {
					if t, _ := r4fuFlag(info, v, flag); t == want && len(x.List) == 1 {
						for _, st := range x.Body {
							if st.Pos() <= cur.Pos() && cur.End() <= st.End() {
								return true
							}
						}
					}
				}
			}
		case *ast.BlockStmt:
			list = x.List
		}
		for _, st := range list {
			if st.Pos() >= cur.Pos() {
				break
			}
			if st.Pos() < def.End() && !(st.Pos() <= def.Pos() && def.End() <= st.End()) {
				continue
			}
			ifs, ok := st.(*ast.IfStmt)
			if !ok {
				continue
			}
			// `if v, ok := m[k]; !ok { leave }` — the definition itself may be the init of this if
			// after `if cond { leave }` the condition is false; after `if cond {…} else { leave }` it is true
			t, f := r4fuFlag(info, ifs.Cond, flag)
			if f == want && r4fuLeaves(info, ifs.Body) {
				return true
			}
			if eb, ok := ifs.Else.(*ast.BlockStmt); ok && t == want && r4fuLeaves(info, eb) {
				return true
			}
		}
		cur = pn
	}
	return false
}

// r4fuNeedsValue: does this occurrence of the looked-up variable need a real value? Pointers: any field / method
// selection or dereference; interfaces: a method call; structs (whose interface / pointer fields are nil in the zero
// value): a method call on the value or on one of its fields, or handing the value / one of its fields to a call.
// Copies (x = v, a field of a literal) and comparisons do not.
func r4fuNeedsValue(info *types.Info, parent map[ast.Node]ast.Node, id *ast.Ident, t types.Type) string {
	// climb the selector chain rooted at the identifier
	var top ast.Node = id
	depth := 0
	for {
		pn := parent[top]
		if sel, ok := pn.(*ast.SelectorExpr); ok && sel.X == top {
			top = pn
			depth++
			continue
		}
		if pe, ok := pn.(*ast.ParenExpr); ok {
			top = pe
			continue
		}
		break
	}
	pn := parent[top]
	isCallee := false
	if call, ok := pn.(*ast.CallExpr); ok && call.Fun == top {
		isCallee = true
	}
	isArg := false
	if call, ok := pn.(*ast.CallExpr); ok && call.Fun != top {
		if tv, ok := info.Types[call.Fun]; !ok || !tv.IsType() {
			if id, ok := ast.Unparen(call.Fun).(*ast.Ident); !ok || (id.Name != "len" && id.Name != "append" && id.Name != "cap") {
				isArg = true
			}
		}
	}
	switch t.Underlying().(type) {
	case *types.Pointer:
		if depth > 0 {
			return "dereferenced in"
		}
		if st, ok := pn.(*ast.StarExpr); ok && st.X == top {
			return "dereferenced in"
		}
	case *types.Interface:
		if depth > 0 && isCallee {
			return "method called in"
		}
	case *types.Struct:
		if depth > 0 && isCallee {
			return "method called on it (or on one of its fields) in"
		}
		if isArg {
			return "handed to a call in"
		}
	case *types.Map, *types.Slice:
		if isArg {
			return "handed to a call in"
		}
	}
	return ""
}

var r4fuLookupCache = map[*types.Func]int{}

// r4fuIsLookup: a function of the module whose last result is a bool flag and that returns the zero value of its
// first result whenever it returns false (nil, T{}, an unassigned named result), or hands on the two results of a
// map lookup / another lookup.
func r4fuIsLookup(c *Ctx, fn *types.Func, depth int) bool {
	if v, ok := r4fuLookupCache[fn]; ok {
		return v == 1
	}
	r4fuLookupCache[fn] = 0
	sig := fn.Type().(*types.Signature)
	n := sig.Results().Len()
	if n < 2 || depth > 3 {
		return false
	}
	if b, ok := sig.Results().At(n - 1).Type().Underlying().(*types.Basic); !ok || b.Kind() != types.Bool {
		return false
	}
	e := r2sibEngineOf(c)
	fd := e.decls[fn]
	p := e.declPkg[fn]
	if fd == nil || fd.Body == nil || p == nil {
		return false
	}
	info := p.TypesInfo
	okAll, some := true, false
	ast.Inspect(fd.Body, func(x ast.Node) bool {
		if _, ok := x.(*ast.FuncLit); ok {
			return false
		}
		rs, ok := x.(*ast.ReturnStmt)
		if !ok {
			return true
		}
		if len(rs.Results) != n {
			if len(rs.Results) == 1 {
				// return otherLookup(…)
				if call, ok := ast.Unparen(rs.Results[0]).(*ast.CallExpr); ok {
					if cal := CalleeOf(info, call); cal != nil && r4fuIsLookup(c, cal, depth+1) {
						some = true
						return true
					}
				}
			}
			okAll = false
			return true
		}
		first, last := ast.Unparen(rs.Results[0]), ast.Unparen(rs.Results[n-1])
		if id, ok := last.(*ast.Ident); ok {
			switch id.Name {
			case "true":
				return true
			case "false":
				zero := false
				switch f := first.(type) {
				case *ast.Ident:
					zero = f.Name == "nil"
				case *ast.CompositeLit:
					zero = len(f.Elts) == 0
				}
				if zero {
					some = true
				} else {
					okAll = false
				}
				return true
			}
			// a flag variable: defined together with the first result by a map lookup / lookup call
			fo := info.Uses[id]
			handed := false
			ast.Inspect(fd.Body, func(y ast.Node) bool {
				as, ok := y.(*ast.AssignStmt)
				if !ok || len(as.Lhs) < 2 || len(as.Rhs) != 1 {
					return true
				}
				lid, ok := as.Lhs[len(as.Lhs)-1].(*ast.Ident)
				if !ok || (info.Defs[lid] != fo && info.Uses[lid] != fo) {
					return true
				}
				vid, ok := as.Lhs[0].(*ast.Ident)
				fid, ok2 := first.(*ast.Ident)
				if !ok || !ok2 {
					return true
				}
				vo := info.Defs[vid]
				if vo == nil {
					vo = info.Uses[vid]
				}
				if vo != info.Uses[fid] {
					return true
				}
				switch r := ast.Unparen(as.Rhs[0]).(type) {
				case *ast.IndexExpr:
					if tv, ok := info.Types[r.X]; ok && tv.Type != nil {
						if _, isMap := tv.Type.Underlying().(*types.Map); isMap {
							handed = true
						}
					}
				case *ast.CallExpr:
					if cal := CalleeOf(info, r); cal != nil && cal != fn && r4fuIsLookup(c, cal, depth+1) {
						handed = true
					}
				}
				return true
			})
			if handed {
				some = true
				return true
			}
		}
		okAll = false
		return true
	})
	if okAll && some {
		r4fuLookupCache[fn] = 1
		return true
	}
	return false
}
