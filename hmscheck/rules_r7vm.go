package main

// Round 7 rules of the vm group: R-instr-loop-bounded, R-interrupt-checked.

import (
	"fmt"
	"go/ast"
	"go/token"
	"go/types"
	"sort"
	"strings"
)

func init() {
	register(&Rule{ID: "R-instr-loop-bounded", Floor: 4, Run: ruleR7vmInstrLoops,
		Doc: "every loop inside the VM's instruction dispatcher (the dispatch tree: Core.runInstruction, the functions it hands the instruction to and the per-opcode handler methods) is bounded by something the VM bounds: it ranges over a slice/map/array/string, or its condition compares with len()/cap() of a structure, or every iteration that completes pops the (size-limited) operand stack or polls the cancellation context. A loop whose trip count is an integer taken from a program value and whose body does neither runs one instruction for a time the program chooses: the cancellation poll and the limit checks of Core.Run only happen between instructions, so `2 ** 4000000000` cannot be cancelled. Necessary for C10"})
	register(&Rule{ID: "R-interrupt-checked", Floor: 40, Run: ruleR7vmInterruptChecked,
		Doc: "package interpreter: an interrupt received from a call (a variable of type *value.Interrupt assigned from a call result) is looked at — tested, returned, passed on or copied — on every path before the variable is assigned again or the function ends. An interrupt that is overwritten by the next evaluation is lost: `return`, `break`, a thrown error or the termination request raised inside the first operand disappears and evaluation continues with a nil value. Necessary for C09/C11"})
}

// ------------------------------------------------------ R-instr-loop-bounded

func ruleR7vmInstrLoops(c *Ctx) []Obligation {
	r := vmRoles(c)
	polls := vmPollFns(r.fns)
	var fns []*vmFn
	seen := map[*ast.FuncDecl]bool{}
	add := func(fn *vmFn) {
		if fn != nil && !seen[fn.fd] {
			seen[fn.fd] = true
			fns = append(fns, fn)
		}
	}
	add(r.dispatch)
	var hobjs []*types.Func
	for o := range r.handlers {
		hobjs = append(hobjs, o)
	}
	sort.Slice(hobjs, func(i, j int) bool { return hobjs[i].Pos() < hobjs[j].Pos() })
	for _, o := range hobjs {
		add(r.handlers[o])
	}
	// helpers of the package the dispatch functions call with their own core (pop helpers, gather loops)
	for i := 0; i < len(fns) && i < 64; i++ {
		fn := fns[i]
		ast.Inspect(fn.fd.Body, func(n ast.Node) bool {
			if call, ok := n.(*ast.CallExpr); ok {
				if g := vmDeclIndex(c).of(CalleeOf(fn.info, call)); g != nil && g.pkg == r.dispatch.pkg && g.fd.Recv != nil && recvTypeName(g.fd.Recv.List[0].Type) == "Core" && g.fd != r.run.fd {
					add(g)
				}
			}
			return true
		})
	}
	var obs []Obligation
	for _, fn := range fns {
		info := fn.info
		// unit names by clause position (leaf clauses written in this function)
		type clause struct {
			pos, end token.Pos
			name     string
		}
		var clauses []clause
		for _, cl := range r.dispSw.Body.List {
			cc := cl.(*ast.CaseClause)
			if r.clauseFn[cc] == nil || r.clauseFn[cc].fd != fn.fd {
				continue
			}
			var names []string
			for _, e := range cc.List {
				if k := ConstOf(info, e); k != nil {
					names = append(names, k.Name())
				}
			}
			n := "default"
			if len(names) > 0 {
				n = "case " + strings.Join(names, ",")
			}
			clauses = append(clauses, clause{cc.Pos(), cc.End(), n})
		}
		ord := map[string]int{}
		var loops []ast.Stmt
		ast.Inspect(fn.fd.Body, func(n ast.Node) bool {
			switch x := n.(type) {
			case *ast.FuncLit:
				return false
			case *ast.ForStmt:
				loops = append(loops, x)
			case *ast.RangeStmt:
				loops = append(loops, x)
			}
			return true
		})
		for _, loop := range loops {
			unit := ""
			for _, cl := range clauses {
				if loop.Pos() >= cl.pos && loop.End() <= cl.end {
					unit = cl.name + "|"
				}
			}
			ord[unit]++
			key := fmt.Sprintf("%s|%sloop #%d|bounded by an owned structure, the operand stack or a cancellation poll", fn.name, unit, ord[unit])
			ob := Obligation{Key: key, Pos: c.Pos(loop.Pos()), Status: Discharged, Nontrivial: true}
			var body *ast.BlockStmt
			structural := ""
			switch x := loop.(type) {
			case *ast.RangeStmt:
				body = x.Body
				switch info.TypeOf(x.X).Underlying().(type) {
				case *types.Slice, *types.Map, *types.Array, *types.Pointer:
					structural = "ranges over `" + vmTrunc(exprStr(x.X), 60) + "`"
				case *types.Basic:
					if b := info.TypeOf(x.X).Underlying().(*types.Basic); b.Info()&types.IsString != 0 {
						structural = "ranges over the string `" + vmTrunc(exprStr(x.X), 60) + "`"
					}
				}
			case *ast.ForStmt:
				body = x.Body
				if x.Cond != nil {
					ast.Inspect(x.Cond, func(m ast.Node) bool {
						if call, ok := m.(*ast.CallExpr); ok {
							if id, ok := call.Fun.(*ast.Ident); ok {
								if b, isB := info.Uses[id].(*types.Builtin); isB && (b.Name() == "len" || b.Name() == "cap") {
									structural = "condition `" + vmTrunc(exprStr(x.Cond), 60) + "` compares with the size of a structure"
								}
							}
						}
						return true
					})
					if tv := info.Types[x.Cond]; tv.Value != nil {
						structural = ""
					}
					// counter against a compile-time constant
					if a := vmNormCmp(x.Cond); a.recognised && (info.Types[a.x].Value != nil || info.Types[a.y].Value != nil) {
						structural = "condition `" + exprStr(x.Cond) + "` compares with a compile-time constant"
					}
				}
			}
			if structural != "" {
				ob.Detail = structural
				obs = append(obs, ob)
				continue
			}
			// every completed iteration pops the operand stack or polls
			res := vmWalk(vmWalkOpts{fn: fn, body: body})
			var bad []string
			n := 0
			if res.overflow {
				bad = append(bad, "path cap exceeded in the loop body")
			}
			for i := range res.paths {
				p := &res.paths[i]
				if p.o.kind != cNormal && p.o.kind != cContinue {
					continue
				}
				n++
				ok := false
				for _, e := range p.ev {
					switch e.K {
					case evCall:
						if e.Fn != nil {
							if _, isPop := r.stack.pop[e.Fn]; isPop {
								ok = true
							}
							if _, isPoll := polls[e.Fn]; isPoll {
								ok = true
							}
							// a helper that pops on all of its paths (popValue, pop2)
							if !ok {
								se := &vmStackEval{r: r, fn: fn, memo: map[*types.Func]*vmLin{}, busy: map[*types.Func]bool{}}
								if l, known := se.calleeEffect(e.Fn, e.Call); known && l.isConst() && l.c < 0 {
									ok = true
								}
							}
						}
					case evRecv:
						if vmIsDoneRecv(info, &ast.UnaryExpr{Op: token.ARROW, X: e.X}) {
							ok = true
						}
					case evCase:
						if e.Select && e.SelStmt != nil && vmIsDoneRecv(info, e.SelStmt) {
							ok = true
						}
					}
				}
				if !ok {
					bad = append(bad, fmt.Sprintf("an iteration completes without popping the operand stack or polling the cancellation context (path [%s]): the trip count `%s` comes from a program value, so a single instruction runs as long as the program chooses and cannot be cancelled or limited", p.decisions(), vmTrunc(vmTripSymbol(info, loop), 60)))
				}
			}
			if bad = vmUniq(bad); len(bad) > 0 {
				ob.Status = Violated
				ob.Detail = strings.Join(bad, " || ")
			} else {
				ob.Detail = fmt.Sprintf("%d completed-iteration path(s), each pops the operand stack (bounded by Limits.StackMaxSize) or polls", n)
			}
			obs = append(obs, ob)
		}
	}
	return obs
}

// ------------------------------------------------------- R-interrupt-checked

func ruleR7vmInterruptChecked(c *Ctx) []Obligation {
	ir := vmInterp(c)
	intrObj := c.Pkg("homescript/interpreter/value").Types.Scope().Lookup("Interrupt")
	if intrObj == nil {
		fatalf("anchor unresolved: interpreter/value.Interrupt")
	}
	isIntr := func(t types.Type) bool {
		p, ok := t.(*types.Pointer)
		return ok && types.Identical(p.Elem(), intrObj.Type())
	}
	var obs []Obligation
	for _, fn := range ir.fns {
		info := fn.info
		// sites: assignments of an interrupt variable from a call
		type site struct {
			pos token.Pos
			obj types.Object
			txt string
		}
		var sites []site
		ast.Inspect(fn.fd.Body, func(n ast.Node) bool {
			switch x := n.(type) {
			case *ast.FuncLit:
				return false
			case *ast.AssignStmt:
				if len(x.Rhs) != 1 {
					return true
				}
				if _, isCall := ast.Unparen(x.Rhs[0]).(*ast.CallExpr); !isCall {
					return true
				}
				for _, l := range x.Lhs {
					id, ok := l.(*ast.Ident)
					if !ok || id.Name == "_" {
						continue
					}
					if o := vmObjOf(info, id); o != nil && isIntr(o.Type()) {
						sites = append(sites, site{x.Pos(), o, vmTrunc(exprStr(x.Rhs[0]), 50)})
					}
				}
			}
			return true
		})
		if len(sites) == 0 {
			continue
		}
		siteAt := map[token.Pos]int{}
		for i, s := range sites {
			siteAt[s.pos] = i
		}
		bad := make([][]string, len(sites))
		relevant := func(n ast.Node) bool {
			switch x := n.(type) {
			case *ast.AssignStmt:
				if _, ok := siteAt[x.Pos()]; ok {
					return true
				}
			case *ast.Ident:
				if o := info.Uses[x]; o != nil && isIntr(o.Type()) {
					return true
				}
			case *ast.CallExpr:
				if id, ok := x.Fun.(*ast.Ident); ok {
					if b, isB := info.Uses[id].(*types.Builtin); isB && b.Name() == "panic" {
						return true
					}
				}
			}
			return false
		}
		res := vmWalk(vmWalkOpts{fn: fn, replace: vmSlicer(relevant)})
		overflow := res.overflow
		check := func(p *vmPath, atExit bool) {
			pending := map[types.Object]int{} // obj → site index
			mentions := func(n ast.Node, o types.Object) bool { return n != nil && vmMentionsObj(info, n, o) }
			for _, e := range p.ev {
				// uses first
				for o := range pending {
					used := false
					switch e.K {
					case evCond:
						used = mentions(e.X, o)
					case evCall:
						for _, a := range e.Call.Args {
							if mentions(a, o) {
								used = true
							}
						}
					case evAssign:
						used = e.Rhs != nil && mentions(e.Rhs, o)
					case evRet:
						for _, x := range e.Ret.Results {
							if mentions(x, o) {
								used = true
							}
						}
					case evSend:
						used = mentions(e.Val, o)
					case evCase, evTypeCase:
						if sw, ok := e.Sw.(*ast.SwitchStmt); ok && sw.Tag != nil {
							used = mentions(sw.Tag, o)
						}
					}
					if used {
						delete(pending, o)
					}
				}
				if e.K == evAssign && !e.Deferred {
					o := vmObjOf(info, e.Lhs)
					if o != nil && isIntr(o.Type()) {
						if k, was := pending[o]; was {
							bad[k] = append(bad[k], fmt.Sprintf("the interrupt is overwritten at %s before it is looked at (path [%s])", c.Pos(e.Pos), vmTrunc(p.decisions(), 200)))
						}
						if e.Stmt != nil {
							if k, isSite := siteAt[e.Stmt.Pos()]; isSite && sites[k].obj == o {
								pending[o] = k
							} else {
								delete(pending, o)
							}
						}
					}
				}
			}
			if atExit && p.o.kind != cPanic {
				for _, k := range pending {
					bad[k] = append(bad[k], fmt.Sprintf("the function ends (%s) without looking at the interrupt (path [%s])", p.exitStr(c), vmTrunc(p.decisions(), 200)))
				}
			}
		}
		for i := range res.paths {
			check(&res.paths[i], true)
		}
		for i := range res.iters {
			check(&res.iters[i], false)
		}
		ord := map[string]int{}
		for k, s := range sites {
			base := fn.name + "|" + s.obj.Name() + " := " + s.txt
			ord[base]++
			key := base
			if ord[base] > 1 {
				key = fmt.Sprintf("%s #%d", base, ord[base])
			}
			ob := vmOb(c, key+"|the interrupt is looked at before it is overwritten or dropped", s.pos, bad[k], "tested, returned or passed on on every path")
			if overflow && ob.Status == Discharged {
				ob.Status, ob.Detail = Undecided, "path cap exceeded"
			}
			obs = append(obs, ob)
		}
	}
	return obs
}
