package main

import (
	"fmt"
	"go/ast"
	"go/token"
	"sort"
	"strings"
)

func init() {
	register(&Rule{ID: "R-list-siblings", Floor: 14, Run: ruleListSiblings,
		Doc: "every comma-separated list loop of the parser (a `for` whose condition tests the current token for ',') has the sibling shape: consume ','; if the current token is the list's closer (optionally: or EOF) leave the loop without consuming anything; otherwise parse one element; and after the loop the closer is consumed exactly once (expect-family call with the closer kind, or next() under a test that established the closer). Any other shape rejects or mis-parses a trailing comma — C07: a trailing comma in a list never changes the tree — or consumes the closer twice, which turns `[a, b,]` into a syntax error."})
}

type pxListLoop struct {
	lp        pxLoop
	parents   map[ast.Node]ast.Node
	closerIf  *ast.IfStmt
	closers   []string // kinds tested by closerIf (including EOF when present)
	closer    string   // the non-EOF closer
	condOther bool     // loop condition has a disjunct besides `== ','`
}

func ruleListSiblings(c *Ctx) []Obligation {
	r := pxDiscover(c)
	var obs []Obligation
	var table []string
	r.sum.stable(func() {
		obs, table = nil, nil
		for _, lp := range r.cursorLoops() {
			if lp.pk != r.pkg {
				continue
			}
			info := r.info
			condComma, condOther, bodyComma := false, false, false
			if lp.loop.Cond != nil {
				pxAtoms(lp.loop.Cond, func(a ast.Expr) {
					if k, eq, ok := r.kindAtom(info, a); ok && k == r.comma && eq {
						condComma = true
					} else {
						condOther = true
					}
				})
			}
			ast.Inspect(lp.loop.Body, func(n ast.Node) bool {
				if e, ok := n.(ast.Expr); ok {
					if k, _, ok := r.kindAtom(info, e); ok && k == r.comma {
						bodyComma = true
					}
				}
				return true
			})
			if !condComma {
				if bodyComma {
					obs = append(obs, Obligation{Key: lp.key + "|list loop shape", Pos: c.Pos(lp.loop.Pos()), Status: Undecided,
						Detail: "the loop body tests the current token for ',' but the loop condition does not: a list loop of a shape this rule does not know"})
				}
				continue
			}
			ll := &pxListLoop{lp: lp, condOther: condOther}
			key := strings.Replace(lp.key, "|loop#", "|list loop#", 1)
			if i := strings.Index(key, " for "); i > 0 {
				key = key[:i]
			}
			o1, o2, row := r.checkListLoop(ll, key)
			obs = append(obs, o1, o2)
			table = append(table, row)
		}
	})
	sort.Strings(table)
	obs = append(obs, Obligation{Key: "summary|list loops", Pos: "-", Status: Info, Detail: strings.Join(table, " ; ")})
	return obs
}

// pxAtoms calls f on the atoms of a short-circuit expression.
func pxAtoms(e ast.Expr, f func(ast.Expr)) {
	e = ast.Unparen(e)
	switch x := e.(type) {
	case *ast.BinaryExpr:
		if x.Op == token.LAND || x.Op == token.LOR {
			pxAtoms(x.X, f)
			pxAtoms(x.Y, f)
			return
		}
	case *ast.UnaryExpr:
		if x.Op == token.NOT {
			pxAtoms(x.X, f)
			return
		}
	}
	f(e)
}

func pxParents(root ast.Node) map[ast.Node]ast.Node {
	parent := map[ast.Node]ast.Node{}
	var stack []ast.Node
	ast.Inspect(root, func(n ast.Node) bool {
		if n == nil {
			stack = stack[:len(stack)-1]
			return true
		}
		if len(stack) > 0 {
			parent[n] = stack[len(stack)-1]
		}
		stack = append(stack, n)
		return true
	})
	return parent
}

func (r *pxRoles) checkListLoop(ll *pxListLoop, key string) (shape, after Obligation, row string) {
	c := r.c
	info := r.info
	loop := ll.lp.loop
	pos := c.Pos(loop.Pos())
	shape = Obligation{Key: key + "|trailing comma: ',' then closer test then element", Pos: pos, Nontrivial: true}
	after = Obligation{Key: key + "|closer consumed exactly once, after the loop", Pos: pos, Nontrivial: true}
	fname := FuncName(ll.lp.fd)

	// the closer test: first top-level `if` of the body whose condition is a
	// disjunction of `cursor.Kind == K` and whose body ends by leaving the loop
	for _, s := range loop.Body.List {
		ifs, ok := s.(*ast.IfStmt)
		if !ok || ifs.Else != nil || len(ifs.Body.List) == 0 {
			continue
		}
		br, ok := ifs.Body.List[len(ifs.Body.List)-1].(*ast.BranchStmt)
		if !ok || br.Tok != token.BREAK {
			continue
		}
		var ks []string
		pure := true
		pxAtoms(ifs.Cond, func(a ast.Expr) {
			if k, eq, ok := r.kindAtom(info, a); ok && eq && k != r.comma {
				ks = append(ks, k)
			} else {
				pure = false
			}
		})
		if !pure || len(ks) == 0 || !pxIsDisjunction(ifs.Cond) {
			continue
		}
		ll.closerIf, ll.closers = ifs, ks
		for _, k := range ks {
			if k != r.eof {
				if ll.closer != "" && ll.closer != k {
					ll.closer = ll.closer + "|" + k
				} else {
					ll.closer = k
				}
			}
		}
		break
	}
	if ll.closerIf == nil || ll.closer == "" {
		shape.Status = Violated
		shape.Detail = "after consuming ',' the loop body never tests the current token for the list's closer and leaves: a trailing comma before the closer is parsed as the start of another element and rejected"
		after.Status, after.Detail = Undecided, "closer kind unknown (no closer test in the loop)"
		return shape, after, fmt.Sprintf("%s: no closer test", fname)
	}
	hasEOF := false
	for _, k := range ll.closers {
		if k == r.eof {
			hasEOF = true
		}
	}
	inCloserCond := func(p token.Pos) bool { return p >= ll.closerIf.Cond.Pos() && p < ll.closerIf.Cond.End() }

	// ---- shape of the body
	var fails []string
	npaths := 0
	commaCond := false
	res := r.pxWalk(loop.Body, pxNewState(), pxWalkOpts{pkg: ll.lp.pk, maxPaths: 20000}, func(st *pxState, oc outcome) {
		if oc.kind == cPanic {
			return
		}
		npaths++
		path := strings.Join(st.decisions, ", ")
		i := 0
		evs := st.evs
		// A: the comma
		commaPresent := true
		if i < len(evs) && evs[i].kind == pxEvTest && evs[i].tkind == r.comma && !inCloserCond(evs[i].pos) {
			commaCond = true
			commaPresent = evs[i].teq == evs[i].taken
			i++
		}
		if commaPresent {
			isCommaConsume := i < len(evs) && evs[i].kind == pxEvCall && (r.isNext(evs[i].fn) || (evs[i].expect && pxHas(evs[i].argKinds, r.comma)))
			if !isCommaConsume {
				what := "nothing"
				if i < len(evs) {
					what = pxEvString(r, evs[i])
				}
				fails = append(fails, fmt.Sprintf("path [%s]: the first action of an iteration is not next() / expect(',') consuming the ',' but %s", path, what))
				return
			}
			if !evs[i].ok {
				if oc.kind != cReturn {
					fails = append(fails, fmt.Sprintf("path [%s]: the result of next() consuming the ',' is not tested", path))
				}
				return // error exit
			}
			i++
		} else if !ll.condOther {
			fails = append(fails, fmt.Sprintf("path [%s]: iteration entered without a ',' although the loop condition admits nothing else", path))
			return
		}
		// B: closer tests come next
		matched := false
		seenCloser := false
		for i < len(evs) {
			e := evs[i]
			if e.kind == pxEvTest && inCloserCond(e.pos) {
				seenCloser = true
				if e.teq == e.taken {
					matched = true
				}
				i++
				continue
			}
			if e.kind == pxEvTest {
				if seenCloser {
					break
				}
				i++ // unrelated kind test before the closer test: harmless unless something is consumed
				continue
			}
			if !seenCloser && (e.consumes || r.isNext(e.fn) || e.expect) {
				fails = append(fails, fmt.Sprintf("path [%s]: %s runs after the ',' before the closer was tested: a trailing comma is not accepted", path, pxEvString(r, e)))
				return
			}
			if seenCloser {
				break
			}
			i++
		}
		if !seenCloser {
			if oc.kind == cReturn {
				return
			}
			fails = append(fails, fmt.Sprintf("path [%s]: reaches the end of the iteration without the closer test", path))
			return
		}
		if matched {
			for ; i < len(evs); i++ {
				e := evs[i]
				if e.kind == pxEvCall && (e.consumes || r.isNext(e.fn) || e.expect) {
					fails = append(fails, fmt.Sprintf("path [%s]: having seen the closer %s the loop calls %s before leaving: the closer is consumed inside the loop (and expected again after it)", path, ll.closer, pxEvString(r, e)))
					return
				}
			}
			if oc.kind != cBreak && oc.kind != cReturn {
				fails = append(fails, fmt.Sprintf("path [%s]: having seen the closer the iteration does not leave the loop", path))
			}
			return
		}
		// C: an element
		if oc.kind == cReturn {
			return
		}
		if !st.consumed || pxCountOK(evs[i:]) == 0 {
			fails = append(fails, fmt.Sprintf("path [%s]: no element is parsed after the ',' (no successful consuming call): %s", path, pxConsumingCalls(st)))
		}
		if oc.kind == cBreak {
			fails = append(fails, fmt.Sprintf("path [%s]: leaves the loop after an element without the closer having been seen", path))
		}
	})
	switch {
	case res.overflow || len(res.unsupported) > 0:
		shape.Status, shape.Detail = Undecided, "path enumeration overflow or unsupported control flow"
	case len(fails) > 0:
		shape.Status, shape.Detail = Violated, strings.Join(pxDedupe(fails), " || ")
	default:
		shape.Status = Discharged
		shape.Detail = fmt.Sprintf("%d path(s): ',' consumed (result tested)%s; closer %s%s tested next, taken branch leaves without consuming; otherwise an element is parsed",
			npaths, map[bool]string{true: " when present (separator optional by the loop condition)", false: ""}[commaCond], ll.closer, map[bool]string{true: " or EOF", false: ""}[hasEOF])
	}

	// ---- after the loop
	rest := r.stmtsAfter(ll.lp.fd, loop)
	var afails []string
	nafter := 0
	form := map[string]bool{}
	res2 := r.pxWalk(&ast.BlockStmt{List: rest}, pxNewState(), pxWalkOpts{pkg: ll.lp.pk, maxPaths: 20000}, func(st *pxState, oc outcome) {
		if oc.kind == cPanic {
			return
		}
		path := strings.Join(st.decisions, ", ")
		evs := st.evs
		first := -1
		for i, e := range evs {
			if e.kind == pxEvCall && (e.consumes || r.isNext(e.fn) || e.expect) {
				first = i
				break
			}
		}
		if first < 0 {
			if oc.kind == cReturn && oc.ret != nil {
				return // error exit before anything is consumed (e.g. explicit "expected '}'" error)
			}
			afails = append(afails, fmt.Sprintf("path [%s]: the function ends without consuming the closer %s", path, ll.closer))
			return
		}
		nafter++
		e := evs[first]
		okCloser := false
		switch {
		case e.expect && pxHas(e.argKinds, ll.closer):
			okCloser = true
			form[e.fn.Name()+"("+ll.closer+")"] = true
		case r.isNext(e.fn):
			// the closest preceding kind test must establish the closer
			for j := first - 1; j >= 0; j-- {
				if evs[j].kind == pxEvTest {
					if evs[j].tkind == ll.closer && evs[j].teq == evs[j].taken {
						okCloser = true
						form["test "+ll.closer+" + next()"] = true
					}
					break
				}
			}
		}
		if !okCloser {
			afails = append(afails, fmt.Sprintf("path [%s]: the first token consumed after the loop is taken by %s, not by a consumption of the closer %s", path, pxEvString(r, e), ll.closer))
			return
		}
		// exactly once
		for j := first + 1; j < len(evs); j++ {
			f := evs[j]
			if f.kind != pxEvCall {
				continue
			}
			if f.expect && pxHas(f.argKinds, ll.closer) {
				afails = append(afails, fmt.Sprintf("path [%s]: the closer %s is expected a second time by %s", path, ll.closer, pxEvString(r, f)))
			}
			if f.consumes || r.isNext(f.fn) || f.expect {
				break
			}
		}
	})
	var forms []string
	for f := range form {
		forms = append(forms, f)
	}
	sort.Strings(forms)
	switch {
	case res2.overflow || len(res2.unsupported) > 0:
		after.Status, after.Detail = Undecided, "path enumeration overflow or unsupported control flow"
	case len(afails) > 0:
		after.Status, after.Detail = Violated, strings.Join(pxDedupe(afails), " || ")
	case nafter == 0:
		after.Status, after.Detail = Undecided, "no path after the loop consumes anything"
	default:
		after.Status, after.Detail = Discharged, fmt.Sprintf("%d path(s) after the loop: closer consumed by %s, not expected again", nafter, strings.Join(forms, " / "))
	}
	row = fmt.Sprintf("%s: closer %s, EOF-test %v, ','-optional %v, after-loop %s", fname, ll.closer, hasEOF, commaCond, strings.Join(forms, "/"))
	return shape, after, row
}

func pxIsDisjunction(e ast.Expr) bool {
	e = ast.Unparen(e)
	if b, ok := e.(*ast.BinaryExpr); ok {
		switch b.Op {
		case token.LOR:
			return pxIsDisjunction(b.X) && pxIsDisjunction(b.Y)
		case token.LAND:
			return false
		}
	}
	if u, ok := e.(*ast.UnaryExpr); ok && u.Op == token.NOT {
		return false
	}
	return true
}

func pxHas(l []string, s string) bool {
	for _, x := range l {
		if x == s {
			return true
		}
	}
	return false
}

func pxCountOK(evs []pxEv) int {
	n := 0
	for _, e := range evs {
		if e.kind == pxEvCall && e.consumes && e.ok {
			n++
		}
	}
	return n
}

func pxEvString(r *pxRoles, e pxEv) string {
	if e.kind == pxEvTest {
		op := "=="
		if !e.teq {
			op = "!="
		}
		return fmt.Sprintf("test(kind %s %s → %v)", op, e.tkind, e.taken)
	}
	s := e.fn.Name() + "("
	s += strings.Join(e.argKinds, ",") + ")"
	return s + " at " + r.c.Pos(e.pos)
}

// stmtsAfter returns the statements executed after the loop: its following
// siblings, then — while the enclosing block is the body of an `if` — the
// statements following that `if`.
func (r *pxRoles) stmtsAfter(fd *ast.FuncDecl, loop ast.Stmt) []ast.Stmt {
	parents := pxParents(fd.Body)
	var rest []ast.Stmt
	var cur ast.Node = loop
	if l, ok := parents[loop].(*ast.LabeledStmt); ok {
		cur = l
	}
	for {
		var list []ast.Stmt
		p := parents[cur]
		switch x := p.(type) {
		case *ast.BlockStmt:
			list = x.List
		case *ast.CaseClause:
			list = x.Body
		default:
			return rest
		}
		found := false
		for _, s := range list {
			if found {
				rest = append(rest, s)
			}
			if ast.Node(s) == cur {
				found = true
			}
		}
		// where does control go after this statement list?
		switch x := p.(type) {
		case *ast.CaseClause:
			// end of a clause: after the enclosing switch
			body, _ := parents[x].(*ast.BlockStmt)
			switch sw := parents[body].(type) {
			case *ast.SwitchStmt:
				cur = sw
			case *ast.TypeSwitchStmt:
				cur = sw
			default:
				return rest
			}
		case *ast.BlockStmt:
			up, ok := parents[x].(*ast.IfStmt)
			if !ok {
				return rest // function body, loop body, bare block …
			}
			cur = up
			// an else-if chain hangs below its first `if`
			for {
				outer, ok := parents[cur].(*ast.IfStmt)
				if !ok || outer.Else != ast.Stmt(cur.(*ast.IfStmt)) {
					break
				}
				cur = outer
			}
		}
		if l, ok := parents[cur].(*ast.LabeledStmt); ok {
			cur = l
		}
	}
}
