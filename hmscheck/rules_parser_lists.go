package main

import (
	"fmt"
	"go/ast"
	"go/token"
	"sort"
	"strings"
)

func init() {
	register(&Rule{ID: "R-list-siblings", Floor: 14, Run: ruleListSiblings,
		Doc: "every comma-separated list loop of the parser (a `for` that tests the current token for ',' in its condition or at the top level of its body) has the sibling shape on every path through an iteration, wherever the tests are written (loop condition, `if`, switch clause, predicate helper): after a ',' was consumed nothing is consumed before the path has decided whether the current token is the list's closer (optionally: or EOF); if it is, the path leaves the loop without consuming anything; otherwise one element is parsed; and after the loop the closer is consumed exactly once (expect-family call with the closer kind, or next() under a test that established the closer). Any other shape rejects or mis-parses a trailing comma — C07: a trailing comma in a list never changes the tree — or consumes the closer twice, which turns `[a, b,]` into a syntax error."})
}

type pxListLoop struct {
	lp        pxLoop
	parents   map[ast.Node]ast.Node
	closers   []string // kinds whose presence ends the list (including EOF when tested)
	closer    string   // the non-EOF closer
	condOther bool     // loop condition has a disjunct besides `== ','`
}

func ruleListSiblings(c *Ctx) []Obligation {
	r := pxDiscover(c)
	var obs []Obligation
	var table []string
	r.sum.stable(func() {
		obs, table = nil, nil
		for _, lp := range r.cursorLoops() {
			if lp.pk != r.pkg {
				continue
			}
			info := r.info
			// a list loop tests the current token for ',' at its own level: in its condition
			// (`for cur == ','`) or in its body (`for { if cur != ',' { break } … }`, a loop on
			// the closer with a first-iteration flag, …); nested loops and closures are not this loop
			condComma, condOther, bodyComma := false, false, false
			if lp.loop.Cond != nil {
				pxAtoms(lp.loop.Cond, func(a ast.Expr) {
					if k, eq, ok := r.kindAtom(info, a); ok && k == r.comma && eq {
						condComma = true
					} else {
						condOther = true
					}
				})
			}
			ast.Inspect(lp.loop.Body, func(n ast.Node) bool {
				switch n.(type) {
				case *ast.ForStmt, *ast.RangeStmt, *ast.FuncLit:
					return false
				}
				if e, ok := n.(ast.Expr); ok {
					if k, _, ok := r.kindAtom(info, e); ok && k == r.comma {
						bodyComma = true
					}
				}
				return true
			})
			if !condComma && !bodyComma {
				continue
			}
			ll := &pxListLoop{lp: lp, condOther: condOther}
			key := strings.Replace(lp.key, "|loop#", "|list loop#", 1)
			if i := strings.Index(key, " for "); i > 0 {
				key = key[:i]
			} else {
				key = strings.TrimSuffix(key, " for") // `for {` without a condition
			}
			o1, o2, row := r.checkListLoop(ll, key)
			obs = append(obs, o1, o2)
			table = append(table, row)
		}
	})
	sort.Strings(table)
	obs = append(obs, Obligation{Key: "summary|list loops", Pos: "-", Status: Info, Detail: strings.Join(table, " ; ")})
	return obs
}

// pxAtoms calls f on the atoms of a short-circuit expression.
func pxAtoms(e ast.Expr, f func(ast.Expr)) {
	e = ast.Unparen(e)
	switch x := e.(type) {
	case *ast.BinaryExpr:
		if x.Op == token.LAND || x.Op == token.LOR {
			pxAtoms(x.X, f)
			pxAtoms(x.Y, f)
			return
		}
	case *ast.UnaryExpr:
		if x.Op == token.NOT {
			pxAtoms(x.X, f)
			return
		}
	}
	f(e)
}

func pxParents(root ast.Node) map[ast.Node]ast.Node {
	parent := map[ast.Node]ast.Node{}
	var stack []ast.Node
	ast.Inspect(root, func(n ast.Node) bool {
		if n == nil {
			stack = stack[:len(stack)-1]
			return true
		}
		if len(stack) > 0 {
			parent[n] = stack[len(stack)-1]
		}
		stack = append(stack, n)
		return true
	})
	return parent
}

func (r *pxRoles) checkListLoop(ll *pxListLoop, key string) (shape, after Obligation, row string) {
	c := r.c
	info := r.info
	loop := ll.lp.loop
	pos := c.Pos(loop.Pos())
	shape = Obligation{Key: key + "|trailing comma: ',' then closer test then element", Pos: pos, Nontrivial: true}
	after = Obligation{Key: key + "|closer consumed exactly once, after the loop", Pos: pos, Nontrivial: true}
	fname := FuncName(ll.lp.fd)

	// One iteration = the loop condition taken true, then the body. Every path through it is
	// read as a trace of cursor tests and token-consuming calls; what the path knows about the
	// current token (is K / is not K) is reset whenever a token is consumed. The trailing-comma
	// shape is a property of these traces, not of where the tests are written:
	//   closers     kinds K != ',' for which some path establishes "current is K" and then leaves
	//               the loop (break, or the loop condition false) without consuming anything;
	//   (1) after a ',' has been consumed nothing else is consumed until the path has decided
	//       whether the current token is the closer;
	//   (2) once the current token is known to be a closer nothing is consumed and the path
	//       leaves the loop;
	//   (3) otherwise an element is parsed before the next iteration, and the loop is not left
	//       right after an element.
	paths, res := r.listIterPaths(ll)
	closerSet := map[string]bool{}
	for _, p := range paths {
		if p.infeasible || !(p.condFalse || p.kind == cBreak) {
			continue
		}
		for _, k := range p.endIs {
			if k != r.comma {
				closerSet[k] = true
			}
		}
	}
	nonEOF := 0
	for k := range closerSet {
		if k != r.eof {
			nonEOF++
		}
	}
	if nonEOF == 0 {
		// no path sees a closer and leaves untouched: take the kinds after whose recognition a path
		// breaks out at all (the closer is then consumed inside the loop, which (2) reports)
		for _, p := range paths {
			if !p.infeasible && p.kind == cBreak {
				for _, k := range p.lastIs {
					if k != r.comma {
						closerSet[k] = true
					}
				}
			}
		}
	}
	for k := range closerSet {
		ll.closers = append(ll.closers, k)
	}
	sort.Strings(ll.closers)
	for _, k := range ll.closers {
		if k != r.eof {
			if ll.closer != "" {
				ll.closer = ll.closer + "|" + k
			} else {
				ll.closer = k
			}
		}
	}
	if ll.closer == "" {
		shape.Status = Violated
		shape.Detail = "after consuming ',' the loop body never tests the current token for the list's closer and leaves: a trailing comma before the closer is parsed as the start of another element and rejected"
		after.Status, after.Detail = Undecided, "closer kind unknown (no closer test in the loop)"
		return shape, after, fmt.Sprintf("%s: no closer test", fname)
	}
	hasEOF := closerSet[r.eof]
	// the loop condition leaves the loop by itself when the current token is K
	condLeavesOn := map[string]bool{}
	if loop.Cond != nil {
		var conj func(e ast.Expr)
		conj = func(e ast.Expr) {
			e = ast.Unparen(e)
			if b, ok := e.(*ast.BinaryExpr); ok && b.Op == token.LAND {
				conj(b.X)
				conj(b.Y)
				return
			}
			if k, eq, ok := r.kindAtom(info, e); ok && !eq {
				condLeavesOn[k] = true
			}
		}
		conj(loop.Cond)
	}

	// ---- shape of the iterations
	var fails []string
	npaths := 0
	commaCond := false
	consuming := func(e pxEv) bool { return e.kind == pxEvCall && (e.consumes || r.isNext(e.fn) || e.expect) }
	for _, p := range paths {
		if p.infeasible || p.condFalse || p.kind == cPanic {
			continue
		}
		npaths++
		path := p.decisions
		f := pxNewCurFacts()
		reset := func() { f = pxNewCurFacts() }
		closerTrue := func() bool { return f.allIn(closerSet) }
		closerFalse := func() bool {
			if len(f.in) > 0 {
				return f.noneIn(closerSet)
			}
			for _, k := range ll.closers {
				if k != r.eof && !f.not[k] {
					return false
				}
			}
			return true
		}
		afterSep, sepSeen := false, false
		elems := 0
		bad := false
		for _, e := range p.evs {
			if bad {
				break
			}
			if e.kind == pxEvTest {
				f.learn(e)
				continue
			}
			if !consuming(e) {
				continue
			}
			if closerTrue() {
				fails = append(fails, fmt.Sprintf("path [%s]: having seen the closer %s the loop calls %s before leaving: the closer is consumed inside the loop (and expected again after it)", path, ll.closer, pxEvString(r, e)))
				bad = true
				break
			}
			if afterSep && !closerFalse() {
				fails = append(fails, fmt.Sprintf("path [%s]: %s runs after the ',' before the closer was tested: a trailing comma is not accepted", path, pxEvString(r, e)))
				bad = true
				break
			}
			isSep := (r.isNext(e.fn) && f.is() == r.comma) || (e.expect && pxHas(e.argKinds, r.comma))
			if isSep {
				if e.hasErr && !e.ok {
					if p.kind != cReturn {
						fails = append(fails, fmt.Sprintf("path [%s]: the result of next() consuming the ',' is not tested", path))
					}
					bad = true // error exit
					break
				}
				afterSep, sepSeen = true, true
				reset()
				continue
			}
			afterSep = false
			if e.consumes && e.ok {
				elems++
			}
			reset()
		}
		if bad || p.kind == cReturn {
			continue
		}
		leaves := p.kind == cBreak
		switch {
		case closerTrue():
			if !leaves && !f.allIn(condLeavesOn) {
				fails = append(fails, fmt.Sprintf("path [%s]: having seen the closer the iteration does not leave the loop", path))
			}
		case afterSep && !closerFalse():
			fails = append(fails, fmt.Sprintf("path [%s]: reaches the end of the iteration without the closer test", path))
		case afterSep:
			fails = append(fails, fmt.Sprintf("path [%s]: no element is parsed after the ',' (no successful consuming call): %s", path, pxConsumingCalls(p.st)))
			if leaves {
				fails = append(fails, fmt.Sprintf("path [%s]: leaves the loop after the ',' without the closer having been seen", path))
			}
		case leaves && elems > 0:
			fails = append(fails, fmt.Sprintf("path [%s]: leaves the loop after an element without the closer having been seen", path))
		case !leaves && elems == 0:
			fails = append(fails, fmt.Sprintf("path [%s]: no element is parsed in the iteration (no successful consuming call): %s", path, pxConsumingCalls(p.st)))
		}
		if !sepSeen && elems > 0 {
			commaCond = true
		}
	}
	switch {
	case res.overflow || len(res.unsupported) > 0:
		shape.Status, shape.Detail = Undecided, "path enumeration overflow or unsupported control flow"
	case len(fails) > 0:
		shape.Status, shape.Detail = Violated, strings.Join(pxDedupe(fails), " || ")
	default:
		shape.Status = Discharged
		shape.Detail = fmt.Sprintf("%d path(s): ',' consumed (result tested)%s; closer %s%s tested next, taken branch leaves without consuming; otherwise an element is parsed",
			npaths, map[bool]string{true: " when present (separator optional on some path)", false: ""}[commaCond], ll.closer, map[bool]string{true: " or EOF", false: ""}[hasEOF])
	}

	// ---- after the loop
	rest := r.stmtsAfter(ll.lp.fd, loop)
	var afails []string
	nafter := 0
	form := map[string]bool{}
	res2 := r.pxWalk(&ast.BlockStmt{List: rest}, pxNewState(), pxWalkOpts{pkg: ll.lp.pk, maxPaths: 20000}, func(st *pxState, oc outcome) {
		if oc.kind == cPanic {
			return
		}
		path := strings.Join(st.decisions, ", ")
		evs := st.evs
		first := -1
		for i, e := range evs {
			if e.kind == pxEvCall && (e.consumes || r.isNext(e.fn) || e.expect) {
				first = i
				break
			}
		}
		if first < 0 {
			if oc.kind == cReturn && oc.ret != nil {
				return // error exit before anything is consumed (e.g. explicit "expected '}'" error)
			}
			afails = append(afails, fmt.Sprintf("path [%s]: the function ends without consuming the closer %s", path, ll.closer))
			return
		}
		nafter++
		e := evs[first]
		okCloser := false
		switch {
		case e.expect && pxHas(e.argKinds, ll.closer):
			okCloser = true
			form[e.fn.Name()+"("+ll.closer+")"] = true
		case r.isNext(e.fn):
			// the closest preceding kind test must establish the closer
			for j := first - 1; j >= 0; j-- {
				if evs[j].kind == pxEvTest {
					if evs[j].tkind == ll.closer && evs[j].teq == evs[j].taken {
						okCloser = true
						form["test "+ll.closer+" + next()"] = true
					}
					break
				}
			}
		}
		if !okCloser {
			afails = append(afails, fmt.Sprintf("path [%s]: the first token consumed after the loop is taken by %s, not by a consumption of the closer %s", path, pxEvString(r, e), ll.closer))
			return
		}
		// exactly once
		for j := first + 1; j < len(evs); j++ {
			f := evs[j]
			if f.kind != pxEvCall {
				continue
			}
			if f.expect && pxHas(f.argKinds, ll.closer) {
				afails = append(afails, fmt.Sprintf("path [%s]: the closer %s is expected a second time by %s", path, ll.closer, pxEvString(r, f)))
			}
			if f.consumes || r.isNext(f.fn) || f.expect {
				break
			}
		}
	})
	var forms []string
	for f := range form {
		forms = append(forms, f)
	}
	sort.Strings(forms)
	switch {
	case res2.overflow || len(res2.unsupported) > 0:
		after.Status, after.Detail = Undecided, "path enumeration overflow or unsupported control flow"
	case len(afails) > 0:
		after.Status, after.Detail = Violated, strings.Join(pxDedupe(afails), " || ")
	case nafter == 0:
		after.Status, after.Detail = Undecided, "no path after the loop consumes anything"
	default:
		after.Status, after.Detail = Discharged, fmt.Sprintf("%d path(s) after the loop: closer consumed by %s, not expected again", nafter, strings.Join(forms, " / "))
	}
	row = fmt.Sprintf("%s: closer %s, EOF-test %v, ','-optional %v, after-loop %s", fname, ll.closer, hasEOF, commaCond, strings.Join(forms, "/"))
	return shape, after, row
}

func pxIsDisjunction(e ast.Expr) bool {
	e = ast.Unparen(e)
	if b, ok := e.(*ast.BinaryExpr); ok {
		switch b.Op {
		case token.LOR:
			return pxIsDisjunction(b.X) && pxIsDisjunction(b.Y)
		case token.LAND:
			return false
		}
	}
	if u, ok := e.(*ast.UnaryExpr); ok && u.Op == token.NOT {
		return false
	}
	return true
}

func pxHas(l []string, s string) bool {
	for _, x := range l {
		if x == s {
			return true
		}
	}
	return false
}

func pxCountOK(evs []pxEv) int {
	n := 0
	for _, e := range evs {
		if e.kind == pxEvCall && e.consumes && e.ok {
			n++
		}
	}
	return n
}

func pxEvString(r *pxRoles, e pxEv) string {
	if e.kind == pxEvTest {
		op := "=="
		if !e.teq {
			op = "!="
		}
		return fmt.Sprintf("test(kind %s %s → %v)", op, e.tkind, e.taken)
	}
	s := e.fn.Name() + "("
	s += strings.Join(e.argKinds, ",") + ")"
	return s + " at " + r.c.Pos(e.pos)
}

// stmtsAfter returns the statements executed after the loop: its following
// siblings, then — while the enclosing block is the body of an `if` — the
// statements following that `if`.
func (r *pxRoles) stmtsAfter(fd *ast.FuncDecl, loop ast.Stmt) []ast.Stmt {
	parents := pxParents(fd.Body)
	var rest []ast.Stmt
	var cur ast.Node = loop
	if l, ok := parents[loop].(*ast.LabeledStmt); ok {
		cur = l
	}
	for {
		var list []ast.Stmt
		p := parents[cur]
		switch x := p.(type) {
		case *ast.BlockStmt:
			list = x.List
		case *ast.CaseClause:
			list = x.Body
		default:
			return rest
		}
		found := false
		for _, s := range list {
			if found {
				rest = append(rest, s)
			}
			if ast.Node(s) == cur {
				found = true
			}
		}
		// where does control go after this statement list?
		switch x := p.(type) {
		case *ast.CaseClause:
			// end of a clause: after the enclosing switch
			body, _ := parents[x].(*ast.BlockStmt)
			switch sw := parents[body].(type) {
			case *ast.SwitchStmt:
				cur = sw
			case *ast.TypeSwitchStmt:
				cur = sw
			default:
				return rest
			}
		case *ast.BlockStmt:
			up, ok := parents[x].(*ast.IfStmt)
			if !ok {
				return rest // function body, loop body, bare block …
			}
			cur = up
			// an else-if chain hangs below its first `if`
			for {
				outer, ok := parents[cur].(*ast.IfStmt)
				if !ok || outer.Else != ast.Stmt(cur.(*ast.IfStmt)) {
					break
				}
				cur = outer
			}
		}
		if l, ok := parents[cur].(*ast.LabeledStmt); ok {
			cur = l
		}
	}
}

// pxIterPath: one path through an iteration of a list loop (loop condition taken
// true, then the body), or the path on which the loop condition is false.
type pxIterPath struct {
	evs        []pxEv
	kind       ctrlKind // cNormal / cContinue: back edge; cBreak; cReturn; cPanic
	condFalse  bool
	infeasible bool   // the cursor tests on the path contradict each other
	endIs      []string // the kinds the current token is known to be one of at the end of the path (nil unknown), nothing consumed since
	lastIs     []string // the last membership a test on the path established, whatever was consumed afterwards
	decisions  string
	st         *pxState
}

func (r *pxRoles) listIterPaths(ll *pxListLoop) ([]pxIterPath, pxWalkResult) {
	loop := ll.lp.loop
	sentinel := &ast.ReturnStmt{}
	var blk *ast.BlockStmt
	if loop.Cond != nil {
		blk = &ast.BlockStmt{List: []ast.Stmt{&ast.IfStmt{If: loop.Pos(), Cond: loop.Cond, Body: loop.Body, Else: &ast.BlockStmt{List: []ast.Stmt{sentinel}}}}}
	} else {
		blk = loop.Body
	}
	var out []pxIterPath
	res := r.pxWalk(blk, pxNewState(), pxWalkOpts{pkg: ll.lp.pk, maxPaths: 20000}, func(st *pxState, oc outcome) {
		p := pxIterPath{evs: st.evs, kind: oc.kind, decisions: strings.Join(st.decisions, ", "), st: st}
		if oc.ret == sentinel {
			p.condFalse, p.kind = true, cNormal
		}
		// knowledge about the current token, reset by every consuming call
		f := pxNewCurFacts()
		for _, e := range st.evs {
			if e.kind == pxEvTest {
				if !f.learn(e) {
					p.infeasible = true
				}
				if e.teq == e.taken {
					p.lastIs = append([]string(nil), f.in...)
				}
				continue
			}
			if e.kind == pxEvCall && (e.consumes || r.isNext(e.fn) || e.expect) {
				f = pxNewCurFacts()
			}
		}
		p.endIs = append([]string(nil), f.in...)
		out = append(out, p)
	})
	return out, res
}

// pxCurFacts: what a path knows about the kind of the current token since the
// last consumption: it is one of `in` (nil: unknown) and none of `not`.
type pxCurFacts struct {
	in  []string
	not map[string]bool
}

func pxNewCurFacts() *pxCurFacts { return &pxCurFacts{not: map[string]bool{}} }

func (f *pxCurFacts) is() string {
	if len(f.in) == 1 {
		return f.in[0]
	}
	return ""
}

// learn adds the outcome of a cursor test; false when it contradicts what is known.
func (f *pxCurFacts) learn(e pxEv) bool {
	set := e.tset
	if len(set) == 0 {
		set = []string{e.tkind}
	}
	if e.teq == e.taken {
		// the current token is one of set
		var keep []string
		for _, k := range set {
			if f.not[k] {
				continue
			}
			if len(f.in) > 0 && !pxHas(f.in, k) {
				continue
			}
			keep = append(keep, k)
		}
		if len(keep) == 0 {
			f.in = append([]string(nil), set...)
			return false
		}
		f.in = keep
		return true
	}
	// the current token is none of set
	ok := true
	for _, k := range set {
		f.not[k] = true
	}
	if len(f.in) > 0 {
		var keep []string
		for _, k := range f.in {
			if !f.not[k] {
				keep = append(keep, k)
			}
		}
		if len(keep) == 0 {
			ok = false
		} else {
			f.in = keep
		}
	}
	return ok
}

func (f *pxCurFacts) allIn(set map[string]bool) bool {
	if len(f.in) == 0 {
		return false
	}
	for _, k := range f.in {
		if !set[k] {
			return false
		}
	}
	return true
}

func (f *pxCurFacts) noneIn(set map[string]bool) bool {
	for _, k := range f.in {
		if set[k] {
			return false
		}
	}
	return true
}
