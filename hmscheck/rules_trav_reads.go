package main

// trav: E6 — field coverage. For a piece of code (a switch clause, a method
// body) collect, per AST node struct S, the fields selected on values of type
// S, the whole-value escapes of S (copied into a result, appended, returned,
// handed to a function without a body in the module such as fmt.Sprintf), the
// composite literals of S that are built, and follow calls that receive a node
// struct by value into the callee (coverage is the union over the callee).

import (
	"go/ast"
	"go/token"
	"go/types"

	"golang.org/x/tools/go/packages"
)

type travLit struct {
	Pos        token.Pos
	Keyed      map[string]bool
	Positional bool
}

type travReads struct {
	fields  map[*travStruct]map[string]bool
	writes  map[*travStruct]map[string]bool
	escapes map[*travStruct]string
	lits    map[*travStruct][]travLit
	follows map[*types.Func]map[*travStruct]bool
	fmtEsc  map[*travStruct]token.Pos // handed to a body-less function (fmt...) as a whole
}

func newTravReads() *travReads {
	return &travReads{fields: map[*travStruct]map[string]bool{}, writes: map[*travStruct]map[string]bool{},
		escapes: map[*travStruct]string{}, lits: map[*travStruct][]travLit{}, follows: map[*types.Func]map[*travStruct]bool{},
		fmtEsc: map[*travStruct]token.Pos{}}
}

func (r *travReads) read(s *travStruct, f string) {
	if r.fields[s] == nil {
		r.fields[s] = map[string]bool{}
	}
	r.fields[s][f] = true
}
func (r *travReads) write(s *travStruct, f string) {
	if r.writes[s] == nil {
		r.writes[s] = map[string]bool{}
	}
	r.writes[s][f] = true
}
func (r *travReads) escape(s *travStruct, how string) {
	if _, ok := r.escapes[s]; !ok {
		r.escapes[s] = how
	}
}
func (r *travReads) merge(o *travReads) {
	for s, fs := range o.fields {
		for f := range fs {
			r.read(s, f)
		}
	}
	for s, fs := range o.writes {
		for f := range fs {
			r.write(s, f)
		}
	}
	for s, h := range o.escapes {
		r.escape(s, h)
	}
	for s, l := range o.lits {
		r.lits[s] = append(r.lits[s], l...)
	}
	for f, ss := range o.follows {
		for s := range ss {
			r.follow(f, s)
		}
	}
	for s, p := range o.fmtEsc {
		if _, ok := r.fmtEsc[s]; !ok {
			r.fmtEsc[s] = p
		}
	}
}
func (r *travReads) follow(f *types.Func, s *travStruct) {
	if r.follows[f] == nil {
		r.follows[f] = map[*travStruct]bool{}
	}
	r.follows[f][s] = true
}

type travCollector struct {
	m      *travModel
	memo   map[*types.Func]*travReads
	active map[*types.Func]bool
}

func newTravCollector(m *travModel) *travCollector {
	return &travCollector{m: m, memo: map[*types.Func]*travReads{}, active: map[*types.Func]bool{}}
}

// travScope: what to walk. subject/kind: inside a dispatch clause the
// interface-typed subject variable stands for a value of struct kind.
type travScope struct {
	pkg     *packages.Package
	root    ast.Node
	skip    map[ast.Node]bool
	subject types.Object
	kind    *travStruct
}

func (tc *travCollector) summary(fn *types.Func) *travReads {
	if r := tc.memo[fn]; r != nil {
		return r
	}
	d := tc.m.decls[fn]
	if d == nil || tc.active[fn] {
		return newTravReads()
	}
	tc.active[fn] = true
	r := tc.collect(travScope{pkg: d.Pkg, root: d.Fd.Body})
	delete(tc.active, fn)
	tc.memo[fn] = r
	return r
}

func (tc *travCollector) collect(sc travScope) *travReads {
	out := newTravReads()
	info := sc.pkg.TypesInfo
	m := tc.m
	var stack []ast.Node

	// fresh locals: initialised from a literal or a call result — never the input node
	fresh := map[types.Object]bool{}
	isFreshExpr := func(e ast.Expr) bool {
		e = ast.Unparen(e)
		if u, ok := e.(*ast.UnaryExpr); ok && u.Op == token.AND {
			e = ast.Unparen(u.X)
		}
		switch x := e.(type) {
		case *ast.CompositeLit:
			return true
		case *ast.CallExpr:
			if tv, ok := info.Types[x.Fun]; ok && tv.IsType() {
				return false
			}
			return true
		}
		return false
	}
	ast.Inspect(sc.root, func(n ast.Node) bool {
		switch x := n.(type) {
		case *ast.AssignStmt:
			if x.Tok == token.DEFINE && len(x.Rhs) == 1 && len(x.Lhs) > 1 && isFreshExpr(x.Rhs[0]) {
				// results of a multi-value call
				for _, l := range x.Lhs {
					if id, ok := l.(*ast.Ident); ok {
						if o := info.Defs[id]; o != nil {
							fresh[o] = true
						}
					}
				}
			}
			if x.Tok == token.DEFINE && len(x.Lhs) == len(x.Rhs) {
				for i, l := range x.Lhs {
					if id, ok := l.(*ast.Ident); ok && isFreshExpr(x.Rhs[i]) {
						if o := info.Defs[id]; o != nil {
							fresh[o] = true
						}
					}
				}
			}
		case *ast.ValueSpec:
			if len(x.Names) == len(x.Values) {
				for i, id := range x.Names {
					if isFreshExpr(x.Values[i]) {
						if o := info.Defs[id]; o != nil {
							fresh[o] = true
						}
					}
				}
			}
		}
		return true
	})
	rootIdent := func(e ast.Expr) types.Object {
		for {
			switch x := ast.Unparen(e).(type) {
			case *ast.Ident:
				return info.Uses[x]
			case *ast.SelectorExpr:
				e = x.X
			case *ast.IndexExpr:
				e = x.X
			case *ast.StarExpr:
				e = x.X
			case *ast.SliceExpr:
				e = x.X
			default:
				return nil
			}
		}
	}

	// carriers of an input-derived expression (never a fresh literal / call result)
	var carriers func(e ast.Expr) []*travStruct
	carriers = func(e ast.Expr) []*travStruct {
		switch x := e.(type) {
		case *ast.ParenExpr:
			return carriers(x.X)
		case *ast.UnaryExpr:
			if x.Op == token.AND {
				if _, lit := ast.Unparen(x.X).(*ast.CompositeLit); lit {
					return nil
				}
				return carriers(x.X)
			}
			return nil
		case *ast.Ident:
			if sc.subject != nil && info.Uses[x] == sc.subject {
				return []*travStruct{sc.kind}
			}
			if _, isVar := info.Uses[x].(*types.Var); !isVar || fresh[info.Uses[x]] {
				return nil
			}
			return m.carrierStructs(info.TypeOf(x))
		case *ast.SelectorExpr, *ast.IndexExpr, *ast.StarExpr, *ast.TypeAssertExpr, *ast.SliceExpr:
			if tv, ok := info.Types[e]; ok && tv.IsType() {
				return nil
			}
			if o := rootIdent(e); o != nil && fresh[o] {
				return nil
			}
			return m.carrierStructs(info.TypeOf(e))
		}
		return nil
	}
	escapeAll := func(e ast.Expr, how string) {
		for _, s := range carriers(e) {
			out.escape(s, how)
		}
	}

	// inPanic: the call is (part of) the argument of a panic(...): the node is only described in a
	// crash message there, which is not a use of its parts by this code
	inPanic := func(call *ast.CallExpr) bool {
		isPanic := func(c *ast.CallExpr) bool {
			if id, ok := ast.Unparen(c.Fun).(*ast.Ident); ok {
				if b, ok := info.Uses[id].(*types.Builtin); ok && b.Name() == "panic" {
					return true
				}
			}
			return false
		}
		if isPanic(call) {
			return true
		}
		for i := len(stack) - 1; i >= 0; i-- {
			if c, ok := stack[i].(*ast.CallExpr); ok && c != call && isPanic(c) {
				return true
			}
		}
		return false
	}
	handleCall := func(call *ast.CallExpr) {
		// conversions are transparent
		if tv, ok := info.Types[call.Fun]; ok && tv.IsType() {
			return
		}
		if inPanic(call) {
			if callee := CalleeOf(info, call); callee == nil || m.decls[callee] == nil {
				return
			}
		}
		fun := ast.Unparen(call.Fun)
		if id, ok := fun.(*ast.Ident); ok {
			if b, ok := info.Uses[id].(*types.Builtin); ok {
				switch b.Name() {
				case "len", "cap":
				case "append":
					for _, a := range call.Args[1:] {
						escapeAll(a, "appended to "+exprStr(call.Args[0])+" at "+m.c.Pos(call.Pos()))
					}
				default:
					for _, a := range call.Args {
						escapeAll(a, "passed to builtin "+b.Name()+" at "+m.c.Pos(call.Pos()))
					}
				}
				return
			}
		}
		callee := CalleeOf(info, call)
		var recvExpr ast.Expr
		if se, ok := fun.(*ast.SelectorExpr); ok {
			if sel := info.Selections[se]; sel != nil && sel.Kind() == types.MethodVal {
				recvExpr = se.X
				// interface method on the dispatch subject: resolve to the kind's method
				if id, ok := ast.Unparen(se.X).(*ast.Ident); ok && sc.subject != nil && info.Uses[id] == sc.subject {
					if obj, _, _ := types.LookupFieldOrMethod(sc.kind.T, true, sc.kind.T.Obj().Pkg(), se.Sel.Name); obj != nil {
						if f, ok := obj.(*types.Func); ok {
							callee = f
						}
					}
				}
			}
		}
		var carried []*travStruct
		subjectPassed := false
		exprs := call.Args
		if recvExpr != nil {
			exprs = append([]ast.Expr{recvExpr}, call.Args...)
		}
		for i, a := range exprs {
			if id, ok := ast.Unparen(a).(*ast.Ident); ok && sc.subject != nil && info.Uses[id] == sc.subject && !(recvExpr != nil && i == 0) {
				subjectPassed = true
				continue
			}
			carried = append(carried, carriers(a)...)
		}
		name := exprStr(call.Fun)
		if subjectPassed {
			out.escape(sc.kind, "the node itself is passed to "+name+" at "+m.c.Pos(call.Pos()))
		}
		if len(carried) == 0 {
			// a constructor: a module function that receives no node but returns one — the literals
			// it builds are built by this code (a composite literal moved into a helper)
			if callee != nil && m.decls[callee] != nil {
				if sg, ok := callee.Type().(*types.Signature); ok && sg.Results().Len() >= 1 && len(m.carrierStructs(sg.Results().At(0).Type())) > 0 {
					for s, ls := range tc.summary(callee).lits {
						out.lits[s] = append(out.lits[s], ls...)
					}
				}
			}
			return
		}
		if callee != nil && m.decls[callee] != nil {
			for _, s := range carried {
				out.follow(callee, s)
			}
			out.merge(tc.summary(callee))
			return
		}
		for _, s := range carried {
			out.escape(s, "passed to "+name+" at "+m.c.Pos(call.Pos()))
			if _, ok := out.fmtEsc[s]; !ok {
				out.fmtEsc[s] = call.Pos()
			}
		}
	}

	ast.Inspect(sc.root, func(n ast.Node) bool {
		if n == nil {
			stack = stack[:len(stack)-1]
			return true
		}
		if sc.skip[n] {
			return false
		}
		var parent ast.Node
		if len(stack) > 0 {
			parent = stack[len(stack)-1]
		}
		stack = append(stack, n)
		switch x := n.(type) {
		case *ast.FuncLit:
			// closures are part of the enclosing code
		case *ast.SelectorExpr:
			if sel := info.Selections[x]; sel != nil && sel.Kind() == types.FieldVal {
				if s := m.structs[travNamed(sel.Recv())]; s != nil {
					pureStore := false
					if as, ok := parent.(*ast.AssignStmt); ok && (as.Tok == token.ASSIGN || as.Tok == token.DEFINE) {
						for _, l := range as.Lhs {
							if l == ast.Expr(x) {
								pureStore = true
							}
						}
					}
					if o := rootIdent(x.X); o != nil && fresh[o] {
						// a field of a freshly built value: not the input node
						if pureStore {
							out.write(s, x.Sel.Name)
						}
					} else if pureStore {
						out.write(s, x.Sel.Name)
					} else {
						out.read(s, x.Sel.Name)
					}
				}
			}
		case *ast.CallExpr:
			handleCall(x)
		case *ast.CompositeLit:
			if s := m.structs[travNamed(info.TypeOf(x))]; s != nil {
				l := travLit{Pos: x.Pos(), Keyed: map[string]bool{}}
				for _, e := range x.Elts {
					if kv, ok := e.(*ast.KeyValueExpr); ok {
						if id, ok := kv.Key.(*ast.Ident); ok {
							l.Keyed[id.Name] = true
						}
					} else {
						l.Positional = true
					}
				}
				out.lits[s] = append(out.lits[s], l)
			}
			for _, e := range x.Elts {
				v := e
				if kv, ok := e.(*ast.KeyValueExpr); ok {
					v = kv.Value
				}
				escapeAll(v, "copied into a "+exprStr(x.Type)+" literal at "+m.c.Pos(x.Pos()))
			}
		case *ast.ReturnStmt:
			for _, e := range x.Results {
				escapeAll(e, "returned at "+m.c.Pos(x.Pos()))
			}
		case *ast.AssignStmt:
			if len(x.Lhs) == len(x.Rhs) {
				for i, l := range x.Lhs {
					if _, plain := ast.Unparen(l).(*ast.Ident); !plain {
						escapeAll(x.Rhs[i], "stored into "+exprStr(l)+" at "+m.c.Pos(x.Pos()))
					}
				}
			}
		case *ast.SendStmt:
			escapeAll(x.Value, "sent on a channel at "+m.c.Pos(x.Pos()))
		}
		return true
	})
	return out
}
