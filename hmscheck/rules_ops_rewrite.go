package main

import (
	"go/ast"
	"go/token"
	"go/types"
)

// Statement-level rewriting of a function body before it is walked. The AST
// of the loaded program is never modified: the statement lists on the way to a
// rewritten statement are copied, everything else (all expressions, hence all
// type information) is shared.
//
// Two rewritings use it:
//   * a `for ... range T` over a table written as data (known without looking
//     at the function's variables) is unrolled: one copy of the body per
//     element, each preceded by a marker statement that binds the loop
//     variables to the element (rules_ops_eval.go interprets the marker);
//   * R-eval-order splices the body of a "piece" helper (a method that takes
//     the very node the calling function works on) in place of the call.

// opsRewriteStmts applies f to every statement of body (outermost first; the
// replacement of a statement is not rewritten again). f returns nil to keep
// the statement. intoTypeSwitch says whether clauses of type switches may be
// copied (their implicit objects are keyed by the clause node).
func opsRewriteStmts(body *ast.BlockStmt, intoTypeSwitch bool, f func(ast.Stmt) []ast.Stmt) *ast.BlockStmt {
	if body == nil {
		return nil
	}
	var list func(l []ast.Stmt) ([]ast.Stmt, bool)
	var one func(s ast.Stmt) (ast.Stmt, bool)
	block := func(b *ast.BlockStmt) (*ast.BlockStmt, bool) {
		if b == nil {
			return nil, false
		}
		nl, ch := list(b.List)
		if !ch {
			return b, false
		}
		return &ast.BlockStmt{Lbrace: b.Lbrace, List: nl, Rbrace: b.Rbrace}, true
	}
	clauses := func(b *ast.BlockStmt) (*ast.BlockStmt, bool) {
		if b == nil {
			return nil, false
		}
		changed := false
		out := make([]ast.Stmt, len(b.List))
		for i, c := range b.List {
			out[i] = c
			cc, ok := c.(*ast.CaseClause)
			if !ok {
				continue
			}
			if nb, ch := list(cc.Body); ch {
				n := *cc
				n.Body = nb
				out[i] = &n
				changed = true
			}
		}
		if !changed {
			return b, false
		}
		return &ast.BlockStmt{Lbrace: b.Lbrace, List: out, Rbrace: b.Rbrace}, true
	}
	one = func(s ast.Stmt) (ast.Stmt, bool) {
		switch x := s.(type) {
		case *ast.BlockStmt:
			return block(x)
		case *ast.LabeledStmt:
			if ns, ch := one(x.Stmt); ch {
				n := *x
				n.Stmt = ns
				return &n, true
			}
		case *ast.IfStmt:
			nb, ch1 := block(x.Body)
			var ne ast.Stmt
			ch2 := false
			if x.Else != nil {
				ne, ch2 = one(x.Else)
			}
			if ch1 || ch2 {
				n := *x
				n.Body = nb
				if x.Else != nil {
					n.Else = ne
				}
				return &n, true
			}
		case *ast.ForStmt:
			if nb, ch := block(x.Body); ch {
				n := *x
				n.Body = nb
				return &n, true
			}
		case *ast.RangeStmt:
			if nb, ch := block(x.Body); ch {
				n := *x
				n.Body = nb
				return &n, true
			}
		case *ast.SwitchStmt:
			if nb, ch := clauses(x.Body); ch {
				n := *x
				n.Body = nb
				return &n, true
			}
		case *ast.TypeSwitchStmt:
			if intoTypeSwitch {
				if nb, ch := clauses(x.Body); ch {
					n := *x
					n.Body = nb
					return &n, true
				}
			}
		}
		return s, false
	}
	list = func(l []ast.Stmt) ([]ast.Stmt, bool) {
		changed := false
		var out []ast.Stmt
		for _, s := range l {
			if rep := f(s); rep != nil {
				out = append(out, rep...)
				changed = true
				continue
			}
			ns, ch := one(s)
			if ch {
				changed = true
			}
			out = append(out, ns)
		}
		if !changed {
			return l, false
		}
		return out, true
	}
	nb, _ := block(body)
	return nb
}

// opsUnrollBind: what a marker statement of an unrolled table loop binds.
type opsUnrollBind struct {
	keyObj, valObj types.Object
	idx            int
	tbl            *opsTable
}

func opsMarker() *ast.ExprStmt {
	return &ast.ExprStmt{X: &ast.Ident{Name: "_"}}
}

// loopFree: the statement list contains no continue, no labeled branch and no
// goto that could concern an enclosing loop (a plain break is fine: the
// unrolled loop is wrapped into a switch, which a break leaves just like the
// loop), and no defer (it would run once per function, not per iteration — the
// same as in the loop, so it is fine too, but function literals are not looked into).
func opsLoopFree(body *ast.BlockStmt) bool {
	ok := true
	depth := 0 // nesting inside inner loops: their own continue is theirs
	var visit func(n ast.Node) bool
	visit = func(n ast.Node) bool {
		switch x := n.(type) {
		case *ast.FuncLit:
			return false
		case *ast.ForStmt, *ast.RangeStmt:
			depth++
			ast.Inspect(loopBody(x), visit)
			depth--
			return false
		case *ast.BranchStmt:
			if x.Label != nil || x.Tok == token.GOTO || x.Tok == token.FALLTHROUGH {
				ok = false
			}
			if x.Tok == token.CONTINUE && depth == 0 {
				ok = false
			}
		}
		return ok
	}
	ast.Inspect(body, visit)
	return ok
}

func loopBody(n ast.Node) *ast.BlockStmt {
	switch x := n.(type) {
	case *ast.ForStmt:
		return x.Body
	case *ast.RangeStmt:
		return x.Body
	}
	return nil
}

// unrollTables: body with every range loop over a statically known table
// (a package-level table or a literal) unrolled. Memoised per body.
func (g *opsEng) unrollTables(cfg *opsCfg, body *ast.BlockStmt, info *types.Info) *ast.BlockStmt {
	if nb, ok := g.unrolled[body]; ok {
		return nb
	}
	g.unrolled[body] = body // recursion guard (table builders are walked while tables are evaluated)
	hasRange := false
	ast.Inspect(body, func(n ast.Node) bool {
		if _, ok := n.(*ast.RangeStmt); ok {
			hasRange = true
		}
		return !hasRange
	})
	if !hasRange {
		return body
	}
	ev := &opsEv{cfg: cfg, info: info}
	nb := opsRewriteStmts(body, false, func(s ast.Stmt) []ast.Stmt {
		r, ok := s.(*ast.RangeStmt)
		if !ok {
			return nil
		}
		// the ranged expression must not depend on anything local: a package-level variable or a literal
		switch x := ast.Unparen(r.X).(type) {
		case *ast.Ident:
			v, _ := info.Uses[x].(*types.Var)
			if v == nil || v.Pkg() == nil || v.Parent() != v.Pkg().Scope() {
				return nil
			}
		case *ast.SelectorExpr:
			v, _ := info.Uses[x.Sel].(*types.Var)
			if v == nil || v.IsField() || v.Pkg() == nil || v.Parent() != v.Pkg().Scope() {
				return nil
			}
		case *ast.CompositeLit:
		default:
			return nil
		}
		t := ev.eval(&opsSt{env: map[types.Object]opsVal{}}, r.X)
		if t.k != ovTable || t.tbl.isMap || len(t.tbl.vals) > 64 || !opsLoopFree(r.Body) {
			return nil // maps iterate in no fixed order; long tables are left to the 0/1 exploration
		}
		obj := func(e ast.Expr) types.Object {
			id, ok := e.(*ast.Ident)
			if !ok || id.Name == "_" {
				return nil
			}
			if o := info.Defs[id]; o != nil {
				return o
			}
			return info.Uses[id]
		}
		var stmts []ast.Stmt
		for i := range t.tbl.vals {
			m := opsMarker()
			g.unrollBind[m] = &opsUnrollBind{keyObj: obj(r.Key), valObj: obj(r.Value), idx: i, tbl: t.tbl}
			// the body may itself contain table loops
			inner := g.unrollTables(cfg, r.Body, info)
			stmts = append(stmts, m, &ast.BlockStmt{Lbrace: r.Body.Lbrace, List: inner.List, Rbrace: r.Body.Rbrace})
		}
		// a break inside the body leaves the loop: a switch behaves the same
		sw := &ast.SwitchStmt{Switch: r.For, Body: &ast.BlockStmt{Lbrace: r.Body.Lbrace, Rbrace: r.Body.Rbrace,
			List: []ast.Stmt{&ast.CaseClause{Case: r.For, Body: stmts}}}}
		return []ast.Stmt{sw}
	})
	g.unrolled[body] = nb
	return nb
}
