package main

import (
	"go/ast"
	"go/constant"
	"go/token"
	"go/types"
)

// The Analyzer's error-diagnostic reporters, resolved by role through types
// and data flow.
//
// An *error report* is an append, to a field of the Analyzer whose type is a
// slice of the diagnostic struct, of a diagnostic value whose level is the
// error level. Every function of the analyzer package is summarised by what it
// appends on its unconditional statement path, directly or through calls of
// other summarised functions:
//
//   always        a diagnostic of level Error
//   levelParams   a diagnostic whose level is the function's parameter i
//   diagParams    the function's parameter i (itself a diagnostic)
//
// A call is an error report when the callee's summary says `always`, or when
// the argument bound to a level parameter is the error constant, or when the
// argument bound to a diagnostic parameter is a diagnostic built with the
// error level. How many helpers the append is wrapped in, and whether the
// level is written in the literal or passed down as an argument, is immaterial.

type opsErrSpec struct {
	always      bool
	levelParams map[int]bool
	diagParams  map[int]bool
}

func (s *opsErrSpec) empty() bool {
	return s == nil || (!s.always && len(s.levelParams) == 0 && len(s.diagParams) == 0)
}

type opsRepKind int

const (
	orUnknown opsRepKind = iota
	orConst              // a constant (c)
	orParam              // the value of parameter `param` of the summarised function
	orDiag               // a diagnostic value whose level is *lvl
)

type opsRepVal struct {
	k     opsRepKind
	c     *types.Const
	param int
	lvl   *opsRepVal
}

// resolveDiagTypes: the diagnostic struct, its level enum with the error
// constant, and the Analyzer's diagnostic list fields.
func (m *opsModel) resolveDiagTypes() bool {
	const diagRel = "homescript/diagnostic"
	if !m.c.HasPkg(diagRel) {
		return false
	}
	scope := m.c.Pkg(diagRel).Types.Scope()
	m.errLevel, _ = scope.Lookup("DiagnosticLevelError").(*types.Const)
	if m.errLevel == nil {
		return false
	}
	m.levelT = opsTypeName(m.errLevel.Type())
	if m.levelT == nil {
		return false
	}
	// the diagnostic struct: the named struct of that package carrying a level
	for _, n := range scope.Names() {
		tn, ok := scope.Lookup(n).(*types.TypeName)
		if !ok {
			continue
		}
		st, ok := tn.Type().Underlying().(*types.Struct)
		if !ok {
			continue
		}
		for i := 0; i < st.NumFields(); i++ {
			if opsTypeName(st.Field(i).Type()) == m.levelT {
				if _, isPtr := types.Unalias(st.Field(i).Type()).(*types.Pointer); !isPtr {
					m.diagTs[tn] = true
				}
			}
		}
	}
	// diagnostic lists of the Analyzer
	anaSt, _ := m.anaRecv.Type().Underlying().(*types.Struct)
	if anaSt == nil {
		return false
	}
	for i := 0; i < anaSt.NumFields(); i++ {
		if sl, ok := types.Unalias(anaSt.Field(i).Type()).(*types.Slice); ok {
			if tn := opsTypeName(sl.Elem()); tn != nil && m.diagTs[tn] {
				m.diagFields[anaSt.Field(i)] = true
			}
		}
	}
	return len(m.diagTs) > 0 && len(m.diagFields) > 0
}

func (m *opsModel) isErrLevel(k *types.Const) bool {
	if k == nil || m.errLevel == nil {
		return false
	}
	if k == m.errLevel {
		return true
	}
	if opsTypeName(k.Type()) != m.levelT {
		return false
	}
	return constant.Compare(k.Val(), token.EQL, m.errLevel.Val())
}

func (m *opsModel) isDiagType(t types.Type) bool {
	tn := opsTypeName(t)
	return tn != nil && m.diagTs[tn]
}

// diagListField: e selects a diagnostic list field of the Analyzer.
func (m *opsModel) diagListField(info *types.Info, e ast.Expr) *types.Var {
	sel, ok := ast.Unparen(e).(*ast.SelectorExpr)
	if !ok {
		return nil
	}
	s := info.Selections[sel]
	if s == nil || s.Kind() != types.FieldVal {
		return nil
	}
	if f, ok := s.Obj().(*types.Var); ok && m.diagFields[f] {
		return f
	}
	return nil
}

func opsIsBuiltin(info *types.Info, call *ast.CallExpr, name string) bool {
	id, ok := ast.Unparen(call.Fun).(*ast.Ident)
	if !ok {
		return false
	}
	b, ok := info.Uses[id].(*types.Builtin)
	return ok && b.Name() == name
}

// opsDiverges: the call statement never returns (panic, or a function whose
// unconditional statement path ends in one).
func (g *opsEng) divergingCall(info *types.Info, call *ast.CallExpr) bool {
	if opsIsBuiltin(info, call, "panic") {
		return true
	}
	cal := CalleeOf(info, call)
	if cal == nil {
		return false
	}
	if cal.Pkg() != nil && cal.Pkg().Path() == "os" && cal.Name() == "Exit" {
		return true
	}
	return g.diverges(cal)
}

func (g *opsEng) diverges(fn *types.Func) bool {
	if v, ok := g.divMemo[fn]; ok {
		return v
	}
	g.divMemo[fn] = false // recursion guard
	fd := g.decls[fn]
	if fd == nil {
		return false
	}
	info := g.info(fd)
	res := false
	var list func(l []ast.Stmt) (done bool)
	list = func(l []ast.Stmt) bool {
		for _, s := range l {
			switch x := s.(type) {
			case *ast.ExprStmt:
				if call, ok := ast.Unparen(x.X).(*ast.CallExpr); ok && g.divergingCall(info, call) {
					res = true
					return true
				}
			case *ast.BlockStmt:
				if list(x.List) {
					return true
				}
			case *ast.AssignStmt, *ast.DeclStmt, *ast.IncDecStmt, *ast.EmptyStmt:
			default:
				return true // control flow: not unconditional any more
			}
		}
		return false
	}
	list(fd.Body.List)
	g.divMemo[fn] = res
	return res
}

// opsContainsExit: the statement may leave the enclosing function (or loop)
// other than by falling through.
func (g *opsEng) containsExit(info *types.Info, s ast.Stmt) bool {
	exit := false
	ast.Inspect(s, func(n ast.Node) bool {
		switch x := n.(type) {
		case *ast.FuncLit:
			return false
		case *ast.ReturnStmt:
			exit = true
		case *ast.BranchStmt:
			if x.Tok == token.GOTO {
				exit = true
			}
		case *ast.CallExpr:
			if g.divergingCall(info, x) {
				exit = true
			}
		}
		return !exit
	})
	return exit
}

func (m *opsModel) findErrReporters(anaRel string) {
	if !m.resolveDiagTypes() {
		m.failf("anchor unresolved: the Analyzer's error-diagnostic reporter (diagnostic struct / error level / diagnostic list of the Analyzer)")
		return
	}
	p := m.c.Pkg(anaRel)
	fds := AllFuncDecls(p)
	for changed, rounds := true, 0; changed && rounds < 12; rounds++ {
		changed = false
		for _, fd := range fds {
			fn, _ := p.TypesInfo.Defs[fd.Name].(*types.Func)
			if fn == nil || fd.Body == nil {
				continue
			}
			spec, ctor := m.summariseReporter(p.TypesInfo, fd, fn)
			if ctor != nil {
				if oc := m.diagCtors[fn]; oc == nil || oc.k != ctor.k || oc.c != ctor.c || oc.param != ctor.param {
					m.diagCtors[fn] = ctor
					changed = true
				}
			}
			old := m.errSpecs[fn]
			if spec.empty() {
				continue
			}
			if old == nil || old.always != spec.always || len(old.levelParams) != len(spec.levelParams) || len(old.diagParams) != len(spec.diagParams) {
				m.errSpecs[fn] = spec
				changed = true
			}
		}
	}
	n := 0
	for fn, s := range m.errSpecs {
		if s.always {
			m.errFns[fn] = true
		}
		if !s.empty() {
			n++
		}
	}
	if n == 0 {
		// no reporting helper at all: the analyzer must at least append error diagnostics in place somewhere
		for _, fd := range fds {
			ast.Inspect(fd.Body, func(x ast.Node) bool {
				call, ok := x.(*ast.CallExpr)
				if !ok || n > 0 {
					return n == 0
				}
				if opsIsBuiltin(p.TypesInfo, call, "append") && len(call.Args) >= 2 && m.diagListField(p.TypesInfo, call.Args[0]) != nil {
					for _, a := range call.Args[1:] {
						if cl, ok := ast.Unparen(a).(*ast.CompositeLit); ok && m.isDiagType(p.TypesInfo.TypeOf(cl)) {
							for _, el := range cl.Elts {
								if kv, ok := el.(*ast.KeyValueExpr); ok && m.isErrLevel(ConstOf(p.TypesInfo, kv.Value)) {
									n++
								}
							}
						}
					}
				}
				return true
			})
		}
	}
	if n == 0 {
		m.failf("anchor unresolved: the Analyzer's error-diagnostic reporter")
	}
}

// summariseReporter: what fn appends to the diagnostic list on its unconditional
// path (spec), and — for a function returning a diagnostic — the level of the
// diagnostic it builds (ctor: a constant or one of its parameters; nil when it
// is not such a constructor).
func (m *opsModel) summariseReporter(info *types.Info, fd *ast.FuncDecl, fn *types.Func) (*opsErrSpec, *opsRepVal) {
	spec := &opsErrSpec{levelParams: map[int]bool{}, diagParams: map[int]bool{}}
	sig := fn.Type().(*types.Signature)
	isCtor := sig.Results().Len() == 1 && m.isDiagType(sig.Results().At(0).Type())
	var ctorLvls []opsRepVal
	paramIdx := map[types.Object]int{}
	for i := 0; i < sig.Params().Len(); i++ {
		paramIdx[sig.Params().At(i)] = i
	}
	env := map[types.Object]opsRepVal{}
	var eval func(e ast.Expr) opsRepVal
	eval = func(e ast.Expr) opsRepVal {
		switch x := ast.Unparen(e).(type) {
		case *ast.StarExpr:
			return eval(x.X)
		case *ast.UnaryExpr:
			if x.Op == token.AND {
				return eval(x.X)
			}
		case *ast.Ident:
			obj := info.Uses[x]
			if obj == nil {
				obj = info.Defs[x]
			}
			switch o := obj.(type) {
			case *types.Const:
				return opsRepVal{k: orConst, c: o}
			case *types.Var:
				if v, ok := env[o]; ok {
					return v
				}
				if i, ok := paramIdx[o]; ok {
					return opsRepVal{k: orParam, param: i}
				}
			}
		case *ast.SelectorExpr:
			if k, ok := info.Uses[x.Sel].(*types.Const); ok {
				return opsRepVal{k: orConst, c: k}
			}
			if s := info.Selections[x]; s != nil && s.Kind() == types.FieldVal && opsTypeName(s.Obj().Type()) == m.levelT {
				if b := eval(x.X); b.k == orDiag && b.lvl != nil {
					return *b.lvl
				}
			}
		case *ast.CallExpr:
			if tv, ok := info.Types[x.Fun]; ok && tv.IsType() && len(x.Args) == 1 {
				return eval(x.Args[0])
			}
			// a diagnostic constructor
			if cal := CalleeOf(info, x); cal != nil {
				if ct := m.diagCtors[cal]; ct != nil {
					lvl := opsRepVal{}
					switch ct.k {
					case orConst:
						lvl = *ct
					case orParam:
						if ct.param < len(x.Args) && !x.Ellipsis.IsValid() {
							lvl = eval(x.Args[ct.param])
						}
					}
					return opsRepVal{k: orDiag, lvl: &lvl}
				}
			}
		case *ast.CompositeLit:
			if !m.isDiagType(info.TypeOf(x)) {
				break
			}
			st, _ := info.TypeOf(x).Underlying().(*types.Struct)
			lvl := opsRepVal{}
			for i, el := range x.Elts {
				if kv, ok := el.(*ast.KeyValueExpr); ok {
					if id, ok := kv.Key.(*ast.Ident); ok {
						if f, ok := info.Uses[id].(*types.Var); ok && opsTypeName(f.Type()) == m.levelT {
							lvl = eval(kv.Value)
						}
					}
				} else if st != nil && i < st.NumFields() && opsTypeName(st.Field(i).Type()) == m.levelT {
					lvl = eval(el)
				}
			}
			return opsRepVal{k: orDiag, lvl: &lvl}
		}
		return opsRepVal{}
	}
	// an appended / passed-on diagnostic value
	classify := func(v opsRepVal) {
		switch v.k {
		case orDiag:
			if v.lvl == nil {
				return
			}
			switch v.lvl.k {
			case orConst:
				if m.isErrLevel(v.lvl.c) {
					spec.always = true
				}
			case orParam:
				if opsTypeName(sig.Params().At(v.lvl.param).Type()) == m.levelT {
					spec.levelParams[v.lvl.param] = true
				}
			}
		case orParam:
			if m.isDiagType(sig.Params().At(v.param).Type()) {
				spec.diagParams[v.param] = true
			}
		}
	}
	applyCalls := func(n ast.Node) {
		if n == nil {
			return
		}
		ast.Inspect(n, func(x ast.Node) bool {
			if _, ok := x.(*ast.FuncLit); ok {
				return false
			}
			call, ok := x.(*ast.CallExpr)
			if !ok {
				return true
			}
			// append(<diagnostic list>, elems...)
			if opsIsBuiltin(info, call, "append") && len(call.Args) >= 2 && !call.Ellipsis.IsValid() && m.diagListField(info, call.Args[0]) != nil {
				for _, a := range call.Args[1:] {
					classify(eval(a))
				}
				return true
			}
			cal := CalleeOf(info, call)
			cs := m.errSpecs[cal]
			if cal == nil || cs.empty() || call.Ellipsis.IsValid() {
				return true
			}
			if cs.always {
				spec.always = true
			}
			for i := range cs.levelParams {
				if i >= len(call.Args) {
					continue
				}
				switch v := eval(call.Args[i]); v.k {
				case orConst:
					if m.isErrLevel(v.c) {
						spec.always = true
					}
				case orParam:
					if opsTypeName(sig.Params().At(v.param).Type()) == m.levelT {
						spec.levelParams[v.param] = true
					}
				}
			}
			for i := range cs.diagParams {
				if i < len(call.Args) {
					classify(eval(call.Args[i]))
				}
			}
			return true
		})
	}
	bind := func(l ast.Expr, v opsRepVal) {
		switch x := ast.Unparen(l).(type) {
		case *ast.Ident:
			obj := info.Defs[x]
			if obj == nil {
				obj = info.Uses[x]
			}
			if obj != nil {
				env[obj] = v
			}
		case *ast.SelectorExpr:
			// d.Level = <level>
			if s := info.Selections[x]; s != nil && s.Kind() == types.FieldVal && opsTypeName(s.Obj().Type()) == m.levelT {
				if id, ok := ast.Unparen(x.X).(*ast.Ident); ok {
					if obj := info.Uses[id]; obj != nil {
						if d, ok := env[obj]; ok && d.k == orDiag {
							nv := v
							env[obj] = opsRepVal{k: orDiag, lvl: &nv}
						}
					}
				}
			}
		}
	}
	forget := func(s ast.Stmt) {
		ast.Inspect(s, func(n ast.Node) bool {
			if as, ok := n.(*ast.AssignStmt); ok {
				for _, l := range as.Lhs {
					root := l
					for {
						if se, ok := ast.Unparen(root).(*ast.SelectorExpr); ok {
							root = se.X
							continue
						}
						break
					}
					if id, ok := ast.Unparen(root).(*ast.Ident); ok {
						if obj := info.Uses[id]; obj != nil {
							env[obj] = opsRepVal{}
						}
					}
				}
			}
			return true
		})
	}
	var list func(l []ast.Stmt) (stop bool)
	list = func(l []ast.Stmt) bool {
		for _, s := range l {
			switch x := s.(type) {
			case *ast.BlockStmt:
				if list(x.List) {
					return true
				}
			case *ast.ExprStmt:
				if call, ok := ast.Unparen(x.X).(*ast.CallExpr); ok && m.g.divergingCall(info, call) {
					return true
				}
				applyCalls(x)
			case *ast.DeferStmt:
				applyCalls(x.Call)
			case *ast.AssignStmt:
				applyCalls(x)
				if len(x.Lhs) == len(x.Rhs) {
					vals := make([]opsRepVal, len(x.Rhs))
					for i, r := range x.Rhs {
						vals[i] = eval(r)
					}
					for i, lhs := range x.Lhs {
						if x.Tok == token.ASSIGN || x.Tok == token.DEFINE {
							bind(lhs, vals[i])
						} else {
							bind(lhs, opsRepVal{})
						}
					}
				} else {
					for _, lhs := range x.Lhs {
						bind(lhs, opsRepVal{})
					}
				}
			case *ast.DeclStmt:
				applyCalls(x)
				if gd, ok := x.Decl.(*ast.GenDecl); ok {
					for _, sp := range gd.Specs {
						if vs, ok := sp.(*ast.ValueSpec); ok {
							for i, n := range vs.Names {
								v := opsRepVal{}
								if i < len(vs.Values) {
									v = eval(vs.Values[i])
								}
								if obj := info.Defs[n]; obj != nil {
									env[obj] = v
								}
							}
						}
					}
				}
			case *ast.ReturnStmt:
				applyCalls(x)
				if isCtor && len(x.Results) == 1 {
					ctorLvls = append(ctorLvls, eval(x.Results[0]))
				}
				return true
			case *ast.IncDecStmt, *ast.EmptyStmt, *ast.GoStmt, *ast.SendStmt:
			case *ast.IfStmt:
				// init and condition are evaluated unconditionally, the branches are not
				if x.Init != nil {
					if list([]ast.Stmt{x.Init}) {
						return true
					}
				}
				applyCalls(x.Cond)
				if m.g.containsExit(info, x) {
					isCtor = false // returns under conditions: not summarised
					return true
				}
				forget(x)
			default:
				if m.g.containsExit(info, s) {
					isCtor = false
					return true
				}
				forget(s)
			}
		}
		return false
	}
	list(fd.Body.List)
	var ctor *opsRepVal
	if isCtor && len(ctorLvls) == 1 && ctorLvls[0].k == orDiag && ctorLvls[0].lvl != nil {
		switch l := ctorLvls[0].lvl; l.k {
		case orConst:
			ctor = &opsRepVal{k: orConst, c: l.c}
		case orParam:
			if opsTypeName(sig.Params().At(l.param).Type()) == m.levelT {
				ctor = &opsRepVal{k: orParam, param: l.param}
			}
		}
	}
	return spec, ctor
}

// isErrCall: the call of callee with the evaluated arguments reports an error
// diagnostic.
func (m *opsModel) isErrCall(callee *types.Func, args []opsVal) bool {
	s := m.errSpecs[callee]
	if s.empty() {
		return false
	}
	if s.always {
		return true
	}
	for i := range s.levelParams {
		if i < len(args) && args[i].k == ovConst && m.isErrLevel(args[i].c) {
			return true
		}
	}
	for i := range s.diagParams {
		if i < len(args) && args[i].k == ovDiag && m.isErrLevel(args[i].c) {
			return true
		}
	}
	return false
}
