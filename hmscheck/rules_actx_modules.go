package main

import (
	"fmt"
	"go/ast"
	"go/token"
	"go/types"
	"sort"
	"strings"

	"golang.org/x/tools/go/packages"
)

func init() {
	register(&Rule{ID: "R-import-visibility", Floor: 14, Run: ruleImportVisibility,
		Doc: "module rules of C15. Analyzer import resolution (the Analyzer method that calls HostProvider.ResolveCodeModule): (1) on every path, an entity looked up in the *imported* module (type, function, variable: the kinds that carry a pub attribute) is recorded in the importing module only after a test of that attribute whose failing side reports an error; (2) every scope entry the import code creates (NewVar / newTypeWrapper in importItem and its dummy-field helper) is created with the pub flag being the constant false — an imported name that is itself pub could be imported again from the importing module, so visibility would leak through modules that never declared the item pub; (3) every loop iteration over the requested items either records a resolved entity or reports a diagnostic, every return through the dummy-field helper is preceded by a report, and a positive cycle test reports. Compiler: (4) the entry module's @init calls the @init of every module: each emitted Call_Imm in compileProgram takes its target from a range over the collection that receives one init function per module of the program; the only skipped entry is the entry module itself; (5) function lookup by name is keyed by module: no lookup returns the first match of a search across all modules. Anchors are roles, not names: the error reporter is any function that unconditionally records a diagnostic of level DiagnosticLevelError (also through a level-parametric helper) or appends to the syntax-error list; a recorder is a Module method invoked on the importing module with the entity as argument; the entity kind follows from its record type; the pub flag of a constructor is the parameter that becomes IsPub; a pub test may be written inline, cached in a local or delegated to a one-line predicate; the walk covers the import method and the resolver helpers it is split into (helpers that receive the imported *Module or consult the host); the cycle test is the callee that walks Module.ImportsModules; the @init table and its emission loop are followed into a helper that receives the table; the init name is matched by the value of InitFunctionIdent."})
}

func ruleImportVisibility(c *Ctx) []Obligation {
	var out []Obligation
	out = append(out, actxImportAnalyzer(c)...)
	out = append(out, actxImportCompiler(c)...)
	return out
}

type actxImpState struct {
	ent      map[types.Object]string       // local → entity kind ("type","function","variable","template","trigger") looked up in the imported module
	tested   map[types.Object]bool         // pub attribute tested with an error on the failing side
	der      map[types.Object]types.Object // local computed from an entity (a copy, a field, a wrapper built from it) → that entity
	pubCopy  map[types.Object]bool         // local that is a copy of an entity record carrying IsPub: true = IsPub not yet reset to the constant false
	reported bool
	resolved bool
	dec      []string
}

func actxImpClone(s *actxImpState) *actxImpState {
	n := &actxImpState{ent: map[types.Object]string{}, tested: map[types.Object]bool{}, reported: s.reported, resolved: s.resolved}
	for k, v := range s.ent {
		n.ent[k] = v
	}
	for k, v := range s.tested {
		n.tested[k] = v
	}
	if len(s.der) > 0 {
		n.der = map[types.Object]types.Object{}
		for k, v := range s.der {
			n.der[k] = v
		}
	}
	if len(s.pubCopy) > 0 {
		n.pubCopy = map[types.Object]bool{}
		for k, v := range s.pubCopy {
			n.pubCopy[k] = v
		}
	}
	n.dec = append([]string(nil), s.dec...)
	return n
}

func actxImportAnalyzer(c *Ctx) []Obligation {
	p := c.Pkg("homescript/analyzer")
	info := p.TypesInfo
	var out []Obligation
	// anchor: the method that resolves code modules through the host
	var imp *ast.FuncDecl
	for _, fd := range AllFuncDecls(p) {
		if fd.Recv == nil || recvTypeName(fd.Recv.List[0].Type) != "Analyzer" {
			continue
		}
		ast.Inspect(fd.Body, func(n ast.Node) bool {
			if ce, ok := n.(*ast.CallExpr); ok {
				if sel, ok := ce.Fun.(*ast.SelectorExpr); ok && sel.Sel.Name == "ResolveCodeModule" {
					imp = fd
				}
			}
			return true
		})
	}
	if imp == nil {
		return []Obligation{{Key: "homescript/analyzer|import resolution", Status: Undecided, Detail: "no Analyzer method calls HostProvider.ResolveCodeModule"}}
	}
	fname := "homescript/analyzer." + FuncName(imp)
	// helper(s) reached from it (two levels) that also create scope entries (importDummyFields, split-off resolvers)
	helpers := []*ast.FuncDecl{imp}
	for level, frontier := 0, []*ast.FuncDecl{imp}; level < 2 && len(frontier) > 0; level++ {
		var next []*ast.FuncDecl
		for _, cur := range frontier {
			ast.Inspect(cur.Body, func(n ast.Node) bool {
				if ce, ok := n.(*ast.CallExpr); ok {
					if f := CalleeOf(info, ce); f != nil && f.Pkg() == p.Types {
						if fd := actxDeclOfFunc(p, f); fd != nil && fd.Recv != nil && recvTypeName(fd.Recv.List[0].Type) == "Analyzer" && len(actxCallsNamed(fd.Body, info, "NewVar")) > 0 {
							dup := false
							for _, h := range helpers {
								if h == fd {
									dup = true
								}
							}
							if !dup {
								helpers = append(helpers, fd)
								next = append(next, fd)
							}
						}
					}
				}
				return true
			})
		}
		frontier = next
	}

	// (2) constant-false pub flag ------------------------------------------------
	nctor := 0
	pubParam := map[*types.Func]int{}
	for _, h := range helpers {
		seen := map[string]int{}
		ast.Inspect(h.Body, func(n ast.Node) bool {
			ce, ok := n.(*ast.CallExpr)
			if !ok {
				return true
			}
			f := CalleeOf(info, ce)
			if f == nil {
				return true
			}
			idx, known := pubParam[f]
			if !known {
				idx = actxPubParam(p, f)
				pubParam[f] = idx
			}
			if idx < 0 || idx >= len(ce.Args) {
				return true
			}
			// result type must be a scope entry (Variable / typeWrapper)
			nctor++
			what := f.Name() + "(" + exprStr(ce.Args[0]) + ", …)"
			if len(what) > 70 {
				what = what[:70] + "…"
			}
			seen[what]++
			key := fmt.Sprintf("homescript/analyzer.%s|%s#%d|pub flag", FuncName(h), what, seen[what])
			ob := Obligation{Key: key, Pos: c.Pos(ce.Pos())}
			if tv := info.Types[ce.Args[idx]]; tv.Value != nil && tv.Value.String() == "false" {
				ob.Status, ob.Detail = Discharged, "scope entry for an imported name is created with isPub = false"
			} else {
				ob.Status, ob.Nontrivial = Violated, true
				ob.Detail = fmt.Sprintf("the scope entry created for an imported name gets isPub = %s instead of the constant false: the importing module re-exports the name, so a third module can import an item from a module that never declared it pub, with no diagnostic", exprStr(ce.Args[idx]))
			}
			out = append(out, ob)
			return true
		})
	}
	if nctor == 0 {
		out = append(out, Obligation{Key: fname + "|scope entries", Status: Undecided, Detail: "no NewVar/newTypeWrapper call with an isPub parameter found in the import code"})
	}

	// (1)+(3) path walk -----------------------------------------------------------
	// The walk covers the import method and the helpers it delegates the resolution to (split
	// functions): Analyzer methods called from it that receive the imported module (*Module) or
	// consult the host. Helpers that create scope entries without doing either only register
	// placeholder names: returning through them abandons the import.
	type finding struct {
		key, detail string
		pos         token.Pos
	}
	var bad []finding
	okKinds := map[string]int{}
	nret := 0
	ncopy := 0
	pathsIncomplete := false
	reporters := actxErrReporters(p)
	if len(reporters) == 0 {
		return append(out, Obligation{Key: fname + "|error reporter", Status: Undecided, Detail: "no function of the analyzer records a diagnostic of level DiagnosticLevelError"})
	}
	isReport := func(ce *ast.CallExpr) bool {
		f := CalleeOf(info, ce)
		return f != nil && reporters[f]
	}
	reports := func(n ast.Node) bool {
		r := false
		if n == nil {
			return false
		}
		ast.Inspect(n, func(x ast.Node) bool {
			if ce, ok := x.(*ast.CallExpr); ok && isReport(ce) {
				r = true
			}
			if as, ok := x.(*ast.AssignStmt); ok && len(as.Lhs) == 1 && actxIsSyntaxErrSink(info, as.Lhs[0]) {
				r = true
			}
			return true
		})
		return r
	}
	isResolver := func(fd *ast.FuncDecl) bool {
		for _, f := range fd.Type.Params.List {
			if pt, ok := info.TypeOf(f.Type).(*types.Pointer); ok {
				if n, ok := pt.Elem().(*types.Named); ok && n.Obj().Name() == "Module" && n.Obj().Pkg() == p.Types {
					return true
				}
			}
		}
		hostCall := false
		ast.Inspect(fd.Body, func(n ast.Node) bool {
			if ce, ok := n.(*ast.CallExpr); ok {
				if sel, ok := ce.Fun.(*ast.SelectorExpr); ok {
					if s := info.Selections[sel]; s != nil && s.Kind() == types.MethodVal && types.IsInterface(s.Recv()) {
						if _, isField := ast.Unparen(sel.X).(*ast.SelectorExpr); isField {
							hostCall = true
						}
					}
				}
			}
			return true
		})
		return hostCall
	}
	walked := []*ast.FuncDecl{imp}
	var abandon []*ast.FuncDecl
	for _, h := range helpers[1:] {
		if isResolver(h) {
			walked = append(walked, h)
		} else {
			abandon = append(abandon, h)
		}
	}
	// resolvers reached through another resolver (one more level)
	for _, wfd := range append([]*ast.FuncDecl(nil), walked...) {
		ast.Inspect(wfd.Body, func(n ast.Node) bool {
			if ce, ok := n.(*ast.CallExpr); ok {
				if f := CalleeOf(info, ce); f != nil && f.Pkg() == p.Types {
					if fd := actxDeclOfFunc(p, f); fd != nil && fd.Recv != nil && recvTypeName(fd.Recv.List[0].Type) == "Analyzer" {
						known := false
						for _, x := range append(append([]*ast.FuncDecl(nil), walked...), abandon...) {
							if x == fd {
								known = true
							}
						}
						if !known && isResolver(fd) && len(actxCallsNamed(fd.Body, info, "NewVar")) > 0 {
							walked = append(walked, fd)
						}
					}
				}
			}
			return true
		})
	}
	walkOne := func(cur *ast.FuncDecl) {
		var recvObj types.Object
		if cur.Recv != nil && len(cur.Recv.List) > 0 && len(cur.Recv.List[0].Names) > 0 {
			recvObj = info.Defs[cur.Recv.List[0].Names[0]]
		}
		// rootedAtRecv: the expression is reached from the receiver of the import method (self.currentModule …)
		rootedAtRecv := func(e ast.Expr) bool {
			for {
				switch x := ast.Unparen(e).(type) {
				case *ast.SelectorExpr:
					e = x.X
				case *ast.IndexExpr:
					e = x.X
				case *ast.StarExpr:
					e = x.X
				case *ast.Ident:
					return recvObj != nil && info.Uses[x] == recvObj
				default:
					return false
				}
			}
		}
		// a recorder: a method of the module record invoked on the importing module (reached from the receiver)
		isRecorder := func(ce *ast.CallExpr) bool {
			sel, ok := ce.Fun.(*ast.SelectorExpr)
			if !ok {
				return false
			}
			f := CalleeOf(info, ce)
			if f == nil || f.Pkg() != p.Types {
				return false
			}
			sig := f.Type().(*types.Signature)
			if sig.Recv() == nil {
				return false
			}
			rt := sig.Recv().Type()
			if pt, ok := rt.(*types.Pointer); ok {
				rt = pt.Elem()
			}
			n, ok := rt.(*types.Named)
			return ok && n.Obj().Name() == "Module" && rootedAtRecv(sel.X)
		}
		// the imported-module variable: a local of type *Module
		isModuleVar := func(e ast.Expr) bool {
			for {
				switch x := ast.Unparen(e).(type) {
				case *ast.SelectorExpr:
					e = x.X
					continue
				case *ast.IndexExpr:
					e = x.X
					continue
				case *ast.CallExpr:
					if sel, ok := x.Fun.(*ast.SelectorExpr); ok {
						e = sel.X
						continue
					}
					return false
				case *ast.Ident:
					obj := info.Uses[x]
					if obj == nil {
						return false
					}
					if _, isRecv := obj.(*types.Var); !isRecv {
						return false
					}
					pt, ok := obj.Type().(*types.Pointer)
					if !ok {
						return false
					}
					n, ok := pt.Elem().(*types.Named)
					return ok && n.Obj().Name() == "Module" && n.Obj().Pkg() == p.Types && obj != recvObj
				}
				return false
			}
		}
		pubAttr := func(t types.Type) string { // which attribute of the entity carries visibility
			if pt, ok := t.(*types.Pointer); ok {
				t = pt.Elem()
			}
			st, ok := t.Underlying().(*types.Struct)
			if !ok {
				return ""
			}
			for i := 0; i < st.NumFields(); i++ {
				if st.Field(i).Name() == "IsPub" {
					return "IsPub"
				}
			}
			for i := 0; i < st.NumFields(); i++ {
				if st.Field(i).Name() == "Modifier" {
					return "Modifier"
				}
			}
			return ""
		}
		// if statements testing a pub attribute: cond atom → (entity ident, failing side reports)
		type pubTest struct {
			obj  types.Object
			okOn bool // value of the atom on the side that is allowed to continue silently
			errs bool
		}
		tests := map[ast.Expr]pubTest{}
		ast.Inspect(cur.Body, func(n ast.Node) bool {
			ifs, ok := n.(*ast.IfStmt)
			if !ok {
				return true
			}
			cond := ast.Unparen(ifs.Cond)
			neg := false
			atom := cond
			if u, ok := cond.(*ast.UnaryExpr); ok && u.Op == token.NOT {
				neg = true
				atom = ast.Unparen(u.X)
			}
			entObj, pubWhen, okAtom := actxPubAtom(p, info, cur.Body, atom, 0)
			var ent *ast.Ident
			if okAtom && entObj != nil {
				ent = ast.NewIdent(entObj.Name())
			}
			if ent == nil {
				return true
			}
			_ = neg
			// the non-pub side: atom == !pubWhen. Which statement list runs then?
			var failing ast.Node
			atomValForBody := !neg // body runs when cond true ⇔ atom == !neg
			if atomValForBody == !pubWhen {
				failing = ifs.Body
			} else if ifs.Else != nil {
				failing = ifs.Else
			}
			tests[atom] = pubTest{obj: entObj, okOn: pubWhen, errs: failing != nil && reports(failing)}
			return true
		})

		var handle func(st *actxImpState, n ast.Node)
		handle = func(st *actxImpState, n ast.Node) {
			if n == nil {
				return
			}
			ast.Inspect(n, func(x ast.Node) bool {
				ce, ok := x.(*ast.CallExpr)
				if !ok {
					return true
				}
				if isReport(ce) {
					st.reported = true
				}
				f := CalleeOf(info, ce)
				if f == nil || !isRecorder(ce) {
					return true
				}
				// which entity feeds the recorded value?
				var used []types.Object
				for _, a := range ce.Args {
					ast.Inspect(a, func(y ast.Node) bool {
						if id, ok := y.(*ast.Ident); ok {
							o := info.Uses[id]
							if root, isDer := st.der[o]; isDer {
								o = root
							}
							if _, isEnt := st.ent[o]; isEnt {
								used = append(used, o)
							}
						}
						return true
					})
				}
				// a scope entry made by copying the imported record keeps the exporter's pub flag unless it is reset
				for _, a := range ce.Args {
					if id, ok := ast.Unparen(a).(*ast.Ident); ok {
						if pending, isCopy := st.pubCopy[info.Uses[id]]; isCopy {
							ncopy++
							if pending {
								bad = append(bad, finding{key: "copied entry keeps pub", pos: ce.Pos(),
									detail: fmt.Sprintf("%s(…) at %s records `%s`, a copy of the record looked up in the imported module, without its IsPub having been reset to the constant false on this path: the importing module re-exports the name [%s]", f.Name(), c.Pos(ce.Pos()), id.Name, strings.Join(st.dec, ", "))})
							}
						}
					}
				}
				for _, e := range used {
					kind := st.ent[e]
					if pubAttr(e.Type()) == "" {
						st.resolved = true
						continue // templates / triggers carry no visibility attribute
					}
					st.resolved = true
					if st.tested[e] {
						okKinds[kind]++
					} else {
						bad = append(bad, finding{key: kind + " is recorded without a pub test", pos: ce.Pos(),
							detail: fmt.Sprintf("%s(…) at %s records the %s `%s` taken from the imported module, but no test of its pub attribute with an error on the failing side precedes it on the path [%s]", f.Name(), c.Pos(ce.Pos()), kind, e.Name(), strings.Join(st.dec, ", "))})
					}
				}
				return true
			})
		}
		w := &Walker[*actxImpState]{Clone: actxImpClone}
		w.IsPanic = func(s ast.Stmt) bool { return IsPanicCall(info, s) }
		w.OnRange = func(st *actxImpState, r *ast.RangeStmt) (*actxImpState, bool) {
			st.reported, st.resolved = false, false
			return st, true
		}
		w.OnCond = func(st *actxImpState, cond ast.Expr, taken bool) (*actxImpState, bool) {
			handle(st, cond)
			if t, ok := tests[cond]; ok {
				if taken == t.okOn || t.errs {
					// either the entity is pub, or the failing side reports
					st.tested[t.obj] = true
				}
			}
			st.dec = append(st.dec, fmt.Sprintf("%s=%v", exprStr(cond), taken))
			if len(st.dec) > 10 {
				st.dec = st.dec[len(st.dec)-10:]
			}
			return st, true
		}
		w.OnCase = func(st *actxImpState, sw *ast.SwitchStmt, vals, others []ast.Expr) (*actxImpState, bool) {
			return st, true
		}
		w.OnStmt = func(st *actxImpState, s ast.Stmt) (*actxImpState, bool) {
			if as, ok := s.(*ast.AssignStmt); ok && len(as.Rhs) == 1 && len(as.Lhs) == 1 && actxIsSyntaxErrSink(info, as.Lhs[0]) {
				st.reported = true
			}
			if as, ok := s.(*ast.AssignStmt); ok && len(as.Rhs) == 1 && isModuleVar(as.Rhs[0]) {
				// entity lookup in the imported module
				if id, ok := as.Lhs[0].(*ast.Ident); ok {
					obj := info.Defs[id]
					if obj == nil {
						obj = info.Uses[id]
					}
					if obj != nil {
						kind := actxEntityKind(obj.Type())
						st.ent[obj] = kind
						delete(st.tested, obj)
					}
				}
			}
			// `copy.IsPub = false`: the copy is made private
			if as, ok := s.(*ast.AssignStmt); ok && len(as.Lhs) == len(as.Rhs) {
				for i, l := range as.Lhs {
					if sel, ok := l.(*ast.SelectorExpr); ok && sel.Sel.Name == "IsPub" {
						if id, ok := ast.Unparen(sel.X).(*ast.Ident); ok {
							if _, isCopy := st.pubCopy[info.Uses[id]]; isCopy {
								tv := info.Types[as.Rhs[i]]
								st.pubCopy[info.Uses[id]] = !(tv.Value != nil && tv.Value.String() == "false")
							}
						}
					}
				}
			}
			// a local computed from an entity (`imported := *typ`, `wrapper := newTypeWrapper(typ.Type…)`,
			// `typeHere := typ.Type.SetSpan(…)`) carries that entity into whatever it is handed to
			if as, ok := s.(*ast.AssignStmt); ok && len(as.Lhs) == len(as.Rhs) {
				for i, l := range as.Lhs {
					id, ok := l.(*ast.Ident)
					if !ok || id.Name == "_" {
						continue
					}
					obj := info.Defs[id]
					if obj == nil {
						obj = info.Uses[id]
					}
					if obj == nil {
						continue
					}
					if _, isEnt := st.ent[obj]; isEnt && len(as.Rhs) == 1 && isModuleVar(as.Rhs[0]) {
						continue // the lookup itself (handled above)
					}
					var root types.Object
					ast.Inspect(as.Rhs[i], func(y ast.Node) bool {
						if rid, ok := y.(*ast.Ident); ok && root == nil {
							o := info.Uses[rid]
							if r2, isDer := st.der[o]; isDer {
								o = r2
							}
							if _, isEnt := st.ent[o]; isEnt && o != obj {
								root = o
							}
						}
						return root == nil
					})
					if root != nil {
						if st.der == nil {
							st.der = map[types.Object]types.Object{}
						}
						st.der[obj] = root
					} else if st.der != nil {
						delete(st.der, obj)
					}
					// a plain copy of the entity record (`x := *typ` / `x := val`) that carries IsPub
					if st.pubCopy != nil {
						delete(st.pubCopy, obj)
					}
					rhs := ast.Unparen(as.Rhs[i])
					if se, isStar := rhs.(*ast.StarExpr); isStar {
						rhs = ast.Unparen(se.X)
					}
					if rid, isId := rhs.(*ast.Ident); isId && root != nil && info.Uses[rid] == root && pubAttr(obj.Type()) == "IsPub" {
						if st.pubCopy == nil {
							st.pubCopy = map[types.Object]bool{}
						}
						st.pubCopy[obj] = true
					}
				}
			}
			// entity supplied by the host (builtin module): x, …, … := self.host.<Get…>(…)
			if as, ok := s.(*ast.AssignStmt); ok && len(as.Rhs) == 1 {
				if ce, ok := as.Rhs[0].(*ast.CallExpr); ok {
					if sel, ok := ce.Fun.(*ast.SelectorExpr); ok && types.IsInterface(info.TypeOf(sel.X)) && rootedAtRecv(sel.X) {
						if id, ok := as.Lhs[0].(*ast.Ident); ok && id.Name != "_" {
							obj := info.Defs[id]
							if obj == nil {
								obj = info.Uses[id]
							}
							if obj != nil && actxCompound(obj.Type()) {
								st.ent[obj] = "builtin"
							}
						}
					}
				}
			}
			if _, isRet := s.(*ast.ReturnStmt); !isRet {
				handle(st, s)
			}
			return st, true
		}
		w.OnLoopIter = func(loop ast.Stmt, before, after *actxImpState) {
			rs, ok := loop.(*ast.RangeStmt)
			if !ok || !strings.HasSuffix(exprStr(rs.X), "ToImport") {
				return
			}
			if !after.resolved && !after.reported {
				bad = append(bad, finding{key: "silent item", pos: rs.Pos(),
					detail: fmt.Sprintf("an iteration over the requested items at %s neither records a resolved entity nor reports a diagnostic [%s]", c.Pos(rs.Pos()), strings.Join(after.dec, ", "))})
			}
		}
		w.Exit = func(st *actxImpState, o outcome) {
			if o.ret == nil {
				return
			}
			for _, r := range o.ret.Results {
				if ce, ok := ast.Unparen(r).(*ast.CallExpr); ok {
					if f := CalleeOf(info, ce); f != nil {
						for _, h := range abandon {
							if h.Name.Name == f.Name() {
								nret++
								if !st.reported {
									bad = append(bad, finding{key: "silent failure", pos: o.ret.Pos(),
										detail: fmt.Sprintf("return through %s at %s (import abandoned) without a diagnostic on the path [%s]", f.Name(), c.Pos(o.ret.Pos()), strings.Join(st.dec, ", "))})
								}
							}
						}
					}
				}
			}
		}
		w.Run(cur.Body, &actxImpState{ent: map[types.Object]string{}, tested: map[types.Object]bool{}})
		if w.Overflow || len(w.Unsupported) > 0 {
			pathsIncomplete = true
		}
	}
	for _, wfd := range walked {
		walkOne(wfd)
	}
	if pathsIncomplete {
		out = append(out, Obligation{Key: fname + "|<paths>", Pos: c.Pos(imp.Pos()), Status: Undecided, Detail: "path enumeration incomplete"})
	}
	// one obligation per entity kind that carries visibility
	byKey := map[string][]finding{}
	for _, b := range bad {
		byKey[b.key] = append(byKey[b.key], b)
	}
	for _, kind := range []string{"type", "function", "variable"} {
		ob := Obligation{Key: fname + "|pub test before recording an imported " + kind, Pos: c.Pos(imp.Pos()), Nontrivial: true}
		if fs := byKey[kind+" is recorded without a pub test"]; len(fs) > 0 {
			ob.Status, ob.Detail, ob.Pos = Violated, fs[0].detail, c.Pos(fs[0].pos)
		} else if okKinds[kind] == 0 {
			ob.Status, ob.Detail = Undecided, "no path records an imported "+kind+" looked up in the imported module: anchor moved"
		} else {
			ob.Status, ob.Detail = Discharged, fmt.Sprintf("on all %d recording paths the %s's pub attribute was tested and the non-pub side reports an error", okKinds[kind], kind)
		}
		out = append(out, ob)
	}
	if ncopy > 0 {
		ob := Obligation{Key: fname + "|copied scope entry|pub flag", Pos: c.Pos(imp.Pos()), Nontrivial: true, Status: Discharged,
			Detail: "every scope entry made by copying a record of the imported module has its IsPub reset to the constant false before it is recorded"}
		if fs := byKey["copied entry keeps pub"]; len(fs) > 0 {
			ob.Status, ob.Detail, ob.Pos = Violated, fs[0].detail, c.Pos(fs[0].pos)
		}
		out = append(out, ob)
	}
	for _, k := range []string{"silent item", "silent failure"} {
		ob := Obligation{Key: fname + "|" + k, Pos: c.Pos(imp.Pos()), Nontrivial: true, Status: Discharged}
		if k == "silent item" {
			ob.Detail = "every iteration over the requested items records a resolved entity or reports"
		} else {
			ob.Detail = fmt.Sprintf("all %d returns that abandon the import are preceded by a diagnostic", nret)
		}
		if fs := byKey[k]; len(fs) > 0 {
			ob.Status, ob.Detail, ob.Pos = Violated, fs[0].detail, c.Pos(fs[0].pos)
		}
		out = append(out, ob)
	}
	// cycle test reports: the import method calls the function that walks the import graph
	// (it reads Module.ImportsModules, transitively); the branch taken when its boolean result
	// is true must report
	cyc := Obligation{Key: fname + "|cycle reported", Pos: c.Pos(imp.Pos()), Status: Undecided, Detail: "no call of the import-graph cycle test (a function reading Module.ImportsModules with a boolean result) found", Nontrivial: true}
	var cycObj types.Object
	var cycFn *types.Func
	ast.Inspect(imp.Body, func(n ast.Node) bool {
		as, ok := n.(*ast.AssignStmt)
		if !ok || len(as.Rhs) != 1 {
			return true
		}
		ce, ok := ast.Unparen(as.Rhs[0]).(*ast.CallExpr)
		if !ok {
			return true
		}
		f := CalleeOf(info, ce)
		if f == nil || f.Pkg() != p.Types || !actxReadsField(p, f, "ImportsModules", 3, map[*types.Func]bool{}) {
			return true
		}
		for _, l := range as.Lhs {
			id, ok := l.(*ast.Ident)
			if !ok || id.Name == "_" {
				continue
			}
			obj := info.Defs[id]
			if obj == nil {
				obj = info.Uses[id]
			}
			if obj != nil {
				if bt, ok := obj.Type().Underlying().(*types.Basic); ok && bt.Kind() == types.Bool {
					cycObj, cycFn = obj, f
					cyc.Pos = c.Pos(as.Pos())
				}
			}
		}
		return true
	})
	if cycObj != nil {
		cyc.Status, cyc.Detail = Violated, "the positive branch of the import-cycle test does not report an error"
		ast.Inspect(imp.Body, func(n ast.Node) bool {
			ifs, ok := n.(*ast.IfStmt)
			if !ok {
				return true
			}
			cond := ast.Unparen(ifs.Cond)
			neg := false
			if u, ok := cond.(*ast.UnaryExpr); ok && u.Op == token.NOT {
				neg, cond = true, ast.Unparen(u.X)
			}
			id, ok := cond.(*ast.Ident)
			if !ok || info.Uses[id] != cycObj {
				return true
			}
			var side ast.Node = ifs.Body
			if neg {
				side = ifs.Else
			}
			if side != nil && reports(side) {
				cyc.Status, cyc.Detail = Discharged, fmt.Sprintf("the branch taken when %s(…) finds a cycle reports an error", cycFn.Name())
			}
			return true
		})
	}
	out = append(out, cyc)
	return out
}

// ---------------------------------------------------------------------------

func actxImportCompiler(c *Ctx) []Obligation {
	p := c.Pkg("homescript/compiler")
	info := p.TypesInfo
	// a local that is a plain copy of another variable (`moduleName, module := name, analyzed`,
	// assigned exactly once) stands for that variable
	alias := actxCopyAliases(p)
	use := func(id *ast.Ident) types.Object {
		o := info.Uses[id]
		for i := 0; i < 6 && o != nil; i++ {
			n, ok := alias[o]
			if !ok {
				break
			}
			o = n
		}
		return o
	}
	var out []Obligation
	// anchor: the Compiler method taking the whole program (map[string]AnalyzedProgram)
	// When the lowering is split over several such methods, the anchor is the one the others are
	// called from (the helpers are followed from it).
	var cp *ast.FuncDecl
	var progParam types.Object
	type cand struct {
		fd   *ast.FuncDecl
		prog types.Object
	}
	var cands []cand
	for _, fd := range AllFuncDecls(p) {
		if fd.Recv == nil || recvTypeName(fd.Recv.List[0].Type) != "Compiler" {
			continue
		}
		for _, f := range fd.Type.Params.List {
			if mt, ok := info.TypeOf(f.Type).Underlying().(*types.Map); ok {
				if n, ok := mt.Elem().(*types.Named); ok && n.Obj().Name() == "AnalyzedProgram" && len(f.Names) > 0 {
					cands = append(cands, cand{fd, info.Defs[f.Names[0]]})
				}
			}
		}
	}
	sort.Slice(cands, func(i, j int) bool { return FuncName(cands[i].fd) < FuncName(cands[j].fd) })
	for _, k := range cands {
		calledByOther := false
		for _, o := range cands {
			if o.fd == k.fd {
				continue
			}
			ast.Inspect(o.fd.Body, func(n ast.Node) bool {
				if ce, ok := n.(*ast.CallExpr); ok {
					if g := CalleeOf(info, ce); g != nil && info.Defs[k.fd.Name] == types.Object(g) {
						calledByOther = true
					}
				}
				return true
			})
		}
		if !calledByOther && cp == nil {
			cp, progParam = k.fd, k.prog
		}
	}
	if cp == nil {
		return []Obligation{{Key: "homescript/compiler|program lowering", Status: Undecided, Detail: "no Compiler method takes map[string]AnalyzedProgram"}}
	}
	fname := "homescript/compiler." + FuncName(cp)
	// collections that receive one init function per module: C[k] = v inside `for k, _ := range program`, v built from InitFunctionIdent
	// the name of the init function: the value of the exported constant InitFunctionIdent, written as the constant or as a literal
	var initVal string
	if k, ok := p.Types.Scope().Lookup("InitFunctionIdent").(*types.Const); ok {
		initVal = k.Val().ExactString()
	}
	if initVal == "" {
		return []Obligation{{Key: fname + "|per-module init table", Pos: c.Pos(cp.Pos()), Status: Undecided, Detail: "constant compiler.InitFunctionIdent not found"}}
	}
	mentionsInit := func(e ast.Expr) bool {
		found := false
		ast.Inspect(e, func(n ast.Node) bool {
			if x, ok := n.(ast.Expr); ok {
				if tv, ok := info.Types[x]; ok && tv.Value != nil && tv.Value.ExactString() == initVal {
					found = true
				}
			}
			return !found
		})
		return found
	}
	// parameters of the program-lowering method (the entry module's name is one of them)
	curDecl := cp
	isParam := func(id *ast.Ident) bool {
		for _, f := range curDecl.Type.Params.List {
			for _, nm := range f.Names {
				if info.Defs[nm] != nil && info.Defs[nm] == use(id) {
					return true
				}
			}
		}
		return false
	}
	// fillsInitTable: the tables that the statement list fills, unconditionally (top-level
	// statements), under the given key with a value built from the init function's name:
	// `v := f(<init name>)` … `T[key] = v`, directly or in a helper of the package that receives the
	// key and the table as arguments (two levels).
	var fillsInitTable func(list []ast.Stmt, key types.Object, depth int) []types.Object
	fillsInitTable = func(list []ast.Stmt, key types.Object, depth int) []types.Object {
		var tables []types.Object
		initVars := map[types.Object]bool{}
		for _, s := range list {
			switch x := s.(type) {
			case *ast.AssignStmt:
				if len(x.Lhs) != 1 || len(x.Rhs) != 1 {
					continue
				}
				if lid, ok := x.Lhs[0].(*ast.Ident); ok {
					if mentionsInit(x.Rhs[0]) {
						if o := info.Defs[lid]; o != nil {
							initVars[o] = true
						}
					}
				}
				if ix, ok := x.Lhs[0].(*ast.IndexExpr); ok {
					cid, ok1 := ast.Unparen(ix.X).(*ast.Ident)
					k, ok2 := ast.Unparen(ix.Index).(*ast.Ident)
					val, ok3 := ast.Unparen(x.Rhs[0]).(*ast.Ident)
					if ok1 && ok2 && ok3 && use(k) == key && initVars[use(val)] {
						tables = append(tables, use(cid))
					}
				}
			case *ast.ExprStmt:
				ce, ok := x.X.(*ast.CallExpr)
				if !ok || depth >= 2 {
					continue
				}
				gd := actxDeclOfFunc(p, CalleeOf(info, ce))
				if gd == nil {
					continue
				}
				// parameters of the helper, positionally
				var params []types.Object
				for _, fl := range gd.Type.Params.List {
					for _, nm := range fl.Names {
						params = append(params, info.Defs[nm])
					}
				}
				keyParam := types.Object(nil)
				for i, a := range ce.Args {
					if id, ok := ast.Unparen(a).(*ast.Ident); ok && i < len(params) && use(id) == key {
						keyParam = params[i]
					}
				}
				if keyParam == nil {
					continue
				}
				for _, t := range fillsInitTable(gd.Body.List, keyParam, depth+1) {
					for i, a := range ce.Args {
						if i < len(params) && params[i] == t {
							if id, ok := ast.Unparen(a).(*ast.Ident); ok {
								tables = append(tables, use(id))
							}
						}
					}
				}
			}
		}
		return tables
	}
	perModule := map[types.Object]bool{}
	ast.Inspect(cp.Body, func(n ast.Node) bool {
		rs, ok := n.(*ast.RangeStmt)
		if !ok {
			return true
		}
		id, ok := ast.Unparen(rs.X).(*ast.Ident)
		if !ok || use(id) != progParam {
			return true
		}
		kid, _ := rs.Key.(*ast.Ident)
		if kid == nil {
			return true
		}
		kobj := info.Defs[kid]
		// top-level statements of the loop body only: unconditional. The body may be a helper that
		// is handed the key and the table (`self.registerModule(name, module, …, initFns, …)`).
		for _, t := range fillsInitTable(rs.Body.List, kobj, 0) {
			perModule[t] = true
		}
		return true
	})
	if len(perModule) == 0 {
		out = append(out, Obligation{Key: fname + "|per-module init table", Pos: c.Pos(cp.Pos()), Status: Undecided, Detail: "no collection receives one @init function per module of the program"})
	}
	// every Call_Imm emission in this function — and in the helpers it hands the per-module
	// init table to (the table parameter of the helper then stands for the table)
	ncall := 0
	curDecl = cp
	var scan func(body *ast.BlockStmt)
	scan = func(body *ast.BlockStmt) {
		var stack []ast.Node
		ast.Inspect(body, func(n ast.Node) bool {
			if n == nil {
				stack = stack[:len(stack)-1]
				return true
			}
			stack = append(stack, n)
			ce, ok := n.(*ast.CallExpr)
			if !ok || len(ce.Args) < 2 {
				return true
			}
			if k := ConstOf(info, ce.Args[0]); k == nil || k.Name() != "Opcode_Call_Imm" {
				return true
			}
			ncall++
			ob := Obligation{Key: fmt.Sprintf("%s|Call_Imm #%d targets every module's @init", fname, ncall), Pos: c.Pos(ce.Pos()), Nontrivial: true}
			tid, _ := ast.Unparen(ce.Args[1]).(*ast.Ident)
			var loop *ast.RangeStmt
			for i := len(stack) - 1; i >= 0; i-- {
				if rs, ok := stack[i].(*ast.RangeStmt); ok && tid != nil {
					if vid, ok := rs.Value.(*ast.Ident); ok && info.Defs[vid] == use(tid) {
						loop = rs
						break
					}
				}
			}
			// alternative idiom: target looked up by key, `t[, ok] := C[k]`, k ranging over all modules
			lookupWhy := ""
			if loop == nil && tid != nil {
				var ix *ast.IndexExpr
				ast.Inspect(body, func(x ast.Node) bool {
					if as, ok := x.(*ast.AssignStmt); ok && len(as.Rhs) == 1 && len(as.Lhs) >= 1 {
						if lid, ok := as.Lhs[0].(*ast.Ident); ok && (info.Defs[lid] == use(tid) || use(lid) == use(tid)) {
							if e, ok := ast.Unparen(as.Rhs[0]).(*ast.IndexExpr); ok {
								ix = e
							}
						}
					}
					return true
				})
				if ix != nil {
					cid, _ := ast.Unparen(ix.X).(*ast.Ident)
					if cid == nil || !perModule[use(cid)] {
						lookupWhy = "the call target is looked up in " + exprStr(ix.X) + ", which does not hold one init function per module"
					} else {
						// which loop produces the key?
						var keyLoop *ast.RangeStmt
						for i := len(stack) - 1; i >= 0 && keyLoop == nil; i-- {
							rs, ok := stack[i].(*ast.RangeStmt)
							if !ok {
								continue
							}
							ast.Inspect(ix.Index, func(y ast.Node) bool {
								if id, ok := y.(*ast.Ident); ok {
									for _, kv := range []ast.Expr{rs.Key, rs.Value} {
										if kid, ok := kv.(*ast.Ident); ok && info.Defs[kid] != nil && info.Defs[kid] == use(id) {
											keyLoop = rs
										}
									}
								}
								return true
							})
						}
						allModules := func(e ast.Expr) bool {
							id, ok := ast.Unparen(e).(*ast.Ident)
							if !ok {
								return false
							}
							o := use(id)
							if o == progParam || perModule[o] {
								return true
							}
							// a slice filled with every key of the program / init table (sorted-names idiom)
							okAll := false
							ast.Inspect(body, func(y ast.Node) bool {
								rs, ok := y.(*ast.RangeStmt)
								if !ok {
									return true
								}
								rid, ok := ast.Unparen(rs.X).(*ast.Ident)
								if !ok || !(use(rid) == progParam || perModule[use(rid)]) {
									return true
								}
								kid, _ := rs.Key.(*ast.Ident)
								for _, st := range rs.Body.List {
									if as, ok := st.(*ast.AssignStmt); ok && len(as.Lhs) == 1 && len(as.Rhs) == 1 {
										if lid, ok := as.Lhs[0].(*ast.Ident); ok && use(lid) == o && kid != nil {
											if call, ok := as.Rhs[0].(*ast.CallExpr); ok && len(call.Args) == 2 {
												if aid, ok := call.Args[1].(*ast.Ident); ok && use(aid) == info.Defs[kid] {
													okAll = true
												}
											}
										}
									}
								}
								return true
							})
							return okAll
						}
						switch {
						case keyLoop == nil:
							lookupWhy = "the key " + exprStr(ix.Index) + " of the init-table lookup does not come from an enclosing range loop"
						case !allModules(keyLoop.X):
							lookupWhy = fmt.Sprintf("the @init calls are emitted for the keys produced by ranging over %s, not over all modules of the program: modules that are only reachable transitively (or not imported by the entry module at all) are never initialised", exprStr(keyLoop.X))
						default:
							loop = nil
							ob.Status, ob.Detail = Discharged, fmt.Sprintf("targets are looked up in %s for every key of %s (all modules)", cid.Name, exprStr(keyLoop.X))
							out = append(out, ob)
							return true
						}
					}
				}
			}
			switch {
			case lookupWhy != "":
				ob.Status, ob.Detail = Violated, lookupWhy
			case tid == nil || loop == nil:
				ob.Status, ob.Detail = Violated, "the call target "+exprStr(ce.Args[1])+" is neither the value variable of an enclosing range loop nor looked up in the per-module init table"
			default:
				cid, _ := ast.Unparen(loop.X).(*ast.Ident)
				if cid == nil || !perModule[use(cid)] {
					ob.Status = Violated
					ob.Detail = fmt.Sprintf("the loop that emits the @init calls ranges over %s, which does not hold one init function per module of the program (modules reachable only transitively, or not imported by the entry module, are never initialised)", exprStr(loop.X))
				} else {
					// skips: only `if key == entry { continue }` before the emission
					var why []string
					kid, _ := loop.Key.(*ast.Ident)
					ast.Inspect(loop.Body, func(x ast.Node) bool {
						ifs, ok := x.(*ast.IfStmt)
						if !ok || ifs.Pos() > ce.Pos() {
							return true
						}
						hasJump := false
						ast.Inspect(ifs.Body, func(y ast.Node) bool {
							if _, ok := y.(*ast.BranchStmt); ok {
								hasJump = true
							}
							return true
						})
						inBody := ce.Pos() >= ifs.Body.Pos() && ce.End() <= ifs.Body.End()
						if !hasJump && !inBody {
							return true
						}
						be, ok := ast.Unparen(ifs.Cond).(*ast.BinaryExpr)
						okCond := false
						if ok && (be.Op == token.EQL || be.Op == token.NEQ) && kid != nil {
							x1, _ := ast.Unparen(be.X).(*ast.Ident)
							y1, _ := ast.Unparen(be.Y).(*ast.Ident)
							// the loop key compared with a parameter of the method (the entry module's name)
							keyVsParam := x1 != nil && y1 != nil &&
								((use(x1) == info.Defs[kid] && isParam(y1)) || (use(y1) == info.Defs[kid] && isParam(x1)))
							switch {
							case keyVsParam && be.Op == token.EQL && hasJump && !inBody:
								okCond = true // `if key == entry { continue }` before the emission
							case keyVsParam && be.Op == token.NEQ && inBody && !hasJump:
								okCond = true // `if key != entry { emit }`
							}
						}
						if !okCond {
							why = append(why, "the emission is conditional on `"+exprStr(ifs.Cond)+"`")
						}
						return true
					})
					if len(why) > 0 {
						ob.Status, ob.Detail = Violated, strings.Join(why, "; ")
					} else {
						ob.Status, ob.Detail = Discharged, fmt.Sprintf("emitted for every entry of %s (one @init per module of the program, filled unconditionally in the first pass) except the entry module itself", cid.Name)
					}
				}
			}
			out = append(out, ob)
			return true
		})
	}
	scan(cp.Body)
	ast.Inspect(cp.Body, func(n ast.Node) bool {
		ce, ok := n.(*ast.CallExpr)
		if !ok {
			return true
		}
		g := CalleeOf(info, ce)
		gd := actxDeclOfFunc(p, g)
		if gd == nil || gd == cp {
			return true
		}
		handed := false
		idx := 0
		for _, fl := range gd.Type.Params.List {
			for _, nm := range fl.Names {
				if idx < len(ce.Args) {
					if id, ok := ast.Unparen(ce.Args[idx]).(*ast.Ident); ok && perModule[use(id)] {
						perModule[info.Defs[nm]] = true
						handed = true
					}
				}
				idx++
			}
		}
		if handed {
			curDecl = gd
			scan(gd.Body)
			curDecl = cp
		}
		return true
	})
	if ncall == 0 {
		out = append(out, Obligation{Key: fname + "|Call_Imm to module inits", Pos: c.Pos(cp.Pos()), Status: Violated, Detail: "the entry @init never calls another module's @init"})
	}
	// (5) function lookup keyed by module
	nl := 0
	for _, fd := range AllFuncDecls(p) {
		if fd.Recv == nil || recvTypeName(fd.Recv.List[0].Type) != "Compiler" {
			continue
		}
		var rets []*ast.ReturnStmt
		ast.Inspect(fd.Body, func(n ast.Node) bool {
			if rs, ok := n.(*ast.ReturnStmt); ok && len(rs.Results) >= 1 && strings.HasSuffix(exprStr(rs.Results[0]), ".MangledName") {
				rets = append(rets, rs)
			}
			return true
		})
		if len(rets) == 0 {
			continue
		}
		sort.Slice(rets, func(i, j int) bool { return rets[i].Pos() < rets[j].Pos() })
		for i, rs := range rets {
			nl++
			ob := Obligation{Key: fmt.Sprintf("homescript/compiler.%s|lookup result #%d keyed by module", FuncName(fd), i+1), Pos: c.Pos(rs.Pos()), Nontrivial: true}
			// enclosing range loops
			var all *ast.RangeStmt
			ast.Inspect(fd.Body, func(n ast.Node) bool {
				r, ok := n.(*ast.RangeStmt)
				if !ok || rs.Pos() < r.Body.Pos() || rs.End() > r.Body.End() {
					return true
				}
				if sel, ok := ast.Unparen(r.X).(*ast.SelectorExpr); ok {
					if mt, ok := info.TypeOf(sel).Underlying().(*types.Map); ok {
						if _, nested := mt.Elem().Underlying().(*types.Map); nested {
							all = r // ranges over the map of all modules
						}
					}
				}
				return true
			})
			if all != nil {
				ob.Status = Violated
				ob.Detail = fmt.Sprintf("returns the first function with a matching name found while ranging over all modules (%s, a Go map: iteration order is random): a name defined in two modules resolves to an arbitrary one, regardless of which module the caller imported it from", exprStr(all.X))
			} else {
				ob.Status, ob.Detail = Discharged, "the match is searched in a single module's table"
			}
			out = append(out, ob)
		}
	}
	if nl == 0 {
		out = append(out, Obligation{Key: "homescript/compiler|function lookup", Status: Undecided, Detail: "no Compiler method returns a .MangledName"})
	}
	return out
}

// ---------------------------------------------------------------------------
// anchors by role (no unexported names)

// actxErrReporters: the functions of the package that record an error-level
// diagnostic: they build a diagnostic.Diagnostic whose Level is the exported
// constant DiagnosticLevelError (directly, or through a helper that takes the
// level as a parameter), or they are thin wrappers that call such a function
// unconditionally.
func actxErrReporters(p *packages.Package) map[*types.Func]bool {
	info := p.TypesInfo
	isDiag := func(t types.Type) *types.Struct {
		n, ok := t.(*types.Named)
		if !ok || n.Obj().Name() != "Diagnostic" || n.Obj().Pkg() == nil || !strings.HasSuffix(n.Obj().Pkg().Path(), "/diagnostic") {
			return nil
		}
		st, _ := n.Underlying().(*types.Struct)
		return st
	}
	isErrLevel := func(e ast.Expr) bool {
		k := ConstOf(info, e)
		return k != nil && k.Name() == "DiagnosticLevelError"
	}
	direct := map[*types.Func]bool{}
	param := map[*types.Func]int{} // helper: level taken from parameter i
	decls := map[*types.Func]*ast.FuncDecl{}
	for _, fd := range AllFuncDecls(p) {
		fn, _ := info.Defs[fd.Name].(*types.Func)
		if fn == nil {
			continue
		}
		decls[fn] = fd
		sig := fn.Type().(*types.Signature)
		// only unconditional (top-level, straight-line) statements of the body count:
		// a function that may report somewhere inside is not a reporter
		straight := actxAlwaysExecuted(fd.Body, false)
		inspect := func(f func(ast.Node) bool) {
			for _, st := range straight {
				ast.Inspect(st, f)
			}
		}
		inspect(func(n ast.Node) bool {
			if _, isLit := n.(*ast.FuncLit); isLit {
				return false
			}
			cl, ok := n.(*ast.CompositeLit)
			if !ok {
				return true
			}
			st := isDiag(info.TypeOf(cl))
			if st == nil {
				return true
			}
			var lvl ast.Expr
			for i, el := range cl.Elts {
				if kv, ok := el.(*ast.KeyValueExpr); ok {
					if id, ok := kv.Key.(*ast.Ident); ok && id.Name == "Level" {
						lvl = kv.Value
					}
				} else if i < st.NumFields() && st.Field(i).Name() == "Level" {
					lvl = el
				}
			}
			if lvl == nil {
				return true
			}
			if isErrLevel(lvl) {
				direct[fn] = true
			} else if id, ok := ast.Unparen(lvl).(*ast.Ident); ok {
				for i := 0; i < sig.Params().Len(); i++ {
					if info.Uses[id] == sig.Params().At(i) {
						param[fn] = i
					}
				}
			}
			return true
		})
	}
	var ordered []*types.Func
	for fn := range decls {
		ordered = append(ordered, fn)
	}
	sort.Slice(ordered, func(i, j int) bool { return ordered[i].FullName() < ordered[j].FullName() })
	for round := 0; round < 3; round++ {
		for _, fn := range ordered {
			fd := decls[fn]
			if direct[fn] {
				continue
			}
			// level handed to a parametric helper (unconditionally)
			for _, st := range actxAlwaysExecuted(fd.Body, false) {
				ast.Inspect(st, func(n ast.Node) bool {
					if _, isLit := n.(*ast.FuncLit); isLit {
						return false
					}
					ce, ok := n.(*ast.CallExpr)
					if !ok {
						return true
					}
					g := CalleeOf(info, ce)
					if g == nil {
						return true
					}
					if i, ok := param[g]; ok && i < len(ce.Args) && isErrLevel(ce.Args[i]) {
						direct[fn] = true
					}
					return true
				})
			}
			// thin wrapper: an unconditional top-level call of a reporter
			for _, st := range actxAlwaysExecuted(fd.Body, false) {
				if es, ok := st.(*ast.ExprStmt); ok {
					if ce, ok := es.X.(*ast.CallExpr); ok {
						if g := CalleeOf(info, ce); g != nil && g != fn && direct[g] {
							direct[fn] = true
						}
					}
				}
			}
		}
	}
	return direct
}

// actxIsSyntaxErrSink: e is a field (of the analysis context) holding the
// collected syntax errors: a slice of errors.Error.
func actxIsSyntaxErrSink(info *types.Info, e ast.Expr) bool {
	sel, ok := ast.Unparen(e).(*ast.SelectorExpr)
	if !ok {
		return false
	}
	s := info.Selections[sel]
	if s == nil || s.Kind() != types.FieldVal {
		return false
	}
	sl, ok := s.Type().Underlying().(*types.Slice)
	if !ok {
		return false
	}
	n, ok := sl.Elem().(*types.Named)
	return ok && n.Obj().Name() == "Error" && n.Obj().Pkg() != nil && strings.HasSuffix(n.Obj().Pkg().Path(), "/errors")
}

func actxDeclOfFunc(p *packages.Package, f *types.Func) *ast.FuncDecl {
	if f == nil || f.Pkg() != p.Types {
		return nil
	}
	for _, d := range AllFuncDecls(p) {
		if p.TypesInfo.Defs[d.Name] == types.Object(f) {
			return d
		}
	}
	return nil
}

// actxPubParam: the index of the parameter of a scope-entry constructor that
// becomes the exported IsPub attribute of the entry it builds (-1: none).
func actxPubParam(p *packages.Package, f *types.Func) int {
	fd := actxDeclOfFunc(p, f)
	if fd == nil {
		return -1
	}
	info := p.TypesInfo
	sig := f.Type().(*types.Signature)
	idx := -1
	paramOf := func(e ast.Expr) int {
		id, ok := ast.Unparen(e).(*ast.Ident)
		if !ok {
			return -1
		}
		for i := 0; i < sig.Params().Len(); i++ {
			if info.Uses[id] == sig.Params().At(i) {
				return i
			}
		}
		return -1
	}
	ast.Inspect(fd.Body, func(n ast.Node) bool {
		switch x := n.(type) {
		case *ast.KeyValueExpr:
			if id, ok := x.Key.(*ast.Ident); ok && id.Name == "IsPub" {
				if i := paramOf(x.Value); i >= 0 {
					idx = i
				}
			}
		case *ast.AssignStmt:
			if len(x.Lhs) == 1 && len(x.Rhs) == 1 {
				if sel, ok := x.Lhs[0].(*ast.SelectorExpr); ok && sel.Sel.Name == "IsPub" {
					if i := paramOf(x.Rhs[0]); i >= 0 {
						idx = i
					}
				}
			}
		}
		return true
	})
	return idx
}

// actxEntityKind classifies a value looked up in the imported module by its
// type: the record with a Modifier is a function, the exported Variable record
// a variable, any other record with an IsPub attribute a type; records
// without a visibility attribute are templates / triggers.
func actxEntityKind(t types.Type) string {
	if pt, ok := t.(*types.Pointer); ok {
		t = pt.Elem()
	}
	st, ok := t.Underlying().(*types.Struct)
	if !ok {
		return "entity"
	}
	hasPub, hasMod := false, false
	for i := 0; i < st.NumFields(); i++ {
		switch st.Field(i).Name() {
		case "IsPub":
			hasPub = true
		case "Modifier":
			hasMod = true
		}
	}
	name := ""
	if n, ok := t.(*types.Named); ok {
		name = n.Obj().Name()
	}
	switch {
	case hasPub && name == "Variable":
		return "variable"
	case hasPub:
		return "type"
	case hasMod:
		return "function"
	}
	return "entity"
}

// actxReadsField: f (transitively through static callees of the package,
// bounded) selects a struct field with the given exported name.
func actxReadsField(p *packages.Package, f *types.Func, field string, depth int, seen map[*types.Func]bool) bool {
	if f == nil || seen[f] {
		return false
	}
	seen[f] = true
	fd := actxDeclOfFunc(p, f)
	if fd == nil {
		return false
	}
	found := false
	ast.Inspect(fd.Body, func(n ast.Node) bool {
		switch x := n.(type) {
		case *ast.SelectorExpr:
			if s := p.TypesInfo.Selections[x]; s != nil && s.Kind() == types.FieldVal && x.Sel.Name == field {
				found = true
			}
		case *ast.CallExpr:
			if depth > 0 {
				if g := CalleeOf(p.TypesInfo, x); g != nil && actxReadsField(p, g, field, depth-1, seen) {
					found = true
				}
			}
		}
		return !found
	})
	return found
}

// actxPubAtom decides whether the condition atom e tests the visibility
// attribute of an entity variable, whatever its form: `E.IsPub`,
// `E.Modifier ==/!= <…PUB constant>`, a negation, a local that caches such a
// test (`isPub := …`, also in an if-initialiser), or a call of a helper
// predicate of the package whose single result is such a test of its
// parameter / receiver. pubWhen: the atom is true exactly when E is pub.
func actxPubAtom(p *packages.Package, info *types.Info, scope ast.Node, e ast.Expr, depth int) (ent types.Object, pubWhen bool, ok bool) {
	if depth > 4 {
		return nil, false, false
	}
	e = ast.Unparen(e)
	objOf := func(x ast.Expr) types.Object {
		if id, isId := ast.Unparen(x).(*ast.Ident); isId {
			return info.Uses[id]
		}
		return nil
	}
	switch x := e.(type) {
	case *ast.UnaryExpr:
		if x.Op == token.NOT {
			o, w, ok := actxPubAtom(p, info, scope, x.X, depth+1)
			return o, !w, ok
		}
	case *ast.SelectorExpr:
		if x.Sel.Name == "IsPub" {
			if o := objOf(x.X); o != nil {
				return o, true, true
			}
		}
	case *ast.BinaryExpr:
		if x.Op == token.EQL || x.Op == token.NEQ {
			for _, pair := range [][2]ast.Expr{{x.X, x.Y}, {x.Y, x.X}} {
				if sel, isSel := ast.Unparen(pair[0]).(*ast.SelectorExpr); isSel && sel.Sel.Name == "Modifier" {
					if k := ConstOf(info, pair[1]); k != nil && strings.Contains(k.Name(), "PUB") {
						if o := objOf(sel.X); o != nil {
							return o, x.Op == token.EQL, true
						}
					}
				}
			}
			// comparison of a cached flag with a boolean constant
			for _, pair := range [][2]ast.Expr{{x.X, x.Y}, {x.Y, x.X}} {
				if tv := info.Types[pair[1]]; tv.Value != nil && (tv.Value.String() == "true" || tv.Value.String() == "false") {
					if o, w, ok := actxPubAtom(p, info, scope, pair[0], depth+1); ok {
						same := (tv.Value.String() == "true") == (x.Op == token.EQL)
						return o, w == same, true
					}
				}
			}
		}
	case *ast.Ident:
		obj := info.Uses[x]
		if _, isVar := obj.(*types.Var); !isVar || scope == nil {
			return nil, false, false
		}
		// a local assigned exactly once
		var rhs ast.Expr
		n := 0
		ast.Inspect(scope, func(m ast.Node) bool {
			if as, isAs := m.(*ast.AssignStmt); isAs && len(as.Lhs) == len(as.Rhs) {
				for i, l := range as.Lhs {
					if id, isId := l.(*ast.Ident); isId && (info.Defs[id] == obj || info.Uses[id] == obj) {
						rhs = as.Rhs[i]
						n++
					}
				}
			}
			return true
		})
		if n == 1 {
			return actxPubAtom(p, info, scope, rhs, depth+1)
		}
	case *ast.CallExpr:
		f := CalleeOf(info, x)
		fd := actxDeclOfFunc(p, f)
		if fd == nil || fd.Body == nil || len(fd.Body.List) != 1 {
			return nil, false, false
		}
		ret, isRet := fd.Body.List[0].(*ast.ReturnStmt)
		if !isRet || len(ret.Results) != 1 {
			return nil, false, false
		}
		inner, w, ok := actxPubAtom(p, p.TypesInfo, nil, ret.Results[0], depth+1)
		if !ok || inner == nil {
			return nil, false, false
		}
		// which argument is the tested parameter / receiver?
		if fd.Recv != nil && len(fd.Recv.List) > 0 && len(fd.Recv.List[0].Names) > 0 && p.TypesInfo.Defs[fd.Recv.List[0].Names[0]] == inner {
			if sel, isSel := x.Fun.(*ast.SelectorExpr); isSel {
				if o := objOf(sel.X); o != nil {
					return o, w, true
				}
			}
			return nil, false, false
		}
		idx := 0
		for _, fl := range fd.Type.Params.List {
			for _, nm := range fl.Names {
				if p.TypesInfo.Defs[nm] == inner && idx < len(x.Args) {
					if o := objOf(x.Args[idx]); o != nil {
						return o, w, true
					}
				}
				idx++
			}
		}
	}
	return nil, false, false
}

// actxCopyAliases: local variables of the package's functions that are
// assigned exactly once, by a plain copy of another variable (positionally in
// a parallel assignment); the map leads from the copy to its source.
func actxCopyAliases(p *packages.Package) map[types.Object]types.Object {
	info := p.TypesInfo
	count := map[types.Object]int{}
	src := map[types.Object]types.Object{}
	for _, fd := range AllFuncDecls(p) {
		ast.Inspect(fd.Body, func(n ast.Node) bool {
			switch x := n.(type) {
			case *ast.AssignStmt:
				for i, l := range x.Lhs {
					id, ok := l.(*ast.Ident)
					if !ok || id.Name == "_" {
						continue
					}
					o := info.Defs[id]
					if o == nil {
						o = info.Uses[id]
					}
					if o == nil {
						continue
					}
					count[o]++
					if len(x.Lhs) == len(x.Rhs) && (x.Tok == token.DEFINE || x.Tok == token.ASSIGN) {
						if rid, ok := ast.Unparen(x.Rhs[i]).(*ast.Ident); ok {
							if r, isVar := info.Uses[rid].(*types.Var); isVar && !r.IsField() {
								src[o] = r
								continue
							}
						}
					}
					count[o]++ // not a plain copy
				}
			case *ast.IncDecStmt:
				if id, ok := x.X.(*ast.Ident); ok {
					if o := info.Uses[id]; o != nil {
						count[o] += 2
					}
				}
			case *ast.RangeStmt:
				if x.Tok == token.ASSIGN {
					for _, e := range []ast.Expr{x.Key, x.Value} {
						if id, ok := e.(*ast.Ident); ok {
							if o := info.Uses[id]; o != nil {
								count[o] += 2
							}
						}
					}
				}
			case *ast.UnaryExpr:
				if x.Op == token.AND {
					if id, ok := ast.Unparen(x.X).(*ast.Ident); ok {
						if o := info.Uses[id]; o != nil {
							count[o] += 2 // address taken: may be written elsewhere
						}
					}
				}
			}
			return true
		})
	}
	out := map[types.Object]types.Object{}
	for o, r := range src {
		// the copy is written once and its source is never reassigned after being declared
		if count[o] == 1 && count[r] <= 1 {
			if v, ok := o.(*types.Var); ok && !v.IsField() && v.Parent() != nil && v.Parent() != v.Pkg().Scope() {
				out[o] = r
			}
		}
	}
	return out
}
