package main

import (
	"fmt"
	"go/ast"
	"go/token"
	"go/types"
	"sort"
	"strings"
)

func init() {
	register(&Rule{ID: "R-import-visibility", Floor: 14, Run: ruleImportVisibility,
		Doc: "module rules of C15. Analyzer import resolution (the Analyzer method that calls HostProvider.ResolveCodeModule): (1) on every path, an entity looked up in the *imported* module (type, function, variable: the kinds that carry a pub attribute) is recorded in the importing module only after a test of that attribute whose failing side reports an error; (2) every scope entry the import code creates (NewVar / newTypeWrapper in importItem and its dummy-field helper) is created with the pub flag being the constant false — an imported name that is itself pub could be imported again from the importing module, so visibility would leak through modules that never declared the item pub; (3) every loop iteration over the requested items either records a resolved entity or reports a diagnostic, every return through the dummy-field helper is preceded by a report, and a positive cycle test reports. Compiler: (4) the entry module's @init calls the @init of every module: each emitted Call_Imm in compileProgram takes its target from a range over the collection that receives one init function per module of the program; the only skipped entry is the entry module itself; (5) function lookup by name is keyed by module: no lookup returns the first match of a search across all modules."})
}

func ruleImportVisibility(c *Ctx) []Obligation {
	var out []Obligation
	out = append(out, actxImportAnalyzer(c)...)
	out = append(out, actxImportCompiler(c)...)
	return out
}

type actxImpState struct {
	ent      map[types.Object]string // local → entity kind ("type","function","variable","template","trigger") looked up in the imported module
	tested   map[types.Object]bool   // pub attribute tested with an error on the failing side
	reported bool
	resolved bool
	dec      []string
}

func actxImpClone(s *actxImpState) *actxImpState {
	n := &actxImpState{ent: map[types.Object]string{}, tested: map[types.Object]bool{}, reported: s.reported, resolved: s.resolved}
	for k, v := range s.ent {
		n.ent[k] = v
	}
	for k, v := range s.tested {
		n.tested[k] = v
	}
	n.dec = append([]string(nil), s.dec...)
	return n
}

func actxImportAnalyzer(c *Ctx) []Obligation {
	p := c.Pkg("homescript/analyzer")
	info := p.TypesInfo
	var out []Obligation
	// anchor: the method that resolves code modules through the host
	var imp *ast.FuncDecl
	for _, fd := range AllFuncDecls(p) {
		if fd.Recv == nil || recvTypeName(fd.Recv.List[0].Type) != "Analyzer" {
			continue
		}
		ast.Inspect(fd.Body, func(n ast.Node) bool {
			if ce, ok := n.(*ast.CallExpr); ok {
				if sel, ok := ce.Fun.(*ast.SelectorExpr); ok && sel.Sel.Name == "ResolveCodeModule" {
					imp = fd
				}
			}
			return true
		})
	}
	if imp == nil {
		return []Obligation{{Key: "homescript/analyzer|import resolution", Status: Undecided, Detail: "no Analyzer method calls HostProvider.ResolveCodeModule"}}
	}
	fname := "homescript/analyzer." + FuncName(imp)
	// helper(s) called from it that also create scope entries (importDummyFields)
	helpers := []*ast.FuncDecl{imp}
	ast.Inspect(imp.Body, func(n ast.Node) bool {
		if ce, ok := n.(*ast.CallExpr); ok {
			if f := CalleeOf(info, ce); f != nil && f.Pkg() == p.Types {
				if fd := FuncDecl(p, "Analyzer", f.Name()); fd != nil && fd != imp && len(actxCallsNamed(fd.Body, info, "NewVar")) > 0 {
					dup := false
					for _, h := range helpers {
						if h == fd {
							dup = true
						}
					}
					if !dup {
						helpers = append(helpers, fd)
					}
				}
			}
		}
		return true
	})

	// (2) constant-false pub flag ------------------------------------------------
	nctor := 0
	for _, h := range helpers {
		seen := map[string]int{}
		ast.Inspect(h.Body, func(n ast.Node) bool {
			ce, ok := n.(*ast.CallExpr)
			if !ok {
				return true
			}
			f := CalleeOf(info, ce)
			if f == nil {
				return true
			}
			sig := f.Type().(*types.Signature)
			idx := -1
			for i := 0; i < sig.Params().Len(); i++ {
				if strings.EqualFold(sig.Params().At(i).Name(), "isPub") {
					idx = i
				}
			}
			if idx < 0 || idx >= len(ce.Args) {
				return true
			}
			// result type must be a scope entry (Variable / typeWrapper)
			nctor++
			what := f.Name() + "(" + exprStr(ce.Args[0]) + ", …)"
			if len(what) > 70 {
				what = what[:70] + "…"
			}
			seen[what]++
			key := fmt.Sprintf("homescript/analyzer.%s|%s#%d|pub flag", FuncName(h), what, seen[what])
			ob := Obligation{Key: key, Pos: c.Pos(ce.Pos())}
			if tv := info.Types[ce.Args[idx]]; tv.Value != nil && tv.Value.String() == "false" {
				ob.Status, ob.Detail = Discharged, "scope entry for an imported name is created with isPub = false"
			} else {
				ob.Status, ob.Nontrivial = Violated, true
				ob.Detail = fmt.Sprintf("the scope entry created for an imported name gets isPub = %s instead of the constant false: the importing module re-exports the name, so a third module can import an item from a module that never declared it pub, with no diagnostic", exprStr(ce.Args[idx]))
			}
			out = append(out, ob)
			return true
		})
	}
	if nctor == 0 {
		out = append(out, Obligation{Key: fname + "|scope entries", Status: Undecided, Detail: "no NewVar/newTypeWrapper call with an isPub parameter found in the import code"})
	}

	// (1)+(3) path walk -----------------------------------------------------------
	// the imported-module variable: a local of type *Module
	isModuleVar := func(e ast.Expr) bool {
		for {
			switch x := ast.Unparen(e).(type) {
			case *ast.SelectorExpr:
				e = x.X
				continue
			case *ast.IndexExpr:
				e = x.X
				continue
			case *ast.CallExpr:
				if sel, ok := x.Fun.(*ast.SelectorExpr); ok {
					e = sel.X
					continue
				}
				return false
			case *ast.Ident:
				obj := info.Uses[x]
				if obj == nil {
					return false
				}
				if _, isRecv := obj.(*types.Var); !isRecv {
					return false
				}
				pt, ok := obj.Type().(*types.Pointer)
				if !ok {
					return false
				}
				n, ok := pt.Elem().(*types.Named)
				return ok && n.Obj().Name() == "Module" && n.Obj().Pkg() == p.Types && x.Name != "self"
			}
			return false
		}
	}
	pubAttr := func(t types.Type) string { // which attribute of the entity carries visibility
		if pt, ok := t.(*types.Pointer); ok {
			t = pt.Elem()
		}
		st, ok := t.Underlying().(*types.Struct)
		if !ok {
			return ""
		}
		for i := 0; i < st.NumFields(); i++ {
			if st.Field(i).Name() == "IsPub" {
				return "IsPub"
			}
		}
		for i := 0; i < st.NumFields(); i++ {
			if st.Field(i).Name() == "Modifier" {
				return "Modifier"
			}
		}
		return ""
	}
	reports := func(n ast.Node) bool {
		r := false
		if n == nil {
			return false
		}
		ast.Inspect(n, func(x ast.Node) bool {
			if ce, ok := x.(*ast.CallExpr); ok {
				if sel, ok := ce.Fun.(*ast.SelectorExpr); ok && sel.Sel.Name == "error" {
					r = true
				}
			}
			if as, ok := x.(*ast.AssignStmt); ok && len(as.Lhs) == 1 && strings.HasSuffix(exprStr(as.Lhs[0]), "syntaxErrors") {
				r = true
			}
			return true
		})
		return r
	}
	// if statements testing a pub attribute: cond atom → (entity ident, failing side reports)
	type pubTest struct {
		obj  types.Object
		okOn bool // value of the atom on the side that is allowed to continue silently
		errs bool
	}
	tests := map[ast.Expr]pubTest{}
	ast.Inspect(imp.Body, func(n ast.Node) bool {
		ifs, ok := n.(*ast.IfStmt)
		if !ok {
			return true
		}
		cond := ast.Unparen(ifs.Cond)
		neg := false
		atom := cond
		if u, ok := cond.(*ast.UnaryExpr); ok && u.Op == token.NOT {
			neg = true
			atom = ast.Unparen(u.X)
		}
		var ent *ast.Ident
		pubWhen := true // atom true ⇒ is pub
		switch x := atom.(type) {
		case *ast.SelectorExpr:
			if x.Sel.Name == "IsPub" {
				ent, _ = ast.Unparen(x.X).(*ast.Ident)
			}
		case *ast.BinaryExpr:
			if sel, ok := ast.Unparen(x.X).(*ast.SelectorExpr); ok && sel.Sel.Name == "Modifier" {
				if k := ConstOf(info, x.Y); k != nil && strings.Contains(k.Name(), "PUB") {
					ent, _ = ast.Unparen(sel.X).(*ast.Ident)
					pubWhen = x.Op == token.EQL
				}
			}
		case *ast.Ident:
			// a local that caches the attribute: isPub := fn.Modifier == PUB
			if obj := info.Uses[x]; obj != nil {
				ast.Inspect(imp.Body, func(m ast.Node) bool {
					if as, ok := m.(*ast.AssignStmt); ok && len(as.Lhs) == 1 && len(as.Rhs) == 1 {
						if id, ok := as.Lhs[0].(*ast.Ident); ok && (info.Defs[id] == obj || info.Uses[id] == obj) {
							switch r := ast.Unparen(as.Rhs[0]).(type) {
							case *ast.SelectorExpr:
								if r.Sel.Name == "IsPub" {
									ent, _ = ast.Unparen(r.X).(*ast.Ident)
								}
							case *ast.BinaryExpr:
								if sel, ok := ast.Unparen(r.X).(*ast.SelectorExpr); ok && sel.Sel.Name == "Modifier" {
									if k := ConstOf(info, r.Y); k != nil && strings.Contains(k.Name(), "PUB") {
										ent, _ = ast.Unparen(sel.X).(*ast.Ident)
										pubWhen = r.Op == token.EQL
									}
								}
							}
						}
					}
					return true
				})
			}
		}
		if ent == nil {
			return true
		}
		_ = neg
		// the non-pub side: atom == !pubWhen. Which statement list runs then?
		var failing ast.Node
		atomValForBody := !neg // body runs when cond true ⇔ atom == !neg
		if atomValForBody == !pubWhen {
			failing = ifs.Body
		} else if ifs.Else != nil {
			failing = ifs.Else
		}
		tests[atom] = pubTest{obj: info.Uses[ent], okOn: pubWhen, errs: failing != nil && reports(failing)}
		return true
	})

	type finding struct {
		key, detail string
		pos         token.Pos
	}
	var bad []finding
	okKinds := map[string]int{}
	recorders := map[string]bool{"addVar": true, "addType": true, "addTemplate": true, "addTrigger": true}
	var handle func(st *actxImpState, n ast.Node)
	handle = func(st *actxImpState, n ast.Node) {
		if n == nil {
			return
		}
		ast.Inspect(n, func(x ast.Node) bool {
			ce, ok := x.(*ast.CallExpr)
			if !ok {
				return true
			}
			if sel, ok := ce.Fun.(*ast.SelectorExpr); ok && sel.Sel.Name == "error" {
				st.reported = true
			}
			f := CalleeOf(info, ce)
			if f == nil || !recorders[f.Name()] {
				return true
			}
			// which entity feeds the recorded value?
			var used []types.Object
			for _, a := range ce.Args {
				ast.Inspect(a, func(y ast.Node) bool {
					if id, ok := y.(*ast.Ident); ok {
						if _, isEnt := st.ent[info.Uses[id]]; isEnt {
							used = append(used, info.Uses[id])
						}
					}
					return true
				})
			}
			for _, e := range used {
				kind := st.ent[e]
				if pubAttr(e.Type()) == "" {
					st.resolved = true
					continue // templates / triggers carry no visibility attribute
				}
				st.resolved = true
				if st.tested[e] {
					okKinds[kind]++
				} else {
					bad = append(bad, finding{key: kind + " is recorded without a pub test", pos: ce.Pos(),
						detail: fmt.Sprintf("%s(…) at %s records the %s `%s` taken from the imported module, but no test of its pub attribute with an error on the failing side precedes it on the path [%s]", f.Name(), c.Pos(ce.Pos()), kind, e.Name(), strings.Join(st.dec, ", "))})
				}
			}
			return true
		})
	}
	w := &Walker[*actxImpState]{Clone: actxImpClone}
	w.IsPanic = func(s ast.Stmt) bool { return IsPanicCall(info, s) }
	w.OnRange = func(st *actxImpState, r *ast.RangeStmt) (*actxImpState, bool) {
		st.reported, st.resolved = false, false
		return st, true
	}
	w.OnCond = func(st *actxImpState, cond ast.Expr, taken bool) (*actxImpState, bool) {
		handle(st, cond)
		if t, ok := tests[cond]; ok {
			if taken == t.okOn || t.errs {
				// either the entity is pub, or the failing side reports
				st.tested[t.obj] = true
			}
		}
		st.dec = append(st.dec, fmt.Sprintf("%s=%v", exprStr(cond), taken))
		if len(st.dec) > 10 {
			st.dec = st.dec[len(st.dec)-10:]
		}
		return st, true
	}
	w.OnCase = func(st *actxImpState, sw *ast.SwitchStmt, vals, others []ast.Expr) (*actxImpState, bool) {
		return st, true
	}
	w.OnStmt = func(st *actxImpState, s ast.Stmt) (*actxImpState, bool) {
		if as, ok := s.(*ast.AssignStmt); ok && len(as.Rhs) == 1 && syntaxErrAppend(as) {
			st.reported = true
		}
		if as, ok := s.(*ast.AssignStmt); ok && len(as.Rhs) == 1 && isModuleVar(as.Rhs[0]) {
			// entity lookup in the imported module
			if id, ok := as.Lhs[0].(*ast.Ident); ok {
				obj := info.Defs[id]
				if obj == nil {
					obj = info.Uses[id]
				}
				if obj != nil {
					kind := "entity"
					rs := exprStr(as.Rhs[0])
					switch {
					case strings.Contains(rs, "getType"):
						kind = "type"
					case strings.Contains(rs, "getFunc"):
						kind = "function"
					case strings.Contains(rs, "getTemplate"):
						kind = "template"
					case strings.Contains(rs, "getTrigger"):
						kind = "trigger"
					case strings.Contains(rs, "Values"):
						kind = "variable"
					}
					st.ent[obj] = kind
					delete(st.tested, obj)
				}
			}
		}
		// entity supplied by the host (builtin module): x, …, … := self.host.<Get…>(…)
		if as, ok := s.(*ast.AssignStmt); ok && len(as.Rhs) == 1 {
			if ce, ok := as.Rhs[0].(*ast.CallExpr); ok {
				if sel, ok := ce.Fun.(*ast.SelectorExpr); ok && strings.HasSuffix(exprStr(sel.X), ".host") {
					if id, ok := as.Lhs[0].(*ast.Ident); ok && id.Name != "_" {
						obj := info.Defs[id]
						if obj == nil {
							obj = info.Uses[id]
						}
						if obj != nil && actxCompound(obj.Type()) {
							st.ent[obj] = "builtin"
						}
					}
				}
			}
		}
		if _, isRet := s.(*ast.ReturnStmt); !isRet {
			handle(st, s)
		}
		return st, true
	}
	w.OnLoopIter = func(loop ast.Stmt, before, after *actxImpState) {
		rs, ok := loop.(*ast.RangeStmt)
		if !ok || !strings.HasSuffix(exprStr(rs.X), "ToImport") {
			return
		}
		if !after.resolved && !after.reported {
			bad = append(bad, finding{key: "silent item", pos: rs.Pos(),
				detail: fmt.Sprintf("an iteration over the requested items at %s neither records a resolved entity nor reports a diagnostic [%s]", c.Pos(rs.Pos()), strings.Join(after.dec, ", "))})
		}
	}
	nret := 0
	w.Exit = func(st *actxImpState, o outcome) {
		if o.ret == nil {
			return
		}
		for _, r := range o.ret.Results {
			if ce, ok := ast.Unparen(r).(*ast.CallExpr); ok {
				if f := CalleeOf(info, ce); f != nil {
					for _, h := range helpers[1:] {
						if h.Name.Name == f.Name() {
							nret++
							if !st.reported {
								bad = append(bad, finding{key: "silent failure", pos: o.ret.Pos(),
									detail: fmt.Sprintf("return through %s at %s (import abandoned) without a diagnostic on the path [%s]", f.Name(), c.Pos(o.ret.Pos()), strings.Join(st.dec, ", "))})
							}
						}
					}
				}
			}
		}
	}
	w.Run(imp.Body, &actxImpState{ent: map[types.Object]string{}, tested: map[types.Object]bool{}})
	if w.Overflow || len(w.Unsupported) > 0 {
		out = append(out, Obligation{Key: fname + "|<paths>", Pos: c.Pos(imp.Pos()), Status: Undecided, Detail: "path enumeration incomplete"})
	}
	// one obligation per entity kind that carries visibility
	byKey := map[string][]finding{}
	for _, b := range bad {
		byKey[b.key] = append(byKey[b.key], b)
	}
	for _, kind := range []string{"type", "function", "variable"} {
		ob := Obligation{Key: fname + "|pub test before recording an imported " + kind, Pos: c.Pos(imp.Pos()), Nontrivial: true}
		if fs := byKey[kind+" is recorded without a pub test"]; len(fs) > 0 {
			ob.Status, ob.Detail, ob.Pos = Violated, fs[0].detail, c.Pos(fs[0].pos)
		} else if okKinds[kind] == 0 {
			ob.Status, ob.Detail = Undecided, "no path records an imported "+kind+" looked up in the imported module: anchor moved"
		} else {
			ob.Status, ob.Detail = Discharged, fmt.Sprintf("on all %d recording paths the %s's pub attribute was tested and the non-pub side reports an error", okKinds[kind], kind)
		}
		out = append(out, ob)
	}
	for _, k := range []string{"silent item", "silent failure"} {
		ob := Obligation{Key: fname + "|" + k, Pos: c.Pos(imp.Pos()), Nontrivial: true, Status: Discharged}
		if k == "silent item" {
			ob.Detail = "every iteration over the requested items records a resolved entity or reports"
		} else {
			ob.Detail = fmt.Sprintf("all %d returns that abandon the import are preceded by a diagnostic", nret)
		}
		if fs := byKey[k]; len(fs) > 0 {
			ob.Status, ob.Detail, ob.Pos = Violated, fs[0].detail, c.Pos(fs[0].pos)
		}
		out = append(out, ob)
	}
	// cycle test reports
	cyc := Obligation{Key: fname + "|cycle reported", Pos: c.Pos(imp.Pos()), Status: Undecided, Detail: "no `if …, isCyclic := <cycle test>; isCyclic` found", Nontrivial: true}
	ast.Inspect(imp.Body, func(n ast.Node) bool {
		ifs, ok := n.(*ast.IfStmt)
		if !ok || ifs.Init == nil {
			return true
		}
		as, ok := ifs.Init.(*ast.AssignStmt)
		if !ok || len(as.Rhs) != 1 {
			return true
		}
		ce, ok := as.Rhs[0].(*ast.CallExpr)
		if !ok {
			return true
		}
		f := CalleeOf(info, ce)
		if f == nil || !strings.Contains(strings.ToLower(f.Name()), "cycl") {
			return true
		}
		cyc.Pos = c.Pos(ifs.Pos())
		if id, ok := ast.Unparen(ifs.Cond).(*ast.Ident); ok && reports(ifs.Body) {
			cyc.Status, cyc.Detail = Discharged, fmt.Sprintf("`if …, %s := %s(…); %s` reports an error", id.Name, f.Name(), id.Name)
		} else {
			cyc.Status, cyc.Detail = Violated, "the positive branch of the import-cycle test does not report an error"
		}
		return true
	})
	out = append(out, cyc)
	return out
}

func syntaxErrAppend(as *ast.AssignStmt) bool {
	return len(as.Lhs) == 1 && strings.HasSuffix(exprStr(as.Lhs[0]), "syntaxErrors")
}

// ---------------------------------------------------------------------------

func actxImportCompiler(c *Ctx) []Obligation {
	p := c.Pkg("homescript/compiler")
	info := p.TypesInfo
	var out []Obligation
	// anchor: the Compiler method taking the whole program (map[string]AnalyzedProgram)
	var cp *ast.FuncDecl
	var progParam types.Object
	for _, fd := range AllFuncDecls(p) {
		if fd.Recv == nil || recvTypeName(fd.Recv.List[0].Type) != "Compiler" {
			continue
		}
		for _, f := range fd.Type.Params.List {
			if mt, ok := info.TypeOf(f.Type).Underlying().(*types.Map); ok {
				if n, ok := mt.Elem().(*types.Named); ok && n.Obj().Name() == "AnalyzedProgram" && len(f.Names) > 0 {
					cp, progParam = fd, info.Defs[f.Names[0]]
				}
			}
		}
	}
	if cp == nil {
		return []Obligation{{Key: "homescript/compiler|program lowering", Status: Undecided, Detail: "no Compiler method takes map[string]AnalyzedProgram"}}
	}
	fname := "homescript/compiler." + FuncName(cp)
	// collections that receive one init function per module: C[k] = v inside `for k, _ := range program`, v built from InitFunctionIdent
	perModule := map[types.Object]bool{}
	ast.Inspect(cp.Body, func(n ast.Node) bool {
		rs, ok := n.(*ast.RangeStmt)
		if !ok {
			return true
		}
		id, ok := ast.Unparen(rs.X).(*ast.Ident)
		if !ok || info.Uses[id] != progParam {
			return true
		}
		kid, _ := rs.Key.(*ast.Ident)
		if kid == nil {
			return true
		}
		kobj := info.Defs[kid]
		// top-level statements of the loop body only: unconditional
		initVars := map[types.Object]bool{}
		for _, s := range rs.Body.List {
			as, ok := s.(*ast.AssignStmt)
			if !ok || len(as.Lhs) != 1 || len(as.Rhs) != 1 {
				continue
			}
			if lid, ok := as.Lhs[0].(*ast.Ident); ok {
				if strings.Contains(exprStr(as.Rhs[0]), "InitFunctionIdent") {
					if o := info.Defs[lid]; o != nil {
						initVars[o] = true
					}
				}
			}
			if ix, ok := as.Lhs[0].(*ast.IndexExpr); ok {
				cid, ok1 := ast.Unparen(ix.X).(*ast.Ident)
				key, ok2 := ast.Unparen(ix.Index).(*ast.Ident)
				val, ok3 := ast.Unparen(as.Rhs[0]).(*ast.Ident)
				if ok1 && ok2 && ok3 && info.Uses[key] == kobj && initVars[info.Uses[val]] {
					perModule[info.Uses[cid]] = true
				}
			}
		}
		return true
	})
	if len(perModule) == 0 {
		out = append(out, Obligation{Key: fname + "|per-module init table", Pos: c.Pos(cp.Pos()), Status: Undecided, Detail: "no collection receives one @init function per module of the program"})
	}
	// every Call_Imm emission in this function
	ncall := 0
	var stack []ast.Node
	ast.Inspect(cp.Body, func(n ast.Node) bool {
		if n == nil {
			stack = stack[:len(stack)-1]
			return true
		}
		stack = append(stack, n)
		ce, ok := n.(*ast.CallExpr)
		if !ok || len(ce.Args) < 2 {
			return true
		}
		if k := ConstOf(info, ce.Args[0]); k == nil || k.Name() != "Opcode_Call_Imm" {
			return true
		}
		ncall++
		ob := Obligation{Key: fmt.Sprintf("%s|Call_Imm #%d targets every module's @init", fname, ncall), Pos: c.Pos(ce.Pos()), Nontrivial: true}
		tid, _ := ast.Unparen(ce.Args[1]).(*ast.Ident)
		var loop *ast.RangeStmt
		for i := len(stack) - 1; i >= 0; i-- {
			if rs, ok := stack[i].(*ast.RangeStmt); ok && tid != nil {
				if vid, ok := rs.Value.(*ast.Ident); ok && info.Defs[vid] == info.Uses[tid] {
					loop = rs
					break
				}
			}
		}
		// alternative idiom: target looked up by key, `t[, ok] := C[k]`, k ranging over all modules
		lookupWhy := ""
		if loop == nil && tid != nil {
			var ix *ast.IndexExpr
			ast.Inspect(cp.Body, func(x ast.Node) bool {
				if as, ok := x.(*ast.AssignStmt); ok && len(as.Rhs) == 1 && len(as.Lhs) >= 1 {
					if lid, ok := as.Lhs[0].(*ast.Ident); ok && (info.Defs[lid] == info.Uses[tid] || info.Uses[lid] == info.Uses[tid]) {
						if e, ok := ast.Unparen(as.Rhs[0]).(*ast.IndexExpr); ok {
							ix = e
						}
					}
				}
				return true
			})
			if ix != nil {
				cid, _ := ast.Unparen(ix.X).(*ast.Ident)
				if cid == nil || !perModule[info.Uses[cid]] {
					lookupWhy = "the call target is looked up in " + exprStr(ix.X) + ", which does not hold one init function per module"
				} else {
					// which loop produces the key?
					var keyLoop *ast.RangeStmt
					for i := len(stack) - 1; i >= 0 && keyLoop == nil; i-- {
						rs, ok := stack[i].(*ast.RangeStmt)
						if !ok {
							continue
						}
						ast.Inspect(ix.Index, func(y ast.Node) bool {
							if id, ok := y.(*ast.Ident); ok {
								for _, kv := range []ast.Expr{rs.Key, rs.Value} {
									if kid, ok := kv.(*ast.Ident); ok && info.Defs[kid] != nil && info.Defs[kid] == info.Uses[id] {
										keyLoop = rs
									}
								}
							}
							return true
						})
					}
					allModules := func(e ast.Expr) bool {
						id, ok := ast.Unparen(e).(*ast.Ident)
						if !ok {
							return false
						}
						o := info.Uses[id]
						if o == progParam || perModule[o] {
							return true
						}
						// a slice filled with every key of the program / init table (sorted-names idiom)
						okAll := false
						ast.Inspect(cp.Body, func(y ast.Node) bool {
							rs, ok := y.(*ast.RangeStmt)
							if !ok {
								return true
							}
							rid, ok := ast.Unparen(rs.X).(*ast.Ident)
							if !ok || !(info.Uses[rid] == progParam || perModule[info.Uses[rid]]) {
								return true
							}
							kid, _ := rs.Key.(*ast.Ident)
							for _, st := range rs.Body.List {
								if as, ok := st.(*ast.AssignStmt); ok && len(as.Lhs) == 1 && len(as.Rhs) == 1 {
									if lid, ok := as.Lhs[0].(*ast.Ident); ok && info.Uses[lid] == o && kid != nil {
										if call, ok := as.Rhs[0].(*ast.CallExpr); ok && len(call.Args) == 2 {
											if aid, ok := call.Args[1].(*ast.Ident); ok && info.Uses[aid] == info.Defs[kid] {
												okAll = true
											}
										}
									}
								}
							}
							return true
						})
						return okAll
					}
					switch {
					case keyLoop == nil:
						lookupWhy = "the key " + exprStr(ix.Index) + " of the init-table lookup does not come from an enclosing range loop"
					case !allModules(keyLoop.X):
						lookupWhy = fmt.Sprintf("the @init calls are emitted for the keys produced by ranging over %s, not over all modules of the program: modules that are only reachable transitively (or not imported by the entry module at all) are never initialised", exprStr(keyLoop.X))
					default:
						loop = nil
						ob.Status, ob.Detail = Discharged, fmt.Sprintf("targets are looked up in %s for every key of %s (all modules)", cid.Name, exprStr(keyLoop.X))
						out = append(out, ob)
						return true
					}
				}
			}
		}
		switch {
		case lookupWhy != "":
			ob.Status, ob.Detail = Violated, lookupWhy
		case tid == nil || loop == nil:
			ob.Status, ob.Detail = Violated, "the call target "+exprStr(ce.Args[1])+" is neither the value variable of an enclosing range loop nor looked up in the per-module init table"
		default:
			cid, _ := ast.Unparen(loop.X).(*ast.Ident)
			if cid == nil || !perModule[info.Uses[cid]] {
				ob.Status = Violated
				ob.Detail = fmt.Sprintf("the loop that emits the @init calls ranges over %s, which does not hold one init function per module of the program (modules reachable only transitively, or not imported by the entry module, are never initialised)", exprStr(loop.X))
			} else {
				// skips: only `if key == entry { continue }` before the emission
				var why []string
				kid, _ := loop.Key.(*ast.Ident)
				ast.Inspect(loop.Body, func(x ast.Node) bool {
					ifs, ok := x.(*ast.IfStmt)
					if !ok || ifs.Pos() > ce.Pos() {
						return true
					}
					hasJump := false
					ast.Inspect(ifs.Body, func(y ast.Node) bool {
						if _, ok := y.(*ast.BranchStmt); ok {
							hasJump = true
						}
						return true
					})
					inBody := ce.Pos() >= ifs.Body.Pos() && ce.End() <= ifs.Body.End()
					if !hasJump && !inBody {
						return true
					}
					be, ok := ast.Unparen(ifs.Cond).(*ast.BinaryExpr)
					okCond := false
					if ok && be.Op == token.EQL && hasJump && kid != nil {
						x1, _ := ast.Unparen(be.X).(*ast.Ident)
						y1, _ := ast.Unparen(be.Y).(*ast.Ident)
						if x1 != nil && y1 != nil && (info.Uses[x1] == info.Defs[kid] || info.Uses[y1] == info.Defs[kid]) &&
							(strings.Contains(strings.ToLower(x1.Name+y1.Name), "entry")) {
							okCond = true
						}
					}
					if !okCond {
						why = append(why, "the emission is conditional on `"+exprStr(ifs.Cond)+"`")
					}
					return true
				})
				if len(why) > 0 {
					ob.Status, ob.Detail = Violated, strings.Join(why, "; ")
				} else {
					ob.Status, ob.Detail = Discharged, fmt.Sprintf("emitted for every entry of %s (one @init per module of the program, filled unconditionally in the first pass) except the entry module itself", cid.Name)
				}
			}
		}
		out = append(out, ob)
		return true
	})
	if ncall == 0 {
		out = append(out, Obligation{Key: fname + "|Call_Imm to module inits", Pos: c.Pos(cp.Pos()), Status: Violated, Detail: "the entry @init never calls another module's @init"})
	}
	// (5) function lookup keyed by module
	nl := 0
	for _, fd := range AllFuncDecls(p) {
		if fd.Recv == nil || recvTypeName(fd.Recv.List[0].Type) != "Compiler" {
			continue
		}
		var rets []*ast.ReturnStmt
		ast.Inspect(fd.Body, func(n ast.Node) bool {
			if rs, ok := n.(*ast.ReturnStmt); ok && len(rs.Results) >= 1 && strings.HasSuffix(exprStr(rs.Results[0]), ".MangledName") {
				rets = append(rets, rs)
			}
			return true
		})
		if len(rets) == 0 {
			continue
		}
		sort.Slice(rets, func(i, j int) bool { return rets[i].Pos() < rets[j].Pos() })
		for i, rs := range rets {
			nl++
			ob := Obligation{Key: fmt.Sprintf("homescript/compiler.%s|lookup result #%d keyed by module", FuncName(fd), i+1), Pos: c.Pos(rs.Pos()), Nontrivial: true}
			// enclosing range loops
			var all *ast.RangeStmt
			ast.Inspect(fd.Body, func(n ast.Node) bool {
				r, ok := n.(*ast.RangeStmt)
				if !ok || rs.Pos() < r.Body.Pos() || rs.End() > r.Body.End() {
					return true
				}
				if sel, ok := ast.Unparen(r.X).(*ast.SelectorExpr); ok {
					if mt, ok := info.TypeOf(sel).Underlying().(*types.Map); ok {
						if _, nested := mt.Elem().Underlying().(*types.Map); nested {
							all = r // ranges over the map of all modules
						}
					}
				}
				return true
			})
			if all != nil {
				ob.Status = Violated
				ob.Detail = fmt.Sprintf("returns the first function with a matching name found while ranging over all modules (%s, a Go map: iteration order is random): a name defined in two modules resolves to an arbitrary one, regardless of which module the caller imported it from", exprStr(all.X))
			} else {
				ob.Status, ob.Detail = Discharged, "the match is searched in a single module's table"
			}
			out = append(out, ob)
		}
	}
	if nl == 0 {
		out = append(out, Obligation{Key: "homescript/compiler|function lookup", Status: Undecided, Detail: "no Compiler method returns a .MangledName"})
	}
	return out
}
