package main

import (
	"fmt"
	"go/ast"
	"go/token"
	"go/types"
	"sort"
	"strings"

	"golang.org/x/tools/go/packages"
)

// R-json-skip-agreement: inside one JSON marshaller the container cases (list, object,
// any-object — and, through helpers, anything else that marshals children in a loop) must
// agree on WHICH child images are left out. The marshaller's own protocol is the `skip`
// result of the recursive call (builtin functions); a case that additionally drops children
// whose image is nil (JSON null = none/null) while a sibling case keeps them contradicts it:
// one of the two is wrong, and the dropping one loses fields that the cast back to the
// static type requires ({a: ?int} with a = none → "{}" → "field 'a' was expected but not found").
func init() {
	register(&Rule{ID: "R-json-skip-agreement", Floor: 4, Run: ruleJSONSkipAgreement,
		Doc: "for the JSON marshaller of each value library (found by role, as in R-json-list-length): every loop that marshals the children of a container and stores their images (append / map store) is keyed by the innermost condition under which the image is stored, normalised to the set of facts it requires about the recursive call's results (image != nil, skip == false); all container loops of one marshaller must require the same set (sibling contradiction rule: list elements keep null, so object fields must too), and the two libraries must agree per container"})
}

func ruleJSONSkipAgreement(c *Ctx) []Obligation {
	var obs []Obligation
	type loopInfo struct {
		key, cond string
		pos       string
	}
	perLib := map[string][]loopInfo{}
	for _, lib := range []struct{ rel, tag string }{{"homescript/runtime/value", "vm"}, {"homescript/interpreter/value", "interp"}} {
		p := c.Pkg(lib.rel)
		info := p.TypesInfo
		for _, fd := range AllFuncDecls(p) {
			if fd.Recv != nil || !r2pIsMarshaller(p, fd) {
				continue
			}
			self, _ := info.Defs[fd.Name].(*types.Func)
			// helpers of the marshaller that hold the loops (merged duplicates)
			fns := []*ast.FuncDecl{fd}
			ast.Inspect(fd.Body, func(n ast.Node) bool {
				if call, ok := n.(*ast.CallExpr); ok {
					if g := CalleeOf(info, call); g != nil && g != self && g.Pkg() == p.Types {
						if gd := declOfFunc(p, g); gd != nil && gd.Body != nil {
							calls := false
							ast.Inspect(gd.Body, func(m ast.Node) bool {
								if cc, ok := m.(*ast.CallExpr); ok && CalleeOf(info, cc) == self {
									calls = true
								}
								return true
							})
							if calls {
								fns = append(fns, gd)
							}
						}
					}
				}
				return true
			})
			seen := map[string]int{}
			for _, f := range fns {
				ast.Inspect(f.Body, func(n ast.Node) bool {
					var body *ast.BlockStmt
					var what string
					switch l := n.(type) {
					case *ast.RangeStmt:
						body = l.Body
						what = containerKind(info.TypeOf(l.X))
					case *ast.ForStmt:
						body = l.Body
						what = "loop"
					default:
						return true
					}
					// the recursive call and the variables holding its results
					var img, skip types.Object
					ast.Inspect(body, func(m ast.Node) bool {
						as, ok := m.(*ast.AssignStmt)
						if !ok || len(as.Rhs) != 1 {
							return true
						}
						call, ok := ast.Unparen(as.Rhs[0]).(*ast.CallExpr)
						if !ok || CalleeOf(info, call) != self || len(as.Lhs) < 2 {
							return true
						}
						if id, ok := as.Lhs[0].(*ast.Ident); ok {
							img = objOf(info, id)
						}
						if id, ok := as.Lhs[1].(*ast.Ident); ok {
							skip = objOf(info, id)
						}
						return true
					})
					if img == nil {
						return true
					}
					// the store of the image and the conditions around it
					var conds []string
					found := false
					var visit func(list []ast.Stmt, under []string)
					visit = func(list []ast.Stmt, under []string) {
						for _, s := range list {
							switch t := s.(type) {
							case *ast.AssignStmt:
								for _, r := range t.Rhs {
									uses := false
									ast.Inspect(r, func(k ast.Node) bool {
										if id, ok := k.(*ast.Ident); ok && info.Uses[id] == img {
											uses = true
										}
										return true
									})
									if uses && !isRecursiveCall(info, r, self) {
										found = true
										conds = append(conds, under...)
									}
								}
							case *ast.IfStmt:
								visit(t.Body.List, append(append([]string{}, under...), normSkipCond(info, t.Cond, img, skip)...))
								if eb, ok := t.Else.(*ast.BlockStmt); ok {
									visit(eb.List, append(append([]string{}, under...), "else-of("+exprStr(t.Cond)+")"))
								}
							case *ast.BlockStmt:
								visit(t.List, under)
							}
						}
					}
					visit(body.List, nil)
					if !found {
						return true
					}
					sort.Strings(conds)
					conds = uniqStrings(conds)
					// `if skip { continue }` before the store counts as requiring skip == false
					ast.Inspect(body, func(m ast.Node) bool {
						if ifs, ok := m.(*ast.IfStmt); ok && len(ifs.Body.List) == 1 {
							if br, ok := ifs.Body.List[0].(*ast.BranchStmt); ok && br.Tok.String() == "continue" {
								for _, f := range normSkipCond(info, &ast.UnaryExpr{Op: token.NOT, X: ifs.Cond}, img, skip) {
									conds = append(conds, f)
								}
							}
						}
						return true
					})
					sort.Strings(conds)
					conds = uniqStrings(conds)
					k := what
					seen[k]++
					if seen[k] > 1 {
						k += fmt.Sprintf("#%d", seen[k])
					}
					perLib[lib.tag] = append(perLib[lib.tag], loopInfo{key: k, cond: strings.Join(conds, " ∧ "), pos: c.Pos(n.Pos())})
					return true
				})
			}
		}
	}
	for _, tag := range []string{"vm", "interp"} {
		loops := perLib[tag]
		if len(loops) < 2 {
			obs = append(obs, Obligation{Key: "json-skip|" + tag + "|<anchor>", Status: Undecided, Detail: fmt.Sprintf("expected at least two container loops in the %s marshaller, found %d", tag, len(loops))})
			continue
		}
		// majority condition = the protocol; with a tie the weakest (fewest facts) is the protocol
		count := map[string]int{}
		for _, l := range loops {
			count[l.cond]++
		}
		ref := ""
		// the protocol is the weakest condition any container uses (dropping a child needs a reason the
		// siblings share); ties by text for determinism
		first := true
		for cnd := range count {
			nf := strings.Count(cnd, "∧")
			if first || nf < strings.Count(ref, "∧") || (nf == strings.Count(ref, "∧") && cnd < ref) {
				ref, first = cnd, false
			}
		}
		for _, l := range loops {
			o := Obligation{Key: "json-skip|" + tag + "|" + l.key + "|stores the child image under the marshaller's common condition", Pos: l.pos, Nontrivial: true}
			if l.cond == ref {
				o.Status, o.Detail = Discharged, "stored when: "+orTrue(l.cond)
			} else {
				o.Status, o.Detail = Violated, fmt.Sprintf("this container stores a child's image when {%s}, its sibling containers when {%s}: children whose image is nil (none / null) are dropped here but kept there — a field dropped from the JSON text cannot be cast back under the object's type", orTrue(l.cond), orTrue(ref))
			}
			obs = append(obs, o)
		}
	}
	// twins agree per container
	byKey := func(tag string) map[string]string {
		m := map[string]string{}
		for _, l := range perLib[tag] {
			m[l.key] = l.cond
		}
		return m
	}
	vm, in := byKey("vm"), byKey("interp")
	var keys []string
	for k := range vm {
		keys = append(keys, k)
	}
	for k := range in {
		if _, ok := vm[k]; !ok {
			keys = append(keys, k)
		}
	}
	sort.Strings(keys)
	for _, k := range keys {
		o := Obligation{Key: "json-skip|twins|" + k, Nontrivial: true}
		a, okA := vm[k]
		b, okB := in[k]
		switch {
		case !okA || !okB:
			o.Status, o.Detail = Info, "container loop present in one library only (helpers merged differently)"
		case a == b:
			o.Status, o.Detail = Discharged, "both libraries store when: "+orTrue(a)
		default:
			o.Status, o.Detail = Violated, fmt.Sprintf("vm stores when {%s}, interpreter when {%s}", orTrue(a), orTrue(b))
		}
		obs = append(obs, o)
	}
	return obs
}

func orTrue(s string) string {
	if s == "" {
		return "always"
	}
	return s
}

func objOf(info *types.Info, id *ast.Ident) types.Object {
	if o := info.Defs[id]; o != nil {
		return o
	}
	return info.Uses[id]
}

func isRecursiveCall(info *types.Info, e ast.Expr, self *types.Func) bool {
	call, ok := ast.Unparen(e).(*ast.CallExpr)
	return ok && CalleeOf(info, call) == self
}

func containerKind(t types.Type) string {
	if t == nil {
		return "loop"
	}
	switch u := t.Underlying().(type) {
	case *types.Map:
		return "map"
	case *types.Slice:
		return "slice"
	case *types.Pointer:
		return containerKind(u.Elem())
	}
	return "loop"
}

func declOfFunc(p *packages.Package, fn *types.Func) *ast.FuncDecl {
	for _, fd := range AllFuncDecls(p) {
		if p.TypesInfo.Defs[fd.Name] == fn {
			return fd
		}
	}
	return nil
}

// normSkipCond normalises a condition over the recursive call's results into facts:
// "image != nil", "skip == false"; anything else is kept as text.
func normSkipCond(info *types.Info, cond ast.Expr, img, skip types.Object) []string {
	cond = ast.Unparen(cond)
	switch x := cond.(type) {
	case *ast.BinaryExpr:
		switch x.Op.String() {
		case "&&":
			return append(normSkipCond(info, x.X, img, skip), normSkipCond(info, x.Y, img, skip)...)
		case "!=", "==":
			l, r := ast.Unparen(x.X), ast.Unparen(x.Y)
			if id, ok := r.(*ast.Ident); ok && (id.Name == "nil" || id.Name == "false" || id.Name == "true") {
				if lid, ok := l.(*ast.Ident); ok {
					switch info.Uses[lid] {
					case img:
						if id.Name == "nil" {
							if x.Op.String() == "!=" {
								return []string{"image != nil"}
							}
							return []string{"image == nil"}
						}
					case skip:
						neg := (x.Op.String() == "==") == (id.Name == "false")
						if neg {
							return []string{"skip == false"}
						}
						return []string{"skip == true"}
					}
				}
			}
		}
	case *ast.UnaryExpr:
		if x.Op.String() == "!" {
			if id, ok := ast.Unparen(x.X).(*ast.Ident); ok && skip != nil && info.Uses[id] == skip {
				return []string{"skip == false"}
			}
			// !(a) of something else
			if inner := normSkipCond(info, x.X, img, skip); len(inner) == 1 {
				switch inner[0] {
				case "skip == true":
					return []string{"skip == false"}
				case "skip == false":
					return []string{"skip == true"}
				}
			}
		}
	case *ast.Ident:
		if skip != nil && info.Uses[x] == skip {
			return []string{"skip == true"}
		}
	}
	return []string{exprStr(cond)}
}
