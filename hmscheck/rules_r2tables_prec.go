package main

// R-member-precedence (C18, C04, C02): for the kinds whose member table mixes
// *dynamic* entries (the fields an object value carries) with *builtin*
// members, the three copies of the table — the analyzer's `Type.Fields`, the
// VM library's `Value.Fields`, the interpreter library's `Value.Fields` — must
// resolve a name collision the same way. The order of the two write groups
// into the result map (last overriding write wins) is extracted from each copy
// (through helpers, maps.Copy, `if _, ok := m[k]; !ok` guards) and compared
// per builtin name. Lookup sites of the engines are checked for a lookup that
// bypasses the table (direct access to the dynamic storage before the table).

import (
	"fmt"
	"go/ast"
	"go/token"
	"go/types"
	"sort"
	"strings"

	"golang.org/x/tools/go/packages"
)

func init() {
	register(&Rule{ID: "R-member-precedence", Floor: 10, Run: ruleMemberPrecedence,
		Doc: "C18/C04/C02: where a member table mixes dynamic entries (an object's own fields) with builtin members, a name that is both is resolved identically by the analyzer's Type.Fields, the VM's Value.Fields and the interpreter's Value.Fields: for every builtin name of the runtime table the winner (own field / builtin) — decided by the order of the write groups into the result map, overriding vs. insert-if-absent — equals the analyzer's winner; a builtin the analyzer does not offer on that type must lose against an own field (the analyzer advertises the declared field type there). Otherwise `obj.name` has the declared type at analysis time and is a builtin function at run time: using it at its advertised type is a Go panic in the VM, and the two engines disagree. Engine lookup sites must consult the table (or the dynamic storage first only if own fields win)."})
}

// ---- event extraction ----

type r2tEv struct {
	static   bool
	key      string // static: member name
	src      string // dynamic: where the names come from
	override bool   // false: insert-if-absent
	cond     string // non-empty: written under a condition that is not understood
	loop     ast.Stmt
	pos      token.Pos
	srcField *types.Var // dynamic: struct field the names are read from (if seen)
	// membership guards on the written name
	onlyPresent bool            // written only when the name is already in the table
	skip        map[string]bool // not written for these names (guard: name ∈ second table → skip)
	only        map[string]bool // written only for these names
}

// r2tGuardRes: what the conditions around a write say about the written name.
type r2tGuardRes struct {
	override    bool
	onlyPresent bool
	cond        string
	loop        ast.Stmt
	skip, only  map[string]bool
}

func (g r2tGuardRes) apply(e *r2tEv) {
	e.override, e.cond, e.loop, e.onlyPresent, e.skip, e.only = g.override, g.cond, g.loop, g.onlyPresent, g.skip, g.only
}

type r2tTab struct {
	evs []r2tEv
	ok  bool
	why string
}

type r2tPkg struct {
	c     *Ctx
	pkg   *packages.Package
	info  *types.Info
	decls map[*types.Func]*ast.FuncDecl
}

func r2tNewPkg(c *Ctx, p *packages.Package) *r2tPkg {
	x := &r2tPkg{c: c, pkg: p, info: p.TypesInfo, decls: map[*types.Func]*ast.FuncDecl{}}
	for _, fd := range AllFuncDecls(p) {
		if fn, ok := x.info.Defs[fd.Name].(*types.Func); ok {
			x.decls[fn] = fd
		}
	}
	return x
}

func r2tIsBuiltin(info *types.Info, call *ast.CallExpr, name string) bool {
	id, ok := ast.Unparen(call.Fun).(*ast.Ident)
	if !ok {
		return false
	}
	b, ok := info.Uses[id].(*types.Builtin)
	return ok && b.Name() == name
}

func r2tObj(info *types.Info, e ast.Expr) types.Object {
	id, ok := ast.Unparen(e).(*ast.Ident)
	if !ok {
		return nil
	}
	if o := info.Defs[id]; o != nil {
		return o
	}
	return info.Uses[id]
}

// fieldOfExpr: the struct field an expression like `self.FieldsInternal` selects.
func r2tFieldOfExpr(info *types.Info, e ast.Expr) *types.Var {
	e = ast.Unparen(e)
	if st, ok := e.(*ast.StarExpr); ok {
		e = ast.Unparen(st.X)
	}
	if s, ok := e.(*ast.SelectorExpr); ok {
		if v, ok := info.Uses[s.Sel].(*types.Var); ok && v.IsField() {
			return v
		}
	}
	return nil
}

// tableOf: the events of a function that returns a member table as its first result.
func (x *r2tPkg) tableOf(fd *ast.FuncDecl, depth int) r2tTab {
	if fd == nil || fd.Body == nil {
		return r2tTab{why: "no body"}
	}
	if depth > 3 {
		return r2tTab{why: "helper chain too deep"}
	}
	if len(fd.Body.List) == 1 && IsPanicCall(x.info, fd.Body.List[0]) {
		return r2tTab{ok: true}
	}
	var rets []*ast.ReturnStmt
	mbVisitStmts(fd.Body.List, nil, func(s ast.Stmt, stack []mbCondCtx) {
		if r, ok := s.(*ast.ReturnStmt); ok && len(r.Results) > 0 {
			rets = append(rets, r)
		}
	})
	if len(rets) != 1 {
		return r2tTab{why: fmt.Sprintf("%d returns in %s", len(rets), FuncName(fd))}
	}
	switch r := ast.Unparen(rets[0].Results[0]).(type) {
	case *ast.CompositeLit:
		t := r2tTab{ok: true}
		x.addLit(&t, r)
		return t
	case *ast.Ident:
		obj := r2tObj(x.info, r)
		if obj == nil {
			return r2tTab{why: "returned identifier unresolved"}
		}
		return x.eventsOn(fd.Body, obj, depth)
	case *ast.CallExpr:
		if r2tIsBuiltin(x.info, r, "make") {
			return r2tTab{ok: true}
		}
		if callee := x.calleeDecl(r); callee != nil {
			return x.tableOf(callee, depth+1)
		}
		return r2tTab{why: "table returned by " + exprStr(r.Fun) + " (no source)"}
	}
	return r2tTab{why: "unsupported return shape " + exprStr(rets[0].Results[0])}
}

func (x *r2tPkg) calleeDecl(call *ast.CallExpr) *ast.FuncDecl {
	fn := CalleeOf(x.info, call)
	if fn == nil {
		return nil
	}
	return x.decls[fn]
}

func (x *r2tPkg) addLit(t *r2tTab, cl *ast.CompositeLit) {
	for _, el := range cl.Elts {
		kv, ok := el.(*ast.KeyValueExpr)
		if !ok {
			t.ok, t.why = false, "map literal element without key"
			return
		}
		tv := x.info.Types[kv.Key]
		if tv.Value == nil {
			t.evs = append(t.evs, r2tEv{src: exprStr(kv.Key), override: true, pos: kv.Pos()})
			continue
		}
		t.evs = append(t.evs, r2tEv{static: true, key: strings.Trim(tv.Value.ExactString(), `"`), override: true, pos: kv.Pos()})
	}
}

// eventsOn: the ordered writes into map variable m inside body.
func (x *r2tPkg) eventsOn(body *ast.BlockStmt, m types.Object, depth int) r2tTab {
	t := r2tTab{ok: true}
	info := x.info
	fail := func(why string) {
		if t.ok {
			t.ok, t.why = false, why
		}
	}
	isM := func(e ast.Expr) bool { return r2tObj(info, e) == m }
	// guards of a write: the conditions around it (enclosing ifs, and the negations of earlier
	// `if C { continue }` statements of the enclosing loop body)
	exits, hard := x.exitGuards(body)
	classify := func(at ast.Stmt, stack []mbCondCtx, keyExpr ast.Expr) (res r2tGuardRes) {
		res.override = true
		for _, g := range stack {
			if g.loop != nil {
				res.loop = g.loop
			}
		}
		all := append(append([]mbCondCtx(nil), stack...), exits[at]...)
		for _, g := range all {
			switch {
			case g.loop != nil:
			case g.cond != nil:
				if hard[g.cond] {
					res.cond = "after a conditional break/return: " + exprStr(g.cond)
					continue
				}
				kind, names, ok := x.memberGuard(body, g, m, keyExpr)
				if !ok {
					res.cond = exprStr(g.cond)
					continue
				}
				switch kind {
				case "absent":
					res.override = false
				case "present":
					res.onlyPresent = true
				case "notin":
					if res.skip == nil {
						res.skip = map[string]bool{}
					}
					for n := range names {
						res.skip[n] = true
					}
				case "in":
					if res.only == nil {
						res.only = names
					} else {
						both := map[string]bool{}
						for n := range names {
							if res.only[n] {
								both[n] = true
							}
						}
						res.only = both
					}
				}
			case g.clause != nil || g.tclause != nil:
				res.cond = "switch clause"
			}
		}
		return
	}
	mbVisitStmts(body.List, nil, func(s ast.Stmt, stack []mbCondCtx) {
		switch st := s.(type) {
		case *ast.AssignStmt:
			for i, lhs := range st.Lhs {
				switch lx := ast.Unparen(lhs).(type) {
				case *ast.Ident:
					if r2tObj(info, lx) != m {
						continue
					}
					if len(st.Rhs) != len(st.Lhs) {
						fail("table variable assigned from a multi-value expression")
						continue
					}
					switch rx := ast.Unparen(st.Rhs[i]).(type) {
					case *ast.CompositeLit:
						if len(t.evs) > 0 || len(stack) > 0 {
							fail("table variable re-assigned / defined under a condition")
						}
						x.addLit(&t, rx)
					case *ast.CallExpr:
						if r2tIsBuiltin(info, rx, "make") {
							if len(t.evs) > 0 {
								fail("table variable re-made after writes")
							}
							continue
						}
						if callee := x.calleeDecl(rx); callee != nil {
							sub := x.tableOf(callee, depth+1)
							if !sub.ok {
								fail("helper " + callee.Name.Name + ": " + sub.why)
							}
							if len(t.evs) > 0 {
								fail("table variable re-assigned after writes")
							}
							// a helper that receives the table to extend is handled below
							for ai, a := range rx.Args {
								if isM(a) {
									_ = ai
									fail("table passed to and re-assigned from a helper")
								}
							}
							t.evs = append(t.evs, sub.evs...)
							continue
						}
						fail("table variable computed by " + exprStr(rx.Fun))
					default:
						fail("table variable defined by " + exprStr(st.Rhs[i]))
					}
				case *ast.IndexExpr:
					if !isM(lx.X) {
						continue
					}
					gr := classify(st, stack, lx.Index)
					override, cond := gr.override, gr.cond
					loop := gr.loop
					if tv := info.Types[lx.Index]; tv.Value != nil {
						ev := r2tEv{static: true, key: strings.Trim(tv.Value.ExactString(), `"`), pos: st.Pos()}
						gr.apply(&ev)
						if gr.skip != nil || gr.only != nil {
							ev.cond = "constant name guarded by membership in a second table"
						}
						t.evs = append(t.evs, ev)
					} else {
						ev := r2tEv{src: exprStr(lx.Index), pos: st.Pos()}
						gr.apply(&ev)
						if rs, ok := loop.(*ast.RangeStmt); ok && rs.Key != nil && r2tSameExpr(info, rs.Key, lx.Index) {
							// copying a local map literal with constant names: those are builtin names
							if lit := x.localMapLit(body, rs.X); lit != nil {
								sub := r2tTab{ok: true}
								x.addLit(&sub, lit)
								allStatic := sub.ok
								for _, e := range sub.evs {
									allStatic = allStatic && e.static
								}
								if allStatic {
									for _, e := range sub.evs {
										if gr.skip[e.key] || (gr.only != nil && !gr.only[e.key]) {
											continue // the guard excludes this constant name
										}
										e.override, e.cond, e.pos, e.onlyPresent = override, cond, st.Pos(), gr.onlyPresent
										t.evs = append(t.evs, e)
									}
									continue
								}
							}
						}
						if rs, ok := loop.(*ast.RangeStmt); ok {
							ev.src = "range " + exprStr(rs.X)
							ev.srcField = r2tFieldOfExpr(info, rs.X)
						}
						t.evs = append(t.evs, ev)
					}
				}
			}
		case *ast.ExprStmt:
			call, ok := ast.Unparen(st.X).(*ast.CallExpr)
			if !ok {
				return
			}
			argIdx := -1
			for i, a := range call.Args {
				if isM(a) {
					argIdx = i
				}
			}
			if argIdx < 0 {
				return
			}
			gr := classify(st, stack, nil)
			override, cond, loop := gr.override, gr.cond, gr.loop
			if gr.onlyPresent || gr.skip != nil || gr.only != nil {
				cond = "bulk write under a membership guard"
			}
			if r2tIsBuiltin(info, call, "delete") || r2tIsBuiltin(info, call, "clear") {
				fail("entries are removed from the table (" + exprStr(call) + ")")
				return
			}
			if fn := CalleeOf(info, call); fn != nil && fn.Pkg() != nil && fn.Pkg().Path() == "maps" && fn.Name() == "Copy" && argIdx == 0 && len(call.Args) == 2 {
				t.evs = append(t.evs, r2tEv{src: "maps.Copy from " + exprStr(call.Args[1]), override: override, cond: cond, loop: loop, pos: st.Pos(), srcField: r2tFieldOfExpr(info, call.Args[1])})
				return
			}
			callee := x.calleeDecl(call)
			if callee == nil {
				fail("table passed to " + exprStr(call.Fun) + " (no source)")
				return
			}
			if depth > 3 {
				fail("helper chain too deep")
				return
			}
			// parameter object for argIdx
			var pobj types.Object
			n := 0
			for _, f := range callee.Type.Params.List {
				for _, nm := range f.Names {
					if n == argIdx {
						pobj = info.Defs[nm]
					}
					n++
				}
			}
			if pobj == nil {
				fail("cannot bind the table to a parameter of " + callee.Name.Name)
				return
			}
			sub := x.eventsOn(callee.Body, pobj, depth+1)
			if !sub.ok {
				fail("helper " + callee.Name.Name + ": " + sub.why)
			}
			for _, e := range sub.evs {
				if cond != "" && e.cond == "" {
					e.cond = cond
				}
				if loop != nil && e.loop == nil {
					e.loop = loop
				}
				t.evs = append(t.evs, e)
			}
		}
	})
	// a static and a dynamic write interleaved in one loop cannot be ordered
	for _, a := range t.evs {
		for _, b := range t.evs {
			if a.static && !b.static && a.loop != nil && a.loop == b.loop {
				fail("builtin and dynamic writes interleaved in one loop")
			}
		}
	}
	return t
}

// localMapLit: e is a local variable whose only definition in body is a map
// composite literal (and which is never written afterwards).
func (x *r2tPkg) localMapLit(body *ast.BlockStmt, e ast.Expr) *ast.CompositeLit {
	obj := r2tObj(x.info, e)
	if obj == nil {
		return nil
	}
	var lit *ast.CompositeLit
	writes := 0
	ast.Inspect(body, func(n ast.Node) bool {
		as, ok := n.(*ast.AssignStmt)
		if !ok {
			return true
		}
		for i, l := range as.Lhs {
			if r2tObj(x.info, l) == obj {
				writes++
				if len(as.Rhs) == len(as.Lhs) {
					if cl, ok := ast.Unparen(as.Rhs[i]).(*ast.CompositeLit); ok {
						lit = cl
					}
				}
			}
			if ix, ok := ast.Unparen(l).(*ast.IndexExpr); ok && r2tObj(x.info, ix.X) == obj {
				writes++
			}
		}
		return true
	})
	if writes != 1 {
		return nil
	}
	return lit
}

// exitGuards: for every statement, the conditions of earlier sibling statements
// `if C { …; continue }` of the enclosing loop bodies (the statement only runs
// when C was false). hard marks conditions whose branch leaves the loop or the
// function (break / return / goto): the writes after them are not understood.
func (x *r2tPkg) exitGuards(body *ast.BlockStmt) (map[ast.Stmt][]mbCondCtx, map[ast.Expr]bool) {
	out := map[ast.Stmt][]mbCondCtx{}
	hard := map[ast.Expr]bool{}
	var walk func(list []ast.Stmt, inherited []mbCondCtx, inLoop bool)
	var child func(st ast.Stmt, inherited []mbCondCtx, inLoop bool)
	child = func(st ast.Stmt, inherited []mbCondCtx, inLoop bool) {
		switch s := st.(type) {
		case *ast.BlockStmt:
			walk(s.List, inherited, inLoop)
		case *ast.LabeledStmt:
			out[s.Stmt] = inherited
			child(s.Stmt, inherited, inLoop)
		case *ast.IfStmt:
			walk(s.Body.List, inherited, inLoop)
			if s.Else != nil {
				out[s.Else] = inherited
				child(s.Else, inherited, inLoop)
			}
		case *ast.ForStmt:
			walk(s.Body.List, inherited, true)
		case *ast.RangeStmt:
			walk(s.Body.List, inherited, true)
		case *ast.SwitchStmt:
			for _, c := range s.Body.List {
				walk(c.(*ast.CaseClause).Body, inherited, false) // break binds to the switch
			}
		case *ast.TypeSwitchStmt:
			for _, c := range s.Body.List {
				walk(c.(*ast.CaseClause).Body, inherited, false)
			}
		}
	}
	walk = func(list []ast.Stmt, inherited []mbCondCtx, inLoop bool) {
		cur := append([]mbCondCtx(nil), inherited...)
		for _, st := range list {
			out[st] = append([]mbCondCtx(nil), cur...)
			child(st, cur, inLoop)
			ifs, ok := st.(*ast.IfStmt)
			if !ok || ifs.Else != nil || len(ifs.Body.List) == 0 {
				continue
			}
			switch last := ifs.Body.List[len(ifs.Body.List)-1].(type) {
			case *ast.BranchStmt:
				if last.Tok == token.CONTINUE && last.Label == nil && inLoop {
					cur = append(cur, mbCondCtx{cond: ifs.Cond, neg: true})
				} else {
					hard[ifs.Cond] = true
					cur = append(cur, mbCondCtx{cond: ifs.Cond, neg: true})
				}
			case *ast.ReturnStmt:
				hard[ifs.Cond] = true
				cur = append(cur, mbCondCtx{cond: ifs.Cond, neg: true})
			}
		}
	}
	walk(body.List, nil, false)
	return out, hard
}

// memberGuard decides what a condition says about the name being written:
//
//	"absent"  – the name is not yet in the table m       (`_, ok := m[k]; !ok`, `m[k] == nil`)
//	"present" – the name is already in m
//	"in"      – the name is one of the constant names of a second table / list
//	"notin"   – the name is none of them
func (x *r2tPkg) memberGuard(body *ast.BlockStmt, g mbCondCtx, m types.Object, keyExpr ast.Expr) (kind string, names map[string]bool, ok bool) {
	info := x.info
	cond := ast.Unparen(g.cond)
	taken := !g.neg
	for {
		if u, isU := cond.(*ast.UnaryExpr); isU && u.Op == token.NOT {
			cond = ast.Unparen(u.X)
			taken = !taken
			continue
		}
		break
	}
	sameKey := func(k ast.Expr) bool { return keyExpr == nil || r2tSameExpr(info, k, keyExpr) }
	// the container a membership test consults, and whether `cond` true means "member"
	var container ast.Expr
	member := true
	switch c := cond.(type) {
	case *ast.Ident:
		// comma-ok variable: `_, ok := X[K]`
		okObj := r2tObj(info, c)
		if okObj == nil {
			return "", nil, false
		}
		ast.Inspect(x.enclosingFile(okObj.Pos()), func(n ast.Node) bool {
			as, isAs := n.(*ast.AssignStmt)
			if !isAs || len(as.Lhs) != 2 || len(as.Rhs) != 1 || r2tObj(info, as.Lhs[1]) != okObj {
				return true
			}
			if ix, isIx := ast.Unparen(as.Rhs[0]).(*ast.IndexExpr); isIx && sameKey(ix.Index) {
				if _, isMap := info.TypeOf(ix.X).Underlying().(*types.Map); isMap {
					container = ix.X
				}
			}
			return true
		})
	case *ast.IndexExpr:
		// set[K] with a map[string]bool
		if mt, isMap := info.TypeOf(c.X).Underlying().(*types.Map); isMap && sameKey(c.Index) {
			if b, isB := mt.Elem().Underlying().(*types.Basic); isB && b.Kind() == types.Bool {
				container = c.X
			}
		}
	case *ast.BinaryExpr:
		// X[K] != nil / X[K] == nil
		if c.Op != token.NEQ && c.Op != token.EQL {
			return "", nil, false
		}
		l, r := ast.Unparen(c.X), ast.Unparen(c.Y)
		if mbIsNil(info, l) {
			l, r = r, l
		}
		if !mbIsNil(info, r) {
			return "", nil, false
		}
		if ix, isIx := l.(*ast.IndexExpr); isIx && sameKey(ix.Index) {
			if _, isMap := info.TypeOf(ix.X).Underlying().(*types.Map); isMap {
				container = ix.X
				member = c.Op == token.NEQ
			}
		}
	case *ast.CallExpr:
		// slices.Contains(list, K)
		if fn := CalleeOf(info, c); fn != nil && fn.Pkg() != nil && strings.HasSuffix(fn.Pkg().Path(), "slices") && fn.Name() == "Contains" && len(c.Args) == 2 && sameKey(c.Args[1]) {
			container = c.Args[0]
		}
	}
	if container == nil {
		return "", nil, false
	}
	isMember := taken == member
	if r2tObj(info, container) == m && m != nil {
		if isMember {
			return "present", nil, true
		}
		return "absent", nil, true
	}
	names = x.constNames(body, container, 0)
	if names == nil {
		return "", nil, false
	}
	if isMember {
		return "in", names, true
	}
	return "notin", names, true
}

// constNames: the constant string names a second table / list holds: a local or package-level
// map/slice literal with constant keys/elements, or a helper returning a table of constant names.
func (x *r2tPkg) constNames(body *ast.BlockStmt, e ast.Expr, depth int) map[string]bool {
	info := x.info
	e = ast.Unparen(e)
	fromLit := func(cl *ast.CompositeLit) map[string]bool {
		out := map[string]bool{}
		for _, el := range cl.Elts {
			k := el
			if kv, ok := el.(*ast.KeyValueExpr); ok {
				k = kv.Key
			}
			tv := info.Types[k]
			if tv.Value == nil {
				return nil
			}
			out[strings.Trim(tv.Value.ExactString(), `"`)] = true
		}
		return out
	}
	switch v := e.(type) {
	case *ast.CompositeLit:
		return fromLit(v)
	case *ast.CallExpr:
		if callee := x.calleeDecl(v); callee != nil && depth < 2 {
			t := x.tableOf(callee, depth+1)
			if !t.ok {
				return nil
			}
			out := map[string]bool{}
			for _, ev := range t.evs {
				if !ev.static {
					return nil
				}
				out[ev.key] = true
			}
			return out
		}
	case *ast.Ident:
		if lit := x.localMapLit(body, v); lit != nil {
			return fromLit(lit)
		}
		// package-level variable initialised by a literal and never written
		obj := r2tObj(info, v)
		if pv, ok := obj.(*types.Var); ok && pv.Parent() == x.pkg.Types.Scope() {
			var lit *ast.CompositeLit
			written := false
			for _, f := range x.pkg.Syntax {
				ast.Inspect(f, func(n ast.Node) bool {
					switch s := n.(type) {
					case *ast.ValueSpec:
						for i, nm := range s.Names {
							if info.Defs[nm] == obj && i < len(s.Values) {
								lit, _ = ast.Unparen(s.Values[i]).(*ast.CompositeLit)
							}
						}
					case *ast.AssignStmt:
						for _, l := range s.Lhs {
							t := ast.Unparen(l)
							if ix, ok := t.(*ast.IndexExpr); ok {
								t = ast.Unparen(ix.X)
							}
							if r2tObj(info, t) == obj {
								written = true
							}
						}
					}
					return true
				})
			}
			if lit != nil && !written {
				return fromLit(lit)
			}
		}
	}
	return nil
}

func (x *r2tPkg) enclosingFile(pos token.Pos) ast.Node {
	for _, f := range x.pkg.Syntax {
		if f.Pos() <= pos && pos <= f.End() {
			return f
		}
	}
	return &ast.File{Name: ast.NewIdent("_")}
}

func r2tSameExpr(info *types.Info, a, b ast.Expr) bool {
	a, b = ast.Unparen(a), ast.Unparen(b)
	oa, ob := r2tObj(info, a), r2tObj(info, b)
	if oa != nil || ob != nil {
		return oa == ob
	}
	return exprStr(a) == exprStr(b)
}

// ---- winners ----

// r2tWinners: for every builtin name of the table, who answers a lookup of
// that name when an own field of the same name exists: "builtin", "own field",
// or "?…" when undecided. hasDyn: the table has dynamic entries at all.
func r2tWinners(t r2tTab) (win map[string]string, hasDyn bool, dynDesc string) {
	win = map[string]string{}
	var statics []string
	seen := map[string]bool{}
	for _, e := range t.evs {
		if e.static && !seen[e.key] {
			seen[e.key] = true
			statics = append(statics, e.key)
		}
		if !e.static {
			hasDyn = true
			if dynDesc == "" {
				dynDesc = e.src
			}
		}
	}
	for _, k := range statics {
		holder := ""
		for _, e := range t.evs {
			if e.static && e.key != k {
				continue
			}
			if !e.static && (e.skip[k] || (e.only != nil && !e.only[k])) {
				continue // the write is guarded away for this name
			}
			who := "own field"
			if e.static {
				who = "builtin"
			}
			if e.cond != "" {
				if holder != who {
					holder = "?conditional write (" + e.cond + ")"
				}
				continue
			}
			if e.onlyPresent && holder == "" {
				continue // nothing to replace
			}
			if e.override || holder == "" {
				if strings.HasPrefix(holder, "?") && !e.override {
					continue
				}
				holder = who
			}
		}
		win[k] = holder
	}
	return
}

func r2tDescribe(c *Ctx, t r2tTab) string {
	var parts []string
	var run []string
	flush := func() {
		if len(run) > 0 {
			parts = append(parts, "builtins{"+strings.Join(run, ",")+"}")
			run = nil
		}
	}
	for _, e := range t.evs {
		if e.static {
			k := e.key
			if !e.override {
				k += "(if absent)"
			}
			run = append(run, k)
			continue
		}
		flush()
		d := "own fields[" + e.src + " @" + c.Pos(e.pos) + "]"
		if !e.override {
			d += "(if absent)"
		}
		if e.onlyPresent {
			d += "(only if present)"
		}
		if e.skip != nil {
			d += "(except " + strings.Join(mbSortedKeys(e.skip), ",") + ")"
		}
		if e.only != nil {
			d += "(only " + strings.Join(mbSortedKeys(e.only), ",") + ")"
		}
		if e.cond != "" {
			d += "(under " + e.cond + ")"
		}
		parts = append(parts, d)
	}
	flush()
	return strings.Join(parts, " then ")
}

// ---- the rule ----

func ruleMemberPrecedence(c *Ctx) []Obligation {
	an := mbLoadAn(c)
	vm := mbLoadLib(c, mbRelVM, "vm")
	in := mbLoadLib(c, mbRelInterp, "interp")
	kmap := mbKindMap(c)
	var obs []Obligation
	add := func(key string, pos token.Pos, st Status, nontrivial bool, detail string) {
		obs = append(obs, Obligation{Key: key, Pos: c.Pos(pos), Status: st, Detail: detail, Nontrivial: nontrivial})
	}
	anPkg := r2tNewPkg(c, an.pkg)
	type anRes struct {
		tab    r2tTab
		win    map[string]string
		hasDyn bool
		im     *mbAnImpl
	}
	anBy := map[string]*anRes{} // type kind name -> result
	for _, aim := range an.impls {
		if aim.fields == nil {
			continue
		}
		t := anPkg.tableOf(aim.fields, 0)
		r := &anRes{tab: t, im: aim}
		if t.ok {
			r.win, r.hasDyn, _ = r2tWinners(t)
		}
		anBy[aim.kind.Name()] = r
	}
	mixed := 0
	// storage fields of mixed runtime impls, per library (for the lookup sites)
	dynFields := map[*mbLib]map[*types.Var]string{}
	tableWin := map[*mbLib]map[*types.Var]string{} // field -> "own field"/"builtin"/"mixed"
	for _, l := range []*mbLib{vm, in} {
		lp := r2tNewPkg(c, l.pkg)
		dynFields[l] = map[*types.Var]string{}
		tableWin[l] = map[*types.Var]string{}
		for _, vi := range l.impls {
			fd := vi.methods["Fields"]
			if fd == nil || vi.kind == nil {
				continue
			}
			t := lp.tableOf(fd, 0)
			tk := kmap[vi.kind.Name()]
			ar := anBy[tk]
			kname := mbShortKind(vi.kind.Name())
			base := fmt.Sprintf("precedence|%s|%s|", kname, l.tag)
			if !t.ok {
				// only a problem when either side is mixed; a table that cannot be read at all is R-members' business
				if ar != nil && ar.hasDyn {
					add(base+"table", fd.Pos(), Undecided, false, "cannot order the writes of "+vi.Name()+".Fields: "+t.why)
				}
				continue
			}
			win, hasDyn, _ := r2tWinners(t)
			// the string-keyed storage of every kind: a member lookup that reads it directly must agree
			// with the kind's table; a table without own-field entries never answers with stored data
			for i := 0; i < vi.st.NumFields(); i++ {
				f := vi.st.Field(i)
				if mt, ok := f.Type().Underlying().(*types.Map); ok {
					if b, ok := mt.Key().Underlying().(*types.Basic); ok && b.Kind() == types.String && !hasDyn {
						dynFields[l][f] = vi.Name()
						tableWin[l][f] = "builtin"
					}
				}
			}
			if !hasDyn {
				if ar != nil && ar.tab.ok && ar.hasDyn && len(t.evs) > 0 {
					add(base+"dynamic members", fd.Pos(), Violated, true,
						fmt.Sprintf("the analyzer's %s.Fields adds the value's own fields to the table (%s) but %s %s.Fields never does: declared fields are not members at run time", ar.im.named.Obj().Name(), r2tDescribe(c, ar.tab), l.tag, vi.Name()))
				}
				continue
			}
			mixed++
			for _, e := range t.evs {
				if !e.static && e.srcField != nil {
					dynFields[l][e.srcField] = vi.Name()
				}
			}
			if ar == nil {
				add(base+"analyzer twin", fd.Pos(), Undecided, false, "value kind "+vi.kind.Name()+" has a mixed member table but no analyzer type kind is mapped to it")
				continue
			}
			if !ar.tab.ok {
				add(base+"analyzer twin", ar.im.fields.Pos(), Undecided, false, "cannot order the writes of the analyzer's "+ar.im.named.Obj().Name()+".Fields: "+ar.tab.why)
				continue
			}
			var names []string
			for k := range win {
				names = append(names, k)
			}
			sort.Strings(names)
			overall := ""
			for _, k := range names {
				rw := win[k]
				if overall == "" {
					overall = rw
				} else if overall != rw {
					overall = "mixed"
				}
				var want, whyWant string
				if aw, offered := ar.win[k]; offered {
					if ar.hasDyn {
						want, whyWant = aw, fmt.Sprintf("the analyzer's %s.Fields resolves the collision in favour of the %s", ar.im.named.Obj().Name(), aw)
					} else {
						want, whyWant = "builtin", fmt.Sprintf("the analyzer's %s.Fields has no own fields: `%s` always is the builtin there", ar.im.named.Obj().Name(), k)
					}
				} else if ar.hasDyn {
					want, whyWant = "own field", fmt.Sprintf("the analyzer offers no builtin `%s` on %s, so `x.%s` is typed as the declared field", k, mbShortKind(tk), k)
				} else {
					continue
				}
				key := base + k
				pos := fd.Pos()
				for _, e := range t.evs {
					if e.static && e.key == k {
						pos = e.pos
					}
				}
				detail := fmt.Sprintf("%s %s.Fields writes %s => on a collision `%s` is the %s; %s [analyzer: %s]", l.tag, vi.Name(), r2tDescribe(c, t), k, rw, whyWant, r2tDescribe(c, ar.tab))
				switch {
				case strings.HasPrefix(rw, "?") || strings.HasPrefix(want, "?"):
					add(key, pos, Undecided, true, detail)
				case rw == want:
					add(key, pos, Discharged, true, detail)
				default:
					add(key, pos, Violated, true, detail+fmt.Sprintf(" — a value with an own field named `%s` is typed by its declaration but the %s hands out the %s: the two disagree (in the VM, using the value at its advertised type is a Go panic; assignments to the field are lost)", k, l.tag, rw))
				}
			}
			for f := range dynFields[l] {
				if dynFields[l][f] == vi.Name() {
					tableWin[l][f] = overall
				}
			}
		}
	}
	// analyzer tables that are mixed: one reference obligation each
	for _, aim := range an.impls {
		r := anBy[aim.kind.Name()]
		if r == nil || !r.tab.ok || !r.hasDyn {
			if r != nil && !r.tab.ok && len(aim.table.dynamic) > 0 {
				add("precedence|"+mbShortKind(aim.kind.Name())+"|analyzer|table", aim.fields.Pos(), Undecided, false, "cannot order the writes of "+aim.named.Obj().Name()+".Fields: "+r.tab.why)
			}
			continue
		}
		st, note := Discharged, ""
		for k, w := range r.win {
			if strings.HasPrefix(w, "?") {
				st, note = Undecided, " ("+k+": "+w+")"
			}
		}
		add("precedence|"+mbShortKind(aim.kind.Name())+"|analyzer|order extracted", aim.fields.Pos(), st, true,
			fmt.Sprintf("%s.Fields writes %s%s", aim.named.Obj().Name(), r2tDescribe(c, r.tab), note))
	}
	if mixed == 0 {
		add("precedence|mixed tables", token.NoPos, Undecided, false, "no runtime member table with dynamic entries was found: the object kinds' Fields() could not be read")
	}
	// lookup sites
	for _, l := range []*mbLib{vm, in} {
		engine := mbRelVMEngine
		if l.tag == "interp" {
			engine = mbRelInEngine
		}
		for _, rel := range []string{engine, l.rel} {
			obs = append(obs, r2tLookupSites(c, l, rel, dynFields[l], tableWin[l])...)
		}
	}
	return obs
}

// r2tTerminates: no path through the statement list reaches its end.
func r2tTerminates(info *types.Info, list []ast.Stmt) bool { return r2tTermIn(info, list, true) }

// r2tTermIn: brkLeaves — an unlabelled break leaves the region (false inside a switch / select
// of the region, where it only leaves that statement).
func r2tTermIn(info *types.Info, list []ast.Stmt, brkLeaves bool) bool {
	if len(list) == 0 {
		return false
	}
	clauses := func(bodies [][]ast.Stmt, hasDefault bool) bool {
		if !hasDefault {
			return false
		}
		for _, b := range bodies {
			if !r2tTermIn(info, b, false) {
				return false
			}
		}
		return true
	}
	switch last := list[len(list)-1].(type) {
	case *ast.ReturnStmt:
		return true
	case *ast.BranchStmt:
		switch last.Tok {
		case token.FALLTHROUGH:
			return false
		case token.BREAK:
			return brkLeaves || last.Label != nil
		}
		return true
	case *ast.BlockStmt:
		return r2tTermIn(info, last.List, brkLeaves)
	case *ast.LabeledStmt:
		return r2tTermIn(info, []ast.Stmt{last.Stmt}, brkLeaves)
	case *ast.IfStmt:
		if last.Else == nil || !r2tTermIn(info, last.Body.List, brkLeaves) {
			return false
		}
		switch e := last.Else.(type) {
		case *ast.BlockStmt:
			return r2tTermIn(info, e.List, brkLeaves)
		case *ast.IfStmt:
			return r2tTermIn(info, []ast.Stmt{e}, brkLeaves)
		}
		return false
	case *ast.SwitchStmt:
		var bodies [][]ast.Stmt
		def := false
		for _, cl := range last.Body.List {
			cc := cl.(*ast.CaseClause)
			def = def || cc.List == nil
			bodies = append(bodies, cc.Body)
		}
		return clauses(bodies, def)
	case *ast.TypeSwitchStmt:
		var bodies [][]ast.Stmt
		def := false
		for _, cl := range last.Body.List {
			cc := cl.(*ast.CaseClause)
			def = def || cc.List == nil
			bodies = append(bodies, cc.Body)
		}
		return clauses(bodies, def)
	default:
		return IsPanicCall(info, last)
	}
}

// r2tStorageFieldsOf: the struct fields an indexed expression may denote: `x.F`, or a local every
// definition of which (in fd) is such a selector (a `var m map…` filled in a type switch).
func r2tStorageFieldsOf(info *types.Info, fd *ast.FuncDecl, e ast.Expr, depth int) []*types.Var {
	if f := r2tFieldOfExpr(info, e); f != nil {
		return []*types.Var{f}
	}
	id, ok := ast.Unparen(e).(*ast.Ident)
	if !ok || depth > 2 {
		return nil
	}
	o := r2tObj(info, id)
	if v, ok := o.(*types.Var); !ok || v.IsField() {
		return nil
	}
	seen := map[*types.Var]bool{}
	var out []*types.Var
	ast.Inspect(fd.Body, func(n ast.Node) bool {
		as, ok := n.(*ast.AssignStmt)
		if !ok || len(as.Lhs) != len(as.Rhs) {
			return true
		}
		for i, lh := range as.Lhs {
			if r2tObj(info, lh) != o {
				continue
			}
			for _, f := range r2tStorageFieldsOf(info, fd, as.Rhs[i], depth+1) {
				if !seen[f] {
					seen[f] = true
					out = append(out, f)
				}
			}
		}
		return true
	})
	sort.Slice(out, func(i, j int) bool { return out[i].Pos() < out[j].Pos() })
	return out
}

// r2tLookupSites: every `X.Fields()` call on a runtime value; a read of the
// dynamic storage of a mixed kind indexed by the same name before the table
// lookup makes own fields win at that site whatever the table says.
func r2tLookupSites(c *Ctx, l *mbLib, rel string, dyn map[*types.Var]string, tableWin map[*types.Var]string) []Obligation {
	var obs []Obligation
	p := c.Pkg(rel)
	info := p.TypesInfo
	seen := map[string]int{}
	for _, fd := range AllFuncDecls(p) {
		mbVisitStmts(fd.Body.List, nil, func(s ast.Stmt, stack []mbCondCtx) {
			as, ok := s.(*ast.AssignStmt)
			if !ok || len(as.Rhs) != 1 {
				return
			}
			call, ok := ast.Unparen(as.Rhs[0]).(*ast.CallExpr)
			if !ok {
				return
			}
			sel, ok := call.Fun.(*ast.SelectorExpr)
			if !ok || sel.Sel.Name != "Fields" || len(call.Args) != 0 {
				return
			}
			rt := info.TypeOf(sel.X)
			if !l.isValueIface(rt) && l.implOfType(rt) == nil {
				return
			}
			where := strings.TrimPrefix(rel, "homescript/") + "." + FuncName(fd)
			var region ast.Node = fd.Body
			for _, g := range stack {
				if g.clause != nil {
					if len(g.clause.List) > 0 {
						where += " case " + exprStr(g.clause.List[0])
					}
					region = g.clause
				}
			}
			seen[where]++
			if seen[where] > 1 {
				where += fmt.Sprintf(" #%d", seen[where])
			}
			// the name the table is indexed with
			tobj := r2tObj(info, as.Lhs[0])
			var nameExpr ast.Expr
			ast.Inspect(region, func(n ast.Node) bool {
				if ix, ok := n.(*ast.IndexExpr); ok && tobj != nil && r2tObj(info, ix.X) == tobj && nameExpr == nil {
					nameExpr = ix.Index
				}
				return true
			})
			o := Obligation{Key: "precedence|lookup|" + l.tag + "|" + where, Pos: c.Pos(as.Pos()), Nontrivial: true}
			var bypass []string
			bad := false
			ast.Inspect(region, func(n ast.Node) bool {
				// a block that never falls through (every path returns / panics / leaves the clause) and does
				// not contain the table lookup belongs to another path (another operator, an error exit)
				if blk, ok := n.(*ast.BlockStmt); ok && !(blk.Pos() <= as.Pos() && as.Pos() <= blk.End()) && r2tTerminates(info, blk.List) {
					return false
				}
				if cc, ok := n.(*ast.CaseClause); ok && !(cc.Pos() <= as.Pos() && as.Pos() <= cc.End()) && r2tTerminates(info, cc.Body) {
					return false
				}
				ix, ok := n.(*ast.IndexExpr)
				if !ok || ix.Pos() >= as.Pos() {
					return true
				}
				if nameExpr != nil && !r2tSameExpr(info, nameExpr, ix.Index) {
					return true
				}
				for _, f := range r2tStorageFieldsOf(info, fd, ix.X, 0) {
					owner, isDyn := dyn[f]
					if !isDyn {
						continue
					}
					bypass = append(bypass, fmt.Sprintf("%s.%s[%s] at %s (table of %s: the %s wins)", owner, f.Name(), exprStr(ix.Index), c.Pos(ix.Pos()), owner, tableWin[f]))
					if tableWin[f] != "own field" {
						bad = true
					}
				}
				return true
			})
			switch {
			case len(bypass) == 0:
				o.Status, o.Detail = Discharged, "the member is looked up in the table returned by "+exprStr(call)+" only: the precedence is the table's"
			case bad:
				o.Status, o.Detail = Violated, "stored data is consulted before the member table ("+strings.Join(bypass, "; ")+") although that kind's table lets the builtin win (or never contains stored data at all): for a value whose data has a key spelled like a builtin member, `x.name` yields the data here while the analyzer and the other engine resolve the builtin"
			default:
				o.Status, o.Detail = Discharged, "own fields are consulted first ("+strings.Join(bypass, "; ")+"), consistent with a table in which own fields win"
			}
			obs = append(obs, o)
		})
	}
	return obs
}
