package main

import (
	"fmt"
	"go/ast"
	"go/types"
	"sort"
	"strings"
)

// R-pub-provenance: the visibility recorded for a symbol is what the source says, nothing derived.

func init() {
	register(&Rule{ID: "R-pub-provenance", Floor: 10, Run: ruleR7PubProvenance,
		Doc: "the analyzer's symbol tables record for every entry whether it is `pub` (the bool fields IsPub… of the table-entry structs of package analyzer); the import code of OTHER modules reads exactly this field to decide whether a name may be imported. Every value that reaches such a field is enumerated: the arguments of the constructors whose parameter is stored into the field (NewVar, newTypeWrapper, newFunction …, found by their literal `T{…, IsPub: param}`), the field values of literals and direct assignments. Each must be a constant (false for parameters, imports, builtins) or a plain copy of a pub flag — the IsPub field of the syntax node or of another entry. Anything computed (`node.IsPub || strings.HasPrefix(name, \"_\")`, a flag that means something else, such as 'skip the unused check') makes names importable that the program did not export, or hides exported ones: module visibility is no longer what the sources declare (C15)."})
}

func ruleR7PubProvenance(c *Ctx) []Obligation {
	p := c.Pkg("homescript/analyzer")
	info := p.TypesInfo
	isPubField := func(o types.Object) bool {
		v, ok := o.(*types.Var)
		if !ok || !v.IsField() || !strings.HasPrefix(v.Name(), "IsPub") {
			return false
		}
		b, ok := v.Type().Underlying().(*types.Basic)
		return ok && b.Kind() == types.Bool
	}
	// constructor parameters that are stored into a pub field
	pubParam := map[*types.Func]map[int]bool{}
	paramIdx := func(fd *ast.FuncDecl, o types.Object) int {
		i := 0
		for _, fl := range fd.Type.Params.List {
			for _, n := range fl.Names {
				if info.Defs[n] == o {
					return i
				}
				i++
			}
		}
		return -1
	}
	for _, fd := range AllFuncDecls(p) {
		fn, _ := info.Defs[fd.Name].(*types.Func)
		if fn == nil || fd.Body == nil {
			continue
		}
		ast.Inspect(fd.Body, func(n ast.Node) bool {
			kv, ok := n.(*ast.KeyValueExpr)
			if !ok {
				return true
			}
			k, ok := kv.Key.(*ast.Ident)
			if !ok || !isPubField(info.Uses[k]) {
				return true
			}
			if id, ok := ast.Unparen(kv.Value).(*ast.Ident); ok {
				if i := paramIdx(fd, info.Uses[id]); i >= 0 {
					if pubParam[fn] == nil {
						pubParam[fn] = map[int]bool{}
					}
					pubParam[fn][i] = true
				}
			}
			return true
		})
	}
	var out []Obligation
	for _, fd := range AllFuncDecls(p) {
		fn, _ := info.Defs[fd.Name].(*types.Func)
		if fn == nil || fd.Body == nil {
			continue
		}
		f := r2sibFuncOf(c, p, fd)
		nKey := map[string]int{}
		judge := func(what string, v ast.Expr, pos ast.Node) {
			v = ast.Unparen(v)
			// a local that merely names the value: pub := node.IsPub
			for d := 0; d < 3; d++ {
				id, ok := v.(*ast.Ident)
				if !ok {
					break
				}
				o := info.Uses[id]
				ds := f.defs[o]
				if o == nil || len(ds) != 1 || ds[0].kind != r2dAssign || ds[0].n != 1 {
					break
				}
				v = ast.Unparen(ds[0].rhs)
			}
			okv, why := false, ""
			switch x := v.(type) {
			case *ast.Ident:
				if x.Name == "true" || x.Name == "false" {
					okv, why = true, "the constant "+x.Name
				} else if i := paramIdx(fd, info.Uses[x]); i >= 0 && pubParam[fn][i] {
					okv, why = true, "the constructor's own pub parameter"
				} else if tv, ok := info.Types[x]; ok && tv.Value != nil {
					okv, why = true, "a constant"
				}
			case *ast.SelectorExpr:
				if isPubField(info.Uses[x.Sel]) {
					okv, why = true, "a copy of "+f.pretty(f.norm(x))
				}
			}
			key := fmt.Sprintf("homescript/analyzer.%s|%s|is a constant or a copy of a pub flag", FuncName(fd), what)
			nKey[key]++
			if k := nKey[key]; k > 1 {
				key = fmt.Sprintf("%s #%d", key, k)
			}
			ob := Obligation{Key: key, Pos: c.Pos(pos.Pos()), Nontrivial: true}
			if okv {
				ob.Detail = why
			} else {
				ob.Status = Violated
				ob.Detail = fmt.Sprintf("`%s` is recorded as the visibility of the symbol, but it is neither a constant nor a plain copy of a pub flag of the syntax node / another entry: importers of this module read the field to decide what they may import", exprStr(v))
			}
			out = append(out, ob)
		}
		ast.Inspect(fd.Body, func(n ast.Node) bool {
			switch x := n.(type) {
			case *ast.CallExpr:
				if cal := CalleeOf(info, x); cal != nil && pubParam[cal] != nil {
					var idx []int
					for i := range pubParam[cal] {
						idx = append(idx, i)
					}
					sort.Ints(idx)
					for _, i := range idx {
						if i < len(x.Args) {
							judge(fmt.Sprintf("pub argument of %s", cal.Name()), x.Args[i], x)
						}
					}
				}
			case *ast.KeyValueExpr:
				if k, ok := x.Key.(*ast.Ident); ok && isPubField(info.Uses[k]) {
					judge("field "+k.Name+" of a literal", x.Value, x)
				}
			case *ast.AssignStmt:
				for i, l := range x.Lhs {
					if sel, ok := ast.Unparen(l).(*ast.SelectorExpr); ok && isPubField(info.Uses[sel.Sel]) && i < len(x.Rhs) {
						judge("assignment to "+sel.Sel.Name, x.Rhs[i], x)
					}
				}
			}
			return true
		})
	}
	sort.SliceStable(out, func(i, j int) bool { return out[i].Key < out[j].Key })
	return out
}
