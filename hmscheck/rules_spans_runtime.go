package main

import (
	"fmt"
	"go/ast"
	"go/token"
	"go/types"
	"sort"
	"strings"
)

// R-span-runtime (runtime / compiler part of C08): positions of interrupts
// and caught exceptions come from the source map entry of the instruction
// that failed.

func init() {
	register(&Rule{ID: "R-span-runtime", Floor: 30, Run: ruleSpanRuntime,
		Doc: "(a) every call in package runtime that hands an errors.Span (or a func() errors.Span) to an interrupt/exception constructor, cast, index, host call or builtin callback passes a span derived from the VM's source map lookup, from a span parameter or from the span of another interrupt — never a zero errors.Span{} (unless the resulting interrupt provably dies in a panic); (b) in every case of the instruction dispatch no source-map lookup happens after the frame's instruction pointer or the call stack was modified on the same path (otherwise the interrupt names the NEXT construct); (c) Function.Instructions and Function.SourceMap are written only together: paired appends with the same element count, paired whole-slice stores of lock-step-built locals, paired map stores with the same key, length-preserving index patches; (d) every loop that copies a function's instructions into a new slice appends, for the instruction at index i, the source-map entry SourceMap[i] of the same function at the same index i. Breaking (a) yields interrupts without position, (b)/(c)/(d) positions of a different construct."})
}

type srtRoles struct {
	c        *Ctx
	rt       *types.Package
	spanT    *types.Named
	smLookup map[*types.Func]bool // VM.SourceMap-like lookups
	fnT      *types.Named         // compiler.Function
	instrF   *types.Var
	smF      *types.Var
	frameT   *types.Named // runtime.CallFrame
	ipF      *types.Var
	coreT    *types.Named
	typeN    *types.Named // analyzer/ast.Type
	typeI    *types.Interface
}

func srtResolve(c *Ctx) *srtRoles {
	rp := c.Pkg("homescript/runtime")
	cp := c.Pkg("homescript/compiler")
	ep := c.Pkg("homescript/errors")
	r := &srtRoles{c: c, rt: rp.Types, smLookup: map[*types.Func]bool{}}
	r.spanT, _ = ep.Types.Scope().Lookup("Span").Type().(*types.Named)
	if r.spanT == nil {
		fatalf("anchor unresolved: errors.Span")
	}
	// compiler.Function: the struct with a []Instruction and a []errors.Span field
	instrObj := cp.Types.Scope().Lookup("Instruction")
	if instrObj == nil {
		fatalf("anchor unresolved: compiler.Instruction")
	}
	for _, name := range cp.Types.Scope().Names() {
		tn, ok := cp.Types.Scope().Lookup(name).(*types.TypeName)
		if !ok {
			continue
		}
		n, ok := tn.Type().(*types.Named)
		if !ok {
			continue
		}
		st, ok := n.Underlying().(*types.Struct)
		if !ok {
			continue
		}
		var fi, fs *types.Var
		for i := 0; i < st.NumFields(); i++ {
			if sl, ok := st.Field(i).Type().(*types.Slice); ok {
				if types.Identical(sl.Elem(), instrObj.Type()) {
					fi = st.Field(i)
				}
				if types.Identical(sl.Elem(), r.spanT) {
					fs = st.Field(i)
				}
			}
		}
		if fi != nil && fs != nil {
			if r.fnT != nil {
				fatalf("anchor ambiguous: two compiler structs hold instructions and a source map (%s, %s)", r.fnT.Obj().Name(), name)
			}
			r.fnT, r.instrF, r.smF = n, fi, fs
		}
	}
	if r.fnT == nil {
		fatalf("anchor unresolved: the compiler's per-function struct ([]Instruction + []errors.Span)")
	}
	// CallFrame: struct in runtime with a string and an unsigned field used as instruction pointer
	run := c.MustFunc("homescript/runtime", "Core", "Run")
	rf := rp.TypesInfo.Defs[run.Name].(*types.Func)
	r.coreT = recvNamed(rf.Type().(*types.Signature).Recv().Type())
	// source-map lookups: functions of package runtime returning errors.Span that index a map[string][]errors.Span
	for _, fd := range AllFuncDecls(rp) {
		fn, _ := rp.TypesInfo.Defs[fd.Name].(*types.Func)
		if fn == nil {
			continue
		}
		sig := fn.Type().(*types.Signature)
		if sig.Results().Len() != 1 || !types.Identical(sig.Results().At(0).Type(), r.spanT) {
			continue
		}
		reads := false
		ast.Inspect(fd.Body, func(n ast.Node) bool {
			if ix, ok := n.(*ast.IndexExpr); ok {
				if m, ok := rp.TypesInfo.Types[ix.X].Type.Underlying().(*types.Map); ok {
					if sl, ok := m.Elem().(*types.Slice); ok && types.Identical(sl.Elem(), r.spanT) {
						reads = true
					}
				}
			}
			return true
		})
		if reads {
			r.smLookup[fn] = true
			for i := 0; i < sig.Params().Len(); i++ {
				if n, ok := sig.Params().At(i).Type().(*types.Named); ok {
					if st, ok := n.Underlying().(*types.Struct); ok {
						for j := 0; j < st.NumFields(); j++ {
							if b, ok := st.Field(j).Type().Underlying().(*types.Basic); ok && b.Info()&types.IsUnsigned != 0 {
								r.frameT, r.ipF = n, st.Field(j)
							}
						}
					}
				}
			}
		}
	}
	if len(r.smLookup) == 0 || r.frameT == nil {
		fatalf("anchor unresolved: the VM's source-map lookup (func(frame) errors.Span indexing map[string][]errors.Span)")
	}
	// accessors: functions of the package whose every return is the result of a
	// lookup (`func (c *Core) currentSpan() errors.Span { return c.parent.SourceMap(*c.callFrame()) }`)
	// are lookups themselves — of the frame they are given or pick.
	for changed := true; changed; {
		changed = false
		for _, fd := range AllFuncDecls(rp) {
			fn, _ := rp.TypesInfo.Defs[fd.Name].(*types.Func)
			if fn == nil || r.smLookup[fn] {
				continue
			}
			sig := fn.Type().(*types.Signature)
			if sig.Results().Len() != 1 || !types.Identical(sig.Results().At(0).Type(), r.spanT) {
				continue
			}
			rets, all := 0, true
			ast.Inspect(fd.Body, func(n ast.Node) bool {
				switch x := n.(type) {
				case *ast.FuncLit:
					return false
				case *ast.ReturnStmt:
					rets++
					if len(x.Results) != 1 {
						all = false
						return true
					}
					st, _ := r.classifySpanExpr(rp.TypesInfo, srtEnclosing{decl: fd}, x.Results[0], 0)
					if st != Discharged || !r.isLookupDerived(rp.TypesInfo, fd, x.Results[0], 0) {
						all = false
					}
				}
				return true
			})
			if rets > 0 && all {
				r.smLookup[fn] = true
				changed = true
			}
		}
	}
	return r
}

// isLookupDerived: the span expression is (a local holding) the result of a
// source-map lookup — not a parameter or the span of another value.
func (r *srtRoles) isLookupDerived(info *types.Info, fd *ast.FuncDecl, e ast.Expr, depth int) bool {
	e = ast.Unparen(e)
	if depth > 4 {
		return false
	}
	switch x := e.(type) {
	case *ast.CallExpr:
		fn := CalleeOf(info, x)
		return fn != nil && r.smLookup[fn]
	case *ast.Ident:
		obj := info.Uses[x]
		n, ok := 0, true
		ast.Inspect(fd.Body, func(m ast.Node) bool {
			if as, isAs := m.(*ast.AssignStmt); isAs && len(as.Lhs) == len(as.Rhs) {
				for i, l := range as.Lhs {
					if id, isId := l.(*ast.Ident); isId && obj != nil && (info.Defs[id] == obj || info.Uses[id] == obj) {
						n++
						if !r.isLookupDerived(info, fd, as.Rhs[i], depth+1) {
							ok = false
						}
					}
				}
			}
			return true
		})
		return n > 0 && ok
	}
	return false
}

func ruleSpanRuntime(c *Ctx) []Obligation {
	r := srtResolve(c)
	var obs []Obligation
	obs = append(obs, srtCtorSpans(r)...)
	obs = append(obs, srtDispatchOrder(r)...)
	obs = append(obs, srtLockstep(r)...)
	obs = append(obs, srtCopyLoops(r)...)
	return obs
}

// ---- (a) spans handed to interrupt constructors ----

func (r *srtRoles) isSpanish(t types.Type) bool {
	if types.Identical(t, r.spanT) {
		return true
	}
	if sig, ok := t.Underlying().(*types.Signature); ok && sig.Params().Len() == 0 && sig.Results().Len() == 1 {
		return types.Identical(sig.Results().At(0).Type(), r.spanT)
	}
	return false
}

type srtEnclosing struct {
	decl *ast.FuncDecl
	lits []*ast.FuncLit // innermost last
}

func (r *srtRoles) classifySpanExpr(info *types.Info, enc srtEnclosing, e ast.Expr, depth int) (Status, string) {
	e = ast.Unparen(e)
	if depth > 6 {
		return Undecided, "provenance chain too deep at " + exprStr(e)
	}
	switch x := e.(type) {
	case *ast.CompositeLit:
		if len(x.Elts) == 0 {
			return Violated, "zero errors.Span{} literal"
		}
		return Undecided, "hand-built span " + exprStr(x)
	case *ast.CallExpr:
		if fn := CalleeOf(info, x); fn != nil && r.smLookup[fn] {
			// the frame looked up must be the executing one: an element of the
			// call stack other than the last belongs to a caller whose instruction
			// pointer already moved past its call
			for _, a := range x.Args {
				if ix, ok := ast.Unparen(a).(*ast.IndexExpr); ok {
					if sl, ok := info.Types[ix.X].Type.Underlying().(*types.Slice); ok && types.Identical(sl.Elem(), r.frameT) {
						want := "len(" + exprStr(ix.X) + ") - 1"
						if exprStr(ix.Index) != want {
							return Violated, fmt.Sprintf("source map lookup for %s, which is not the executing frame (%s[%s]): the span is the caller's instruction after its call, not the construct that failed", exprStr(a), exprStr(ix.X), want)
						}
					}
				}
			}
			return Discharged, "source map lookup " + exprStr(x)
		}
		// calling a local func() errors.Span
		if id, ok := ast.Unparen(x.Fun).(*ast.Ident); ok && len(x.Args) == 0 {
			return r.classifySpanExpr(info, enc, id, depth+1)
		}
		// the span of an analyzer TYPE value (`field.Type.Span()`): where that type was
		// written — for a named type its definition — not the instruction that failed
		if fn := CalleeOf(info, x); fn != nil && len(x.Args) == 0 {
			if sig := fn.Type().(*types.Signature); sig.Recv() != nil && sig.Results().Len() == 1 && types.Identical(sig.Results().At(0).Type(), r.spanT) {
				if sel, ok := ast.Unparen(x.Fun).(*ast.SelectorExpr); ok && r.isTypeValue(info.Types[sel.X].Type) {
					return Violated, fmt.Sprintf("%s() of the TYPE value %s (%s): the position where that type was written (for a named or imported type its definition / the import item), not the span of the instruction that fails — the interrupt points away from the construct that caused it", fn.Name(), exprStr(sel.X), spTypeName(info.Types[sel.X].Type))
				}
			}
		}
		// the span carried by another interrupt / cast error, read through its
		// accessor (`(*i).GetSpan()`) instead of the field
		if fn := CalleeOf(info, x); fn != nil && len(x.Args) == 0 && fn.Pkg() != nil && strings.HasSuffix(fn.Pkg().Path(), "/runtime/value") {
			if sig := fn.Type().(*types.Signature); sig.Recv() != nil && sig.Results().Len() == 1 && types.Identical(sig.Results().At(0).Type(), r.spanT) {
				if sel, ok := ast.Unparen(x.Fun).(*ast.SelectorExpr); ok {
					return Discharged, "span carried by " + exprStr(sel.X) + " (" + spTypeName(info.Types[sel.X].Type) + ") via " + fn.Name() + "()"
				}
			}
		}
		return Undecided, "span computed by " + exprStr(x.Fun)
	case *ast.FuncLit:
		st, det := Discharged, ""
		n := 0
		ast.Inspect(x.Body, func(m ast.Node) bool {
			if ret, ok := m.(*ast.ReturnStmt); ok && len(ret.Results) == 1 {
				n++
				s, d := r.classifySpanExpr(info, srtEnclosing{decl: enc.decl, lits: append(enc.lits, x)}, ret.Results[0], depth+1)
				if s != Discharged {
					st = s
				}
				det = d
			}
			return true
		})
		if n == 0 {
			return Undecided, "closure without a return"
		}
		return st, "closure returning " + det
	case *ast.SelectorExpr:
		if f := spFieldOf(info, x); f != nil && types.Identical(f.Type(), r.spanT) {
			if r.isTypeValue(info.Types[x.X].Type) {
				return Violated, fmt.Sprintf("span field %s of the TYPE value %s: the position where that type was written, not the span of the instruction that fails", f.Name(), exprStr(x.X))
			}
			// the span carried by another interrupt / cast error
			if f.Pkg() != nil && strings.HasSuffix(f.Pkg().Path(), "/runtime/value") {
				return Discharged, "span carried by " + exprStr(x.X) + " (" + spTypeName(info.Types[x.X].Type) + ")"
			}
		}
		return Undecided, "span field " + exprStr(x)
	case *ast.Ident:
		obj := info.Uses[x]
		if obj == nil {
			return Undecided, "unresolved " + x.Name
		}
		// parameter of the enclosing function / literal
		isParam := func(ft *ast.FuncType) bool {
			for _, f := range ft.Params.List {
				for _, n := range f.Names {
					if info.Defs[n] == obj {
						return true
					}
				}
			}
			return false
		}
		if enc.decl != nil && isParam(enc.decl.Type) {
			return Discharged, "parameter " + x.Name
		}
		for _, l := range enc.lits {
			if isParam(l.Type) {
				return Discharged, "closure parameter " + x.Name
			}
		}
		// local: all its definitions
		var defs []ast.Expr
		if enc.decl != nil {
			ast.Inspect(enc.decl.Body, func(m ast.Node) bool {
				switch s := m.(type) {
				case *ast.AssignStmt:
					if len(s.Lhs) == len(s.Rhs) {
						for i, l := range s.Lhs {
							if id, ok := l.(*ast.Ident); ok && (info.Defs[id] == obj || info.Uses[id] == obj) {
								defs = append(defs, s.Rhs[i])
							}
						}
					}
				case *ast.ValueSpec:
					for i, n := range s.Names {
						if info.Defs[n] == obj && i < len(s.Values) {
							defs = append(defs, s.Values[i])
						}
					}
				}
				return true
			})
		}
		if len(defs) == 0 {
			return Undecided, "no definition of " + x.Name + " found"
		}
		worst, det := Discharged, ""
		for _, d := range defs {
			s, dd := r.classifySpanExpr(info, enc, d, depth+1)
			if s != Discharged || det == "" {
				det = dd
			}
			if s == Violated || (s == Undecided && worst != Violated) {
				worst = s
			}
		}
		return worst, x.Name + " := " + det
	}
	return Undecided, "span expression " + exprStr(e)
}

func srtCtorSpans(r *srtRoles) []Obligation {
	var obs []Obligation
	typeCtor := 0
	// the VM itself and its value package (casts, index, member access raise the interrupts there)
	for _, rel := range []string{"homescript/runtime", "homescript/runtime/value"} {
		if !r.c.HasPkg(rel) {
			continue
		}
		obs = append(obs, srtCtorSpansIn(r, rel, &typeCtor)...)
	}
	obs = append(obs, Obligation{Key: "runtime|type-constructor spans", Status: Info, Detail: fmt.Sprintf("%d errors.Span arguments go to analyzer/ast type constructors (span of a type, not of a failure): not checked", typeCtor)})
	return obs
}

func srtCtorSpansIn(r *srtRoles, rel string, typeCtorOut *int) []Obligation {
	c := r.c
	rp := c.Pkg(rel)
	info := rp.TypesInfo
	var obs []Obligation
	typeCtor := 0
	prefix := strings.TrimPrefix(rel, "homescript/")
	for _, fd := range AllFuncDecls(rp) {
		count := map[string]int{}
		var lits []*ast.FuncLit
		var visit func(n ast.Node)
		visit = func(n ast.Node) {
			ast.Inspect(n, func(m ast.Node) bool {
				if fl, ok := m.(*ast.FuncLit); ok {
					lits = append(lits, fl)
					visit(fl.Body)
					lits = lits[:len(lits)-1]
					return false
				}
				if cl, ok := m.(*ast.CompositeLit); ok && rel != "homescript/runtime" {
					// an interrupt / cast error written as a literal: its span field is handed the span the same way
					if lt := info.Types[cl].Type; lt != nil {
						if n := recvNamed(lt); n != nil && n.Obj().Pkg() == rp.Types {
							for _, el := range cl.Elts {
								kv, ok := el.(*ast.KeyValueExpr)
								if !ok {
									continue
								}
								k, ok := kv.Key.(*ast.Ident)
								if !ok {
									continue
								}
								f, _ := info.Uses[k].(*types.Var)
								if f == nil || !r.isSpanish(f.Type()) {
									continue
								}
								base := fmt.Sprintf("%s.%s|%s literal|span", prefix, FuncName(fd), n.Obj().Name())
								count[base]++
								key := base
								if count[base] > 1 {
									key = fmt.Sprintf("%s#%d", base, count[base])
								}
								st, det := r.classifySpanExpr(info, srtEnclosing{decl: fd, lits: append([]*ast.FuncLit(nil), lits...)}, kv.Value, 0)
								obs = append(obs, Obligation{Key: key, Pos: c.Pos(kv.Value.Pos()), Status: st, Detail: det, Nontrivial: true})
							}
						}
					}
					return true
				}
				call, ok := m.(*ast.CallExpr)
				if !ok {
					return true
				}
				tv, ok := info.Types[call.Fun]
				if !ok || tv.IsType() {
					return true
				}
				sig, ok := tv.Type.Underlying().(*types.Signature)
				if !ok {
					return true
				}
				for i, a := range call.Args {
					var pt types.Type
					switch {
					case sig.Variadic() && i >= sig.Params().Len()-1:
						continue
					case i < sig.Params().Len():
						pt = sig.Params().At(i).Type()
					}
					if pt == nil || !r.isSpanish(pt) {
						continue
					}
					callee := CalleeOf(info, call)
					name := exprStr(call.Fun)
					if callee != nil {
						name = callee.Name()
						if callee.Pkg() != nil && strings.HasSuffix(callee.Pkg().Path(), "/analyzer/ast") {
							typeCtor++ // the span of a *type*, not a position of a failure
							continue
						}
						if r.smLookup[callee] {
							continue
						}
					}
					base := fmt.Sprintf("%s.%s|%s|span", prefix, FuncName(fd), name)
					count[base]++
					key := base
					if count[base] > 1 {
						key = fmt.Sprintf("%s#%d", base, count[base])
					}
					st, det := r.classifySpanExpr(info, srtEnclosing{decl: fd, lits: append([]*ast.FuncLit(nil), lits...)}, a, 0)
					if st == Violated {
						if why, ok := srtInterruptDiesInPanic(info, fd, call); ok {
							st, det = Discharged, det+"; "+why
						}
					}
					obs = append(obs, Obligation{Key: key, Pos: c.Pos(a.Pos()), Status: st, Detail: det, Nontrivial: true})
				}
				return true
			})
		}
		visit(fd.Body)
	}
	*typeCtorOut += typeCtor
	return obs
}

// srtInterruptDiesInPanic: call is the RHS of `_, x := call` (or `x := call`)
// and every use of the error-like result x is `x != nil` guarding a block that
// ends in panic, or inside that block.
func srtInterruptDiesInPanic(info *types.Info, fd *ast.FuncDecl, call *ast.CallExpr) (string, bool) {
	var res types.Object
	var asg *ast.AssignStmt
	ast.Inspect(fd.Body, func(n ast.Node) bool {
		if a, ok := n.(*ast.AssignStmt); ok && len(a.Rhs) == 1 && ast.Unparen(a.Rhs[0]) == call {
			asg = a
		}
		return true
	})
	if asg == nil {
		return "", false
	}
	last, ok := asg.Lhs[len(asg.Lhs)-1].(*ast.Ident)
	if !ok || last.Name == "_" {
		return "", false
	}
	res = info.Defs[last]
	if res == nil {
		res = info.Uses[last]
	}
	if res == nil {
		return "", false
	}
	// the if statements testing res
	var guards []*ast.IfStmt
	ast.Inspect(fd.Body, func(n ast.Node) bool {
		if is, ok := n.(*ast.IfStmt); ok {
			if be, ok := ast.Unparen(is.Cond).(*ast.BinaryExpr); ok && be.Op == token.NEQ {
				if id, ok := ast.Unparen(be.X).(*ast.Ident); ok && info.Uses[id] == res && spIsNil(info, be.Y) {
					guards = append(guards, is)
				}
			}
		}
		return true
	})
	if len(guards) == 0 {
		return "", false
	}
	for _, g := range guards {
		if !BodyPanics(info, g.Body.List) {
			return "", false
		}
	}
	// every other use of res lies inside one of the guards
	okAll := true
	ast.Inspect(fd.Body, func(n ast.Node) bool {
		id, ok := n.(*ast.Ident)
		if !ok || info.Uses[id] != res {
			return true
		}
		inside := false
		for _, g := range guards {
			if id.Pos() >= g.Pos() && id.End() <= g.End() {
				inside = true
			}
		}
		if !inside {
			okAll = false
		}
		return true
	})
	if !okAll {
		return "", false
	}
	return "the resulting " + last.Name + " is only tested against nil and the guarded block ends in panic (host API misuse): the zero span never reaches a reported interrupt", true
}

// ---- (b) span before instruction pointer ----

type srtOrdState struct {
	moved    []string // how the frame moved so far on this path
	trail    []string
	deferred map[types.Object]bool // closures that look the span up when called
}

// srtSumm is what a function of the package does to the order "span read,
// then frame moved" when it is called from an instruction case.
type srtSumm struct {
	lookups     int      // source-map lookups inside (transitively)
	viol        []string // a lookup after a move inside the function itself
	lookupFirst string   // a lookup reachable while the function has not moved the frame yet ("" = none)
	exitMoved   string   // how the frame may have moved when the function returns ("" = not)
}

type srtFlow struct {
	r      *srtRoles
	c      *Ctx
	info   *types.Info
	movers map[*types.Func]string
	decls  map[*types.Func]*ast.FuncDecl
	summ   map[*types.Func]*srtSumm
	active map[*types.Func]bool
}

func (f *srtFlow) isMove(n ast.Node) string {
	info, r := f.info, f.r
	switch x := n.(type) {
	case *ast.IncDecStmt:
		if spFieldOf(info, x.X) == r.ipF {
			return exprStr(x.X) + x.Tok.String()
		}
	case *ast.AssignStmt:
		for _, l := range x.Lhs {
			if spFieldOf(info, l) == r.ipF {
				return exprStr(l) + " " + x.Tok.String() + " …"
			}
			if st, ok := ast.Unparen(l).(*ast.StarExpr); ok {
				if t := info.Types[st.X].Type; t != nil {
					if p, ok := t.(*types.Pointer); ok && types.Identical(p.Elem(), r.frameT) {
						return "*" + exprStr(st.X) + " = …"
					}
				}
			}
		}
	case *ast.CallExpr:
		if fn := CalleeOf(info, x); fn != nil {
			if why, ok := f.movers[fn]; ok {
				return fn.Name() + "() " + why
			}
		}
	}
	return ""
}

// summary walks a function of the package once (memoised, depth-limited).
func (f *srtFlow) summary(fn *types.Func, depth int) *srtSumm {
	if s := f.summ[fn]; s != nil {
		return s
	}
	fd := f.decls[fn]
	if fd == nil || f.r.smLookup[fn] || f.active[fn] || depth > 3 {
		return &srtSumm{}
	}
	f.active[fn] = true
	s, _, overflow := f.walk(fd.Body.List, depth)
	delete(f.active, fn)
	if overflow {
		s = &srtSumm{} // too many paths: no claim about the callee (as before it was followed at all)
	}
	f.summ[fn] = s
	return s
}

// walk explores a statement list path by path: a lookup after a move is a
// violation; calls of package functions contribute their summary.
func (f *srtFlow) walk(body []ast.Stmt, depth int) (*srtSumm, int, bool) {
	info, r, c := f.info, f.r, f.c
	out := &srtSumm{}
	seen := map[string]bool{}
	addViol := func(v string) {
		if !seen[v] {
			seen[v] = true
			out.viol = append(out.viol, v)
		}
	}
	scan := func(st *srtOrdState, n ast.Node) {
		ast.Inspect(n, func(m ast.Node) bool {
			switch x := m.(type) {
			case *ast.FuncLit:
				return false // looked up lazily: handled through the variable
			case *ast.CallExpr:
				fn := CalleeOf(info, x)
				if fn != nil && r.smLookup[fn] {
					if len(st.moved) > 0 {
						addViol(fmt.Sprintf("%s at %s is evaluated after %s on path {%s}", exprStr(x), c.Pos(x.Pos()), strings.Join(st.moved, ", "), strings.Join(st.trail, "; ")))
					} else if out.lookupFirst == "" {
						out.lookupFirst = exprStr(x) + " at " + c.Pos(x.Pos())
					}
				}
				// calling / passing a deferred lookup closure
				for _, a := range append([]ast.Expr{x.Fun}, x.Args...) {
					if id, ok := ast.Unparen(a).(*ast.Ident); ok && st.deferred[info.Uses[id]] {
						if len(st.moved) > 0 {
							addViol(fmt.Sprintf("closure %s (source map lookup) is used at %s after %s", id.Name, c.Pos(x.Pos()), strings.Join(st.moved, ", ")))
						} else if out.lookupFirst == "" {
							out.lookupFirst = "closure " + id.Name + " at " + c.Pos(x.Pos())
						}
					}
				}
				mv := f.isMove(x)
				if fn != nil && !r.smLookup[fn] && f.decls[fn] != nil {
					// a case body (or a part of it) that lives in its own function
					cs := f.summary(fn, depth+1)
					if cs.lookupFirst != "" {
						if len(st.moved) > 0 {
							addViol(fmt.Sprintf("%s() looks the span up (%s) and is called at %s after %s on path {%s}", fn.Name(), cs.lookupFirst, c.Pos(x.Pos()), strings.Join(st.moved, ", "), strings.Join(st.trail, "; ")))
						} else if out.lookupFirst == "" {
							out.lookupFirst = cs.lookupFirst
						}
					}
					for _, v := range cs.viol {
						addViol("in " + fn.Name() + "(): " + v)
					}
					if mv == "" && cs.exitMoved != "" {
						mv = fn.Name() + "() → " + cs.exitMoved
					}
				}
				if mv != "" {
					st.moved = append(st.moved, mv)
				}
			case *ast.IncDecStmt, *ast.AssignStmt:
				// evaluate RHS lookups first (they precede the store)
				if as, ok := x.(*ast.AssignStmt); ok {
					for i, rhs := range as.Rhs {
						if fl, ok := ast.Unparen(rhs).(*ast.FuncLit); ok && i < len(as.Lhs) {
							has := false
							ast.Inspect(fl.Body, func(k ast.Node) bool {
								if call, ok := k.(*ast.CallExpr); ok {
									if fn := CalleeOf(info, call); fn != nil && r.smLookup[fn] {
										has = true
									}
								}
								return true
							})
							if id, ok := as.Lhs[i].(*ast.Ident); ok && has {
								if o := info.Defs[id]; o != nil {
									st.deferred[o] = true
								}
							}
						}
					}
				}
			}
			return true
		})
		// stores happen after the operands were evaluated
		switch x := n.(type) {
		case *ast.IncDecStmt, *ast.AssignStmt:
			if mv := f.isMove(x); mv != "" {
				st.moved = append(st.moved, mv)
			}
		}
	}
	w := &Walker[*srtOrdState]{
		Clone: func(s *srtOrdState) *srtOrdState {
			n := &srtOrdState{moved: append([]string(nil), s.moved...), trail: append([]string(nil), s.trail...), deferred: map[types.Object]bool{}}
			for k, v := range s.deferred {
				n.deferred[k] = v
			}
			return n
		},
		IsPanic: func(s ast.Stmt) bool { return IsPanicCall(info, s) },
		OnStmt: func(st *srtOrdState, s ast.Stmt) (*srtOrdState, bool) {
			scan(st, s)
			return st, true
		},
		OnCond: func(st *srtOrdState, cond ast.Expr, taken bool) (*srtOrdState, bool) {
			scan(st, cond)
			if len(st.trail) < 12 {
				st.trail = append(st.trail, fmt.Sprintf("%s:%v", spShort(exprStr(cond)), taken))
			}
			return st, true
		},
		Exit: func(st *srtOrdState, o outcome) {
			if o.kind != cPanic && len(st.moved) > 0 && out.exitMoved == "" {
				out.exitMoved = st.moved[0]
			}
		},
		MaxPaths: 5000,
	}
	w.Run(&ast.BlockStmt{List: body}, &srtOrdState{deferred: map[types.Object]bool{}})
	// lookups inside, for the anti-vacuity count
	ast.Inspect(&ast.BlockStmt{List: body}, func(n ast.Node) bool {
		if call, ok := n.(*ast.CallExpr); ok {
			if fn := CalleeOf(info, call); fn != nil {
				if r.smLookup[fn] {
					out.lookups++
				} else if f.decls[fn] != nil {
					out.lookups += f.summary(fn, depth+1).lookups
				}
			}
		}
		return true
	})
	return out, w.Paths, w.Overflow
}

// srtClauseFact: what the VM does for one opcode — does its clause ever read the
// source map (a failure it can report), does it move the frame (call / return /
// jump: the instruction's span shows up in stack traces of callees).
type srtClauseFact struct {
	lookups int
	moves   bool
}

var srtClauseFacts = map[*Ctx]map[*types.Const]srtClauseFact{}

func srtDispatchOrder(r *srtRoles) []Obligation {
	c := r.c
	rp := c.Pkg("homescript/runtime")
	cp := c.Pkg("homescript/compiler")
	info := rp.TypesInfo
	opT, _ := cp.Types.Scope().Lookup("Opcode").Type().(*types.Named)
	if opT == nil {
		fatalf("anchor unresolved: compiler.Opcode")
	}
	// the dispatch: every switch in a Core method whose tag has type compiler.Opcode
	type disp struct {
		fd *ast.FuncDecl
		sw *ast.SwitchStmt
	}
	var disps []disp
	flow := &srtFlow{r: r, c: c, info: info, movers: map[*types.Func]string{}, decls: map[*types.Func]*ast.FuncDecl{}, summ: map[*types.Func]*srtSumm{}, active: map[*types.Func]bool{}}
	for _, fd := range AllFuncDecls(rp) {
		fn, _ := info.Defs[fd.Name].(*types.Func)
		if fn != nil {
			flow.decls[fn] = fd
		}
		if fd.Recv == nil {
			continue
		}
		if fn == nil || recvNamed(fn.Type().(*types.Signature).Recv().Type()) != r.coreT {
			continue
		}
		ast.Inspect(fd.Body, func(n ast.Node) bool {
			if _, ok := n.(*ast.FuncLit); ok {
				return false
			}
			if sw, ok := n.(*ast.SwitchStmt); ok && sw.Tag != nil {
				if t := info.Types[sw.Tag].Type; t != nil && types.Identical(t, opT) {
					disps = append(disps, disp{fd, sw})
				}
			}
			return true
		})
	}
	nClauses := 0
	for _, d := range disps {
		nClauses += len(d.sw.Body.List)
	}
	if len(disps) == 0 || nClauses <= 20 {
		fatalf("anchor unresolved: the Core method(s) dispatching on compiler.Opcode (%d switch(es), %d clauses)", len(disps), nClauses)
	}
	// which methods move the frame (push/pop call stack)?
	for fn, fd := range flow.decls {
		if fd.Recv == nil {
			continue
		}
		ast.Inspect(fd.Body, func(n ast.Node) bool {
			if as, ok := n.(*ast.AssignStmt); ok {
				for _, l := range as.Lhs {
					if f := spFieldOf(info, l); f != nil {
						if sl, ok := f.Type().(*types.Slice); ok && types.Identical(sl.Elem(), r.frameT) && f.Name() != "ExceptionCatchLabels" {
							flow.movers[fn] = "changes " + f.Name()
						}
					}
				}
			}
			return true
		})
	}
	var obs []Obligation
	facts := map[*types.Const]srtClauseFact{}
	srtClauseFacts[c] = facts
	for _, d := range disps {
		flow.active[info.Defs[d.fd.Name].(*types.Func)] = true
		for _, cl := range d.sw.Body.List {
			cc := cl.(*ast.CaseClause)
			var names []string
			for _, e := range cc.List {
				if k := ConstOf(info, e); k != nil {
					names = append(names, k.Name())
				} else {
					names = append(names, exprStr(e))
				}
			}
			label := "default"
			if len(names) > 0 {
				label = "case " + strings.Join(names, ",")
			}
			sm, paths, overflow := flow.walk(cc.Body, 0)
			for _, e := range cc.List {
				if k := ConstOf(info, e); k != nil {
					facts[k] = srtClauseFact{lookups: sm.lookups, moves: sm.exitMoved != "" || overflow}
				}
			}
			// does the clause look the span up at all?
			if sm.lookups == 0 {
				continue
			}
			key := fmt.Sprintf("runtime.%s|%s|span read before frame moves", FuncName(d.fd), label)
			ob := Obligation{Key: key, Pos: c.Pos(cc.Pos()), Nontrivial: true}
			switch {
			case overflow:
				ob.Status, ob.Detail = Undecided, "path cap exceeded"
			case len(sm.viol) > 0:
				ob.Status, ob.Detail = Violated, sm.viol[0]+": the span belongs to the instruction AFTER this one (or to another frame)"
			default:
				ob.Status, ob.Detail = Discharged, fmt.Sprintf("%d lookup(s), all before any write to %s / call-stack change (%d paths)", sm.lookups, r.ipF.Name(), paths)
			}
			obs = append(obs, ob)
		}
		delete(flow.active, info.Defs[d.fd.Name].(*types.Func))
	}
	return obs
}

// ---- (c) Instructions / SourceMap written together ----

type srtWrite struct {
	fd    *ast.FuncDecl
	pkg   string
	stmt  ast.Stmt
	field *types.Var
	kind  string // append | store | patch | literal
	base  string // expression owning the field
	n     int    // appended element count
	rhs   ast.Expr
	block []ast.Stmt
}

func srtLockstep(r *srtRoles) []Obligation {
	c := r.c
	var obs []Obligation
	byFunc := map[string][]srtWrite{}
	var order []string
	for _, p := range c.All {
		info := p.TypesInfo
		for _, fd := range AllFuncDecls(p) {
			fkey := relPkg(p.PkgPath) + "." + FuncName(fd)
			var blocks func(list []ast.Stmt)
			record := func(w srtWrite) {
				if _, ok := byFunc[fkey]; !ok {
					order = append(order, fkey)
				}
				w.fd, w.pkg = fd, relPkg(p.PkgPath)
				byFunc[fkey] = append(byFunc[fkey], w)
			}
			blocks = func(list []ast.Stmt) {
				for _, s := range list {
					if as, ok := s.(*ast.AssignStmt); ok && len(as.Lhs) == len(as.Rhs) {
						for i, l := range as.Lhs {
							l = ast.Unparen(l)
							if ix, ok := l.(*ast.IndexExpr); ok {
								if f := spFieldOf(info, ix.X); f == r.instrF || f == r.smF {
									record(srtWrite{stmt: s, field: f, kind: "patch", block: list})
								}
								continue
							}
							f := spFieldOf(info, l)
							if f != r.instrF && f != r.smF {
								continue
							}
							w := srtWrite{stmt: s, field: f, kind: "store", base: exprStr(l.(*ast.SelectorExpr).X), rhs: as.Rhs[i], block: list}
							if call, ok := ast.Unparen(as.Rhs[i]).(*ast.CallExpr); ok {
								if id, ok := call.Fun.(*ast.Ident); ok && id.Name == "append" && len(call.Args) >= 1 {
									if spFieldOf(info, call.Args[0]) == f {
										w.kind = "append"
										w.n = len(call.Args) - 1
										if call.Ellipsis.IsValid() {
											w.n = -1
										}
									}
								}
							}
							record(w)
						}
					}
					// nested statement lists
					ast.Inspect(s, func(n ast.Node) bool {
						switch b := n.(type) {
						case *ast.BlockStmt:
							if n != s {
								blocks(b.List)
								return false
							}
						case *ast.CaseClause:
							blocks(b.Body)
							return false
						case *ast.FuncLit:
							blocks(b.Body.List)
							return false
						}
						return true
					})
				}
			}
			blocks(fd.Body.List)
			// composite literals of the function struct
			ast.Inspect(fd.Body, func(n ast.Node) bool {
				cl, ok := n.(*ast.CompositeLit)
				if !ok {
					return true
				}
				if t := info.Types[cl].Type; t == nil || !types.Identical(t, r.fnT) {
					return true
				}
				var hasI, hasS bool
				var ei, es ast.Expr
				for _, el := range cl.Elts {
					if kv, ok := el.(*ast.KeyValueExpr); ok {
						switch info.Uses[kv.Key.(*ast.Ident)] {
						case r.instrF:
							hasI, ei = true, kv.Value
						case r.smF:
							hasS, es = true, kv.Value
						}
					}
				}
				ob := Obligation{Key: fkey + "|" + r.fnT.Obj().Name() + " literal", Pos: c.Pos(cl.Pos()), Nontrivial: false}
				switch {
				case hasI != hasS:
					ob.Status, ob.Detail = Violated, "literal sets only one of Instructions/SourceMap"
				case hasI && !(srtEmptySlice(ei) && srtEmptySlice(es)):
					ob.Status, ob.Detail = Undecided, "literal initialises Instructions/SourceMap with non-empty values: "+exprStr(ei)+" / "+exprStr(es)
				default:
					ob.Status, ob.Detail = Discharged, "both empty"
				}
				obs = append(obs, ob)
				return true
			})
		}
	}
	sort.Strings(order)
	for _, fkey := range order {
		ws := byFunc[fkey]
		used := map[int]bool{}
		var bad []string
		var good []string
		for i, w := range ws {
			if used[i] {
				continue
			}
			if w.kind == "patch" {
				if w.field == r.smF {
					good = append(good, "source-map patch (length preserved)")
				} else {
					good = append(good, "instruction patch (length preserved)")
				}
				continue
			}
			// find the partner in the same statement list
			partner := -1
			for j, v := range ws {
				if j != i && !used[j] && v.field != w.field && v.kind == w.kind && v.base == w.base && srtSameBlock(v.block, w.block) {
					partner = j
					break
				}
			}
			if partner < 0 {
				bad = append(bad, fmt.Sprintf("%s of %s.%s at %s has no matching %s of the other field in the same block", w.kind, w.base, w.field.Name(), c.Pos(w.stmt.Pos()), w.kind))
				continue
			}
			used[i], used[partner] = true, true
			v := ws[partner]
			switch w.kind {
			case "append":
				if w.n != v.n || w.n < 0 {
					bad = append(bad, fmt.Sprintf("appends at %s add %d vs %d elements", c.Pos(w.stmt.Pos()), w.n, v.n))
				} else {
					good = append(good, fmt.Sprintf("paired append of %d element(s) to %s", w.n, w.base))
				}
			case "store":
				// both RHS must be locals built in lock-step
				p := c.Pkg(w.pkg)
				if why, ok := srtLockstepLocals(p.TypesInfo, w.fd, w.rhs, v.rhs); ok {
					good = append(good, "paired store of "+exprStr(w.rhs)+"/"+exprStr(v.rhs)+" ("+why+")")
				} else {
					bad = append(bad, fmt.Sprintf("stores at %s: %s", c.Pos(w.stmt.Pos()), why))
				}
			}
		}
		ob := Obligation{Key: fkey + "|Instructions and SourceMap written together", Pos: c.Pos(ws[0].stmt.Pos()), Nontrivial: true}
		if len(bad) > 0 {
			ob.Status, ob.Detail = Violated, strings.Join(bad, "; ")
		} else {
			ob.Status, ob.Detail = Discharged, strings.Join(good, "; ")
		}
		obs = append(obs, ob)
	}
	// the compile output: map stores of fn.Instructions / fn.SourceMap under the same key
	for _, p := range c.All {
		info := p.TypesInfo
		for _, fd := range AllFuncDecls(p) {
			type mst struct {
				key, base string
				field     *types.Var
				pos       token.Pos
				block     *ast.BlockStmt
			}
			var sts []mst
			ast.Inspect(fd.Body, func(n ast.Node) bool {
				blk, ok := n.(*ast.BlockStmt)
				if !ok {
					return true
				}
				for _, s := range blk.List {
					as, ok := s.(*ast.AssignStmt)
					if !ok || len(as.Lhs) != 1 || len(as.Rhs) != 1 {
						continue
					}
					ix, ok := ast.Unparen(as.Lhs[0]).(*ast.IndexExpr)
					if !ok {
						continue
					}
					if _, isMap := info.Types[ix.X].Type.Underlying().(*types.Map); !isMap {
						continue
					}
					f := spFieldOf(info, as.Rhs[0])
					if f != r.instrF && f != r.smF {
						continue
					}
					sts = append(sts, mst{key: exprStr(ix.Index), base: exprStr(ast.Unparen(as.Rhs[0]).(*ast.SelectorExpr).X), field: f, pos: as.Pos(), block: blk})
				}
				return true
			})
			if len(sts) == 0 {
				continue
			}
			ob := Obligation{Key: relPkg(p.PkgPath) + "." + FuncName(fd) + "|output maps keyed alike", Pos: c.Pos(sts[0].pos), Nontrivial: true, Status: Discharged}
			for i, a := range sts {
				ok := false
				for j, b := range sts {
					if i != j && a.field != b.field && a.block == b.block && a.key == b.key && a.base == b.base {
						ok = true
					}
				}
				if !ok {
					ob.Status = Violated
					ob.Detail += fmt.Sprintf("map store of %s.%s under key %s at %s has no sibling store of the other field under the same key; ", a.base, a.field.Name(), a.key, c.Pos(a.pos))
				}
			}
			if ob.Status == Discharged {
				ob.Detail = fmt.Sprintf("%d stores, pairwise same key and same function value", len(sts))
			}
			obs = append(obs, ob)
		}
	}
	return obs
}

func srtEmptySlice(e ast.Expr) bool {
	switch x := ast.Unparen(e).(type) {
	case *ast.CallExpr:
		if id, ok := x.Fun.(*ast.Ident); ok && id.Name == "make" && len(x.Args) == 2 {
			if bl, ok := x.Args[1].(*ast.BasicLit); ok && bl.Value == "0" {
				return true
			}
		}
	case *ast.CompositeLit:
		return len(x.Elts) == 0
	case *ast.Ident:
		return x.Name == "nil"
	}
	return false
}

func srtSameBlock(a, b []ast.Stmt) bool {
	return len(a) > 0 && len(b) > 0 && a[0] == b[0]
}

// srtLockstepLocals: a and b are local slices; both start empty and every
// append to one sits in the same block as an append (of one element) to the other.
func srtLockstepLocals(info *types.Info, fd *ast.FuncDecl, a, b ast.Expr) (string, bool) {
	ia, ok1 := ast.Unparen(a).(*ast.Ident)
	ib, ok2 := ast.Unparen(b).(*ast.Ident)
	if !ok1 || !ok2 {
		return "stored values are not local slices: " + exprStr(a) + ", " + exprStr(b), false
	}
	oa, ob := info.Uses[ia], info.Uses[ib]
	type ev struct {
		blk  *ast.BlockStmt
		n    int
		init bool
		ok   bool
	}
	collect := func(obj types.Object) []ev {
		var out []ev
		ast.Inspect(fd.Body, func(n ast.Node) bool {
			blk, ok := n.(*ast.BlockStmt)
			if !ok {
				return true
			}
			for _, s := range blk.List {
				as, ok := s.(*ast.AssignStmt)
				if !ok || len(as.Lhs) != len(as.Rhs) {
					continue
				}
				for i, l := range as.Lhs {
					id, ok := l.(*ast.Ident)
					if !ok || (info.Defs[id] != obj && info.Uses[id] != obj) {
						continue
					}
					if srtEmptySlice(as.Rhs[i]) {
						out = append(out, ev{blk: blk, init: true, ok: true})
						continue
					}
					if call, ok := ast.Unparen(as.Rhs[i]).(*ast.CallExpr); ok {
						if fid, ok := call.Fun.(*ast.Ident); ok && fid.Name == "append" && len(call.Args) >= 2 && !call.Ellipsis.IsValid() {
							if aid, ok := call.Args[0].(*ast.Ident); ok && info.Uses[aid] == obj {
								out = append(out, ev{blk: blk, n: len(call.Args) - 1, ok: true})
								continue
							}
						}
					}
					out = append(out, ev{blk: blk, ok: false})
				}
			}
			return true
		})
		return out
	}
	ea, eb := collect(oa), collect(ob)
	if len(ea) != len(eb) {
		return fmt.Sprintf("%s is written %d times, %s %d times", ia.Name, len(ea), ib.Name, len(eb)), false
	}
	for i := range ea {
		if !ea[i].ok || !eb[i].ok {
			return "a write that is neither an empty initialisation nor an append", false
		}
		if ea[i].blk != eb[i].blk || ea[i].n != eb[i].n || ea[i].init != eb[i].init {
			return fmt.Sprintf("write #%d to %s and to %s differ in block or element count", i+1, ia.Name, ib.Name), false
		}
	}
	return fmt.Sprintf("%s and %s: both start empty, %d append(s) each, pairwise in the same block with the same element count", ia.Name, ib.Name, len(ea)-1), true
}

// ---- (d) copy loops keep instruction and span index aligned ----

// srtDeref: a local that is defined exactly once (and never assigned again) is
// the expression it was defined from.
func srtDeref(info *types.Info, fd *ast.FuncDecl, e ast.Expr) ast.Expr {
	for depth := 0; depth < 4; depth++ {
		id, ok := ast.Unparen(e).(*ast.Ident)
		if !ok {
			return ast.Unparen(e)
		}
		obj := info.Uses[id]
		if obj == nil {
			return id
		}
		var def ast.Expr
		n := 0
		ast.Inspect(fd.Body, func(m ast.Node) bool {
			switch x := m.(type) {
			case *ast.AssignStmt:
				for i, l := range x.Lhs {
					if lid, ok := l.(*ast.Ident); ok && (info.Defs[lid] == obj || info.Uses[lid] == obj) {
						n++
						if len(x.Lhs) == len(x.Rhs) {
							def = x.Rhs[i]
						} else {
							n++ // multi-value: not an alias
						}
					}
				}
			case *ast.ValueSpec:
				for i, nm := range x.Names {
					if info.Defs[nm] == obj {
						n++
						if i < len(x.Values) {
							def = x.Values[i]
						}
					}
				}
			case *ast.IncDecStmt:
				if lid, ok := x.X.(*ast.Ident); ok && info.Uses[lid] == obj {
					n += 2
				}
			case *ast.RangeStmt:
				for _, l := range []ast.Expr{x.Key, x.Value} {
					if lid, ok := l.(*ast.Ident); ok && info.Defs[lid] == obj {
						n += 2
					}
				}
			}
			return true
		})
		if n != 1 || def == nil {
			return id
		}
		e = def
	}
	return ast.Unparen(e)
}

func srtCopyLoops(r *srtRoles) []Obligation {
	c := r.c
	var obs []Obligation
	for _, p := range c.All {
		info := p.TypesInfo
		for _, fd := range AllFuncDecls(p) {
			n := 0
			fieldOf := func(e ast.Expr) (*types.Var, string) {
				d := srtDeref(info, fd, e)
				if f := spFieldOf(info, d); f != nil {
					return f, exprStr(ast.Unparen(d).(*ast.SelectorExpr).X)
				}
				return nil, ""
			}
			ast.Inspect(fd.Body, func(m ast.Node) bool {
				var body *ast.BlockStmt
				var idxObj, valObj types.Object
				var base string
				switch lp := m.(type) {
				case *ast.RangeStmt:
					f, b := fieldOf(lp.X)
					if f != r.instrF {
						return true
					}
					body, base = lp.Body, b
					if id, ok := lp.Key.(*ast.Ident); ok && id.Name != "_" {
						idxObj = info.Defs[id]
					}
					if lp.Value != nil {
						if id, ok := lp.Value.(*ast.Ident); ok && id.Name != "_" {
							valObj = info.Defs[id]
						}
					}
				case *ast.ForStmt:
					// for i := …; i < len(X.Instructions); i++
					be, ok := lp.Cond.(*ast.BinaryExpr)
					if !ok {
						return true
					}
					bound := srtDeref(info, fd, be.Y)
					call, ok := bound.(*ast.CallExpr)
					if !ok || len(call.Args) != 1 || exprStr(call.Fun) != "len" {
						return true
					}
					f, b := fieldOf(call.Args[0])
					if f != r.instrF {
						return true
					}
					id, ok := ast.Unparen(be.X).(*ast.Ident)
					if !ok {
						return true
					}
					idxObj = info.Uses[id]
					body, base = lp.Body, b
				default:
					return true
				}
				// appends of spans inside the loop
				type app struct {
					call *ast.CallExpr
					elem ast.Expr
				}
				var spans, instrs []app
				ast.Inspect(body, func(k ast.Node) bool {
					call, ok := k.(*ast.CallExpr)
					if !ok {
						return true
					}
					if id, ok := call.Fun.(*ast.Ident); !ok || id.Name != "append" || len(call.Args) < 2 {
						return true
					}
					sl, ok := info.Types[call.Args[0]].Type.Underlying().(*types.Slice)
					if !ok {
						return true
					}
					for _, a := range call.Args[1:] {
						if types.Identical(sl.Elem(), r.spanT) {
							spans = append(spans, app{call, a})
						} else if types.Identical(sl.Elem(), r.instrF.Type().(*types.Slice).Elem()) {
							instrs = append(instrs, app{call, a})
						}
					}
					return true
				})
				if len(spans) == 0 && len(instrs) == 0 {
					return true
				}
				n++
				key := fmt.Sprintf("%s.%s|copy loop over %s.%s", relPkg(p.PkgPath), FuncName(fd), base, r.instrF.Name())
				if n > 1 {
					key += fmt.Sprintf("#%d", n)
				}
				ob := Obligation{Key: key, Pos: c.Pos(m.Pos()), Nontrivial: true, Status: Discharged}
				var bad, good []string
				if len(instrs) > 0 && len(spans) == 0 {
					bad = append(bad, "instructions are copied but no source-map entry is appended")
				}
				isIdx := func(e ast.Expr) bool {
					id, isId := ast.Unparen(e).(*ast.Ident)
					return isId && idxObj != nil && info.Uses[id] == idxObj
				}
				for _, s := range spans {
					ix, ok := srtDeref(info, fd, s.elem).(*ast.IndexExpr)
					var f *types.Var
					var b string
					if ok {
						f, b = fieldOf(ix.X)
					}
					switch {
					case !ok || f != r.smF:
						bad = append(bad, fmt.Sprintf("appended span %s is not an element of %s.%s", exprStr(s.elem), base, r.smF.Name()))
					case b != base:
						bad = append(bad, fmt.Sprintf("appended span %s comes from another function value than the ranged %s", exprStr(s.elem), base))
					default:
						if !isIdx(ix.Index) {
							bad = append(bad, fmt.Sprintf("appended span %s is not indexed by the loop's input index: the entry belongs to a different instruction whenever an element was skipped before", exprStr(s.elem)))
						} else {
							good = append(good, exprStr(s.elem))
						}
					}
				}
				for _, in := range instrs {
					okI := false
					if id, ok := ast.Unparen(in.elem).(*ast.Ident); ok && valObj != nil && info.Uses[id] == valObj {
						okI = true
					}
					if ix, ok := srtDeref(info, fd, in.elem).(*ast.IndexExpr); ok {
						if f, b := fieldOf(ix.X); f == r.instrF && b == base && isIdx(ix.Index) {
							okI = true
						}
					}
					if !okI {
						bad = append(bad, fmt.Sprintf("appended instruction %s is not the loop's current element", exprStr(in.elem)))
					}
				}
				if len(bad) > 0 {
					ob.Status, ob.Detail = Violated, strings.Join(bad, "; ")
				} else {
					ob.Detail = fmt.Sprintf("instruction = loop element, span = %s (same input index)", strings.Join(good, ", "))
				}
				obs = append(obs, ob)
				return true
			})
		}
	}
	if len(obs) == 0 {
		obs = append(obs, Obligation{Key: "compiler|copy loops", Status: Undecided, Detail: "no loop copying Function.Instructions found: relocateLabels moved or changed shape"})
	}
	return obs
}

// isTypeValue: t is the analyzer's Type interface or one of its implementations.
func (r *srtRoles) isTypeValue(t types.Type) bool {
	if t == nil {
		return false
	}
	if r.typeN == nil {
		if !r.c.HasPkg("homescript/analyzer/ast") {
			return false
		}
		if o := r.c.Pkg("homescript/analyzer/ast").Types.Scope().Lookup("Type"); o != nil {
			r.typeN, _ = o.Type().(*types.Named)
		}
		if r.typeN != nil {
			r.typeI, _ = r.typeN.Underlying().(*types.Interface)
		}
		if r.typeI == nil {
			fatalf("anchor unresolved: analyzer/ast.Type")
		}
	}
	if p, ok := t.(*types.Pointer); ok {
		t = p.Elem()
	}
	if types.Identical(t, r.typeN) {
		return true
	}
	n, ok := t.(*types.Named)
	if !ok || n.Obj().Pkg() == nil || n.Obj().Pkg() != r.typeN.Obj().Pkg() {
		return false
	}
	return types.Implements(n, r.typeI) || types.Implements(types.NewPointer(n), r.typeI)
}
