package main

// R-clone-deep (C17, C13, C16): a copy loop that clones its elements is a
// *deep* copy: every stored entry is a clone of the source entry. Storing the
// entry itself (or a shallow copy of the cell's content) is only sound for
// element kinds whose value struct holds no reference — decided from a kind
// guard around the store. A kind switch that forgets a reference-holding kind
// (an option wraps a pointer to its payload, a string carries a cursor) shares
// that payload between the clone and the original.

import (
	"fmt"
	"go/ast"
	"go/token"
	"go/types"
	"sort"
	"strings"
)

func init() {
	register(&Rule{ID: "R-clone-deep", Floor: 3, Run: ruleCloneDeep,
		Doc: "C17/C13/C16: every loop over a value's storage that stores `element.Clone()` into a new container (Clone of lists/objects/any-objects, the typed-object to any-object conversion) is a deep copy and must be deep for every element: each store in the loop body stores a clone of the visited element, or — when it stores the element itself or a shallow copy of its cell — sits under a kind guard (switch/if on the element's Kind()) that restricts the element to kinds whose value struct holds no pointer, slice, map or interface. A guard that lists the container kinds but forgets another reference-holding kind (Option: pointer to the payload; String/Range: iteration cursor) leaves that payload shared between the copy and the original: a spawned thread's argument or a snapshot taken for a loop is then mutated behind its owner's back."})
}

type r5cStore struct {
	pos   token.Pos
	rhs   ast.Expr
	kinds map[string]bool // nil: every kind
	deep  bool
	elem  bool // derived from the visited element
}

func ruleCloneDeep(c *Ctx) []Obligation {
	var obs []Obligation
	for _, l := range r2tLibs(c) {
		info := l.info
		storage := map[*types.Var]string{}
		for _, im := range l.impls {
			for f := range r2tStorageFields(im) {
				storage[f] = im.Name() + "." + f.Name()
			}
		}
		allKinds := map[string]bool{}
		refKinds := map[string]string{} // kind -> why it holds references
		for _, im := range l.impls {
			if im.kind == nil {
				continue
			}
			allKinds[im.kind.Name()] = true
			for i := 0; i < im.st.NumFields(); i++ {
				f := im.st.Field(i)
				if _, isFn := f.Type().Underlying().(*types.Signature); isFn {
					continue
				}
				if mbHasRefs(f.Type(), 0) {
					refKinds[im.kind.Name()] = im.Name() + "." + f.Name() + " " + f.Type().String()
				}
			}
		}
		seen := map[string]int{}
		var fds []*ast.FuncDecl
		for _, fd := range l.decls {
			fds = append(fds, fd)
		}
		sort.Slice(fds, func(i, j int) bool { return fds[i].Pos() < fds[j].Pos() })
		for _, fd := range fds {
			var loops []*ast.RangeStmt
			ast.Inspect(fd.Body, func(n ast.Node) bool {
				if rs, ok := n.(*ast.RangeStmt); ok && rs.Value != nil {
					if f := r2tFieldOfExpr(info, rs.X); f != nil && storage[f] != "" {
						loops = append(loops, rs)
					}
				}
				return true
			})
			for _, rs := range loops {
				elem := r2tObj(info, rs.Value)
				if elem == nil {
					continue
				}
				// locals derived from the element (single definition inside the loop)
				derived := map[types.Object]bool{elem: true}
				for changed := true; changed; {
					changed = false
					ast.Inspect(rs.Body, func(n ast.Node) bool {
						as, ok := n.(*ast.AssignStmt)
						if !ok || len(as.Lhs) != len(as.Rhs) {
							return true
						}
						for i, lh := range as.Lhs {
							o := r2tObj(info, lh)
							if o == nil || derived[o] {
								continue
							}
							if _, isIx := ast.Unparen(lh).(*ast.IndexExpr); isIx {
								continue
							}
							if r5cMentions(info, as.Rhs[i], derived) && !r5cIsClone(info, as.Rhs[i], derived) {
								derived[o] = true
								changed = true
							}
						}
						return true
					})
				}
				// locals holding a clone of the element
				cloneVars := map[types.Object]bool{}
				ast.Inspect(rs.Body, func(n ast.Node) bool {
					if as, ok := n.(*ast.AssignStmt); ok && len(as.Lhs) == len(as.Rhs) {
						for i, lh := range as.Lhs {
							if o := r2tObj(info, lh); o != nil && r5cIsClone(info, as.Rhs[i], derived) {
								if _, isIx := ast.Unparen(lh).(*ast.IndexExpr); !isIx {
									cloneVars[o] = true
								}
							}
						}
					}
					return true
				})
				isDeep := func(e ast.Expr) bool {
					if r5cIsClone(info, e, derived) {
						return true
					}
					x := mbStripDeref(ast.Unparen(e))
					if u, ok := x.(*ast.UnaryExpr); ok && u.Op == token.AND {
						x = mbStripDeref(ast.Unparen(u.X))
					}
					return cloneVars[r2tObj(info, x)]
				}
				isKindOfElem := func(e ast.Expr) bool {
					call, ok := ast.Unparen(e).(*ast.CallExpr)
					if !ok || len(call.Args) != 0 {
						return false
					}
					sel, ok := ast.Unparen(call.Fun).(*ast.SelectorExpr)
					return ok && sel.Sel.Name == "Kind" && r5cMentions(info, sel.X, derived)
				}
				var stores []r5cStore
				undec := ""
				var walk func(list []ast.Stmt, kinds map[string]bool)
				narrow := func(cur map[string]bool, listed map[string]bool, complement bool) map[string]bool {
					out := map[string]bool{}
					base := cur
					if base == nil {
						base = allKinds
					}
					for k := range base {
						if listed[k] != complement {
							out[k] = true
						}
					}
					return out
				}
				walk = func(list []ast.Stmt, kinds map[string]bool) {
					for _, st := range list {
						switch s := st.(type) {
						case *ast.BlockStmt:
							walk(s.List, kinds)
						case *ast.SwitchStmt:
							if s.Tag != nil && isKindOfElem(s.Tag) {
								listedAll := map[string]bool{}
								for _, cl := range s.Body.List {
									for _, e := range cl.(*ast.CaseClause).List {
										if k := ConstOf(info, e); k != nil {
											listedAll[k.Name()] = true
										} else {
											undec = "case expression " + exprStr(e) + " is not a kind constant"
										}
									}
								}
								for _, cl := range s.Body.List {
									cc := cl.(*ast.CaseClause)
									if cc.List == nil {
										walk(cc.Body, narrow(kinds, listedAll, true))
										continue
									}
									listed := map[string]bool{}
									for _, e := range cc.List {
										if k := ConstOf(info, e); k != nil {
											listed[k.Name()] = true
										}
									}
									walk(cc.Body, narrow(kinds, listed, false))
								}
								continue
							}
							for _, cl := range s.Body.List {
								walk(cl.(*ast.CaseClause).Body, kinds)
							}
						case *ast.TypeSwitchStmt:
							for _, cl := range s.Body.List {
								walk(cl.(*ast.CaseClause).Body, kinds)
							}
						case *ast.IfStmt:
							thenK, elseK := kinds, kinds
							if be, ok := ast.Unparen(s.Cond).(*ast.BinaryExpr); ok && (be.Op == token.EQL || be.Op == token.NEQ) {
								for _, pair := range [][2]ast.Expr{{be.X, be.Y}, {be.Y, be.X}} {
									if k := ConstOf(info, pair[1]); k != nil && isKindOfElem(pair[0]) {
										one := map[string]bool{k.Name(): true}
										if be.Op == token.EQL {
											thenK, elseK = narrow(kinds, one, false), narrow(kinds, one, true)
										} else {
											thenK, elseK = narrow(kinds, one, true), narrow(kinds, one, false)
										}
									}
								}
							}
							walk(s.Body.List, thenK)
							if s.Else != nil {
								walk([]ast.Stmt{s.Else}, elseK)
							}
						case *ast.ForStmt:
							walk(s.Body.List, kinds)
						case *ast.RangeStmt:
							walk(s.Body.List, kinds)
						case *ast.AssignStmt:
							for i, lh := range s.Lhs {
								if len(s.Rhs) != len(s.Lhs) {
									continue
								}
								t := ast.Unparen(lh)
								isStore := false
								if ix, ok := t.(*ast.IndexExpr); ok {
									if v, ok := r2tObj(info, ix.X).(*types.Var); ok && !v.IsField() && !(rs.Pos() <= v.Pos() && v.Pos() <= rs.End()) {
										if _, isC := mbIsContainer(v.Type()); isC {
											isStore = true
										}
									}
								} else if call, ok := ast.Unparen(s.Rhs[i]).(*ast.CallExpr); ok && r2tIsBuiltin(info, call, "append") && len(call.Args) > 1 && r2tObj(info, call.Args[0]) == r2tObj(info, t) {
									if v, ok := r2tObj(info, t).(*types.Var); ok && !(rs.Pos() <= v.Pos() && v.Pos() <= rs.End()) {
										isStore = true
									}
								}
								if !isStore {
									continue
								}
								stores = append(stores, r5cStore{pos: s.Pos(), rhs: s.Rhs[i], kinds: kinds,
									deep: isDeep(s.Rhs[i]), elem: r5cMentions(info, s.Rhs[i], derived)})
							}
						}
					}
				}
				walk(rs.Body.List, nil)
				anyDeep := false
				for _, s := range stores {
					anyDeep = anyDeep || s.deep
				}
				if !anyDeep {
					continue // not a deep copy (keys(), Display, casts that build new values …)
				}
				base := fmt.Sprintf("clonedeep|%s|%s|range %s", l.tag, FuncName(fd), exprStr(rs.X))
				seen[base]++
				key := base
				if seen[base] > 1 {
					key = fmt.Sprintf("%s #%d", base, seen[base])
				}
				o := Obligation{Key: key, Pos: c.Pos(rs.Pos()), Nontrivial: true}
				var bad []string
				nShallow := 0
				for _, s := range stores {
					if s.deep || !s.elem {
						continue
					}
					nShallow++
					ks := s.kinds
					if ks == nil {
						ks = allKinds
					}
					var offending []string
					for _, k := range mbSortedKeys(ks) {
						if why, has := refKinds[k]; has {
							offending = append(offending, mbShortKind(k)+" ("+why+")")
						}
					}
					if len(offending) > 0 {
						bad = append(bad, fmt.Sprintf("the store at %s keeps `%s` (the visited entry itself or a shallow copy of its cell) for element kinds that hold references: %s", c.Pos(s.pos), exprStr(s.rhs), strings.Join(offending, "; ")))
					}
				}
				switch {
				case undec != "":
					o.Status, o.Detail = Undecided, undec
				case len(bad) > 0:
					o.Status = Violated
					o.Detail = "this deep copy is shallow for some element kinds: " + strings.Join(bad, " | ") + " — the payload is shared between the copy and the original (a clone handed to another thread, or a loop's snapshot, is mutated through the original)"
				default:
					o.Status, o.Detail = Discharged, fmt.Sprintf("%d store(s): every one stores a clone of the visited element (%d shallow store(s), all under a kind guard that admits only reference-free kinds)", len(stores), nShallow)
				}
				obs = append(obs, o)
			}
		}
	}
	return obs
}

// r5cMentions: e mentions one of the objects.
func r5cMentions(info *types.Info, e ast.Expr, objs map[types.Object]bool) bool {
	found := false
	ast.Inspect(e, func(n ast.Node) bool {
		if id, ok := n.(*ast.Ident); ok && objs[r2tObj(info, id)] {
			found = true
		}
		return true
	})
	return found
}

// r5cIsClone: e is `X.Clone()` (possibly dereferenced / address-of) with X derived from the element.
func r5cIsClone(info *types.Info, e ast.Expr, derived map[types.Object]bool) bool {
	e = mbStripDeref(ast.Unparen(e))
	if u, ok := e.(*ast.UnaryExpr); ok && u.Op == token.AND {
		e = mbStripDeref(ast.Unparen(u.X))
	}
	call, ok := e.(*ast.CallExpr)
	if !ok || len(call.Args) != 0 {
		return false
	}
	sel, ok := ast.Unparen(call.Fun).(*ast.SelectorExpr)
	return ok && sel.Sel.Name == "Clone" && r5cMentions(info, sel.X, derived)
}
