package main

// Extension of R-stack-agreement part (2) (r6emit): an opcode of the call
// lowering that pushes a value on every completing path needs a non-null
// static type on the analyzer's side.

import (
	"fmt"
	"go/ast"
	"go/token"
	"go/types"
	"sort"
	"strings"
)

// r6emSplitAnd: the conjuncts of a condition; boolean locals defined exactly
// once are replaced by their definition.
func r6emSplitAnd(fn *vmFn, e ast.Expr, depth int) []ast.Expr {
	e = ast.Unparen(e)
	if be, ok := e.(*ast.BinaryExpr); ok && be.Op == token.LAND {
		return append(r6emSplitAnd(fn, be.X, depth), r6emSplitAnd(fn, be.Y, depth)...)
	}
	if id, ok := e.(*ast.Ident); ok && depth < 3 {
		if o := vmObjOf(fn.info, id); o != nil {
			if _, isVar := o.(*types.Var); isVar {
				if def := vmSingleDef(fn, o); def != nil {
					if b, ok := fn.info.TypeOf(def).Underlying().(*types.Basic); ok && b.Kind() == types.Bool {
						return r6emSplitAnd(fn, def, depth+1)
					}
				}
			}
		}
	}
	return []ast.Expr{e}
}

// r6emKindOfType: the constant the Kind() method of a named type returns.
func r6emKindOfType(c *Ctx, t types.Type) *types.Const {
	obj, _, _ := types.LookupFieldOrMethod(t, true, nil, "Kind")
	m, _ := obj.(*types.Func)
	if m == nil {
		return nil
	}
	fn := vmDeclIndex(c).of(m)
	if fn == nil || fn.fd.Body == nil || len(fn.fd.Body.List) != 1 {
		return nil
	}
	rs, ok := fn.fd.Body.List[0].(*ast.ReturnStmt)
	if !ok || len(rs.Results) != 1 {
		return nil
	}
	return ConstOf(fn.info, rs.Results[0])
}

// r6emCtorKind: the kind constant of the value a constructor function of the
// type package returns: its result type's Kind() when that is a concrete type,
// else the Kind() of the composite literal its single return statement builds
// (`return Type(ObjectType{…})`).
func r6emCtorKind(c *Ctx, g *types.Func) *types.Const {
	sig := g.Type().(*types.Signature)
	if sig.Results().Len() != 1 {
		return nil
	}
	rt := sig.Results().At(0).Type()
	if _, isIface := rt.Underlying().(*types.Interface); !isIface {
		return r6emKindOfType(c, rt)
	}
	fn := vmDeclIndex(c).of(g)
	if fn == nil || fn.fd.Body == nil || len(fn.fd.Body.List) != 1 {
		return nil
	}
	rs, ok := fn.fd.Body.List[0].(*ast.ReturnStmt)
	if !ok || len(rs.Results) != 1 {
		return nil
	}
	e := ast.Unparen(vmStripConv(fn.info, rs.Results[0]))
	if u, ok := e.(*ast.UnaryExpr); ok && u.Op == token.AND {
		e = ast.Unparen(u.X)
	}
	if _, ok := e.(*ast.CompositeLit); !ok {
		return nil
	}
	return r6emKindOfType(c, fn.info.TypeOf(e))
}

type r6emFlaggedOp struct {
	op     *types.Const
	flag   *types.Var   // bool field of the analyzed call node decided TRUE on every path whose last instruction is op
	nodeT  *types.Named // the analyzed call node
	unit   string
	nPaths int
}

// r6emFinalCallOps: for every lowering whose subject is a call-expression node,
// the opcode of the LAST instruction of each path (the one that produces the
// call's result) and the boolean node fields decided true on all those paths.
func r6emFinalCallOps(c *Ctx, roles *vmCompilerRoles) []r6emFlaggedOp {
	ex := r2EmitIdx(c)
	var out []r6emFlaggedOp
	for _, fn := range roles.fns {
		info := fn.info
		var nodeT *types.Named
		if fn.fd.Type.Params != nil {
			for _, fl := range fn.fd.Type.Params.List {
				if nt := vmNamed(info.TypeOf(fl.Type)); nt != nil && nt.Obj().Pkg() == roles.astPkg && strings.Contains(nt.Obj().Name(), "CallExpression") {
					nodeT = nt
				}
			}
		}
		obj, _ := info.Defs[fn.fd.Name].(*types.Func)
		if nodeT == nil || obj == nil || !roles.emitters[obj] {
			continue
		}
		relevant := func(n ast.Node) bool {
			switch x := n.(type) {
			case *ast.CallExpr:
				g := CalleeOf(info, x)
				if g == nil {
					if id, ok := x.Fun.(*ast.Ident); ok {
						if b, isB := info.Uses[id].(*types.Builtin); isB && b.Name() == "panic" {
							return true
						}
					}
					return false
				}
				return roles.emitters[g]
			case *ast.AssignStmt:
				for _, l := range x.Lhs {
					if t := info.TypeOf(l); t != nil && types.Identical(t, roles.opType) {
						return true
					}
				}
			}
			return false
		}
		res := vmWalk(vmWalkOpts{fn: fn, correlate: true, replace: vmSlicer(relevant)})
		if res.overflow {
			continue
		}
		type acc struct {
			flags map[*types.Var]bool
			n     int
		}
		byOp := map[*types.Const]*acc{}
		for i := range res.paths {
			p := &res.paths[i]
			if !vmNormalExit(p) {
				continue
			}
			var last *r2Emission
			at := -1
			for j, e := range p.ev {
				if e.K != evCall || e.Deferred || e.Fn == nil {
					continue
				}
				if em, ok := ex.of(fn, e.Call); ok && em != nil {
					last, at = em, j
				}
			}
			if last == nil {
				continue
			}
			op := last.op
			if op == nil && last.opExpr != nil {
				if o := vmObjOf(info, last.opExpr); o != nil {
					for j := at - 1; j >= 0; j-- {
						e := p.ev[j]
						if e.K == evAssign && e.Rhs != nil && vmObjOf(info, e.Lhs) == o {
							op = ConstOf(info, e.Rhs)
							break
						}
					}
				}
			}
			if op == nil {
				continue
			}
			trueFlags := map[*types.Var]bool{}
			for _, e := range p.ev {
				if e.K != evCond {
					continue
				}
				cjs := r6emSplitAnd(fn, e.X, 0)
				if !e.Taken {
					continue // a false condition decides no flag true
				}
				for _, cj := range cjs {
					if f := vmFieldOf(info, cj); f != nil && f.Pkg() == roles.astPkg {
						if b, ok := f.Type().Underlying().(*types.Basic); ok && b.Kind() == types.Bool {
							trueFlags[f] = true
						}
					}
				}
			}
			a := byOp[op]
			if a == nil {
				a = &acc{flags: trueFlags}
				byOp[op] = a
			} else {
				for f := range a.flags {
					if !trueFlags[f] {
						delete(a.flags, f)
					}
				}
			}
			a.n++
		}
		for op, a := range byOp {
			var fs []*types.Var
			for f := range a.flags {
				fs = append(fs, f)
			}
			sort.Slice(fs, func(i, j int) bool { return fs[i].Name() < fs[j].Name() })
			for _, f := range fs {
				out = append(out, r6emFlaggedOp{op: op, flag: f, nodeT: nodeT, unit: fn.name, nPaths: a.n})
			}
		}
	}
	sort.Slice(out, func(i, j int) bool {
		if out[i].op.Name() != out[j].op.Name() {
			return out[i].op.Name() < out[j].op.Name()
		}
		return out[i].flag.Name() < out[j].flag.Name()
	})
	return out
}

// r6emSpawnTyping: obligations of part (2b).
func r6emSpawnTyping(c *Ctx, roles *vmCompilerRoles, r *vmVMRoles, nullTypeK *types.Const, dropIsConditional bool, dropDesc []string) []Obligation {
	var obs []Obligation
	if !dropIsConditional {
		return nil // the VM side is judged against an unconditional drop elsewhere
	}
	flagged := r6emFinalCallOps(c, roles)
	if len(flagged) == 0 {
		return nil
	}
	// ---- VM: which of these opcodes push on every completing path, without a null-kind test?
	dfn := r.dispatch
	dinfo := dfn.info
	nullK := vmConst(c, "homescript/runtime/value", "NullValueKind")
	ss := r2NewFieldSumm(c, r.fns, r.stack.field, r.stack)
	relevant := func(n ast.Node) bool {
		switch x := n.(type) {
		case *ast.ReturnStmt:
			return true
		case *ast.CallExpr:
			g := CalleeOf(dinfo, x)
			if g == nil {
				if id, ok := x.Fun.(*ast.Ident); ok {
					if b, isB := dinfo.Uses[id].(*types.Builtin); isB && b.Name() == "panic" {
						return true
					}
				}
				return false
			}
			if d, u := ss.call(g); d != 0 || u {
				return true
			}
			return vmAlwaysPanics(c, g)
		case *ast.Ident:
			return dinfo.Uses[x] == nullK
		}
		return false
	}
	res := vmWalk(vmWalkOpts{fn: dfn, replace: vmSlicer(relevant)})
	if res.overflow {
		return nil
	}
	tops := map[token.Pos]bool{r.dispSw.Pos(): true}
	type vmFact struct {
		completing, pushing int
		nullTest            bool
		pos                 token.Pos
	}
	facts := map[string]*vmFact{}
	for i := range res.paths {
		p := &res.paths[i]
		if p.o.kind == cPanic {
			continue
		}
		u := vmUnitOf(dinfo, tops, p)
		if u == "" || u == "default" {
			continue
		}
		ft := facts[u]
		if ft == nil {
			ft = &vmFact{}
			facts[u] = ft
		}
		// completing: does not return a non-nil interrupt
		completing := true
		pushes := false
		for _, e := range p.ev {
			switch e.K {
			case evRet:
				if e.Ret != nil && len(e.Ret.Results) > 0 && !vmIsNil(dinfo, ast.Unparen(e.Ret.Results[0])) {
					completing = false
				}
			case evCond:
				if vmMentionsObj(dinfo, e.X, nullK) {
					ft.nullTest = true
				}
			case evCase:
				for _, v := range append(append([]ast.Expr{}, e.Vals...), e.Others...) {
					if ConstOf(dinfo, v) == nullK {
						ft.nullTest = true
					}
				}
			case evCall:
				if e.Fn != nil && !e.Deferred {
					if d, _ := ss.call(e.Fn); d > 0 {
						pushes = true
						if ft.pos == token.NoPos {
							ft.pos = e.Pos
						}
					}
				}
			}
		}
		if completing {
			ft.completing++
			if pushes {
				ft.pushing++
			}
		}
	}
	factOf := func(op *types.Const) (*vmFact, string) {
		var us []string
		for u := range facts {
			us = append(us, u)
		}
		sort.Strings(us)
		for _, u := range us {
			for _, n := range strings.Split(strings.TrimPrefix(u, "case "), ",") {
				if n == op.Name() {
					return facts[u], u
				}
			}
		}
		return nil, ""
	}

	for _, fo := range flagged {
		ft, unit := factOf(fo.op)
		if ft == nil || ft.completing == 0 || ft.pushing != ft.completing || ft.nullTest {
			continue // this opcode does not push unconditionally: nothing is required of the type
		}
		key := fmt.Sprintf("%s|%s|pushes a value on every completing path|the analyzer gives expressions lowered to it (%s.%s) a non-null static type", r.dispatch.name, unit, fo.nodeT.Obj().Name(), fo.flag.Name())
		ob := Obligation{Key: key, Pos: c.Pos(ft.pos), Nontrivial: true}
		st, detail := r6emFlagTyping(c, roles, fo, nullTypeK)
		ob.Status = st
		switch st {
		case Discharged:
			ob.Detail = fmt.Sprintf("the VM clause pushes on all %d completing path(s) without a test of the null kind; %s emits %s as the result-producing instruction exactly on paths with %s set (%d path(s)); %s; %s", ft.completing, fo.unit, fo.op.Name(), fo.flag.Name(), fo.nPaths, detail, strings.Join(vmUniq(dropDesc), "; "))
		case Violated:
			ob.Detail = fmt.Sprintf("%s. The VM clause of %s pushes a value on all %d completing path(s), whatever the callee returns, while the compiler emits no drop for an expression statement whose static type is null (%s): every such expression in statement position (`spawn worker();` for a `fn worker() { .. }` without a result) leaves one value on the operand stack — a loop of them ends in the stack-limit interrupt although the program holds no values, and an enclosing expression reads a shifted stack", detail, fo.op.Name(), ft.completing, strings.Join(vmUniq(dropDesc), "; "))
		default:
			ob.Detail = detail
		}
		obs = append(obs, ob)
	}
	return obs
}

// r6emFlagTyping decides the analyzer side for one flagged opcode: in every
// function that builds the analyzed call node with the flag field set from an
// expression E, the type field is fed by a local that is re-assigned a
// non-null constructed type under a guard whose conjuncts (all enclosing
// conditions included) are only E itself and existence tests of that local.
func r6emFlagTyping(c *Ctx, roles *vmCompilerRoles, fo r6emFlaggedOp, nullTypeK *types.Const) (Status, string) {
	st, ok := fo.nodeT.Underlying().(*types.Struct)
	if !ok {
		return Undecided, "the analyzed call node is not a struct"
	}
	// the static-type field: the field the node's Type() method returns, else the only field of the ast type interface
	var typeField *types.Var
	if obj, _, _ := types.LookupFieldOrMethod(fo.nodeT, true, nil, "Type"); obj != nil {
		if m, _ := obj.(*types.Func); m != nil {
			if mf := vmDeclIndex(c).of(m); mf != nil && mf.fd.Body != nil && len(mf.fd.Body.List) == 1 {
				if rs, ok := mf.fd.Body.List[0].(*ast.ReturnStmt); ok && len(rs.Results) == 1 {
					typeField = vmFieldOf(mf.info, rs.Results[0])
				}
			}
		}
	}
	if typeField == nil {
		for i := 0; i < st.NumFields(); i++ {
			if n := vmNamed(st.Field(i).Type()); n != nil && n.Obj().Pkg() == roles.astPkg && n.Obj().Name() == "Type" {
				if typeField != nil {
					return Undecided, "more than one field of the static-type interface in " + fo.nodeT.Obj().Name()
				}
				typeField = st.Field(i)
			}
		}
	}
	if typeField == nil {
		return Undecided, "the static-type field of " + fo.nodeT.Obj().Name() + " was not found"
	}
	var good, bad, und []string
	nBuilders := 0
	for _, p := range c.All {
		if !strings.HasSuffix(p.PkgPath, "/analyzer") {
			continue
		}
		for _, fd := range AllFuncDecls(p) {
			if fd.Body == nil {
				continue
			}
			info := p.TypesInfo
			// the composite literal of the node with the flag and the type field
			var flagE, typeE ast.Expr
			ast.Inspect(fd.Body, func(n ast.Node) bool {
				cl, ok := n.(*ast.CompositeLit)
				if !ok || vmNamed(info.TypeOf(cl)) == nil || vmNamed(info.TypeOf(cl)).Obj() != fo.nodeT.Obj() {
					return true
				}
				for _, el := range cl.Elts {
					kv, ok := el.(*ast.KeyValueExpr)
					if !ok {
						continue
					}
					if id, ok := kv.Key.(*ast.Ident); ok {
						switch info.ObjectOf(id) {
						case fo.flag:
							flagE = kv.Value
						case typeField:
							typeE = kv.Value
						}
					}
				}
				return true
			})
			if flagE == nil {
				continue
			}
			if tv, ok := info.Types[flagE]; ok && tv.Value != nil {
				continue // the flag is a constant here (false): not lowered to the opcode
			}
			obj, _ := info.Defs[fd.Name].(*types.Func)
			fn := vmDeclIndex(c).of(obj)
			if fn == nil {
				continue
			}
			nBuilders++
			name := fn.name
			if typeE == nil {
				und = append(und, name+" builds the node without setting "+typeField.Name())
				continue
			}
			flagStr := exprStr(ast.Unparen(flagE))
			isFlag := func(e ast.Expr) bool {
				e = ast.Unparen(e)
				if exprStr(e) == flagStr {
					return true
				}
				if o := vmObjOf(info, e); o != nil {
					if def := vmSingleDef(fn, o); def != nil && exprStr(ast.Unparen(def)) == flagStr {
						return true
					}
				}
				return false
			}
			// locals that flow into the type field (flow-insensitive closure over assignments)
			feeds := map[types.Object]bool{}
			ast.Inspect(typeE, func(n ast.Node) bool {
				if id, ok := n.(*ast.Ident); ok {
					if v, ok := info.ObjectOf(id).(*types.Var); ok && !v.IsField() {
						feeds[v] = true
					}
				}
				return true
			})
			for changed := true; changed; {
				changed = false
				ast.Inspect(fd.Body, func(n ast.Node) bool {
					as, ok := n.(*ast.AssignStmt)
					if !ok || len(as.Lhs) != len(as.Rhs) {
						return true
					}
					for i, l := range as.Lhs {
						if o := vmObjOf(info, l); o != nil && feeds[o] {
							ast.Inspect(as.Rhs[i], func(m ast.Node) bool {
								if id, ok := m.(*ast.Ident); ok {
									if v, ok := info.ObjectOf(id).(*types.Var); ok && !v.IsField() && !feeds[v] && vmNamed(v.Type()) != nil && vmNamed(v.Type()).Obj().Pkg() == roles.astPkg {
										feeds[v] = true
										changed = true
									}
								}
								return true
							})
						}
					}
					return true
				})
			}
			// the wraps: assignments of a non-null constructed type to a feeding local under a guard that mentions the flag
			par := r2Parents(fd.Body)
			nWraps := 0
			ast.Inspect(fd.Body, func(n ast.Node) bool {
				as, ok := n.(*ast.AssignStmt)
				if !ok || len(as.Lhs) != 1 || len(as.Rhs) != 1 {
					return true
				}
				v := vmObjOf(info, as.Lhs[0])
				if v == nil || !feeds[v] {
					return true
				}
				call, ok := ast.Unparen(as.Rhs[0]).(*ast.CallExpr)
				if !ok {
					return true
				}
				g := CalleeOf(info, call)
				if g == nil || g.Pkg() != roles.astPkg {
					return true
				}
				sig := g.Type().(*types.Signature)
				if sig.Recv() != nil || sig.Results().Len() != 1 {
					return true
				}
				k := r6emCtorKind(c, g)
				if k == nil || k == nullTypeK {
					return true
				}
				// the guard: every enclosing condition up to the function body
				var conj []ast.Expr
				var other []string
				mentionsFlag := false
				var child ast.Node = as
				for q := par[as]; q != nil; child, q = q, par[q] {
					switch x := q.(type) {
					case *ast.IfStmt:
						if child == x.Body {
							conj = append(conj, r6emSplitAnd(fn, x.Cond, 0)...)
						} else if child == x.Else {
							other = append(other, "the else branch of `"+vmTrunc(exprStr(x.Cond), 60)+"`")
						}
					case *ast.CaseClause, *ast.CommClause:
						other = append(other, "a switch clause @"+c.Pos(q.Pos()))
					case *ast.ForStmt, *ast.RangeStmt:
						other = append(other, "a loop @"+c.Pos(q.Pos()))
					case *ast.FuncLit:
						other = append(other, "a function literal")
					}
				}
				var extra []string
				for _, cj := range conj {
					cj = ast.Unparen(cj)
					if isFlag(cj) {
						mentionsFlag = true
						continue
					}
					if be, ok := cj.(*ast.BinaryExpr); ok && be.Op == token.NEQ {
						if (vmObjOf(info, be.X) == v && vmIsNil(info, be.Y)) || (vmObjOf(info, be.Y) == v && vmIsNil(info, be.X)) {
							continue // existence test of the type being wrapped
						}
					}
					extra = append(extra, "`"+vmTrunc(exprStr(cj), 80)+"`")
				}
				if !mentionsFlag {
					return true
				}
				nWraps++
				at := c.Pos(as.Pos())
				switch {
				case len(extra) > 0:
					bad = append(bad, fmt.Sprintf("%s assigns the non-null type (%s) @%s only when, besides %s and the existence of a result type, %s hold(s): with the flag set and the extra condition false the node keeps the callee's own result type, which can be null", name, g.Name(), at, flagStr, strings.Join(extra, ", ")))
				case len(other) > 0:
					und = append(und, fmt.Sprintf("%s assigns the non-null type @%s inside %s: the guard is not a plain conjunction", name, at, strings.Join(other, ", ")))
				default:
					good = append(good, fmt.Sprintf("%s wraps the result type into %s @%s under exactly `%s` and the existence of a result type", name, g.Name(), at, flagStr))
				}
				return true
			})
			if nWraps == 0 {
				bad = append(bad, fmt.Sprintf("%s builds %s with %s: %s but never assigns a non-null constructed type to the value of %s under a guard on %s", name, fo.nodeT.Obj().Name(), fo.flag.Name(), flagStr, typeField.Name(), flagStr))
			}
		}
	}
	sort.Strings(good)
	sort.Strings(bad)
	sort.Strings(und)
	switch {
	case len(bad) > 0:
		return Violated, strings.Join(vmUniq(bad), " | ")
	case len(und) > 0:
		return Undecided, strings.Join(vmUniq(und), " | ")
	case nBuilders == 0:
		return Undecided, "no analyzer function builds " + fo.nodeT.Obj().Name() + " with a non-constant " + fo.flag.Name()
	}
	return Discharged, strings.Join(vmUniq(good), "; ")
}
