package main

import (
	"fmt"
	"go/ast"
	"go/types"
	"regexp"
	"sort"
	"strings"

	"golang.org/x/tools/go/packages"
)

// r2sib — sibling-agreement engine, part 3: the reviewed group table and the
// rule R-sibling-checks.

func init() {
	register(&Rule{ID: "R-sibling-checks", Floor: 30, Run: ruleSiblingChecks,
		Doc: "Engler-style cross-checking of sibling code: for every group of the reviewed table (functions / branches that handle the same kind of construct; members are discovered by role — result type, analysed operand, opcode constant) the check signature of each member is extracted: the verdict calls (TypeCheck/CheckAny with the role term of the checked operand and the options), the diagnostic-producing calls and, per group, named calls / duplicate returns / symbol-table stores, each with its guard = the disjunction over all enumerated paths of the branch decisions taken before it (atoms normalised, helpers that contain checks summarised and re-rooted at the call site). The members of a group must perform the group's shared checks (all checks in `full` groups, the checks performed by a majority in `majority` groups), with the same TypeCheck options and under semantically equivalent guards (truth table over the atoms). A member that lacks a check its siblings perform, or performs it under a strictly narrower (or otherwise different) guard, accepts or rejects programs its sibling construct treats the other way round: with no specification of the type rules apart from the analyzer this internal disagreement is the decidable necessary condition of C03 (and of C02/C17/C12 where the check is the null-argument rejection, the spawn closure ban, the runtime cast validation)."})
}

type r2sibMember struct {
	Name   string
	Pkg    *packages.Package
	Fd     *ast.FuncDecl
	Region []ast.Stmt // nil: whole body
	Pos    ast.Node
}

type r2sibShared struct {
	Name string
	Re   *regexp.Regexp
}

type r2sibGroup struct {
	ID      string
	Reason  string // one line, confirmed by reading the code
	Mode    string // "shared" | "full" | "majority"
	Min     int
	Members func(e *r2sibEngine) []r2sibMember
	Shared  []r2sibShared
	Kinds   map[string]bool // event kinds compared (default: TypeCheck, CheckAny, error, diag+=, errret, helper)
	Opts    r2sibOpts
	Assume  []r2sibAssume
	AssumeW string // why the assumption is sound for the comparison
	// Rename is applied to every term of a member (role abstraction of member-specific storage)
	Rename []r2sibRename
	// CompareExp: the expected-type operand of TypeCheck must agree as well
	CompareExp bool
	// Extras: member-name regexp → event-key regexps that are legitimately specific to that member (full/majority)
	Extras map[string][]string
}

type r2sibRename struct {
	re   *regexp.Regexp
	repl string
}

var r2sibDefaultKinds = map[string]bool{"TypeCheck": true, "CheckAny": true, "error": true, "diag+=": true, "errret": true, "helper": true}

// ---- member discovery helpers ----

func r2sibNamedStruct(t types.Type) (*types.Named, *types.Struct) {
	if p, ok := t.(*types.Pointer); ok {
		t = p.Elem()
	}
	n, ok := types.Unalias(t).(*types.Named)
	if !ok {
		return nil, nil
	}
	st, _ := n.Underlying().(*types.Struct)
	return n, st
}

func r2sibHasFields(st *types.Struct, names ...string) bool {
	if st == nil {
		return false
	}
	have := map[string]bool{}
	for i := 0; i < st.NumFields(); i++ {
		have[st.Field(i).Name()] = true
	}
	for _, n := range names {
		if !have[n] {
			return false
		}
	}
	return true
}

// methodsByResultFields: methods of recvType in package rel whose single result is a struct with all the fields.
func (e *r2sibEngine) methodsByResultFields(rel, recvType string, fields ...string) []r2sibMember {
	p := e.c.Pkg(rel)
	var out []r2sibMember
	for _, fd := range AllFuncDecls(p) {
		if fd.Recv == nil || recvTypeName(fd.Recv.List[0].Type) != recvType {
			continue
		}
		fn, _ := p.TypesInfo.Defs[fd.Name].(*types.Func)
		if fn == nil {
			continue
		}
		sig := fn.Type().(*types.Signature)
		if sig.Results().Len() != 1 {
			continue
		}
		_, st := r2sibNamedStruct(sig.Results().At(0).Type())
		if r2sibHasFields(st, fields...) {
			out = append(out, r2sibMember{Name: relPkg(p.PkgPath) + "." + FuncName(fd), Pkg: p, Fd: fd, Pos: fd})
		}
	}
	sort.Slice(out, func(i, j int) bool { return out[i].Name < out[j].Name })
	return out
}

func (e *r2sibEngine) methodByResultType(rel, recvType, resultType string) *r2sibMember {
	p := e.c.Pkg(rel)
	for _, fd := range AllFuncDecls(p) {
		if fd.Recv == nil || recvTypeName(fd.Recv.List[0].Type) != recvType {
			continue
		}
		fn, _ := p.TypesInfo.Defs[fd.Name].(*types.Func)
		if fn == nil {
			continue
		}
		sig := fn.Type().(*types.Signature)
		if sig.Results().Len() < 1 {
			continue
		}
		if n, _ := r2sibNamedStruct(sig.Results().At(0).Type()); n != nil && n.Obj().Name() == resultType {
			return &r2sibMember{Name: relPkg(p.PkgPath) + "." + FuncName(fd), Pkg: p, Fd: fd, Pos: fd}
		}
	}
	return nil
}

func (e *r2sibEngine) methodByParamType(rel, recvType, paramType string) *r2sibMember {
	p := e.c.Pkg(rel)
	for _, fd := range AllFuncDecls(p) {
		if fd.Recv == nil || recvTypeName(fd.Recv.List[0].Type) != recvType {
			continue
		}
		fn, _ := p.TypesInfo.Defs[fd.Name].(*types.Func)
		if fn == nil {
			continue
		}
		sig := fn.Type().(*types.Signature)
		if sig.Params().Len() != 1 {
			continue
		}
		if n, _ := r2sibNamedStruct(sig.Params().At(0).Type()); n != nil && n.Obj().Name() == paramType {
			return &r2sibMember{Name: relPkg(p.PkgPath) + "." + FuncName(fd), Pkg: p, Fd: fd, Pos: fd}
		}
	}
	return nil
}

// clauseName: the constants of the innermost switch clause enclosing pos.
func r2sibClauseName(info *types.Info, fd *ast.FuncDecl, target ast.Node) string {
	name := ""
	ast.Inspect(fd.Body, func(n ast.Node) bool {
		cc, ok := n.(*ast.CaseClause)
		if !ok {
			return true
		}
		if cc.Pos() <= target.Pos() && target.End() <= cc.End() {
			var ns []string
			for _, v := range cc.List {
				if k := ConstOf(info, v); k != nil {
					ns = append(ns, k.Name())
				} else {
					ns = append(ns, exprStr(v))
				}
			}
			if cc.List == nil {
				ns = []string{"default"}
			}
			name = "case " + strings.Join(ns, ",")
		}
		return true
	})
	return name
}

// loopsAnalysing: the loops of fd whose body (outside nested loops) analyses,
// with an analysis-descent call, an operand whose role term matches re.
func (e *r2sibEngine) loopsAnalysing(m r2sibMember, re *regexp.Regexp) []r2sibMember {
	f := r2sibFuncOf(e.c, m.Pkg, m.Fd)
	var out []r2sibMember
	var visit func(n ast.Node, loop ast.Stmt, body *ast.BlockStmt)
	found := map[ast.Stmt]bool{}
	visit = func(n ast.Node, loop ast.Stmt, body *ast.BlockStmt) {
		ast.Inspect(n, func(n ast.Node) bool {
			switch x := n.(type) {
			case *ast.FuncLit:
				return false
			case *ast.ForStmt:
				visit(x.Body, x, x.Body)
				return false
			case *ast.RangeStmt:
				visit(x.Body, x, x.Body)
				return false
			case *ast.CallExpr:
				if loop != nil && !found[loop] && len(x.Args) > 0 && r2sibDescent(CalleeOf(f.info, x)) && re.MatchString(f.norm(x.Args[0])) {
					found[loop] = true
					name := m.Name + "|" + r2sibClauseName(f.info, m.Fd, loop)
					out = append(out, r2sibMember{Name: name, Pkg: m.Pkg, Fd: m.Fd, Region: body.List, Pos: loop})
				}
			}
			return true
		})
	}
	visit(m.Fd.Body, nil, nil)
	return out
}

// clausesOfConst: the switch clauses in package rel whose case list names the constant.
func (e *r2sibEngine) clausesOfConst(rel, constName string) []r2sibMember {
	p := e.c.Pkg(rel)
	var out []r2sibMember
	for _, fd := range AllFuncDecls(p) {
		ast.Inspect(fd.Body, func(n ast.Node) bool {
			cc, ok := n.(*ast.CaseClause)
			if !ok {
				return true
			}
			for _, v := range cc.List {
				if k := ConstOf(p.TypesInfo, v); k != nil && k.Name() == constName {
					out = append(out, r2sibMember{Name: relPkg(p.PkgPath) + "." + FuncName(fd) + "|case " + constName, Pkg: p, Fd: fd, Region: cc.Body, Pos: cc})
				}
			}
			return true
		})
	}
	return out
}

// storesInto: methods of recvType whose body stores into a map reached through the given field of the receiver.
func (e *r2sibEngine) methodsStoringInto(rel, recvType, field string) []r2sibMember {
	p := e.c.Pkg(rel)
	var out []r2sibMember
	for _, fd := range AllFuncDecls(p) {
		if fd.Recv == nil || recvTypeName(fd.Recv.List[0].Type) != recvType {
			continue
		}
		f := r2sibFuncOf(e.c, p, fd)
		hit := false
		ast.Inspect(fd.Body, func(n ast.Node) bool {
			as, ok := n.(*ast.AssignStmt)
			if !ok {
				return true
			}
			for _, l := range as.Lhs {
				if ix, ok := l.(*ast.IndexExpr); ok {
					if tv, ok := f.info.Types[ix.X]; ok && tv.Type != nil {
						if _, isMap := tv.Type.Underlying().(*types.Map); isMap && strings.HasPrefix(f.norm(ix.X), "self."+field+"[") {
							hit = true
						}
					}
				}
			}
			return true
		})
		if hit {
			out = append(out, r2sibMember{Name: relPkg(p.PkgPath) + "." + FuncName(fd), Pkg: p, Fd: fd, Pos: fd})
		}
	}
	sort.Slice(out, func(i, j int) bool { return out[i].Name < out[j].Name })
	return out
}

// methodsByParamFields: methods of recvType whose first parameter is a struct with all the fields.
func (e *r2sibEngine) methodsByParamFields(rel, recvType string, fields ...string) []r2sibMember {
	p := e.c.Pkg(rel)
	var out []r2sibMember
	for _, fd := range AllFuncDecls(p) {
		if fd.Recv == nil || recvTypeName(fd.Recv.List[0].Type) != recvType {
			continue
		}
		fn, _ := p.TypesInfo.Defs[fd.Name].(*types.Func)
		if fn == nil {
			continue
		}
		sig := fn.Type().(*types.Signature)
		if sig.Params().Len() < 1 {
			continue
		}
		_, st := r2sibNamedStruct(sig.Params().At(0).Type())
		if r2sibHasFields(st, fields...) {
			out = append(out, r2sibMember{Name: relPkg(p.PkgPath) + "." + FuncName(fd), Pkg: p, Fd: fd, Pos: fd})
		}
	}
	sort.Slice(out, func(i, j int) bool { return out[i].Name < out[j].Name })
	return out
}

// clausesTesting: the clauses of the switch of m whose tag term matches tagRe and whose body holds,
// as a direct statement, an `if` with a condition leaf whose term matches condRe.
func (e *r2sibEngine) clausesTesting(m r2sibMember, tagRe, condRe *regexp.Regexp) []r2sibMember {
	f := r2sibFuncOf(e.c, m.Pkg, m.Fd)
	var out []r2sibMember
	ast.Inspect(m.Fd.Body, func(n ast.Node) bool {
		sw, ok := n.(*ast.SwitchStmt)
		if !ok || sw.Tag == nil || !tagRe.MatchString(f.norm(sw.Tag)) {
			return true
		}
		for _, c := range sw.Body.List {
			cc := c.(*ast.CaseClause)
			hit := false
			for _, st := range cc.Body {
				if ifs, ok := st.(*ast.IfStmt); ok {
					for _, leaf := range r2sibCondLeaves(ifs.Cond) {
						if condRe.MatchString(f.atomOf(leaf, true).atom) {
							hit = true
						}
					}
				}
			}
			if hit {
				var ns []string
				for _, v := range cc.List {
					if k := ConstOf(f.info, v); k != nil {
						ns = append(ns, k.Name())
					}
				}
				out = append(out, r2sibMember{Name: m.Name + "|case " + strings.Join(ns, ","), Pkg: m.Pkg, Fd: m.Fd, Region: cc.Body, Pos: cc})
			}
		}
		return false
	})
	return out
}

func r2sibRe(s string) *regexp.Regexp { return regexp.MustCompile(s) }

// ---- the reviewed table ----

func r2sibGroups() []*r2sibGroup {
	return []*r2sibGroup{
		{
			ID:     "fn-body-return",
			Reason: "functionDefinition and functionLiteral both analyse a body against a declared return type: after self.block(node.Body) each unifies the body's type with the converted return type on every path and reports the mismatch",
			Mode:   "shared", Min: 2,
			Members: func(e *r2sibEngine) []r2sibMember {
				return e.methodsByResultFields("homescript/analyzer", "Analyzer", "Body", "ReturnType", "Parameters")
			},
			Shared: []r2sibShared{
				{"TypeCheck(body type, declared return type)", r2sibRe(`^TypeCheck\(got=desc\[AnalyzedBlock\]\(\$0\.Body\)\.Type\(\)\)$`)},
				{"the mismatch is reported", r2sibRe(`^diag\+= self\.TypeCheck\(desc\[AnalyzedBlock\]\(\$0\.Body\)\.Type\(\)\)\.GotDiagnostic$`)},
			},
		},
		{
			ID:     "call-args",
			Reason: "callArgs analyses each argument in one loop per parameter kind (fixed / varargs); both loops were written as copies: null-result rejection, closure ban for spawn, TypeCheck against the parameter, report",
			Mode:   "full", Min: 1, // one loop for both parameter kinds would be a legitimate merge
			Members: func(e *r2sibEngine) []r2sibMember {
				m := e.methodByResultType("homescript/analyzer", "Analyzer", "AnalyzedCallArgs")
				if m == nil {
					return nil
				}
				return e.loopsAnalysing(*m, r2sibRe(`^elem\(\$\d+\.List\)$`))
			},
		},
		{
			ID:     "scope-declare",
			Reason: "Module.addVar and Module.addType declare a name in the innermost scope: the duplicate test reads the same map of the same scope (same index expression) that the declaration is stored into; enclosing scopes are never consulted (shadowing is legal)",
			Mode:   "full", Min: 2,
			Members: func(e *r2sibEngine) []r2sibMember {
				return e.methodsStoringInto("homescript/analyzer", "Module", "Scopes")
			},
			Kinds:   map[string]bool{"return": true, "store": true},
			Opts:    r2sibOpts{Returns: true, Stores: true},
			Rename:  []r2sibRename{{r2sibRe(`(self\.Scopes\[[^\]]*\])\.\w+`), "$1.§slot"}},
			Assume:  []r2sibAssume{{r2sibRe(`^\$2$`), false}},
			AssumeW: "addVar's third parameter (forceAdd) is the let-shadowing mode; the members are compared in the non-forcing mode",
		},
		{
			ID:     "loop-statements",
			Reason: "loopStatement, whileStatement and forStatement analyse a loop body the same way: its result type must be null/never (expectLoopToReturnNull on the analysed body)",
			Mode:   "majority", Min: 3,
			Members: func(e *r2sibEngine) []r2sibMember {
				return e.methodsByResultFields("homescript/analyzer", "Analyzer", "Body", "NeverTerminates")
			},
		},
		{
			ID:     "runtime-cast",
			Reason: "a cast expression is validated at run time by the deep cast of the value library: the VM's Opcode_Cast handler always calls value.DeepCast (the compiler emits Cast for every cast expression), so must every non-interrupt path of the interpreter's castExpression",
			Mode:   "shared", Min: 2,
			Members: func(e *r2sibEngine) []r2sibMember {
				// the handler clause: it asserts the instruction to the struct the compiler builds for Cast
				var out []r2sibMember
				for _, m := range e.clausesOfConst("homescript/runtime", "Opcode_Cast") {
					handler := false
					for _, st := range m.Region {
						ast.Inspect(st, func(n ast.Node) bool {
							if ta, ok := n.(*ast.TypeAssertExpr); ok && ta.Type != nil && strings.HasSuffix(exprStr(ta.Type), "CastInstruction") {
								handler = true
							}
							return true
						})
					}
					if handler {
						out = append(out, m)
					}
				}
				if m := e.methodByParamType("homescript/interpreter", "Interpreter", "AnalyzedCastExpression"); m != nil {
					out = append(out, *m)
				}
				return out
			},
			Kinds:   map[string]bool{"call": true},
			Opts:    r2sibOpts{Calls: r2sibRe(`^value\.DeepCast$`)},
			Shared:  []r2sibShared{{"value.DeepCast is called", r2sibRe(`^call value\.DeepCast$`)}},
			Assume:  []r2sibAssume{{r2sibRe(`^desc\[Value\]\(.*\)#1 == nil$`), true}},
			AssumeW: "paths on which evaluating the operand raised an interrupt are not normal paths",
		},
		{
			ID:     "param-duplicates",
			Reason: "analyzeParams (named functions) and functionLiteral (lambdas) convert a parameter list in a loop of their own: each rejects a parameter name that was already declared in the same list (membership test on the set of names seen so far)",
			Mode:   "shared", Min: 2,
			Members: func(e *r2sibEngine) []r2sibMember {
				var out []r2sibMember
				p := e.c.Pkg("homescript/analyzer")
				// the scope-declaring methods, by role: Module methods that store into a scope map
				declMethods := map[*types.Func]bool{}
				for _, m := range e.methodsStoringInto("homescript/analyzer", "Module", "Scopes") {
					if fn, ok := p.TypesInfo.Defs[m.Fd.Name].(*types.Func); ok {
						declMethods[fn] = true
					}
				}
				for _, fd := range AllFuncDecls(p) {
					if fd.Recv == nil || recvTypeName(fd.Recv.List[0].Type) != "Analyzer" {
						continue
					}
					m := r2sibMember{Name: relPkg(p.PkgPath) + "." + FuncName(fd), Pkg: p, Fd: fd, Pos: fd}
					// loops that convert the declared type of a parameter AND declare it in the scope
					for _, l := range e.loopsAnalysing(m, r2sibRe(`^elem\(\$0(\.Parameters)?\)\.Type$`)) {
						declares := false
						f := r2sibFuncOf(e.c, p, fd)
						for _, st := range l.Region {
							ast.Inspect(st, func(n ast.Node) bool {
								if call, ok := n.(*ast.CallExpr); ok {
									if fn := CalleeOf(f.info, call); fn != nil && declMethods[fn] {
										declares = true
									}
								}
								return true
							})
						}
						if declares {
							l.Name = m.Name + "|parameter loop"
							out = append(out, l)
						}
					}
				}
				return out
			},
			Shared: []r2sibShared{
				{"a parameter name declared twice is rejected", r2sibRe(`^error "Duplicate declaration of parameter`)},
			},
			Rename:  []r2sibRename{{r2sibRe(`elem\(\$0(\.Parameters)?\)`), "§param"}},
			Assume:  []r2sibAssume{{r2sibRe(`SingletonReferenceParserTypeKind`), false}},
			AssumeW: "singleton extractions (only possible in named functions) are compared away: the members are compared for ordinary parameters",
		},
		{
			ID:     "index-kind-clauses",
			Reason: "indexExpression has one clause per indexable base kind (any-object, object, list, string); each first tests the kind of the index operand and rejects the expression otherwise (copies of one another, differing only in the admitted kind)",
			Mode:   "majority", Min: 1, // a shared index-kind test hoisted out of the clauses would be a legitimate merge
			Members: func(e *r2sibEngine) []r2sibMember {
				m := e.methodByResultType("homescript/analyzer", "Analyzer", "AnalyzedIndexExpression")
				if m == nil {
					return nil
				}
				return e.clausesTesting(*m, r2sibRe(`^desc\[AnalyzedExpression\]\(\$0\.Base\)\.Type\(\)\.Kind\(\)$`), r2sibRe(`^desc\[AnalyzedExpression\]\(\$0\.Index\)\.Type\(\)\.Kind\(\) == `))
			},
			Rename: []r2sibRename{{r2sibRe(`(desc\[AnalyzedExpression\]\(\$0\.Index\)\.Type\(\)\.Kind\(\) == )const:ast\.\w+`), "${1}§admitted-kind"}},
		},
		{
			ID:     "bool-conditions",
			Reason: "ifExpression and whileStatement analyse a condition: both unify its type with bool on every path and report the mismatch",
			Mode:   "shared", Min: 2,
			Members: func(e *r2sibEngine) []r2sibMember {
				// by role: the walkers whose node has a Condition that they hand to a descent themselves
				var out []r2sibMember
				for _, m := range e.methodsByParamFields("homescript/analyzer", "Analyzer", "Condition") {
					f := r2sibFuncOf(e.c, m.Pkg, m.Fd)
					descends := false
					ast.Inspect(m.Fd.Body, func(n ast.Node) bool {
						if call, ok := n.(*ast.CallExpr); ok && len(call.Args) > 0 && r2sibDescent(CalleeOf(f.info, call)) && f.norm(call.Args[0]) == "$0.Condition" {
							descends = true
						}
						return true
					})
					if descends {
						out = append(out, m)
					}
				}
				return out
			},
			CompareExp: true,
			Shared: []r2sibShared{
				{"TypeCheck(condition type, bool)", r2sibRe(`^TypeCheck\(got=desc\[AnalyzedExpression\]\(\$0\.Condition\)\.Type\(\)\)$`)},
				{"the mismatch is reported", r2sibRe(`^diag\+= self\.TypeCheck\(desc\[AnalyzedExpression\]\(\$0\.Condition\)\.Type\(\)\)\.GotDiagnostic$`)},
			},
		},
	}
}

// ---- the rule ----

type r2sibMemberSig struct {
	m      r2sibMember
	sum    *r2sibSummary
	byKey  map[string]*r2sibEvent
	order  []string
	f      *r2sibFunc
	nEvent int
}

func (g *r2sibGroup) rename(s string) string {
	for _, r := range g.Rename {
		s = r.re.ReplaceAllString(s, r.repl)
	}
	return s
}

func (g *r2sibGroup) kinds() map[string]bool {
	if g.Kinds != nil {
		return g.Kinds
	}
	return r2sibDefaultKinds
}

func (e *r2sibEngine) signature(g *r2sibGroup, m r2sibMember) *r2sibMemberSig {
	f := r2sibFuncOf(e.c, m.Pkg, m.Fd)
	region := m.Region
	if region == nil {
		region = m.Fd.Body.List
	}
	if f.fn != nil {
		e.busy[f.fn] = true
		defer delete(e.busy, f.fn)
	}
	sum := e.extract(f, region, g.Opts, 0)
	ms := &r2sibMemberSig{m: m, sum: sum, f: f}
	var evs []*r2sibEvent
	kinds := g.kinds()
	for _, ev := range sum.events {
		if !kinds[ev.Kind] {
			continue
		}
		if len(g.Rename) > 0 {
			ne := &r2sibEvent{Kind: ev.Kind, Key: g.rename(ev.Key), Attrs: map[string]string{}, Guard: &r2sibDNF{}, Pos: ev.Pos, Via: ev.Via, Call: ev.Call}
			for k, v := range ev.Attrs {
				ne.Attrs[k] = g.rename(v)
			}
			for _, c := range ev.Guard.clauses {
				var lits []r2sibLit
				for _, l := range c {
					lits = append(lits, r2sibLit{g.rename(l.atom), l.val})
				}
				ne.Guard.add(r2sibMkClause(lits))
			}
			ne.Guard.over = ev.Guard.over
			ev = ne
		}
		evs = append(evs, ev)
	}
	ms.nEvent = len(evs)
	ms.byKey, ms.order = r2sibMergeByKey(evs)
	return ms
}

func ruleSiblingChecks(c *Ctx) []Obligation {
	e := r2sibEngineOf(c)
	var out []Obligation
	for _, g := range r2sibGroups() {
		out = append(out, e.runGroup(g)...)
	}
	return out
}

func (e *r2sibEngine) runGroup(g *r2sibGroup) []Obligation {
	c := e.c
	var out []Obligation
	members := g.Members(e)
	var names []string
	for _, m := range members {
		names = append(names, m.Name)
	}
	ob := Obligation{Key: g.ID + "|members", Nontrivial: true, Detail: fmt.Sprintf("%d members discovered by role: %s — %s", len(members), strings.Join(names, "; "), g.Reason)}
	if len(members) > 0 {
		ob.Pos = c.Pos(members[0].Pos.Pos())
	}
	if len(members) == 1 && g.Min <= 1 {
		// the duplication was merged into one site: nothing left to cross-check
		ob.Status = Info
		ob.Detail = "single member " + names[0] + ": the sibling sites of group " + g.ID + " have been merged, nothing to compare"
		return append(out, ob)
	}
	if len(members) < g.Min || len(members) == 0 {
		ob.Status = Undecided
		ob.Detail = fmt.Sprintf("only %d of the expected >= %d members found (%s): the anchors of group %q moved", len(members), g.Min, strings.Join(names, "; "), g.ID)
		return append(out, ob)
	}
	out = append(out, ob)

	var sigs []*r2sibMemberSig
	allOK := true
	for _, m := range members {
		ms := e.signature(g, m)
		o := Obligation{Key: g.ID + "|" + m.Name + "|signature", Pos: c.Pos(m.Pos.Pos()), Nontrivial: true}
		if !ms.sum.ok {
			o.Status = Undecided
			o.Detail = "check signature not extracted: " + ms.sum.why
			allOK = false
		} else {
			var ks []string
			for _, k := range ms.order {
				ks = append(ks, fmt.Sprintf("%s [%s]", k, r2sibGuardString(ms.byKey[k].Guard, g.Assume)))
			}
			o.Detail = fmt.Sprintf("%d paths, %d check events: %s", ms.sum.paths, ms.nEvent, strings.Join(ks, " | "))
		}
		out = append(out, o)
		sigs = append(sigs, ms)
	}
	if !allOK {
		return out
	}

	// classes to compare
	type class struct {
		name string
		pick func(ms *r2sibMemberSig) []*r2sibEvent
	}
	var classes []class
	switch g.Mode {
	case "shared":
		for _, sh := range g.Shared {
			sh := sh
			classes = append(classes, class{sh.Name, func(ms *r2sibMemberSig) []*r2sibEvent {
				var evs []*r2sibEvent
				for _, k := range ms.order {
					if sh.Re.MatchString(k) {
						evs = append(evs, ms.byKey[k])
					}
				}
				return evs
			}})
		}
	case "full", "majority":
		count := map[string]int{}
		var keys []string
		for _, ms := range sigs {
			for _, k := range ms.order {
				if count[k] == 0 {
					keys = append(keys, k)
				}
				count[k]++
			}
		}
		sort.Strings(keys)
		for _, k := range keys {
			k := k
			if g.Mode == "majority" && count[k]*2 <= len(sigs) {
				// performed by no majority: member-specific, reported as information
				var who []string
				for _, ms := range sigs {
					if ms.byKey[k] != nil {
						who = append(who, ms.m.Name)
					}
				}
				out = append(out, Obligation{Key: g.ID + "|specific " + k, Status: Info, Detail: "performed only by " + strings.Join(who, ", ")})
				continue
			}
			classes = append(classes, class{k, func(ms *r2sibMemberSig) []*r2sibEvent {
				if ev := ms.byKey[k]; ev != nil {
					return []*r2sibEvent{ev}
				}
				return nil
			}})
		}
	}

	for _, cl := range classes {
		o := Obligation{Key: g.ID + "|check " + cl.name, Nontrivial: true, Pos: c.Pos(members[0].Pos.Pos())}
		type mg struct {
			ms    *r2sibMemberSig
			guard *r2sibDNF
			opts  string
			pos   string
			extra bool
		}
		var have, lack []mg
		for _, ms := range sigs {
			evs := cl.pick(ms)
			if len(evs) == 0 {
				x := mg{ms: ms}
				for mre, pats := range g.Extras {
					if regexp.MustCompile(mre).MatchString(ms.m.Name) {
						continue
					}
					// the check is a reviewed extra of the *other* members matching mre
					for _, p := range pats {
						if regexp.MustCompile(p).MatchString(cl.name) {
							x.extra = true
						}
					}
				}
				lack = append(lack, x)
				continue
			}
			d := &r2sibDNF{}
			optsSet := map[string]bool{}
			for _, ev := range evs {
				for _, cc := range ev.Guard.clauses {
					d.add(cc)
				}
				if ev.Kind == "TypeCheck" {
					o := "options " + ev.Attrs["opts"]
					if g.CompareExp {
						o += " against " + ev.Attrs["exp"]
					}
					optsSet[o] = true
				}
			}
			var os []string
			for k := range optsSet {
				os = append(os, k)
			}
			sort.Strings(os)
			have = append(have, mg{ms: ms, guard: d, opts: strings.Join(os, " / "), pos: c.Pos(evs[0].Pos)})
		}
		if len(have) == 0 {
			o.Status = Undecided
			o.Detail = "no member performs this check any more: the shared check of group " + g.ID + " was renamed or removed everywhere (anchor lost)"
			out = append(out, o)
			continue
		}
		var problems []string
		for _, l := range lack {
			if l.extra {
				continue
			}
			var who []string
			for _, h := range have {
				who = append(who, fmt.Sprintf("%s (%s, when %s)", h.ms.m.Name, h.pos, r2sibGuardString(h.guard, g.Assume)))
			}
			problems = append(problems, fmt.Sprintf("%s (%s) does NOT perform the check `%s` that its sibling(s) perform: %s", l.ms.m.Name, c.Pos(l.ms.m.Pos.Pos()), cl.name, strings.Join(who, "; ")))
		}
		// guards: find the widest
		undec := false
		for i := 0; i < len(have) && len(problems) == 0; i++ {
			for j := i + 1; j < len(have); j++ {
				a, b := have[i], have[j]
				ab, ba, ok, witA, witB := r2sibRelateW(a.guard, b.guard, g.Assume)
				if !ok {
					undec = true
					continue
				}
				if ab && ba {
					continue
				}
				ga, gb := r2sibGuardString(a.guard, g.Assume), r2sibGuardString(b.guard, g.Assume)
				switch {
				case ab: // a ⇒ b : a narrower
					problems = append(problems, fmt.Sprintf("%s (%s) performs `%s` under a strictly NARROWER guard than its sibling %s (%s): guard [%s] vs sibling guard [%s]; e.g. the sibling performs it and this member does not when %s",
						a.ms.m.Name, a.pos, cl.name, b.ms.m.Name, b.pos, ga, gb, witB))
				case ba:
					problems = append(problems, fmt.Sprintf("%s (%s) performs `%s` under a strictly NARROWER guard than its sibling %s (%s): guard [%s] vs sibling guard [%s]; e.g. the sibling performs it and this member does not when %s",
						b.ms.m.Name, b.pos, cl.name, a.ms.m.Name, a.pos, gb, ga, witA))
				default:
					problems = append(problems, fmt.Sprintf("%s (%s) and %s (%s) perform `%s` under different guards: [%s] vs [%s]; only the first when %s; only the second when %s",
						a.ms.m.Name, a.pos, b.ms.m.Name, b.pos, cl.name, ga, gb, witA, witB))
				}
			}
		}
		// TypeCheck options
		if len(problems) == 0 {
			for i := 1; i < len(have); i++ {
				if have[i].opts != have[0].opts {
					problems = append(problems, fmt.Sprintf("%s (%s) calls TypeCheck with %s, %s (%s) with %s", have[0].ms.m.Name, have[0].pos, have[0].opts, have[i].ms.m.Name, have[i].pos, have[i].opts))
				}
			}
		}
		switch {
		case len(problems) > 0:
			o.Status = Violated
			o.Detail = strings.Join(problems, " || ")
			for _, h := range have {
				o.Pos = h.pos
			}
			if len(lack) > 0 {
				o.Pos = c.Pos(lack[0].ms.m.Pos.Pos())
			}
		case undec:
			o.Status = Undecided
			o.Detail = "guards use more than 22 distinct atoms: not compared"
		default:
			var who []string
			for _, h := range have {
				who = append(who, fmt.Sprintf("%s@%s", h.ms.m.Name, h.pos))
			}
			o.Detail = fmt.Sprintf("performed by all %d members (%s) under equivalent guards: %s", len(have), strings.Join(who, ", "), r2sibGuardString(have[0].guard, g.Assume))
			if g.AssumeW != "" {
				o.Detail += " [assumption: " + g.AssumeW + "]"
			}
		}
		out = append(out, o)
	}
	return out
}

func r2sibOr(a, b string) string {
	if a != "" {
		return a
	}
	return b
}
