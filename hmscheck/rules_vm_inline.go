package main

// Helper inlining for the path walker of the `vm` rule group.
//
// A behaviour-preserving refactoring often moves a guard, a send, a lock
// operation or a whole switch clause into a helper function. The rules decide
// their obligations on event traces of ONE function body, so the rewriter that
// prepares a body for the Walker can splice the bodies of selected callees
// into the caller (the rule says which callees matter to it):
//
//	x, y := f(a, b)        ⇒   { enter f ; p := a ; q := b ;
//	                             L: switch { default: BODY' } ; leave f }
//
// where BODY' is the callee's body with every `return e1, e2` replaced by
// `x, y := e1, e2 ; break L`. The statements are shared with the type-checked
// tree (only containers are rebuilt), so types.Info lookups keep working; the
// few synthetic identifiers are registered in the group's private, merged
// types.Info. Deferred calls of the callee run where the callee returns.
// A call in the condition of an `if` is hoisted in front of it; a boolean
// result is decided by a branch on the returned expression, so the atoms of
// the callee's condition appear on the path exactly as if they were written
// in the caller. The walker prunes the decisions that follow from such a
// binding (`i := nil ; if i != nil` has one feasible branch).

import (
	"fmt"
	"go/ast"
	"go/constant"
	"go/token"
	"go/types"
	"strings"
)

// ------------------------------------------------------------- merged info

var vmInfoCache = map[*Ctx]*types.Info{}

// vmInfo returns one types.Info covering every package of the module (node
// pointers are unique across packages, so the maps can simply be merged). It
// is a private copy: synthetic nodes may be registered in it.
func vmInfo(c *Ctx) *types.Info {
	if i := vmInfoCache[c]; i != nil {
		return i
	}
	m := &types.Info{
		Types:      map[ast.Expr]types.TypeAndValue{},
		Instances:  map[*ast.Ident]types.Instance{},
		Defs:       map[*ast.Ident]types.Object{},
		Uses:       map[*ast.Ident]types.Object{},
		Implicits:  map[ast.Node]types.Object{},
		Selections: map[*ast.SelectorExpr]*types.Selection{},
		Scopes:     map[ast.Node]*types.Scope{},
	}
	for _, p := range c.All {
		ti := p.TypesInfo
		if ti == nil {
			continue
		}
		for k, v := range ti.Types {
			m.Types[k] = v
		}
		for k, v := range ti.Instances {
			m.Instances[k] = v
		}
		for k, v := range ti.Defs {
			m.Defs[k] = v
		}
		for k, v := range ti.Uses {
			m.Uses[k] = v
		}
		for k, v := range ti.Implicits {
			m.Implicits[k] = v
		}
		for k, v := range ti.Selections {
			m.Selections[k] = v
		}
		for k, v := range ti.Scopes {
			m.Scopes[k] = v
		}
	}
	vmInfoCache[c] = m
	return m
}

// ------------------------------------------------------------------ inliner

type vmBindKind int

const (
	vmBindNone vmBindKind = iota
	vmBindParam
	vmBindRecv
	vmBindResult
)

// vmInlineMark is the payload of the marker events that bracket an inlined
// callee on a path.
type vmInlineMark struct {
	fn    *vmFn
	call  *ast.CallExpr
	enter bool
}

type vmRetCtx struct {
	label  string // "" = returns of the callee stay returns (tail position in the root function)
	lhs    []ast.Expr
	tok    token.Token
	split  bool // single boolean result: a non-constant result is decided by a branch
	callee *vmFn
}

type vmInl struct {
	c     *Ctx
	info  *types.Info
	want  func(callee *vmFn, call *ast.CallExpr) bool
	stack []*types.Func
	nlab  int
	binds map[ast.Stmt]vmBindKind
	ret   *vmRetCtx
	used  map[*types.Func]*vmFn // callees spliced in somewhere
}

func vmNewInl(c *Ctx, want func(callee *vmFn, call *ast.CallExpr) bool) *vmInl {
	return &vmInl{c: c, info: vmInfo(c), want: want, binds: map[ast.Stmt]vmBindKind{}, used: map[*types.Func]*vmFn{}}
}

func (in *vmInl) label() *ast.Ident {
	in.nlab++
	return &ast.Ident{Name: fmt.Sprintf("__vm_inl%d", in.nlab)}
}

// newVar creates a synthetic local variable (registered in the private info).
func (in *vmInl) newVar(name string, pos token.Pos, pkg *types.Package, t types.Type) *ast.Ident {
	in.nlab++
	id := &ast.Ident{NamePos: pos, Name: fmt.Sprintf("%s%d", name, in.nlab)}
	in.info.Defs[id] = types.NewVar(pos, pkg, id.Name, t)
	return id
}

func (in *vmInl) boolLit(v bool, pos token.Pos) *ast.Ident {
	name := "false"
	if v {
		name = "true"
	}
	id := &ast.Ident{NamePos: pos, Name: name}
	in.info.Uses[id] = types.Universe.Lookup(name)
	in.info.Types[id] = types.TypeAndValue{Type: types.Typ[types.UntypedBool], Value: constant.MakeBool(v)}
	return id
}

func (in *vmInl) marker(rw *vmRewriter, pos token.Pos, payload any) ast.Stmt {
	es := &ast.ExprStmt{X: &ast.Ident{NamePos: pos, Name: "__vm_marker"}}
	rw.markers[es] = payload
	return es
}

// vmDefersTopLevelOnly: every defer statement of the body is a direct child of
// the function body (so it is registered unconditionally once reached).
func vmDefersTopLevelOnly(body *ast.BlockStmt) (has, ok bool) {
	ok = true
	top := map[ast.Stmt]bool{}
	for _, s := range body.List {
		top[s] = true
	}
	ast.Inspect(body, func(n ast.Node) bool {
		switch x := n.(type) {
		case *ast.FuncLit:
			return false
		case *ast.DeferStmt:
			has = true
			if !top[x] {
				ok = false
			}
		case *ast.BranchStmt:
			if x.Tok == token.GOTO {
				ok = false
			}
		}
		return true
	})
	return
}

// inlinable: e is a call of a declared function the rule wants spliced in.
func (in *vmInl) inlinable(e ast.Expr) (*ast.CallExpr, *vmFn) {
	call, ok := ast.Unparen(e).(*ast.CallExpr)
	if !ok {
		return nil, nil
	}
	if tv, isT := in.info.Types[call.Fun]; isT && tv.IsType() {
		return nil, nil
	}
	f := CalleeOf(in.info, call)
	if f == nil {
		return nil, nil
	}
	callee := vmDeclIndex(in.c).of(f)
	if callee == nil || callee.fd.Body == nil || len(in.stack) >= 4 {
		return nil, nil
	}
	if callee.fd.Type.TypeParams != nil {
		return nil, nil
	}
	for _, g := range in.stack {
		if g == f.Origin() {
			return nil, nil
		}
	}
	if _, ok := vmDefersTopLevelOnly(callee.fd.Body); !ok {
		return nil, nil
	}
	if !in.want(callee, call) {
		return nil, nil
	}
	return call, callee
}

func vmResultCount(fn *vmFn) int {
	n := 0
	if fn.fd.Type.Results != nil {
		for _, f := range fn.fd.Type.Results.List {
			if len(f.Names) == 0 {
				n++
			} else {
				n += len(f.Names)
			}
		}
	}
	return n
}

func vmNamedResults(fn *vmFn) []*ast.Ident {
	var out []*ast.Ident
	if fn.fd.Type.Results != nil {
		for _, f := range fn.fd.Type.Results.List {
			out = append(out, f.Names...)
		}
	}
	return out
}

func (in *vmInl) calleeSig(callee *vmFn) *types.Signature {
	if obj, ok := in.info.Defs[callee.fd.Name].(*types.Func); ok {
		sig, _ := obj.Type().(*types.Signature)
		return sig
	}
	return nil
}

// bindings: `recv := x` and `param := arg` for the named receiver/parameters.
func (in *vmInl) bindings(call *ast.CallExpr, callee *vmFn) []ast.Stmt {
	var out []ast.Stmt
	add := func(id *ast.Ident, rhs ast.Expr, kind vmBindKind) {
		if id == nil || id.Name == "_" || rhs == nil {
			return
		}
		as := &ast.AssignStmt{Lhs: []ast.Expr{id}, TokPos: call.Pos(), Tok: token.DEFINE, Rhs: []ast.Expr{rhs}}
		in.binds[as] = kind
		out = append(out, as)
	}
	if callee.fd.Recv != nil && len(callee.fd.Recv.List) == 1 && len(callee.fd.Recv.List[0].Names) == 1 {
		if sel, ok := ast.Unparen(call.Fun).(*ast.SelectorExpr); ok {
			add(callee.fd.Recv.List[0].Names[0], sel.X, vmBindRecv)
		}
	}
	var params []*ast.Ident
	variadic := false
	for _, f := range callee.fd.Type.Params.List {
		if _, isEll := f.Type.(*ast.Ellipsis); isEll {
			variadic = true
		}
		if len(f.Names) == 0 {
			params = append(params, nil)
		}
		for _, n := range f.Names {
			params = append(params, n)
		}
	}
	if len(call.Args) == len(params) && !call.Ellipsis.IsValid() {
		for i, p := range params {
			if variadic && i == len(params)-1 {
				break
			}
			add(p, call.Args[i], vmBindParam)
		}
	} else {
		// f(g()) or a variadic tail: evaluate the arguments, bind what lines up
		for i, a := range call.Args {
			if i < len(params) && !(variadic && i >= len(params)-1) && len(call.Args) >= len(params) {
				add(params[i], a, vmBindParam)
			} else {
				blank := &ast.Ident{NamePos: a.Pos(), Name: "_"}
				as := &ast.AssignStmt{Lhs: []ast.Expr{blank}, TokPos: a.Pos(), Tok: token.ASSIGN, Rhs: []ast.Expr{a}}
				out = append(out, as)
			}
		}
	}
	return out
}

// body rewrites the statements of a callee under the current return context;
// a top-level `defer` turns the remainder of the body into a nested block
// after which the deferred call runs.
func (in *vmInl) body(rw *vmRewriter, list []ast.Stmt) []ast.Stmt {
	for k, s := range list {
		d, ok := s.(*ast.DeferStmt)
		if !ok {
			continue
		}
		pre := rw.list(list[:k])
		for _, a := range d.Call.Args {
			blank := &ast.Ident{NamePos: a.Pos(), Name: "_"}
			pre = append(pre, &ast.AssignStmt{Lhs: []ast.Expr{blank}, TokPos: a.Pos(), Tok: token.ASSIGN, Rhs: []ast.Expr{a}})
		}
		outer := in.ret
		inner := *outer
		lab := in.label()
		inner.label = lab.Name
		in.ret = &inner
		rest := in.body(rw, list[k+1:])
		in.ret = outer
		pre = append(pre, in.wrap(lab, d.Pos(), rest))
		pre = append(pre, in.deferred(rw, d))
		return pre
	}
	return rw.list(list)
}

func (in *vmInl) wrap(lab *ast.Ident, pos token.Pos, body []ast.Stmt) ast.Stmt {
	sw := &ast.SwitchStmt{Switch: pos, Body: &ast.BlockStmt{Lbrace: pos, List: []ast.Stmt{&ast.CaseClause{Case: pos, Colon: pos, Body: body}}}}
	return &ast.LabeledStmt{Label: lab, Colon: pos, Stmt: sw}
}

// deferred: the deferred call as an ordinary statement.
func (in *vmInl) deferred(rw *vmRewriter, d *ast.DeferStmt) ast.Stmt {
	if lit, ok := ast.Unparen(d.Call.Fun).(*ast.FuncLit); ok && len(d.Call.Args) == 0 {
		saved := in.ret
		lab := in.label()
		in.ret = &vmRetCtx{label: lab.Name}
		body := rw.list(lit.Body.List)
		in.ret = saved
		return in.wrap(lab, d.Pos(), body)
	}
	return rw.stmt(&ast.ExprStmt{X: d.Call})
}

// expand splices the callee in; its results are bound to lhs (nil: discarded).
func (in *vmInl) expand(rw *vmRewriter, call *ast.CallExpr, callee *vmFn, lhs []ast.Expr, tok token.Token, keepReturns bool) []ast.Stmt {
	obj, _ := in.info.Defs[callee.fd.Name].(*types.Func)
	in.used[obj] = callee
	out := []ast.Stmt{in.marker(rw, call.Pos(), vmInlineMark{fn: callee, call: call, enter: true})}
	out = append(out, in.bindings(call, callee)...)
	ctx := &vmRetCtx{lhs: lhs, tok: tok, callee: callee}
	if sig := in.calleeSig(callee); sig != nil && sig.Results().Len() == 1 && len(lhs) == 1 {
		if b, ok := sig.Results().At(0).Type().Underlying().(*types.Basic); ok && b.Kind() == types.Bool {
			ctx.split = true
		}
	}
	var lab *ast.Ident
	if !keepReturns {
		lab = in.label()
		ctx.label = lab.Name
	}
	saved := in.ret
	in.ret = ctx
	in.stack = append(in.stack, obj)
	body := in.body(rw, callee.fd.Body.List)
	in.stack = in.stack[:len(in.stack)-1]
	in.ret = saved
	if keepReturns {
		out = append(out, body...)
		return out
	}
	out = append(out, in.wrap(lab, call.Pos(), body))
	out = append(out, in.marker(rw, call.End(), vmInlineMark{fn: callee, call: call, enter: false}))
	return out
}

// rewriteReturn turns a return statement of an inlined callee into the binding
// of its results followed by a jump to the end of the inlined body.
func (in *vmInl) rewriteReturn(rw *vmRewriter, x *ast.ReturnStmt) ast.Stmt {
	ctx := in.ret
	results := x.Results
	if len(results) == 0 && ctx.callee != nil {
		for _, n := range vmNamedResults(ctx.callee) {
			results = append(results, n)
		}
	}
	brk := &ast.BranchStmt{TokPos: x.Pos(), Tok: token.BREAK, Label: &ast.Ident{NamePos: x.Pos(), Name: ctx.label}}
	blk := &ast.BlockStmt{Lbrace: x.Pos()}
	bind := func(rhs []ast.Expr) ast.Stmt {
		as := &ast.AssignStmt{Lhs: ctx.lhs, TokPos: x.Pos(), Tok: ctx.tok, Rhs: rhs}
		in.binds[as] = vmBindResult
		return as
	}
	switch {
	case len(ctx.lhs) == 0:
		for _, r := range results {
			if vmHasCall(r) {
				blank := &ast.Ident{NamePos: r.Pos(), Name: "_"}
				blk.List = append(blk.List, &ast.AssignStmt{Lhs: []ast.Expr{blank}, TokPos: r.Pos(), Tok: token.ASSIGN, Rhs: []ast.Expr{r}})
			}
		}
	case len(results) == 0:
		// nothing to bind (cannot happen for well-typed code)
	case ctx.split && len(results) == 1 && in.info.Types[results[0]].Value == nil:
		yes := &ast.BlockStmt{Lbrace: x.Pos(), List: []ast.Stmt{bind([]ast.Expr{in.boolLit(true, x.Pos())}), brk}}
		no := &ast.BlockStmt{Lbrace: x.Pos(), List: []ast.Stmt{bind([]ast.Expr{in.boolLit(false, x.Pos())}), brk}}
		return rw.stmt(&ast.IfStmt{If: x.Pos(), Cond: results[0], Body: yes, Else: no})
	default:
		blk.List = append(blk.List, bind(results))
	}
	blk.List = append(blk.List, brk)
	return blk
}

func vmHasCall(e ast.Expr) bool {
	found := false
	ast.Inspect(e, func(n ast.Node) bool {
		switch n.(type) {
		case *ast.CallExpr:
			found = true
		case *ast.FuncLit:
			return false
		}
		return !found
	})
	return found
}

// vmExprBodied: the function body is a single `return E`.
func vmExprBodied(fn *vmFn) ast.Expr {
	if len(fn.fd.Body.List) != 1 {
		return nil
	}
	ret, ok := fn.fd.Body.List[0].(*ast.ReturnStmt)
	if !ok || len(ret.Results) != 1 {
		return nil
	}
	return ret.Results[0]
}

// hoistValue: e is (a dereference of) an inlinable single-result call; returns
// the statements to run first and the expression that denotes its value.
func (in *vmInl) hoistValue(rw *vmRewriter, e ast.Expr) ([]ast.Stmt, ast.Expr, bool) {
	e0 := ast.Unparen(e)
	if st, ok := e0.(*ast.StarExpr); ok {
		pre, v, ok := in.hoistValue(rw, st.X)
		if !ok {
			return nil, nil, false
		}
		return pre, &ast.StarExpr{Star: st.Star, X: v}, true
	}
	call, callee := in.inlinable(e0)
	if callee == nil || vmResultCount(callee) != 1 {
		return nil, nil, false
	}
	if res := vmExprBodied(callee); res != nil {
		obj, _ := in.info.Defs[callee.fd.Name].(*types.Func)
		in.used[obj] = callee
		pre := []ast.Stmt{in.marker(rw, call.Pos(), vmInlineMark{fn: callee, call: call, enter: true})}
		pre = append(pre, in.bindings(call, callee)...)
		pre = append(pre, in.marker(rw, call.End(), vmInlineMark{fn: callee, call: call, enter: false}))
		return pre, &ast.ParenExpr{Lparen: call.Pos(), X: res, Rparen: call.End()}, true
	}
	sig := in.calleeSig(callee)
	if sig == nil {
		return nil, nil, false
	}
	r := in.newVar("__vm_r", call.Pos(), callee.pkg.Types, sig.Results().At(0).Type())
	pre := in.expand(rw, call, callee, []ast.Expr{r}, token.DEFINE, false)
	return pre, r, true
}

func vmTrivialExpr(e ast.Expr) bool {
	switch x := ast.Unparen(e).(type) {
	case *ast.Ident, *ast.BasicLit:
		return true
	case *ast.SelectorExpr:
		return vmTrivialExpr(x.X)
	}
	return false
}

// hoistCond: the first atom the condition evaluates is (a comparison of) an
// inlinable call.
func (in *vmInl) hoistCond(rw *vmRewriter, cond ast.Expr) ([]ast.Stmt, ast.Expr, bool) {
	switch x := cond.(type) {
	case *ast.ParenExpr:
		if pre, n, ok := in.hoistCond(rw, x.X); ok {
			return pre, &ast.ParenExpr{Lparen: x.Lparen, X: n, Rparen: x.Rparen}, true
		}
	case *ast.UnaryExpr:
		if x.Op == token.NOT {
			if pre, n, ok := in.hoistCond(rw, x.X); ok {
				return pre, &ast.UnaryExpr{OpPos: x.OpPos, Op: x.Op, X: n}, true
			}
		}
	case *ast.BinaryExpr:
		if x.Op == token.LAND || x.Op == token.LOR {
			if pre, n, ok := in.hoistCond(rw, x.X); ok {
				return pre, &ast.BinaryExpr{X: n, OpPos: x.OpPos, Op: x.Op, Y: x.Y}, true
			}
			return nil, nil, false
		}
		if pre, n, ok := in.hoistValue(rw, x.X); ok {
			return pre, &ast.BinaryExpr{X: n, OpPos: x.OpPos, Op: x.Op, Y: x.Y}, true
		}
		if vmTrivialExpr(x.X) {
			if pre, n, ok := in.hoistValue(rw, x.Y); ok {
				return pre, &ast.BinaryExpr{X: x.X, OpPos: x.OpPos, Op: x.Op, Y: n}, true
			}
		}
	case *ast.CallExpr:
		return in.hoistValue(rw, x)
	}
	return nil, nil, false
}

// canHoistValue / canHoist: would hoistValue / hoistCond (after splitting && and ||) succeed?
func (in *vmInl) canHoistValue(e ast.Expr) bool {
	e0 := ast.Unparen(e)
	if st, ok := e0.(*ast.StarExpr); ok {
		return in.canHoistValue(st.X)
	}
	_, callee := in.inlinable(e0)
	return callee != nil && vmResultCount(callee) == 1
}

func (in *vmInl) canHoist(cond ast.Expr) bool {
	switch x := cond.(type) {
	case *ast.ParenExpr:
		return in.canHoist(x.X)
	case *ast.UnaryExpr:
		return x.Op == token.NOT && in.canHoist(x.X)
	case *ast.BinaryExpr:
		if x.Op == token.LAND || x.Op == token.LOR {
			return in.canHoist(x.X) || in.canHoist(x.Y)
		}
		return in.canHoistValue(x.X) || (vmTrivialExpr(x.X) && in.canHoistValue(x.Y))
	case *ast.CallExpr:
		return in.canHoistValue(x)
	}
	return false
}

// tryStmt: the statement forms in which a call is spliced in.
func (in *vmInl) tryStmt(rw *vmRewriter, s ast.Stmt) (ast.Stmt, bool) {
	switch x := s.(type) {
	case *ast.ExprStmt:
		if call, callee := in.inlinable(x.X); callee != nil {
			return &ast.BlockStmt{Lbrace: x.Pos(), List: in.expand(rw, call, callee, nil, token.ASSIGN, false)}, true
		}
	case *ast.AssignStmt:
		if len(x.Rhs) == 1 && (x.Tok == token.DEFINE || x.Tok == token.ASSIGN) {
			if call, callee := in.inlinable(x.Rhs[0]); callee != nil && vmResultCount(callee) == len(x.Lhs) {
				return &ast.BlockStmt{Lbrace: x.Pos(), List: in.expand(rw, call, callee, x.Lhs, x.Tok, false)}, true
			}
		}
	case *ast.ReturnStmt:
		if len(x.Results) != 1 {
			return nil, false
		}
		call, callee := in.inlinable(x.Results[0])
		if callee == nil {
			return nil, false
		}
		if in.ret != nil && in.ret.label != "" {
			// tail call inside an inlined body: its results are the enclosing callee's results
			ctx := in.ret
			if len(ctx.lhs) != 0 && vmResultCount(callee) != len(ctx.lhs) {
				return nil, false
			}
			list := in.expand(rw, call, callee, ctx.lhs, ctx.tok, false)
			list = append(list, &ast.BranchStmt{TokPos: x.Pos(), Tok: token.BREAK, Label: &ast.Ident{NamePos: x.Pos(), Name: ctx.label}})
			return &ast.BlockStmt{Lbrace: x.Pos(), List: list}, true
		}
		if has, _ := vmDefersTopLevelOnly(callee.fd.Body); !has {
			return &ast.BlockStmt{Lbrace: x.Pos(), List: in.expand(rw, call, callee, nil, token.ASSIGN, true)}, true
		}
		sig := in.calleeSig(callee)
		if sig == nil {
			return nil, false
		}
		var lhs, res []ast.Expr
		for i := 0; i < sig.Results().Len(); i++ {
			r := in.newVar("__vm_r", call.Pos(), callee.pkg.Types, sig.Results().At(i).Type())
			lhs = append(lhs, r)
			res = append(res, r)
		}
		list := in.expand(rw, call, callee, lhs, token.DEFINE, false)
		list = append(list, &ast.ReturnStmt{Return: x.Return, Results: res})
		return &ast.BlockStmt{Lbrace: x.Pos(), List: list}, true
	case *ast.IfStmt:
		var pre []ast.Stmt
		init, cond := x.Init, x.Cond
		if init != nil {
			if st, ok := in.tryStmt(rw, init); ok {
				pre = append(pre, st)
				init = nil
			}
		}
		if init == nil {
			for i := 0; i < 4; i++ {
				p, nc, ok := in.hoistCond(rw, cond)
				if !ok {
					break
				}
				pre = append(pre, p...)
				cond = nc
			}
		}
		if len(pre) == 0 && init != nil && in.canHoist(cond) {
			// `if x := g(); f(x) {…}`: run the init statement first, then decide the condition
			rest := &ast.IfStmt{If: x.If, Cond: x.Cond, Body: x.Body, Else: x.Else}
			return &ast.BlockStmt{Lbrace: x.Pos(), List: []ast.Stmt{rw.stmt(init), rw.stmt(rest)}}, true
		}
		if len(pre) == 0 {
			// `if a && f() {B} else {C}`: the call is evaluated only when a holds — split the
			// condition so that it heads a condition of its own:
			//   if a { if f() {B} else {C} } else {C}      if a || f() …  ⇒  if a {B} else if f() {B} else {C}
			if b, ok := ast.Unparen(cond).(*ast.BinaryExpr); ok && (b.Op == token.LAND || b.Op == token.LOR) && !in.canHoist(b.X) && in.canHoist(b.Y) {
				inner := &ast.IfStmt{If: x.If, Cond: b.Y, Body: x.Body, Else: x.Else}
				outer := &ast.IfStmt{If: x.If, Init: x.Init, Cond: b.X}
				if b.Op == token.LAND {
					outer.Body = &ast.BlockStmt{Lbrace: x.Body.Lbrace, List: []ast.Stmt{inner}, Rbrace: x.Body.Rbrace}
					outer.Else = x.Else
				} else {
					outer.Body = x.Body
					outer.Else = inner
				}
				return rw.stmt(outer), true
			}
			return nil, false
		}
		n := &ast.IfStmt{If: x.If, Init: init, Cond: cond, Body: rw.block(x.Body)}
		if x.Else != nil {
			n.Else = rw.stmt(x.Else)
		}
		return &ast.BlockStmt{Lbrace: x.Pos(), List: append(pre, n)}, true
	}
	return nil, false
}

// ------------------------------------------- path-level value resolution

// vmLastAssignAt: the last assignment to obj among ev[:before].
func vmLastAssignAt(info *types.Info, ev []vmEv, before int, obj types.Object) (int, *vmEv) {
	if obj == nil {
		return -1, nil
	}
	if before > len(ev) {
		before = len(ev)
	}
	for i := before - 1; i >= 0; i-- {
		e := &ev[i]
		if e.K == evAssign && vmObjOf(info, e.Lhs) == obj {
			return i, e
		}
		if e.K == evIncDec && vmObjOf(info, e.X) == obj {
			return i, e
		}
	}
	return -1, nil
}

// vmResolveAt follows identifiers through the bindings introduced by inlining
// (and through `:=` definitions) as of event index `before`. Returns the
// resolved expression, the index it is valid at, and whether a binding of an
// inlined result was crossed.
func vmResolveAt(info *types.Info, binds map[ast.Stmt]vmBindKind, ev []vmEv, before int, e ast.Expr) (ast.Expr, int, bool) {
	viaResult := false
	for hop := 0; hop < 8; hop++ {
		id, ok := ast.Unparen(e).(*ast.Ident)
		if !ok {
			break
		}
		obj := vmObjOf(info, id)
		if _, isVar := obj.(*types.Var); !isVar {
			break
		}
		k, a := vmLastAssignAt(info, ev, before, obj)
		if a == nil || a.K != evAssign || a.Rhs == nil {
			break
		}
		if as, isAs := a.Stmt.(*ast.AssignStmt); isAs && len(as.Lhs) != len(as.Rhs) {
			break // tuple assignment from a call
		}
		kind := binds[a.Stmt]
		if kind == vmBindNone && a.Tok != token.DEFINE {
			break
		}
		if kind == vmBindResult {
			viaResult = true
		}
		e, before = a.Rhs, k
	}
	return e, before, viaResult
}

// vmNilDecidedAt: the last nil test of obj among ev[:before] (not followed by
// an assignment to it).
func vmNilDecidedAt(info *types.Info, ev []vmEv, before int, obj types.Object) (isNil, known bool) {
	if obj == nil {
		return false, false
	}
	if before > len(ev) {
		before = len(ev)
	}
	for i := before - 1; i >= 0; i-- {
		e := ev[i]
		switch e.K {
		case evAssign:
			if vmObjOf(info, e.Lhs) == obj {
				return false, false
			}
		case evCond:
			b, ok := ast.Unparen(e.X).(*ast.BinaryExpr)
			if !ok || (b.Op != token.NEQ && b.Op != token.EQL) {
				continue
			}
			var other ast.Expr
			if vmObjOf(info, b.X) == obj {
				other = b.Y
			} else if vmObjOf(info, b.Y) == obj {
				other = b.X
			} else {
				continue
			}
			if !vmIsNil(info, other) {
				continue
			}
			return (b.Op == token.EQL) == e.Taken, true
		}
	}
	return false, false
}

// vmNilnessAt: is expression e nil / non-nil as of ev[:before]? Identifiers
// are followed through bindings and `:=` definitions one step at a time; a nil
// test decided on the path for any variable of the chain settles it.
func vmNilnessAt(c *Ctx, info *types.Info, binds map[ast.Stmt]vmBindKind, ev []vmEv, before int, e ast.Expr) (isNil, known bool) {
	for hop := 0; hop < 8; hop++ {
		e = ast.Unparen(e)
		if vmIsNil(info, e) {
			return true, true
		}
		switch x := e.(type) {
		case *ast.UnaryExpr:
			return false, x.Op == token.AND
		case *ast.CallExpr:
			if f := CalleeOf(info, x); f != nil && vmNeverNil(c, f, map[*types.Func]bool{}) {
				return false, true
			}
			return false, false
		case *ast.Ident:
			obj := vmObjOf(info, x)
			if isNil, known := vmNilDecidedAt(info, ev, before, obj); known {
				return isNil, true
			}
			next, at, _ := vmResolveStep(info, binds, ev, before, x)
			if next == nil {
				return false, false
			}
			e, before = next, at
		default:
			return false, false
		}
	}
	return false, false
}

// vmResolveStep: one hop of vmResolveAt.
func vmResolveStep(info *types.Info, binds map[ast.Stmt]vmBindKind, ev []vmEv, before int, id *ast.Ident) (ast.Expr, int, vmBindKind) {
	obj := vmObjOf(info, id)
	if _, isVar := obj.(*types.Var); !isVar {
		return nil, 0, vmBindNone
	}
	k, a := vmLastAssignAt(info, ev, before, obj)
	if a == nil || a.K != evAssign || a.Rhs == nil {
		return nil, 0, vmBindNone
	}
	if as, isAs := a.Stmt.(*ast.AssignStmt); isAs && len(as.Lhs) != len(as.Rhs) {
		return nil, 0, vmBindNone
	}
	kind := binds[a.Stmt]
	if kind == vmBindNone && a.Tok != token.DEFINE {
		return nil, 0, vmBindNone
	}
	return a.Rhs, k, kind
}

// vmDecideAtom: the value of a branch atom that follows from an inlined
// binding on the path (known=false: the atom is a genuine decision).
func vmDecideAtom(c *Ctx, info *types.Info, binds map[ast.Stmt]vmBindKind, ev []vmEv, cond ast.Expr) (val, known bool) {
	cond = ast.Unparen(cond)
	switch x := cond.(type) {
	case *ast.Ident:
		r, _, via := vmResolveAt(info, binds, ev, len(ev), x)
		if !via {
			return false, false
		}
		if tv, ok := info.Types[r]; ok && tv.Value != nil && tv.Value.Kind() == constant.Bool {
			return constant.BoolVal(tv.Value), true
		}
	case *ast.BinaryExpr:
		if x.Op != token.EQL && x.Op != token.NEQ {
			return false, false
		}
		var subj ast.Expr
		if vmIsNil(info, x.Y) {
			subj = x.X
		} else if vmIsNil(info, x.X) {
			subj = x.Y
		} else {
			return false, false
		}
		if _, isId := ast.Unparen(subj).(*ast.Ident); !isId {
			return false, false
		}
		if _, _, via := vmResolveAt(info, binds, ev, len(ev), subj); !via {
			return false, false
		}
		isNil, ok := vmNilnessAt(c, info, binds, ev, len(ev), subj)
		if !ok {
			return false, false
		}
		return (x.Op == token.EQL) == isNil, true
	}
	return false, false
}

// vmCanonKey renders a side-effect-free condition with the parameters of
// inlined callees replaced by the arguments bound to them, so that the same
// test written in the caller and inside a helper correlate.
func vmCanonKey(info *types.Info, binds map[ast.Stmt]vmBindKind, ev []vmEv, before int, e ast.Expr) string {
	var b strings.Builder
	var pr func(e ast.Expr, before, depth int)
	pr = func(e ast.Expr, before, depth int) {
		switch x := e.(type) {
		case nil:
		case *ast.ParenExpr:
			pr(x.X, before, depth)
		case *ast.Ident:
			obj := info.Uses[x]
			if obj == nil {
				obj = info.Defs[x]
			}
			v, isVar := obj.(*types.Var)
			if !isVar || v.IsField() {
				b.WriteString(x.Name)
				return
			}
			k, a := vmLastAssignAt(info, ev, before, obj)
			if a != nil && a.K == evAssign && a.Rhs != nil && depth < 6 {
				switch binds[a.Stmt] {
				case vmBindParam, vmBindRecv:
					if vmTrivialExpr(a.Rhs) || vmIsAssertOfTrivial(a.Rhs) {
						pr(a.Rhs, k, depth+1)
						return
					}
					fmt.Fprintf(&b, "%s#%d", x.Name, k)
					return
				case vmBindResult:
					fmt.Fprintf(&b, "%s#%d", x.Name, k)
					return
				}
			}
			fmt.Fprintf(&b, "%s@%d", x.Name, v.Pos())
		case *ast.SelectorExpr:
			pr(x.X, before, depth)
			b.WriteString("." + x.Sel.Name)
		case *ast.StarExpr:
			b.WriteString("*")
			pr(x.X, before, depth)
		case *ast.UnaryExpr:
			b.WriteString(x.Op.String())
			pr(x.X, before, depth)
		case *ast.BinaryExpr:
			b.WriteString("(")
			pr(x.X, before, depth)
			b.WriteString(" " + x.Op.String() + " ")
			pr(x.Y, before, depth)
			b.WriteString(")")
		case *ast.CallExpr:
			pr(x.Fun, before, depth)
			b.WriteString("(")
			for i, a := range x.Args {
				if i > 0 {
					b.WriteString(", ")
				}
				pr(a, before, depth)
			}
			b.WriteString(")")
		case *ast.IndexExpr:
			pr(x.X, before, depth)
			b.WriteString("[")
			pr(x.Index, before, depth)
			b.WriteString("]")
		case *ast.TypeAssertExpr:
			// the dynamic value is the same object: x.(T).f and x.f read the same field
			pr(x.X, before, depth)
		default:
			b.WriteString(exprStr(e))
		}
	}
	pr(e, before, 0)
	return b.String()
}

func vmIsAssertOfTrivial(e ast.Expr) bool {
	ta, ok := ast.Unparen(e).(*ast.TypeAssertExpr)
	return ok && vmTrivialExpr(ta.X)
}

// ----------------------------------------------------- relevance predicates

// vmCalleeCloser memoises "the callee, or a function it statically calls
// (inside the module), contains a node the rule cares about".
type vmCalleeCloser struct {
	c    *Ctx
	pred func(fn *vmFn, n ast.Node) bool
	memo map[*types.Func]bool
	busy map[*types.Func]bool
}

func vmNewCloser(c *Ctx, pred func(fn *vmFn, n ast.Node) bool) *vmCalleeCloser {
	return &vmCalleeCloser{c: c, pred: pred, memo: map[*types.Func]bool{}, busy: map[*types.Func]bool{}}
}

func (cl *vmCalleeCloser) relevant(fn *vmFn) bool {
	obj, _ := fn.info.Defs[fn.fd.Name].(*types.Func)
	if obj == nil {
		return false
	}
	if v, ok := cl.memo[obj]; ok {
		return v
	}
	if cl.busy[obj] {
		return false
	}
	cl.busy[obj] = true
	defer delete(cl.busy, obj)
	found := false
	ast.Inspect(fn.fd.Body, func(n ast.Node) bool {
		if found || n == nil {
			return false
		}
		if cl.pred(fn, n) {
			found = true
			return false
		}
		if call, ok := n.(*ast.CallExpr); ok {
			if g := vmDeclIndex(cl.c).of(CalleeOf(fn.info, call)); g != nil && g.fd != fn.fd && cl.relevant(g) {
				found = true
				return false
			}
		}
		return true
	})
	cl.memo[obj] = found
	return found
}

// vmPurePredicate: a function with one boolean result whose body only tests
// and returns (if / return statements over side-effect-free expressions): a
// named condition. Splicing it in lets the walker correlate `x.f != nil` with
// `x.HasF()`.
func vmPurePredicate(fn *vmFn) bool {
	obj, _ := fn.info.Defs[fn.fd.Name].(*types.Func)
	if obj == nil {
		return false
	}
	sig, _ := obj.Type().(*types.Signature)
	if sig == nil || sig.Results().Len() != 1 {
		return false
	}
	if b, ok := sig.Results().At(0).Type().Underlying().(*types.Basic); !ok || b.Kind() != types.Bool {
		return false
	}
	pure := true
	var stmts func(list []ast.Stmt)
	expr := func(e ast.Expr) {
		if e == nil {
			return
		}
		ast.Inspect(e, func(n ast.Node) bool {
			switch x := n.(type) {
			case *ast.FuncLit:
				pure = false
			case *ast.UnaryExpr:
				if x.Op == token.ARROW || x.Op == token.AND {
					pure = false
				}
			case *ast.CallExpr:
				if tv, isT := fn.info.Types[x.Fun]; isT && tv.IsType() {
					return true
				}
				if id, isId := x.Fun.(*ast.Ident); isId {
					if b, isB := fn.info.Uses[id].(*types.Builtin); isB && b.Name() == "len" {
						return true
					}
				}
				pure = false
			}
			return pure
		})
	}
	stmts = func(list []ast.Stmt) {
		for _, s := range list {
			switch x := s.(type) {
			case *ast.ReturnStmt:
				for _, r := range x.Results {
					expr(r)
				}
			case *ast.IfStmt:
				if x.Init != nil {
					pure = false
				}
				expr(x.Cond)
				stmts(x.Body.List)
				switch e := x.Else.(type) {
				case nil:
				case *ast.BlockStmt:
					stmts(e.List)
				case *ast.IfStmt:
					stmts([]ast.Stmt{e})
				default:
					pure = false
				}
			case *ast.BlockStmt:
				stmts(x.List)
			default:
				pure = false
			}
		}
	}
	stmts(fn.fd.Body.List)
	return pure
}

func vmPurePredInline(callee *vmFn, call *ast.CallExpr) bool { return vmPurePredicate(callee) }
