package main

import (
	"fmt"
	"go/ast"
	"go/types"
	"sort"
	"strings"
)

// R-member-source: the type of a member comes from the member table of the accessed expression's own static type.

func init() {
	register(&Rule{ID: "R-member-source", Floor: 2, Run: ruleR5MemberSource,
		Doc: "the analyzer resolves `x.m` by looking m up in the member table of a type: `T.Fields(span)[name]` (Fields is the method of the analyzer's Type interface that returns the members a type offers; both runtimes implement exactly these per value kind). Every such lookup in the analyzer is enumerated with the role term of T. The VALUE of the lookup — the type the member expression gets — may be used only when T is the static type of an analysed child expression itself (`base.Type()`): that is the type whose runtime values the engines will ask for the member. A lookup in any other table — the wrapped type of an option (for the hint 'consider x.unwrap().m'), a freshly built object type (is this key a builtin member?) — may only contribute its found flag: if its value reaches the result, the analyzer offers on ?T the members of T, which no runtime value of ?T has, and the engines' member lookup panics (C18: every member the analyzer offers on a type exists on every runtime value of that type)."})
}

func ruleR5MemberSource(c *Ctx) []Obligation {
	p := c.Pkg("homescript/analyzer")
	info := p.TypesInfo
	ap := c.Pkg("homescript/analyzer/ast")
	typeObj, _ := ap.Types.Scope().Lookup("Type").(*types.TypeName)
	if typeObj == nil {
		fatalf("anchor unresolved: analyzer/ast.Type")
	}
	// the member-table method by role: the method of the Type interface that returns a map from names to Types
	var fieldsM *types.Func
	if it, ok := typeObj.Type().Underlying().(*types.Interface); ok {
		for i := 0; i < it.NumMethods(); i++ {
			m := it.Method(i)
			sig := m.Type().(*types.Signature)
			if sig.Results().Len() == 1 {
				if mp, ok := sig.Results().At(0).Type().Underlying().(*types.Map); ok && types.Identical(mp.Elem(), typeObj.Type()) {
					if b, ok := mp.Key().Underlying().(*types.Basic); ok && b.Info()&types.IsString != 0 {
						fieldsM = m
					}
				}
			}
		}
	}
	if fieldsM == nil {
		fatalf("anchor unresolved: no method of analyzer/ast.Type returns map[string]Type")
	}
	var out []Obligation
	for _, fd := range AllFuncDecls(p) {
		if fd.Body == nil {
			continue
		}
		f := r2sibFuncOf(c, p, fd)
		parent := map[ast.Node]ast.Node{}
		var stack []ast.Node
		ast.Inspect(fd.Body, func(n ast.Node) bool {
			if n == nil {
				stack = stack[:len(stack)-1]
				return true
			}
			if len(stack) > 0 {
				parent[n] = stack[len(stack)-1]
			}
			stack = append(stack, n)
			return true
		})
		// the receiver of the Fields call behind a table expression (directly, or through a local)
		var tableRecv func(x ast.Expr, depth int) ast.Expr
		tableRecv = func(x ast.Expr, depth int) ast.Expr {
			x = ast.Unparen(x)
			if call, ok := x.(*ast.CallExpr); ok {
				if sel, ok := ast.Unparen(call.Fun).(*ast.SelectorExpr); ok {
					if callee := CalleeOf(info, call); callee != nil && callee.Name() == fieldsM.Name() {
						if cs, ok := callee.Type().(*types.Signature); ok && cs.Recv() != nil && types.Identical(callee.Type().(*types.Signature).Results().At(0).Type(), fieldsM.Type().(*types.Signature).Results().At(0).Type()) {
							return sel.X
						}
					}
				}
			}
			if id, ok := x.(*ast.Ident); ok && depth < 3 {
				if o := f.objOf(id); o != nil {
					if ds := f.defs[o]; len(ds) == 1 && ds[0].kind == r2dAssign && ds[0].n == 1 {
						return tableRecv(ds[0].rhs, depth+1)
					}
				}
			}
			return nil
		}
		nKey := map[string]int{}
		ast.Inspect(fd.Body, func(n ast.Node) bool {
			ix, ok := n.(*ast.IndexExpr)
			if !ok {
				return true
			}
			recv := tableRecv(ix.X, 0)
			if recv == nil {
				return true
			}
			term := f.norm(recv)
			own := false
			if strings.HasPrefix(term, "desc[AnalyzedExpression](") && strings.HasSuffix(term, ").Type()") {
				mid := term[len("desc[AnalyzedExpression](") : len(term)-len(").Type()")]
				own = !strings.ContainsAny(mid, "()")
			}
			// is the value of the lookup used?
			used, how := true, "the value is used in an expression"
			switch pn := parent[n].(type) {
			case *ast.AssignStmt:
				if len(pn.Rhs) == 1 && ast.Unparen(pn.Rhs[0]) == ast.Expr(ix) && len(pn.Lhs) >= 1 {
					if id, ok := pn.Lhs[0].(*ast.Ident); ok {
						if id.Name == "_" {
							used, how = false, "only the found flag is taken"
						} else {
							how = "the value is assigned to " + id.Name
						}
					}
				}
			case *ast.ValueSpec:
				if len(pn.Names) >= 1 && pn.Names[0].Name == "_" {
					used, how = false, "only the found flag is taken"
				}
			}
			key := fmt.Sprintf("homescript/analyzer.%s|member table of %s|its value is used only for the expression's own type", FuncName(fd), f.pretty(term))
			nKey[key]++
			if k := nKey[key]; k > 1 {
				key = fmt.Sprintf("%s #%d", key, k)
			}
			ob := Obligation{Key: key, Pos: c.Pos(ix.Pos()), Nontrivial: true}
			switch {
			case own:
				ob.Detail = "the table of the static type of an analysed child expression: " + how
			case !used:
				ob.Detail = "a table of another type (not the static type of an analysed child expression): " + how
			default:
				ob.Status = Violated
				ob.Detail = fmt.Sprintf("`%s` looks the member up in the table of %s, which is not the static type of the accessed expression, and %s: the member expression can get a member the runtime values of the expression's own type do not have", exprStr(ix), f.pretty(term), how)
			}
			out = append(out, ob)
			return true
		})
	}
	sort.SliceStable(out, func(i, j int) bool { return out[i].Key < out[j].Key })
	return out
}
