package main

// R-map-order, part 3: the rule, the reviewed table, unreachable loops.

import (
	"encoding/json"
	"fmt"
	"go/ast"
	"go/constant"
	"go/types"
	"os"
	"path/filepath"
	"strings"
)

func init() {
	register(&Rule{ID: "R-map-order", Floor: 52, Run: ruleMapOrder,
		Doc: "C14 (and C15/C19 where noted): Go randomises map iteration, so every `range` over a map in analyzer, analyzer/ast, compiler, runtime(+value), interpreter(+value), optimizer must have an order-insensitive shape, decided from the loop body with interprocedural write summaries: effects only on storage keyed by the loop key / reachable from the visited element; appends sorted before any other use; diagnostics emitted into the accumulating list (compared as a set) without an order-dependent early exit; searches whose exits are unique (key == invariant) or return one and the same invariant value; commutative integer accumulation / constant flags; ReplaceAll accumulation over a literal map whose entries commute. Any other shape must be listed in maporder_reviewed.json (benign, with reason) or it violates; loops reviewed as order-dependent defects violate. A listed loop is recognised by its key or — when it moved into a helper / another function or its range expression or function was renamed, so that no loop carries the key any more — by package + rename-stable effect signature + type of the ranged map, and keeps its entry and key; a loop whose effects differ from every orphaned entry is reported. Two further conditions are decided per loop on their own, whatever the table says about the loop. (1) Loop-carried places, one obligation `<loop>|carried <place>` per place: a variable / field / package-level variable that an iteration assigns — directly or through a callee (interprocedural field-store summaries with the parameters the stored value derives from) — with a value depending on the visited key/element (not a constant, not a commutative accumulation, not a running extremum, not under a `key == invariant` guard) holds the value of the LAST VISITED element afterwards; it must be overwritten (directly or by a callee that definitely stores it) or end its lifetime on every control-flow path (go/cfg) before it is read by a later iteration, by the code after the loop, by a callee (interprocedural upward-exposed-read summaries), through a result, or — for a place reachable from a pointer parameter / the receiver / a package-level variable — by the callers after the call returns (VTA call graph, followed upwards). (2) A second way out, one obligation `<loop>|panic-vs-exit <call>` per call: a call in the body whose callee (static, or any VTA callee of a dynamic call) may panic depending on a parameter (unchecked single-value type assertion / explicit panic under a test of the parameter's dynamic kind or type, not dominated by such a test; closed over unguarded forwarding) and whose argument derives from the visited element must be dominated inside the body by a guard comparing the dynamic kind of the receiver (or another argument) with that of the argument and leaving the iteration on inequality (if / else / tagless switch / short-circuit operand / predicate helper / through loop-local copies); otherwise, when the loop has another early exit (not merely `element == nil`), one element makes the loop return and another makes it crash: the visiting order decides the outcome. A violated sub-obligation recorded in maporder_reviewed.json keeps its key when its loop moves. A loop reviewed as order-dependent defect keeps violating when its effect signature changes (only a benign review can go stale). Also: no clock/random source, no package-level variable written after init in the pipeline, and the name-mangling counter maps — on whose program-wide uniqueness renameVariables' shared slot table depends while visiting functions in map order — are assigned only at construction and only ever incremented by one function. Breaking any of these makes diagnostics / output / outcome depend on the iteration order of a run."})
}

type moReviewed struct {
	Key     string `json:"key"`
	Status  string `json:"status"` // benign | order-dependent-defect
	Effects string `json:"effects,omitempty"`
	// Ranged: type of the map the reviewed loop ranges over (package-name
	// qualified, as printed in a "needs review" report). Only an entry that
	// records it can be inherited by a moved loop.
	Ranged string `json:"ranged,omitempty"`
	Reason string `json:"reason"`
}

type moReviewedFile struct {
	Comment string       `json:"comment"`
	Loops   []moReviewed `json:"loops"`
}

func determVerifDir() string {
	if v := os.Getenv("HMS_VERIF"); v != "" {
		return v
	}
	// honour -verif when given on the command line
	for i, a := range os.Args {
		if (a == "-verif" || a == "--verif") && i+1 < len(os.Args) {
			return os.Args[i+1]
		}
		if strings.HasPrefix(a, "-verif=") || strings.HasPrefix(a, "--verif=") {
			return a[strings.Index(a, "=")+1:]
		}
	}
	return "/verif"
}

func moLoadReviewed() (map[string]moReviewed, string, error) {
	path := filepath.Join(determVerifDir(), "maporder_reviewed.json")
	b, err := os.ReadFile(path)
	if err != nil {
		return map[string]moReviewed{}, path, err
	}
	var f moReviewedFile
	if err := json.Unmarshal(b, &f); err != nil {
		return nil, path, err
	}
	m := map[string]moReviewed{}
	moReviewedOrder = nil
	for _, e := range f.Loops {
		if _, dup := m[e.Key]; !dup {
			moReviewedOrder = append(moReviewedOrder, e.Key)
		}
		m[e.Key] = e
	}
	return m, path, nil
}

// moReviewedOrder: keys of the reviewed table in file order (deterministic
// matching of moved loops).
var moReviewedOrder []string

// moKeyPkg: the package part of a loop key (`<pkg>.<func>|range <expr>`).
func moKeyPkg(key string) string {
	if i := strings.Index(key, "|"); i >= 0 {
		key = key[:i]
	}
	if i := strings.Index(key, "."); i >= 0 {
		return key[:i]
	}
	return key
}

// moSigNorm: effect signatures / map types are compared modulo indirection
// when a review is inherited by a moved loop (a local struct that becomes a
// pointer parameter of the helper the loop moved to is still the same place).
func moSigNorm(s string) string { return strings.ReplaceAll(s, "*", "") }

func (l *moLoop) unreachable() string {
	var child ast.Node = l.rs
	for i := len(l.parents) - 1; i >= 0; i-- {
		if is, ok := l.parents[i].(*ast.IfStmt); ok {
			if tv, ok := l.info.Types[is.Cond]; ok && tv.Value != nil && tv.Value.Kind() == constant.Bool {
				b := constant.BoolVal(tv.Value)
				if (child == ast.Node(is.Body) && !b) || (is.Else != nil && child == ast.Node(is.Else) && b) {
					return fmt.Sprintf("guarded by `%s`, the compile-time constant %v", exprStr(is.Cond), b)
				}
			}
		}
		child = l.parents[i]
	}
	return ""
}

func moDiagType(c *Ctx) types.Type {
	p := c.Pkg("homescript/diagnostic")
	o := p.Types.Scope().Lookup("Diagnostic")
	if o == nil {
		fatalf("anchor unresolved: diagnostic.Diagnostic")
	}
	return o.Type()
}

func ruleMapOrder(c *Ctx) []Obligation {
	a := determMod(c)
	diagT := moDiagType(c)
	reviewed, path, rerr := moLoadReviewed()
	var obs []Obligation
	if reviewed == nil {
		obs = append(obs, Obligation{Key: "maporder_reviewed.json", Status: Undecided, Detail: fmt.Sprintf("%s unreadable: %v", path, rerr)})
		reviewed = map[string]moReviewed{}
	}
	used := map[string]bool{}
	type moPending struct {
		l     *moLoop
		ob    Obligation
		v     moVerdict
		why   string
		notes string
		at    int
	}
	var pending []moPending
	loops := moEnumerate(c)
	scans := map[*moLoop]*moScan{}
	for _, l := range loops {
		ob := Obligation{Key: l.keyStr, Pos: c.Pos(l.rs.Pos()), Nontrivial: true}
		if why := l.unreachable(); why != "" {
			ob.Status, ob.Detail = Discharged, "unreachable: "+why
			obs = append(obs, ob)
			continue
		}
		s := &moScan{l: l, a: a, diagT: diagT, c: c}
		s.stmts(l.rs.Body.List, moCtx{})
		scans[l] = s
		v := s.decide(c)
		if os.Getenv("HMS_MO_DUMP") != "" {
			// maintainer aid: the data a maporder_reviewed.json entry records
			fmt.Fprintf(os.Stderr, "MO_DUMP\t%s\t%s\t%s\n", l.keyStr, moTypeSig(l.info.TypeOf(l.rs.X)), v.sig)
		}
		notes := ""
		if len(v.notes) > 0 {
			notes = " [" + strings.Join(v.notes, "; ") + "]"
		}
		if v.ok {
			ob.Status = Discharged
			ob.Detail = "order-insensitive shape: " + v.shape + notes
			obs = append(obs, ob)
			continue
		}
		why := strings.Join(v.reasons, " | ")
		if r, ok := reviewed[l.keyStr]; ok {
			used[l.keyStr] = true
			switch {
			case r.Effects != "" && r.Effects != v.sig && r.Effects != v.sigLegacy && r.Status == "order-dependent-defect":
				// A loop recorded as a violating defect keeps violating under its key for as
				// long as it has effects of no order-insensitive shape: a changed signature
				// (helper extracted / inlined, a local introduced, an effect added) cannot
				// turn a known defect into something better. Only a `benign` review can be
				// invalidated by a new effect.
				ob.Status = Violated
				ob.Detail = fmt.Sprintf("reviewed ORDER-DEPENDENT DEFECT: %s — analysis: %s [effect signature changed since the review: reviewed {%s}, now {%s}]", r.Reason, why, r.Effects, v.sig)
			case r.Effects != "" && r.Effects != v.sig && r.Effects != v.sigLegacy:
				ob.Status = Undecided
				ob.Detail = fmt.Sprintf("the review recorded in maporder_reviewed.json is stale: reviewed effects {%s}, the loop now has {%s}. %s", r.Effects, v.sig, why)
			case r.Status == "benign" && v.violated:
				ob.Status = Violated
				ob.Detail = "definite order dependence (a `benign` review cannot cover it): " + why
			case r.Status == "benign":
				ob.Status = Discharged
				ob.Detail = fmt.Sprintf("not an automatic shape {%s}; reviewed benign: %s", v.sig, r.Reason)
			case r.Status == "order-dependent-defect":
				ob.Status = Violated
				ob.Detail = fmt.Sprintf("reviewed ORDER-DEPENDENT DEFECT: %s — analysis: %s", r.Reason, why)
			default:
				ob.Status = Undecided
				ob.Detail = "maporder_reviewed.json: unknown status " + r.Status
			}
			obs = append(obs, ob)
			continue
		}
		pending = append(pending, moPending{l: l, ob: ob, v: v, why: why, notes: notes, at: len(obs)})
		obs = append(obs, Obligation{}) // placeholder, filled below
	}
	// reviewed entries whose loop no longer exists in the tree
	loopKeys := map[string]bool{}
	for _, l := range loops {
		loopKeys[l.keyStr] = true
	}
	// (an entry whose key designates a loop that is decided automatically is
	// not consumed by that loop either: when the first of two `range m` loops of a
	// function moves away, the second one takes over its key text)
	var orphans []string
	for _, k := range moReviewedOrder {
		if !used[k] && !r4bIsSubKey(k) {
			orphans = append(orphans, k)
		}
	}
	// A loop that is not listed may be a reviewed loop that MOVED (into a helper,
	// into another function, or whose range expression / function was renamed):
	// it inherits the review of an entry of the same package that matches no loop
	// any more, provided the rename-stable effect signature and the type of the
	// ranged map are those the review was made for. The obligation keeps the key
	// of the reviewed construct. A loop with a new / different effect signature
	// (or with no orphaned entry to take over) is still reported.
	inherited := map[string]bool{}
	var extra []Obligation
	// matching classes: package + effect signature + ranged map type
	classOf := func(pkg, sig, ranged string) string {
		return pkg + "\x00" + moSigNorm(sig) + "\x00" + moSigNorm(ranged)
	}
	// an entry recorded with the older name-based spelling of the signature is
	// compared in that spelling
	legacyOf := map[string]string{}
	for _, p := range pending {
		legacyOf[p.v.sigLegacy] = p.v.sig
	}
	orphansOf := map[string][]moReviewed{}
	for _, k := range orphans {
		r := reviewed[k]
		if r.Ranged == "" || r.Effects == "" {
			continue
		}
		eff := r.Effects
		if st, ok := legacyOf[eff]; ok {
			eff = st
		}
		cl := classOf(moKeyPkg(k), eff, r.Ranged)
		orphansOf[cl] = append(orphansOf[cl], r)
	}
	heirsOf := map[string]int{}
	rangedOf := func(p moPending) string { return moTypeSig(p.l.info.TypeOf(p.l.rs.X)) }
	for _, p := range pending {
		heirsOf[classOf(moKeyPkg(p.l.keyStr), p.v.sig, rangedOf(p))]++
	}
	seenHeirs := map[string]int{}
	for _, p := range pending {
		ranged := rangedOf(p)
		cl := classOf(moKeyPkg(p.l.keyStr), p.v.sig, ranged)
		from := orphansOf[cl]
		if len(from) == 0 {
			ob := p.ob
			ob.Status = Violated
			if p.v.violated {
				ob.Detail = "order-dependent: " + p.why + p.notes
			} else {
				ob.Detail = fmt.Sprintf("needs review (no order-insensitive shape matched, not in maporder_reviewed.json; effects {%s}, ranged %s): %s%s", p.v.sig, ranged, p.why, p.notes)
			}
			obs[p.at] = ob
			continue
		}
		// pair the loops of a class with the orphaned entries of the class in order
		// (loops in source order, entries in file order): n loops renamed -> one entry
		// each; two reviewed loops merged into one helper -> the helper's loop takes
		// both entries (both keys stay); one reviewed loop duplicated -> the copies
		// beyond the first borrow the review, under their own key
		i, n, m := seenHeirs[cl], heirsOf[cl], len(from)
		seenHeirs[cl]++
		var use []moReviewed
		ownKey := false
		switch {
		case i < n-1 && i < m:
			use = from[i : i+1]
		case i == n-1 && i < m:
			use = from[i:]
		default:
			use, ownKey = from[m-1:], true
		}
		var outs []Obligation
		for _, r := range use {
			ob := p.ob
			if !ownKey {
				if !loopKeys[r.Key] {
					ob.Key = r.Key // the reviewed construct keeps its key
				} // else: that key text now designates another loop; keys stay unique
				inherited[r.Key] = true
			}
			moved := fmt.Sprintf("the loop reviewed as `%s` no longer exists; this loop (`%s`) has the same effects {%s} over the same map type %s and inherits that review", r.Key, p.l.keyStr, p.v.sig, ranged)
			switch {
			case r.Status == "benign" && p.v.violated:
				ob.Status = Violated
				ob.Detail = "definite order dependence (a `benign` review cannot cover it): " + p.why
			case r.Status == "benign":
				ob.Status = Discharged
				ob.Detail = fmt.Sprintf("not an automatic shape {%s}; moved loop: %s; reviewed benign: %s", p.v.sig, moved, r.Reason)
			case r.Status == "order-dependent-defect":
				ob.Status = Violated
				ob.Detail = fmt.Sprintf("reviewed ORDER-DEPENDENT DEFECT (moved loop: %s): %s — analysis: %s", moved, r.Reason, p.why)
			default:
				ob.Status = Undecided
				ob.Detail = "maporder_reviewed.json: unknown status " + r.Status
			}
			outs = append(outs, ob)
		}
		// obligations that could not keep a reviewed key (it now designates another
		// loop) collapse into one under the loop's own key: the most severe
		rank := map[Status]int{Violated: 3, Undecided: 2, Discharged: 1, Info: 0}
		var own *Obligation
		var keep []Obligation
		for i := range outs {
			if outs[i].Key != p.ob.Key {
				keep = append(keep, outs[i])
			} else if own == nil || rank[outs[i].Status] > rank[own.Status] {
				own = &outs[i]
			}
		}
		if own != nil {
			keep = append([]Obligation{*own}, keep...)
		}
		obs[p.at] = keep[0]
		extra = append(extra, keep[1:]...)
	}
	obs = append(obs, extra...)
	for _, k := range orphans {
		if !inherited[k] && !loopKeys[k] {
			obs = append(obs, Obligation{Key: "reviewed-table|" + k, Status: Info, Detail: "entry of maporder_reviewed.json matches no loop of the current tree (loop removed or renamed)"})
		}
	}
	subs := r4bCarriedObligations(c, a, loops, diagT)
	subs = append(subs, r4bPanicExitObligations(c, a, loops, scans)...)
	obs = append(obs, r4bApplyReviews(reviewed, moReviewedOrder, subs)...)
	obs = append(obs, determStateObligations(c, a)...)
	obs = append(obs, r5rtFmtAddress(c)...)
	// keys stay unique whatever the matching above produced
	seenKey := map[string]int{}
	for i := range obs {
		seenKey[obs[i].Key]++
		if n := seenKey[obs[i].Key]; n > 1 {
			obs[i].Key = fmt.Sprintf("%s ~%d", obs[i].Key, n)
		}
	}
	return obs
}
