package main

// R-map-order, part 3: the rule, the reviewed table, unreachable loops.

import (
	"encoding/json"
	"fmt"
	"go/ast"
	"go/constant"
	"go/types"
	"os"
	"path/filepath"
	"strings"
)

func init() {
	register(&Rule{ID: "R-map-order", Floor: 45, Run: ruleMapOrder,
		Doc: "C14 (and C15/C19 where noted): Go randomises map iteration, so every `range` over a map in analyzer, analyzer/ast, compiler, runtime(+value), interpreter(+value), optimizer must have an order-insensitive shape, decided from the loop body with interprocedural write summaries: effects only on storage keyed by the loop key / reachable from the visited element; appends sorted before any other use; diagnostics emitted into the accumulating list (compared as a set) without an order-dependent early exit; searches whose exits are unique (key == invariant) or return one and the same invariant value; commutative integer accumulation / constant flags; ReplaceAll accumulation over a literal map whose entries commute. Any other shape must be listed in maporder_reviewed.json (benign, with reason) or it violates; loops reviewed as order-dependent defects violate. Also: no clock/random source, no package-level variable written after init in the pipeline, and the name-mangling counter maps — on whose program-wide uniqueness renameVariables' shared slot table depends while visiting functions in map order — are assigned only at construction and only ever incremented by one function. Breaking any of these makes diagnostics / output / outcome depend on the iteration order of a run."})
}

type moReviewed struct {
	Key     string `json:"key"`
	Status  string `json:"status"` // benign | order-dependent-defect
	Effects string `json:"effects,omitempty"`
	Reason  string `json:"reason"`
}

type moReviewedFile struct {
	Comment string       `json:"comment"`
	Loops   []moReviewed `json:"loops"`
}

func determVerifDir() string {
	if v := os.Getenv("HMS_VERIF"); v != "" {
		return v
	}
	// honour -verif when given on the command line
	for i, a := range os.Args {
		if (a == "-verif" || a == "--verif") && i+1 < len(os.Args) {
			return os.Args[i+1]
		}
		if strings.HasPrefix(a, "-verif=") || strings.HasPrefix(a, "--verif=") {
			return a[strings.Index(a, "=")+1:]
		}
	}
	return "/verif"
}

func moLoadReviewed() (map[string]moReviewed, string, error) {
	path := filepath.Join(determVerifDir(), "maporder_reviewed.json")
	b, err := os.ReadFile(path)
	if err != nil {
		return map[string]moReviewed{}, path, err
	}
	var f moReviewedFile
	if err := json.Unmarshal(b, &f); err != nil {
		return nil, path, err
	}
	m := map[string]moReviewed{}
	for _, e := range f.Loops {
		m[e.Key] = e
	}
	return m, path, nil
}

func (l *moLoop) unreachable() string {
	var child ast.Node = l.rs
	for i := len(l.parents) - 1; i >= 0; i-- {
		if is, ok := l.parents[i].(*ast.IfStmt); ok {
			if tv, ok := l.info.Types[is.Cond]; ok && tv.Value != nil && tv.Value.Kind() == constant.Bool {
				b := constant.BoolVal(tv.Value)
				if (child == ast.Node(is.Body) && !b) || (is.Else != nil && child == ast.Node(is.Else) && b) {
					return fmt.Sprintf("guarded by `%s`, the compile-time constant %v", exprStr(is.Cond), b)
				}
			}
		}
		child = l.parents[i]
	}
	return ""
}

func moDiagType(c *Ctx) types.Type {
	p := c.Pkg("homescript/diagnostic")
	o := p.Types.Scope().Lookup("Diagnostic")
	if o == nil {
		fatalf("anchor unresolved: diagnostic.Diagnostic")
	}
	return o.Type()
}

func ruleMapOrder(c *Ctx) []Obligation {
	a := determMod(c)
	diagT := moDiagType(c)
	reviewed, path, rerr := moLoadReviewed()
	var obs []Obligation
	if reviewed == nil {
		obs = append(obs, Obligation{Key: "maporder_reviewed.json", Status: Undecided, Detail: fmt.Sprintf("%s unreadable: %v", path, rerr)})
		reviewed = map[string]moReviewed{}
	}
	used := map[string]bool{}
	loops := moEnumerate(c)
	for _, l := range loops {
		ob := Obligation{Key: l.keyStr, Pos: c.Pos(l.rs.Pos()), Nontrivial: true}
		if why := l.unreachable(); why != "" {
			ob.Status, ob.Detail = Discharged, "unreachable: "+why
			obs = append(obs, ob)
			continue
		}
		s := &moScan{l: l, a: a, diagT: diagT, c: c}
		s.stmts(l.rs.Body.List, moCtx{})
		v := s.decide(c)
		notes := ""
		if len(v.notes) > 0 {
			notes = " [" + strings.Join(v.notes, "; ") + "]"
		}
		if v.ok {
			ob.Status = Discharged
			ob.Detail = "order-insensitive shape: " + v.shape + notes
			obs = append(obs, ob)
			continue
		}
		why := strings.Join(v.reasons, " | ")
		if r, ok := reviewed[l.keyStr]; ok {
			used[l.keyStr] = true
			switch {
			case r.Effects != "" && r.Effects != v.sig:
				ob.Status = Undecided
				ob.Detail = fmt.Sprintf("the review recorded in maporder_reviewed.json is stale: reviewed effects {%s}, the loop now has {%s}. %s", r.Effects, v.sig, why)
			case r.Status == "benign" && v.violated:
				ob.Status = Violated
				ob.Detail = "definite order dependence (a `benign` review cannot cover it): " + why
			case r.Status == "benign":
				ob.Status = Discharged
				ob.Detail = fmt.Sprintf("not an automatic shape {%s}; reviewed benign: %s", v.sig, r.Reason)
			case r.Status == "order-dependent-defect":
				ob.Status = Violated
				ob.Detail = fmt.Sprintf("reviewed ORDER-DEPENDENT DEFECT: %s — analysis: %s", r.Reason, why)
			default:
				ob.Status = Undecided
				ob.Detail = "maporder_reviewed.json: unknown status " + r.Status
			}
			obs = append(obs, ob)
			continue
		}
		ob.Status = Violated
		if v.violated {
			ob.Detail = "order-dependent: " + why + notes
		} else {
			ob.Detail = fmt.Sprintf("needs review (no order-insensitive shape matched, not in maporder_reviewed.json; effects {%s}): %s%s", v.sig, why, notes)
		}
		obs = append(obs, ob)
	}
	for k := range reviewed {
		if !used[k] {
			found := false
			for _, l := range loops {
				if l.keyStr == k {
					found = true
				}
			}
			if !found {
				obs = append(obs, Obligation{Key: "reviewed-table|" + k, Status: Info, Detail: "entry of maporder_reviewed.json matches no loop of the current tree (loop removed or renamed)"})
			}
		}
	}
	obs = append(obs, determStateObligations(c, a)...)
	return obs
}
