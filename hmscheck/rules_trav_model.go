package main

// trav: model of the two Homescript ASTs (parser/ast = pAst, analyzer/ast =
// ast) shared by R-traversal, R-flag-forwarding, R-optimizer-local-state and
// R-printer-twins. Everything is derived from the loaded tree: the node
// structs are the closure of the two Program types over fields and interface
// implementers, the kind of a struct is what its Kind() method returns, the
// role of a field is decided by its type and by whether the twin struct of the
// other AST has a counterpart.

import (
	"go/ast"
	"go/token"
	"go/types"
	"sort"
	"strings"

	"golang.org/x/tools/go/packages"
)

type travFieldClass int

const (
	tfLayout travFieldClass = iota // errors.Span or a component of the location type
	tfChild                        // contains code: expression / statement / block
	tfName                         // contains an identifier (binding or reference)
	tfType                         // contains a type (syntax or resolved)
	tfScalar                       // bool / number / string / enum: flags, operators, literal payloads
	tfOther                        // maps / structs without code, identifier or type
)

func (k travFieldClass) String() string {
	return [...]string{"layout", "child", "name", "type", "scalar", "other"}[k]
}

type travField struct {
	Name    string
	Var     *types.Var
	Class   travFieldClass
	Derived bool   // analyzed AST only: no counterpart in the parser twin (an analysis result)
	Why     string // one-line justification of Class/Derived
}

type travStruct struct {
	T       *types.Named
	Pkg     *packages.Package
	Fields  []*travField
	Kind    *types.Const // nil when the struct has no Kind() method
	Twin    *travStruct  // analyzed -> parser and parser -> analyzed (may be nil)
	TwinWhy string
	IsSem   bool // implements the resolved-type interface (ast.Type)
}

func (s *travStruct) Name() string { return relPkg(s.T.Obj().Pkg().Path()) + "." + s.T.Obj().Name() }
func (s *travStruct) Short() string {
	return s.T.Obj().Name()
}
func (s *travStruct) Field(name string) *travField {
	for _, f := range s.Fields {
		if f.Name == name {
			return f
		}
	}
	return nil
}

type travModel struct {
	c                            *Ctx
	pP, pA                       *packages.Package
	span                         *types.Named          // errors.Span
	semType                      *types.Named          // ast.Type: result of Analyzer.ConvertType
	hmsType                      *types.Named          // pAst.HmsType: parameter of Analyzer.ConvertType
	identT                       *types.Named          // the spanned identifier: the parser-AST struct made of exactly a string and a span
	progP                        *types.Named          // pAst.Program
	progA                        *types.Named          // ast.AnalyzedProgram
	codeIfc                      map[*types.Named]bool // Expression / Statement interfaces of both families
	structs                      map[*types.Named]*travStruct
	byKind                       map[*types.Const]*travStruct
	byKindAll                    map[*types.Const][]*travStruct // every struct whose Kind() returns the constant
	decls                        map[*types.Func]*travDecl      // every function body of the module
	memoCode, memoType, memoName map[types.Type]int
}

type travDecl struct {
	Fd  *ast.FuncDecl
	Pkg *packages.Package
}

var travModelCache = map[*Ctx]*travModel{}

func travGetModel(c *Ctx) *travModel {
	if m := travModelCache[c]; m != nil {
		return m
	}
	m := travBuildModel(c)
	travModelCache[c] = m
	return m
}

func travNamed(t types.Type) *types.Named {
	t = types.Unalias(t)
	if p, ok := t.(*types.Pointer); ok {
		t = types.Unalias(p.Elem())
	}
	n, _ := t.(*types.Named)
	return n
}

func travBuildModel(c *Ctx) *travModel {
	m := &travModel{c: c, pP: c.Pkg("homescript/parser/ast"), pA: c.Pkg("homescript/analyzer/ast"),
		codeIfc: map[*types.Named]bool{}, structs: map[*types.Named]*travStruct{}, byKind: map[*types.Const]*travStruct{}, byKindAll: map[*types.Const][]*travStruct{},
		decls: map[*types.Func]*travDecl{}, memoCode: map[types.Type]int{}, memoType: map[types.Type]int{}, memoName: map[types.Type]int{}}
	for _, p := range c.All {
		for _, fd := range AllFuncDecls(p) {
			if fn, ok := p.TypesInfo.Defs[fd.Name].(*types.Func); ok {
				m.decls[fn] = &travDecl{fd, p}
			}
		}
	}
	// anchors through exported API
	an := c.Pkg("homescript/analyzer")
	conv := travMethodObj(an, "Analyzer", "ConvertType")
	analyze := travMethodObj(an, "Analyzer", "Analyze")
	if conv == nil || analyze == nil {
		fatalf("anchor unresolved: analyzer.Analyzer.ConvertType / Analyze")
	}
	cs := conv.Type().(*types.Signature)
	if cs.Params().Len() < 1 || cs.Results().Len() != 1 {
		fatalf("anchor moved: Analyzer.ConvertType signature")
	}
	m.hmsType = travNamed(cs.Params().At(0).Type())
	m.semType = travNamed(cs.Results().At(0).Type())
	as := analyze.Type().(*types.Signature)
	if as.Params().Len() < 1 || as.Results().Len() < 1 {
		fatalf("anchor moved: Analyzer.Analyze signature")
	}
	m.progP = travNamed(as.Params().At(0).Type())
	if mp, ok := types.Unalias(as.Results().At(0).Type()).(*types.Map); ok {
		m.progA = travNamed(mp.Elem())
	}
	if m.hmsType == nil || m.semType == nil || m.progP == nil || m.progA == nil {
		fatalf("anchor unresolved: HmsType / Type / Program / AnalyzedProgram")
	}
	if sp := c.Pkg("homescript/errors").Types.Scope().Lookup("Span"); sp != nil {
		m.span = travNamed(sp.Type())
	}
	if m.span == nil {
		fatalf("anchor unresolved: errors.Span")
	}
	// the identifier type, by shape: exactly {string, errors.Span}
	for _, name := range m.pP.Types.Scope().Names() {
		tn, ok := m.pP.Types.Scope().Lookup(name).(*types.TypeName)
		if !ok {
			continue
		}
		n, _ := tn.Type().(*types.Named)
		if n == nil {
			continue
		}
		st, ok := n.Underlying().(*types.Struct)
		if !ok || st.NumFields() != 2 {
			continue
		}
		nstr, nspan := 0, 0
		for i := 0; i < 2; i++ {
			if b, ok := st.Field(i).Type().Underlying().(*types.Basic); ok && b.Kind() == types.String {
				nstr++
			}
			if travNamed(st.Field(i).Type()) == m.span {
				nspan++
			}
		}
		hasKind := false
		for i := 0; i < n.NumMethods(); i++ {
			if n.Method(i).Name() == "Kind" {
				hasKind = true
			}
		}
		if nstr == 1 && nspan == 1 && !hasKind { // a kinded {string, span} struct is a literal node, not the identifier
			if m.identT != nil {
				fatalf("anchor ambiguous: two spanned-identifier shaped structs (%s, %s)", m.identT.Obj().Name(), n.Obj().Name())
			}
			m.identT = n
		}
	}
	if m.identT == nil {
		fatalf("anchor unresolved: spanned identifier struct {string, errors.Span} in parser/ast")
	}
	// code interfaces: analyzed family = interfaces with Kind() and Type() <semType>;
	// parser family = the parameter interface of the analyzer function producing them.
	for _, name := range m.pA.Types.Scope().Names() {
		tn, ok := m.pA.Types.Scope().Lookup(name).(*types.TypeName)
		if !ok {
			continue
		}
		n, _ := tn.Type().(*types.Named)
		if n == nil || n == m.semType {
			continue
		}
		it, ok := n.Underlying().(*types.Interface)
		if !ok {
			continue
		}
		hasKind, hasType := false, false
		for i := 0; i < it.NumMethods(); i++ {
			f := it.Method(i)
			sg := f.Type().(*types.Signature)
			if f.Name() == "Kind" {
				hasKind = true
			}
			if sg.Results().Len() == 1 && travNamed(sg.Results().At(0).Type()) == m.semType && sg.Params().Len() == 0 {
				hasType = true
			}
		}
		if hasKind && hasType {
			m.codeIfc[n] = true
		}
	}
	for fn := range m.decls {
		if fn.Pkg() != an.Types {
			continue
		}
		sg := fn.Type().(*types.Signature)
		if sg.Results().Len() < 1 || sg.Params().Len() < 1 {
			continue
		}
		r := travNamed(sg.Results().At(0).Type())
		if r == nil || !m.codeIfc[r] || r.Obj().Pkg() != m.pA.Types {
			continue
		}
		p := travNamed(sg.Params().At(0).Type())
		if p != nil && p.Obj().Pkg() == m.pP.Types {
			if _, ok := p.Underlying().(*types.Interface); ok && p != m.hmsType {
				m.codeIfc[p] = true
			}
		}
	}
	if len(m.codeIfc) < 4 {
		fatalf("anchor unresolved: expected the Expression/Statement interfaces of both ASTs, found %d", len(m.codeIfc))
	}
	// closure of node structs from the two programs
	var visit func(t types.Type)
	seenIfc := map[*types.Named]bool{}
	visit = func(t types.Type) {
		t = types.Unalias(t)
		switch x := t.(type) {
		case *types.Pointer:
			visit(x.Elem())
		case *types.Slice:
			visit(x.Elem())
		case *types.Array:
			visit(x.Elem())
		case *types.Map:
			visit(x.Key())
			visit(x.Elem())
		case *types.Named:
			if x.Obj().Pkg() != m.pP.Types && x.Obj().Pkg() != m.pA.Types {
				return
			}
			switch u := x.Underlying().(type) {
			case *types.Struct:
				if m.structs[x] != nil {
					return
				}
				s := &travStruct{T: x, Pkg: m.pkgOf(x)}
				m.structs[x] = s
				for i := 0; i < u.NumFields(); i++ {
					visit(u.Field(i).Type())
				}
			case *types.Interface:
				if seenIfc[x] {
					return
				}
				seenIfc[x] = true
				// all implementers in both AST packages
				for _, p := range []*packages.Package{m.pP, m.pA} {
					for _, name := range p.Types.Scope().Names() {
						tn, ok := p.Types.Scope().Lookup(name).(*types.TypeName)
						if !ok || tn.IsAlias() {
							continue
						}
						n, _ := tn.Type().(*types.Named)
						if n == nil {
							continue
						}
						if _, ok := n.Underlying().(*types.Struct); !ok {
							continue
						}
						if types.Implements(n, u) || types.Implements(types.NewPointer(n), u) {
							visit(n)
						}
					}
				}
			}
		}
	}
	visit(m.progP)
	visit(m.progA)
	semI := m.semType.Underlying().(*types.Interface)
	for n, s := range m.structs {
		s.IsSem = types.Implements(n, semI) || types.Implements(types.NewPointer(n), semI)
	}
	// kinds: Kind() methods whose body is `return <Const>` (in a fixed order: two structs that
	// claim the same kind are both recorded in byKindAll, byKind keeps the first by name)
	for _, s := range m.sortedStructs() {
		n := s.T
		for i := 0; i < n.NumMethods(); i++ {
			f := n.Method(i)
			if f.Name() != "Kind" {
				continue
			}
			d := m.decls[f]
			if d == nil || len(d.Fd.Body.List) != 1 {
				continue
			}
			if rs, ok := d.Fd.Body.List[0].(*ast.ReturnStmt); ok && len(rs.Results) == 1 {
				if k := ConstOf(d.Pkg.TypesInfo, rs.Results[0]); k != nil {
					s.Kind = k
					if m.byKind[k] == nil {
						m.byKind[k] = s
					}
					m.byKindAll[k] = append(m.byKindAll[k], s)
				}
			}
		}
	}
	m.buildTwins(an)
	for _, s := range m.structs {
		m.classify(s)
	}
	return m
}

func (m *travModel) pkgOf(n *types.Named) *packages.Package {
	if n.Obj().Pkg() == m.pP.Types {
		return m.pP
	}
	return m.pA
}

func travMethodObj(p *packages.Package, recv, name string) *types.Func {
	fd := FuncDecl(p, recv, name)
	if fd == nil {
		return nil
	}
	fn, _ := p.TypesInfo.Defs[fd.Name].(*types.Func)
	return fn
}

// inA / inP: family of a struct.
func (m *travModel) inA(n *types.Named) bool { return n != nil && n.Obj().Pkg() == m.pA.Types }
func (m *travModel) inP(n *types.Named) bool { return n != nil && n.Obj().Pkg() == m.pP.Types }

// carrierStructs: node structs carried *directly* (not behind an interface)
// by a value of type t: S, *S, []S, [n]S, map[k]S and nestings of those.
func (m *travModel) carrierStructs(t types.Type) []*travStruct {
	var out []*travStruct
	var rec func(t types.Type, depth int)
	rec = func(t types.Type, depth int) {
		if t == nil || depth > 4 {
			return
		}
		t = types.Unalias(t)
		switch x := t.(type) {
		case *types.Pointer:
			rec(x.Elem(), depth+1)
		case *types.Slice:
			rec(x.Elem(), depth+1)
		case *types.Array:
			rec(x.Elem(), depth+1)
		case *types.Map:
			rec(x.Elem(), depth+1)
		case *types.Named:
			if s := m.structs[x]; s != nil {
				out = append(out, s)
			}
		}
	}
	rec(t, 0)
	return out
}

// contains*: three-valued memo (0 unknown, 1 yes, 2 no) with a cycle guard.
func (m *travModel) containsCode(t types.Type) bool {
	return m.containsRec(t, m.memoCode, func(n *types.Named) (bool, bool) {
		if m.codeIfc[n] {
			return true, true
		}
		if n == m.semType || n == m.hmsType {
			return false, true
		}
		if s := m.structs[n]; s != nil && s.IsSem {
			return false, true
		}
		if _, ok := n.Underlying().(*types.Struct); ok {
			// a struct implementing a code interface is code itself
			for ci := range m.codeIfc {
				it := ci.Underlying().(*types.Interface)
				if types.Implements(n, it) {
					return true, true
				}
			}
		}
		return false, false
	})
}

func (m *travModel) containsType(t types.Type) bool {
	return m.containsRec(t, m.memoType, func(n *types.Named) (bool, bool) {
		if n == m.semType || n == m.hmsType {
			return true, true
		}
		if s := m.structs[n]; s != nil && s.IsSem {
			return true, true
		}
		if m.codeIfc[n] {
			return false, true
		}
		if _, ok := n.Underlying().(*types.Struct); ok {
			it := m.hmsType.Underlying().(*types.Interface)
			if types.Implements(n, it) {
				return true, true
			}
		}
		return false, false
	})
}

func (m *travModel) containsName(t types.Type) bool {
	return m.containsRec(t, m.memoName, func(n *types.Named) (bool, bool) {
		if n == m.identT {
			return true, true
		}
		if m.codeIfc[n] || n == m.semType || n == m.hmsType {
			return false, true
		}
		if s := m.structs[n]; s != nil && s.IsSem {
			return false, true
		}
		return false, false
	})
}

func (m *travModel) containsRec(t types.Type, memo map[types.Type]int, leaf func(*types.Named) (bool, bool)) bool {
	t = types.Unalias(t)
	if v := memo[t]; v != 0 {
		return v == 1
	}
	memo[t] = 2 // cycle guard: assume no while computing
	res := false
	switch x := t.(type) {
	case *types.Pointer:
		res = m.containsRec(x.Elem(), memo, leaf)
	case *types.Slice:
		res = m.containsRec(x.Elem(), memo, leaf)
	case *types.Array:
		res = m.containsRec(x.Elem(), memo, leaf)
	case *types.Map:
		res = m.containsRec(x.Elem(), memo, leaf)
	case *types.Named:
		if v, decided := leaf(x); decided {
			res = v
			break
		}
		if x.Obj().Pkg() != m.pP.Types && x.Obj().Pkg() != m.pA.Types {
			break
		}
		switch u := x.Underlying().(type) {
		case *types.Struct:
			for i := 0; i < u.NumFields() && !res; i++ {
				res = m.containsRec(u.Field(i).Type(), memo, leaf)
			}
		case *types.Interface:
			for n := range m.structs {
				if res {
					break
				}
				if types.Implements(n, u) {
					res = m.containsRec(n, memo, leaf)
				}
			}
		}
	}
	if res {
		memo[t] = 1
	} else {
		memo[t] = 2
	}
	return res
}

func (m *travModel) isLayoutField(v *types.Var) (bool, string) {
	if n := travNamed(v.Type()); n == m.span {
		return true, "type errors.Span"
	}
	// a component of the location type itself (same name and type as a field of errors.Span)
	st := m.span.Underlying().(*types.Struct)
	for i := 0; i < st.NumFields(); i++ {
		f := st.Field(i)
		if f.Name() == v.Name() && types.Identical(f.Type(), v.Type()) {
			return true, "same name and type as errors.Span." + f.Name() + " (a component of the location)"
		}
	}
	return false, ""
}

func (m *travModel) classify(s *travStruct) {
	st := s.T.Underlying().(*types.Struct)
	for i := 0; i < st.NumFields(); i++ {
		v := st.Field(i)
		f := &travField{Name: v.Name(), Var: v}
		if ok, why := m.isLayoutField(v); ok {
			f.Class, f.Why = tfLayout, why
		} else if m.containsCode(v.Type()) {
			f.Class, f.Why = tfChild, "type "+types.TypeString(v.Type(), travQual)+" contains expression/statement/block nodes"
		} else if m.containsName(v.Type()) {
			f.Class, f.Why = tfName, "type "+types.TypeString(v.Type(), travQual)+" contains an identifier"
		} else if m.containsType(v.Type()) {
			f.Class, f.Why = tfType, "type "+types.TypeString(v.Type(), travQual)+" is a type"
		} else if _, ok := types.Unalias(v.Type()).Underlying().(*types.Basic); ok {
			f.Class, f.Why = tfScalar, "flag/operator/payload of type "+types.TypeString(v.Type(), travQual)
		} else {
			f.Class, f.Why = tfOther, "type "+types.TypeString(v.Type(), travQual)
		}
		s.Fields = append(s.Fields, f)
	}
	if !m.inA(s.T) {
		return
	}
	// derived = analysis result: no counterpart in the parser twin
	var twinFree []*types.Var
	if s.Twin != nil {
		tst := s.Twin.T.Underlying().(*types.Struct)
		for i := 0; i < tst.NumFields(); i++ {
			if s.Field(tst.Field(i).Name()) == nil {
				twinFree = append(twinFree, tst.Field(i))
			}
		}
	}
	for _, f := range s.Fields {
		if f.Class != tfType && f.Class != tfScalar && f.Class != tfOther && f.Class != tfName {
			continue
		}
		if f.Class == tfName && s.Twin == nil {
			continue
		}
		if s.Twin == nil {
			f.Derived = true
			f.Why += "; no parser twin struct: analysis result"
			continue
		}
		if tf := travStructField(s.Twin.T, f.Name); tf != nil {
			continue
		}
		// an unmatched twin field of the identical enum type is the counterpart under another name
		matched := false
		if _, basic := types.Unalias(f.Var.Type()).(*types.Basic); !basic {
			for _, tv := range twinFree {
				if types.Identical(tv.Type(), f.Var.Type()) {
					matched = true
					f.Why += "; counterpart of " + s.Twin.Short() + "." + tv.Name() + " (same type)"
				}
			}
		}
		if !matched {
			f.Derived = true
			f.Why += "; no counterpart in parser twin " + s.Twin.Short() + ": analysis result"
		}
	}
}

func travStructField(n *types.Named, name string) *types.Var {
	st, ok := n.Underlying().(*types.Struct)
	if !ok {
		return nil
	}
	for i := 0; i < st.NumFields(); i++ {
		if st.Field(i).Name() == name {
			return st.Field(i)
		}
	}
	return nil
}

func travQual(p *types.Package) string {
	if strings.HasSuffix(p.Path(), "parser/ast") {
		return "pAst"
	}
	return p.Name()
}

// buildTwins pairs analyzed structs with parser structs: (1) an analyzer
// function taking exactly one parser-AST struct (or slice of it) and returning
// an analyzed struct (or slice), (2) equal Kind() constant names, (3) the
// "Analyzed" name prefix.
func (m *travModel) buildTwins(an *packages.Package) {
	set := func(a, p *travStruct, why string) {
		if a == nil || p == nil || a.Twin != nil || p.Twin != nil {
			return
		}
		a.Twin, p.Twin = p, a
		a.TwinWhy, p.TwinWhy = why, why
	}
	elem := func(t types.Type) *types.Named {
		t = types.Unalias(t)
		if s, ok := t.(*types.Slice); ok {
			t = types.Unalias(s.Elem())
		}
		n, _ := t.(*types.Named)
		return n
	}
	// strong partners: equal Kind() constant names, or the Analyzed name prefix. A function
	// signature that contradicts one (a helper extracted from the analysis of P that returns a
	// component of the analyzed node, e.g. thenBranch(IfExpression) AnalyzedBlock) does not pair.
	strong := map[*travStruct]*travStruct{}
	{
		// (sorted order; a kind name claimed by two structs of one family is no evidence)
		pByKind, pByName := map[string]*travStruct{}, map[string]*travStruct{}
		kindClaims := map[string]int{}
		all := m.sortedStructs()
		for _, s := range all {
			if s.Kind != nil {
				fam := "A|"
				if m.inP(s.T) {
					fam = "P|"
				}
				kindClaims[fam+s.Kind.Name()]++
			}
			if m.inP(s.T) {
				pByName[s.Short()] = s
				if s.Kind != nil && pByKind[s.Kind.Name()] == nil {
					pByKind[s.Kind.Name()] = s
				}
			}
		}
		for _, s := range all {
			if !m.inA(s.T) {
				continue
			}
			var p *travStruct
			if s.Kind != nil && kindClaims["A|"+s.Kind.Name()] == 1 && kindClaims["P|"+s.Kind.Name()] == 1 {
				p = pByKind[s.Kind.Name()]
			}
			if p == nil && strings.HasPrefix(s.Short(), "Analyzed") {
				p = pByName[strings.TrimPrefix(s.Short(), "Analyzed")]
			}
			if p != nil {
				strong[s] = p
				if _, dup := strong[p]; !dup {
					strong[p] = s
				}
			}
		}
	}
	var fns []*types.Func
	for fn := range m.decls {
		if fn.Pkg() == an.Types {
			fns = append(fns, fn)
		}
	}
	sort.Slice(fns, func(i, j int) bool { return fns[i].Pos() < fns[j].Pos() })
	for _, fn := range fns {
		sg := fn.Type().(*types.Signature)
		if sg.Results().Len() < 1 {
			continue
		}
		a := m.structs[elem(sg.Results().At(0).Type())]
		if a == nil || !m.inA(a.T) || a.IsSem {
			continue
		}
		var p *travStruct
		cnt := 0
		for i := 0; i < sg.Params().Len(); i++ {
			if s := m.structs[elem(sg.Params().At(i).Type())]; s != nil && m.inP(s.T) {
				p = s
				cnt++
			}
		}
		if cnt == 1 {
			if (strong[a] != nil && strong[a] != p) || (strong[p] != nil && strong[p] != a) {
				continue
			}
			set(a, p, "analyzer."+fn.Name()+" maps "+p.Short()+" to "+a.Short())
		}
	}
	names := m.sortedStructs()
	byKindName := map[string]*travStruct{}
	for _, s := range names {
		if s.Kind != nil && m.inP(s.T) && byKindName[s.Kind.Name()] == nil {
			byKindName[s.Kind.Name()] = s // (two parser structs with one kind: the first by name, deterministically)
		}
	}
	for _, s := range names {
		if m.inA(s.T) && s.Kind != nil && s.Twin == nil {
			set(s, byKindName[s.Kind.Name()], "equal kind constant name "+s.Kind.Name())
		}
	}
	byName := map[string]*travStruct{}
	for _, s := range names {
		if m.inP(s.T) {
			byName[s.Short()] = s
		}
	}
	for _, s := range names {
		if m.inA(s.T) && s.Twin == nil && strings.HasPrefix(s.Short(), "Analyzed") {
			set(s, byName[strings.TrimPrefix(s.Short(), "Analyzed")], "name prefix Analyzed")
		}
	}
}

// sortedStructs returns the node structs in a stable order.
func (m *travModel) sortedStructs() []*travStruct {
	var out []*travStruct
	for _, s := range m.structs {
		out = append(out, s)
	}
	sort.Slice(out, func(i, j int) bool { return out[i].Name() < out[j].Name() })
	return out
}

// callable: a node with a parameter list and a body block (function literal,
// function definition): its body is a new control/static context.
func (m *travModel) isCallable(s *travStruct) (bodyFields []string, ok bool) {
	hasParams := false
	for _, f := range s.Fields {
		if f.Class == tfChild {
			continue
		}
		for _, cs := range m.carrierStructs(f.Var.Type()) {
			if m.isParamDecl(cs) {
				hasParams = true
			}
			for _, g := range cs.Fields { // AnalyzedFunctionParams{List []AnalyzedFnParam}
				for _, cs2 := range m.carrierStructs(g.Var.Type()) {
					if m.isParamDecl(cs2) {
						hasParams = true
					}
				}
			}
		}
	}
	if !hasParams {
		return nil, false
	}
	for _, f := range s.Fields {
		if f.Class == tfChild && m.isBlockType(f.Var.Type()) {
			bodyFields = append(bodyFields, f.Name)
		}
	}
	return bodyFields, len(bodyFields) > 0
}

// a parameter declaration: a struct pairing a name with a type and holding no code.
func (m *travModel) isParamDecl(s *travStruct) bool {
	n, t := false, false
	for _, f := range s.Fields {
		switch f.Class {
		case tfChild:
			return false
		case tfName:
			n = true
		case tfType:
			t = true
		}
	}
	return n && t && s.Kind == nil
}

// a block: an unkinded struct holding a statement list and an optional
// trailing expression (both code interfaces).
func (m *travModel) isBlockType(t types.Type) bool {
	n := travNamed(t)
	s := m.structs[n]
	if s == nil || s.Kind != nil {
		return false
	}
	list, single := false, false
	for _, f := range s.Fields {
		ft := types.Unalias(f.Var.Type())
		if sl, ok := ft.(*types.Slice); ok {
			if e := travNamed(sl.Elem()); e != nil && m.codeIfc[e] {
				list = true
			}
		} else if e, ok := ft.(*types.Named); ok && m.codeIfc[e] {
			single = true
		}
	}
	return list && single
}

func travPos(c *Ctx, p token.Pos) string { return c.Pos(p) }
