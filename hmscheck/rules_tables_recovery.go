package main

import (
	"fmt"
	"go/ast"
	"go/token"
	"go/types"
	"sort"
	"strings"

	"golang.org/x/tools/go/packages"
)

// Error-recovery placeholders (used by R-enum-total).
//
// A node type of analyzer/ast is a "recovery placeholder" when every place
// that builds it lies in a straight-line region of the analyzer in which an
// error diagnostic is unconditionally reported: then a program whose analysis
// produced no error diagnostic contains no such node, and the stages that run
// only on successfully analysed programs never meet its kind.
//
// Everything is resolved by role:
//   - the diagnostic struct and its level field: the element type of the
//     diagnostics slice Analyzer.Analyze returns, and its enum-typed field;
//   - the error level: the constant the level field is compared with in
//     Analyze (or in a helper it calls) to decide that analysis failed;
//   - an error report: a statement that appends a diagnostic whose level is
//     the error level to a diagnostics-slice field, or calls a function that
//     does so on every normal completion (transitively, the level possibly
//     passed down as an argument).

// tblRep: what a statement / call / function has established when it completes
// normally: an error diagnostic was appended (err), or a diagnostic whose level
// is the lvl-th parameter of the enclosing function, or the diag-th parameter
// (itself a diagnostic) was appended.
type tblRep struct {
	err       bool
	lvl, diag int
}

var tblNoRep = tblRep{lvl: -1, diag: -1}

func (r tblRep) any() bool { return r.err || r.lvl >= 0 || r.diag >= 0 }

type tblRecovery struct {
	m          *tblModel
	ap         *packages.Package
	diag       *types.Named // diagnostic.Diagnostic
	levelField *types.Var
	errLevel   *types.Const
	sums       map[*types.Func]*tblRep
	busy       map[*types.Func]bool
}

// tblDiagOf: the diagnostic struct (a named struct with an enum-typed field,
// element of a slice among Analyze's results) and that field.
func (m *tblModel) tblDiagOf(analyze *types.Func) (*types.Named, *types.Var) {
	sig := analyze.Type().(*types.Signature)
	for i := 0; i < sig.Results().Len(); i++ {
		sl, ok := types.Unalias(sig.Results().At(i).Type()).Underlying().(*types.Slice)
		if !ok {
			continue
		}
		nt, ok := types.Unalias(sl.Elem()).(*types.Named)
		if !ok {
			continue
		}
		st, ok := nt.Underlying().(*types.Struct)
		if !ok {
			continue
		}
		for j := 0; j < st.NumFields(); j++ {
			if en := m.enumOf(st.Field(j).Type()); en != nil && en.Type.Obj().Pkg() == nt.Obj().Pkg() {
				return nt, st.Field(j)
			}
		}
	}
	return nil, nil
}

// selectsField: e is a selection of field fv.
func tblSelectsField(info *types.Info, e ast.Expr, fv *types.Var) bool {
	se, ok := ast.Unparen(e).(*ast.SelectorExpr)
	if !ok {
		return false
	}
	sel := info.Selections[se]
	return sel != nil && sel.Kind() == types.FieldVal && sel.Obj() == types.Object(fv)
}

// findErrLevel: the constant(s) the level field is tested against in fn and in
// the module functions it calls statically (two levels).
func (rc *tblRecovery) findErrLevel(start *tblFn) *types.Const {
	found := map[*types.Const]bool{}
	seen := map[*tblFn]bool{}
	var visit func(f *tblFn, depth int)
	visit = func(f *tblFn, depth int) {
		if f == nil || seen[f] {
			return
		}
		seen[f] = true
		info := f.Pkg.TypesInfo
		ast.Inspect(f.Decl.Body, func(n ast.Node) bool {
			switch x := n.(type) {
			case *ast.BinaryExpr:
				if x.Op != token.EQL && x.Op != token.NEQ {
					return true
				}
				for _, pr := range [][2]ast.Expr{{x.X, x.Y}, {x.Y, x.X}} {
					if tblSelectsField(info, pr[0], rc.levelField) {
						if k := ConstOf(info, ast.Unparen(pr[1])); k != nil {
							found[k] = true
						}
					}
				}
			case *ast.SwitchStmt:
				if x.Tag != nil && tblSelectsField(info, x.Tag, rc.levelField) {
					// the clause that is not empty decides; with several constants the anchor is ambiguous
					for _, cl := range x.Body.List {
						cc := cl.(*ast.CaseClause)
						if len(cc.Body) == 0 {
							continue
						}
						for _, e := range cc.List {
							if k := ConstOf(info, ast.Unparen(e)); k != nil {
								found[k] = true
							}
						}
					}
				}
			case *ast.CallExpr:
				if depth < 2 {
					if fn := CalleeOf(info, x); fn != nil {
						visit(rc.m.fns[fn.Origin()], depth+1)
					}
				}
			}
			return true
		})
	}
	visit(start, 0)
	if len(found) != 1 {
		return nil
	}
	for k := range found {
		return k
	}
	return nil
}

// levelOf: the level a diagnostic-valued expression carries.
func (rc *tblRecovery) levelOf(f *tblFn, e ast.Expr, depth int) tblRep {
	info := f.Pkg.TypesInfo
	e = ast.Unparen(e)
	if depth > 3 {
		return tblNoRep
	}
	switch x := e.(type) {
	case *ast.CompositeLit:
		nt, ok := types.Unalias(info.TypeOf(x)).(*types.Named)
		if !ok || nt.Obj() != rc.diag.Obj() {
			return tblNoRep
		}
		st := nt.Underlying().(*types.Struct)
		var val ast.Expr
		for i, el := range x.Elts {
			if kv, ok := el.(*ast.KeyValueExpr); ok {
				if id, ok := kv.Key.(*ast.Ident); ok && id.Name == rc.levelField.Name() {
					val = kv.Value
				}
			} else if i < st.NumFields() && st.Field(i) == rc.levelField {
				val = el
			}
		}
		if val == nil {
			return tblNoRep
		}
		return rc.levelValue(f, val)
	case *ast.Ident:
		obj := info.Uses[x]
		if obj == nil {
			return tblNoRep
		}
		g := rc.m.guardFor(f)
		if g.written[obj] > 0 {
			return tblNoRep
		}
		// a parameter that is a diagnostic
		if idx, isParam := tblParamIndex(f, obj); isParam {
			if nt, ok := types.Unalias(obj.Type()).(*types.Named); ok && idx >= 0 && nt.Obj() == rc.diag.Obj() {
				return tblRep{lvl: -1, diag: idx}
			}
			return tblNoRep
		}
		// a local bound once to a diagnostic literal and never written afterwards
		var init ast.Expr
		defs := 0
		ast.Inspect(f.Decl.Body, func(n ast.Node) bool {
			switch y := n.(type) {
			case *ast.AssignStmt:
				for i, l := range y.Lhs {
					if id, ok := ast.Unparen(l).(*ast.Ident); ok && info.Defs[id] == obj {
						defs++
						if len(y.Lhs) == len(y.Rhs) {
							init = y.Rhs[i]
						}
					}
				}
			case *ast.ValueSpec:
				for i, nm := range y.Names {
					if info.Defs[nm] == obj {
						defs++
						if i < len(y.Values) {
							init = y.Values[i]
						}
					}
				}
			}
			return true
		})
		if defs != 1 || init == nil {
			return tblNoRep
		}
		return rc.levelOf(f, init, depth+1)
	case *ast.CallExpr:
		// a conversion, or a constructor of diagnostics: every return of the callee yields a diagnostic
		// of the error level / of the level (or the diagnostic) it got as a parameter
		if tv, ok := info.Types[x.Fun]; ok && tv.IsType() && len(x.Args) == 1 {
			return rc.levelOf(f, x.Args[0], depth+1)
		}
		fn := CalleeOf(info, x)
		if fn == nil || x.Ellipsis.IsValid() {
			return tblNoRep
		}
		cf := rc.m.fns[fn.Origin()]
		if cf == nil || cf == f || rc.busy[cf.Obj] {
			return tblNoRep
		}
		if sig := cf.Obj.Type().(*types.Signature); sig.Results().Len() != 1 {
			return tblNoRep
		}
		rc.busy[cf.Obj] = true
		var res *tblRep
		consistent := true
		ast.Inspect(cf.Decl.Body, func(n ast.Node) bool {
			switch y := n.(type) {
			case *ast.FuncLit:
				return false
			case *ast.ReturnStmt:
				if len(y.Results) != 1 {
					consistent = false
					return true
				}
				r := rc.levelOf(cf, y.Results[0], depth+1)
				if res == nil {
					res = &r
				} else if *res != r {
					consistent = false
				}
			}
			return true
		})
		delete(rc.busy, cf.Obj)
		if !consistent || res == nil || !res.any() {
			return tblNoRep
		}
		switch {
		case res.err:
			return *res
		case res.lvl >= 0 && res.lvl < len(x.Args):
			return rc.levelValue(f, x.Args[res.lvl])
		case res.diag >= 0 && res.diag < len(x.Args):
			return rc.levelOf(f, x.Args[res.diag], depth+1)
		}
	}
	return tblNoRep
}

// levelValue: a level-typed expression: the error constant, or a parameter.
func (rc *tblRecovery) levelValue(f *tblFn, val ast.Expr) tblRep {
	info := f.Pkg.TypesInfo
	val = ast.Unparen(val)
	if tv, ok := info.Types[val]; ok && tv.Value != nil {
		if types.Identical(tv.Type, rc.errLevel.Type()) && tv.Value.ExactString() == rc.errLevel.Val().ExactString() {
			return tblRep{err: true, lvl: -1, diag: -1}
		}
		return tblNoRep
	}
	if id, ok := val.(*ast.Ident); ok {
		if idx, isParam := tblParamIndex(f, info.Uses[id]); isParam && idx >= 0 && rc.m.guardFor(f).written[info.Uses[id]] == 0 {
			return tblRep{lvl: idx, diag: -1}
		}
	}
	return tblNoRep
}

// isDiagList: e is a struct field holding a slice of diagnostics.
func (rc *tblRecovery) isDiagList(info *types.Info, e ast.Expr) bool {
	sl, ok := types.Unalias(info.TypeOf(e)).Underlying().(*types.Slice)
	if !ok {
		return false
	}
	nt, ok := types.Unalias(sl.Elem()).(*types.Named)
	if !ok || nt.Obj() != rc.diag.Obj() {
		return false
	}
	se, ok := ast.Unparen(e).(*ast.SelectorExpr)
	if !ok {
		return false
	}
	sel := info.Selections[se]
	return sel != nil && sel.Kind() == types.FieldVal
}

// callReports: what a call establishes when it returns, over f's parameters.
func (rc *tblRecovery) callReports(f *tblFn, call *ast.CallExpr) tblRep {
	info := f.Pkg.TypesInfo
	fn := CalleeOf(info, call)
	if fn == nil {
		return tblNoRep
	}
	cf := rc.m.fns[fn.Origin()]
	if cf == nil {
		return tblNoRep
	}
	s := rc.summary(cf)
	switch {
	case s.err:
		return tblRep{err: true, lvl: -1, diag: -1}
	case call.Ellipsis.IsValid():
		return tblNoRep
	case s.lvl >= 0 && s.lvl < len(call.Args):
		return rc.levelValue(f, call.Args[s.lvl])
	case s.diag >= 0 && s.diag < len(call.Args):
		return rc.levelOf(f, call.Args[s.diag], 0)
	}
	return tblNoRep
}

// stmtReports: what the statement has established when it completes normally.
func (rc *tblRecovery) stmtReports(f *tblFn, s ast.Stmt) tblRep {
	info := f.Pkg.TypesInfo
	switch x := s.(type) {
	case *ast.ExprStmt:
		if call, ok := ast.Unparen(x.X).(*ast.CallExpr); ok {
			return rc.callReports(f, call)
		}
	case *ast.DeferStmt:
		// runs before the function returns to anybody
		return rc.callReports(f, x.Call)
	case *ast.BlockStmt:
		for _, st := range x.List {
			if r := rc.stmtReports(f, st); r.any() {
				return r
			}
			if tblHasExit(st) {
				break
			}
		}
	case *ast.AssignStmt:
		if len(x.Lhs) != 1 || len(x.Rhs) != 1 {
			return tblNoRep
		}
		call, ok := ast.Unparen(x.Rhs[0]).(*ast.CallExpr)
		if !ok {
			return tblNoRep
		}
		if id, ok := ast.Unparen(call.Fun).(*ast.Ident); ok {
			if b, isB := info.Uses[id].(*types.Builtin); isB && b.Name() == "append" {
				if len(call.Args) < 2 || call.Ellipsis.IsValid() {
					return tblNoRep
				}
				if !rc.isDiagList(info, x.Lhs[0]) || exprStr(ast.Unparen(x.Lhs[0])) != exprStr(ast.Unparen(call.Args[0])) {
					return tblNoRep
				}
				for _, a := range call.Args[1:] {
					if r := rc.levelOf(f, a, 0); r.any() {
						return r
					}
				}
				return tblNoRep
			}
		}
		// `_ = self.report(…)`: a called reporter with a result
		return rc.callReports(f, call)
	}
	return tblNoRep
}

// tblHasExit: the statement contains a way to leave the enclosing statement
// list early (return / break / continue / goto / panic).
func tblHasExit(s ast.Stmt) bool {
	exit := false
	ast.Inspect(s, func(n ast.Node) bool {
		switch x := n.(type) {
		case *ast.FuncLit:
			return false
		case *ast.ReturnStmt, *ast.BranchStmt:
			exit = true
		case *ast.CallExpr:
			if id, ok := ast.Unparen(x.Fun).(*ast.Ident); ok && id.Name == "panic" {
				exit = true
			}
		}
		return true
	})
	return exit
}

// summary of a module function: what has been reported on every normal return.
func (rc *tblRecovery) summary(f *tblFn) *tblRep {
	if s := rc.sums[f.Obj]; s != nil {
		return s
	}
	s := tblNoRep
	if rc.busy[f.Obj] || len(rc.busy) > 6 {
		return &s
	}
	rc.busy[f.Obj] = true
	defer delete(rc.busy, f.Obj)
	for _, st := range f.Decl.Body.List {
		if r := rc.stmtReports(f, st); r.any() {
			s = r
			break
		}
		// a statement that can leave the function makes everything below it conditional
		if tblHasExit(st) {
			break
		}
	}
	rc.sums[f.Obj] = &s
	return &s
}

// dominated: whenever `node` (inside f) is evaluated, an error diagnostic is
// reported by the same activation of f: an earlier sibling statement of an
// enclosing statement list reports one (it completed before node is reached),
// or a later statement of the innermost list does and nothing in between can
// leave the list.
func (rc *tblRecovery) dominated(f *tblFn, node ast.Node) bool {
	g := rc.m.guardFor(f)
	innermost := true
	for ch, pa := node, g.parents[node]; pa != nil; ch, pa = pa, g.parents[pa] {
		var list []ast.Stmt
		switch x := pa.(type) {
		case *ast.BlockStmt:
			list = x.List
		case *ast.CaseClause:
			list = x.Body
		case *ast.CommClause:
			list = x.Body
		case *ast.FuncLit:
			return false
		}
		if list == nil {
			continue
		}
		at := -1
		for i, s := range list {
			if ast.Node(s) == ch {
				at = i
				break
			}
			if rc.stmtReports(f, s).err {
				return true
			}
		}
		if innermost && at >= 0 && !tblHasExit(list[at]) {
			for _, s := range list[at+1:] {
				if rc.stmtReports(f, s).err {
					return true
				}
				if tblHasExit(s) {
					break
				}
			}
		}
		innermost = false
	}
	return false
}

// siteOK: the construction site is covered, directly or because the enclosing
// function is a constructor helper whose every call is covered.
func (rc *tblRecovery) siteOK(f *tblFn, node ast.Node, depth int) bool {
	if f == nil || f.Pkg != rc.ap {
		return false
	}
	if rc.dominated(f, node) {
		return true
	}
	if depth >= 3 {
		return false
	}
	if closed, _ := rc.m.reach().isClosed(f.Obj); !closed {
		return false
	}
	uses := rc.m.uses[f.Obj]
	if len(uses) == 0 {
		return false
	}
	for _, u := range uses {
		if u.Call == nil || u.In == nil || u.In == f {
			return false
		}
		if !rc.siteOK(u.In, u.Call, depth+1) {
			return false
		}
	}
	return true
}

func (m *tblModel) computeRecoveryOnly() map[*types.TypeName]string {
	out := map[*types.TypeName]string{}
	c := m.c
	ap := c.Pkg("homescript/analyzer")
	analyze := m.fnByDecl[FuncDecl(ap, "Analyzer", "Analyze")]
	if analyze == nil {
		return out
	}
	rc := &tblRecovery{m: m, ap: ap, sums: map[*types.Func]*tblRep{}, busy: map[*types.Func]bool{}}
	rc.diag, rc.levelField = m.tblDiagOf(analyze.Obj)
	if rc.diag == nil {
		return out
	}
	rc.errLevel = rc.findErrLevel(analyze)
	if rc.errLevel == nil {
		return out
	}
	type site struct {
		ok  bool
		pos token.Pos
	}
	sites := map[*types.TypeName][]site{}
	nodeTypes := map[*types.TypeName]bool{}
	for _, ki := range m.ifaces {
		if strings.HasSuffix(ki.Named.Obj().Pkg().Path(), "/analyzer/ast") {
			for _, im := range ki.Impls {
				nodeTypes[im.T.Obj()] = true
			}
		}
	}
	note := func(p *packages.Package, f *tblFn, n ast.Node, t types.Type) {
		t = types.Unalias(t)
		if pt, ok := t.(*types.Pointer); ok {
			t = types.Unalias(pt.Elem())
		}
		nt, ok := t.(*types.Named)
		if !ok || !nodeTypes[nt.Obj()] {
			return
		}
		sites[nt.Obj()] = append(sites[nt.Obj()], site{f != nil && rc.siteOK(f, n, 0), n.Pos()})
	}
	for _, p := range c.All {
		for _, fd := range AllFuncDecls(p) {
			f := m.fnByDecl[fd]
			ast.Inspect(fd.Body, func(n ast.Node) bool {
				switch x := n.(type) {
				case *ast.CompositeLit:
					note(p, f, x, p.TypesInfo.TypeOf(x))
				case *ast.CallExpr:
					// new(T) builds a zero node
					if id, ok := ast.Unparen(x.Fun).(*ast.Ident); ok && len(x.Args) == 1 {
						if b, isB := p.TypesInfo.Uses[id].(*types.Builtin); isB && b.Name() == "new" {
							note(p, f, x, p.TypesInfo.TypeOf(x.Args[0]))
						}
					}
				case *ast.ValueSpec:
					// `var x T` builds a zero node
					if x.Type != nil && len(x.Values) == 0 {
						note(p, f, x, p.TypesInfo.TypeOf(x.Type))
					}
				}
				return true
			})
		}
		// package-level variables of a node type
		for _, file := range p.Syntax {
			for _, d := range file.Decls {
				gd, ok := d.(*ast.GenDecl)
				if !ok || gd.Tok != token.VAR {
					continue
				}
				ast.Inspect(gd, func(n ast.Node) bool {
					switch x := n.(type) {
					case *ast.FuncLit:
						return false
					case *ast.CompositeLit:
						note(p, nil, x, p.TypesInfo.TypeOf(x))
					case *ast.ValueSpec:
						if x.Type != nil && len(x.Values) == 0 {
							note(p, nil, x, p.TypesInfo.TypeOf(x.Type))
						}
					}
					return true
				})
			}
		}
	}
	for tn, ss := range sites {
		all := len(ss) > 0
		var where []string
		for _, s := range ss {
			all = all && s.ok
			where = append(where, c.Pos(s.pos))
		}
		if all {
			sort.Strings(where)
			out[tn] = fmt.Sprintf("every construction of %s (%s) is accompanied by an error report of the analyzer (level %s)", tn.Name(), strings.Join(where, ", "), rc.errLevel.Name())
		}
	}
	return out
}
