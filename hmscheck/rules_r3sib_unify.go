package main

import (
	"fmt"
	"go/ast"
	"go/token"
	"go/types"
	"sort"
	"strings"
)

// R-unify-seed: the accumulator that unifies the types of a list of alternatives is (re)seeded under
// a test of its own state, never under a test of the position.

func init() {
	register(&Rule{ID: "R-unify-seed", Floor: 1, Run: ruleR3UnifySeed,
		Doc: "the analyzer constructs that unify the types of a list of alternatives in a loop (match arms, list-literal elements — siblings of the two-branch constructs if/else and try/catch) keep a *unification accumulator*: a local of the analyzer's Type interface that lives across the iterations, is an operand of a TypeCheck call inside the loop and is assigned inside the loop from a term of the current alternative (the seed). Sibling agreement, as the code stands today in every member: the seed is guarded by a test of the accumulator's own STATE (it still holds its placeholder kind unknown/never/any, or a loop-carried flag says no type was fixed yet), so that candidates that fix no type (never: the alternative diverges; unknown: it had an error) are skipped and every later alternative is checked against the first real type. A seed guarded only by the POSITION of the alternative (`idx == 0`, a counter, a length) or not guarded at all freezes whatever the first alternative happened to have: if it diverges the result stays `never`, TypeCheck against never always succeeds, the remaining alternatives are not unified and follow-up checks against the result (missing default branch) cannot fire — ill-typed programs are accepted (C03), and the engines' unchecked value assertions then fail (C02)."})
}

func ruleR3UnifySeed(c *Ctx) []Obligation {
	e := r2sibEngineOf(c)
	p := c.Pkg("homescript/analyzer")
	info := p.TypesInfo
	var out []Obligation
	isTypeIface := func(t types.Type) bool {
		n, ok := types.Unalias(t).(*types.Named)
		return ok && n.Obj().Name() == "Type" && n.Obj().Pkg() != nil && strings.HasSuffix(n.Obj().Pkg().Path(), "/analyzer/ast")
	}
	for _, fd := range AllFuncDecls(p) {
		f := r2sibFuncOf(c, p, fd)
		// parents
		parent := map[ast.Node]ast.Node{}
		var stack []ast.Node
		ast.Inspect(fd.Body, func(n ast.Node) bool {
			if n == nil {
				stack = stack[:len(stack)-1]
				return true
			}
			if len(stack) > 0 {
				parent[n] = stack[len(stack)-1]
			}
			stack = append(stack, n)
			return true
		})
		ast.Inspect(fd.Body, func(n ast.Node) bool {
			loop, ok := n.(*ast.RangeStmt)
			if !ok {
				return true
			}
			loopVars := r2sibLoopVars(info, loop)
			if len(loopVars) == 0 {
				return true
			}
			elemVars := map[types.Object]bool{}
			posVars := map[types.Object]bool{}
			if id, ok := loop.Key.(*ast.Ident); ok && id.Name != "_" {
				if o := f.objOf(id); o != nil {
					posVars[o] = true
				}
			}
			if id, ok := loop.Value.(*ast.Ident); ok && id.Name != "_" {
				if o := f.objOf(id); o != nil {
					elemVars[o] = true
				}
			}
			r2sibDerived(f, loop.Body, elemVars)
			inLoop := func(o types.Object) bool { return loop.Pos() <= o.Pos() && o.Pos() < loop.End() }
			// accumulators: Type-valued locals declared before the loop that are TypeCheck operands inside it
			accs := map[types.Object]bool{}
			ast.Inspect(loop.Body, func(m ast.Node) bool {
				if _, ok := m.(*ast.RangeStmt); ok && m != ast.Node(loop) {
					return false // nested loops have their own accumulators
				}
				call, ok := m.(*ast.CallExpr)
				if !ok || CalleeOf(info, call) != e.roles.typeCheck {
					return true
				}
				for _, a := range call.Args[:2] {
					ast.Inspect(a, func(x ast.Node) bool {
						if id, ok := x.(*ast.Ident); ok {
							if v, ok := info.Uses[id].(*types.Var); ok && !v.IsField() && isTypeIface(v.Type()) && !inLoop(v) {
								if _, isParam := f.params[v]; !isParam {
									accs[v] = true
								}
							}
						}
						return true
					})
				}
				return true
			})
			var accList []types.Object
			for o := range accs {
				accList = append(accList, o)
			}
			sort.Slice(accList, func(i, j int) bool { return accList[i].Pos() < accList[j].Pos() })
			for _, acc := range accList {
				// seeds: assignments acc = <term of the current alternative> inside the loop
				var seeds []*ast.AssignStmt
				ast.Inspect(loop.Body, func(m ast.Node) bool {
					as, ok := m.(*ast.AssignStmt)
					if !ok || as.Tok != token.ASSIGN || len(as.Lhs) != len(as.Rhs) {
						return true
					}
					for i, l := range as.Lhs {
						if id, ok := ast.Unparen(l).(*ast.Ident); ok && info.Uses[id] == acc && r2sibMentions(info, as.Rhs[i], elemVars) {
							seeds = append(seeds, as)
						}
					}
					return true
				})
				key := fmt.Sprintf("homescript/analyzer.%s|loop over %s|accumulator %s", FuncName(fd), f.pretty(f.norm(loop.X)), acc.Name())
				if len(seeds) == 0 {
					out = append(out, Obligation{Key: key, Pos: c.Pos(loop.Pos()), Status: Info, Detail: "checked against in the loop but never seeded from an alternative inside it"})
					continue
				}
				ob := Obligation{Key: key, Pos: c.Pos(seeds[0].Pos()), Nontrivial: true}
				var problems, oks []string
				for _, seed := range seeds {
					// guards: enclosing conditions up to the loop body, and earlier `if c { continue / break / return }` siblings
					var conds []ast.Expr
					var cur ast.Node = seed
					for cur != nil && cur != ast.Node(loop.Body) {
						pn := parent[cur]
						switch x := pn.(type) {
						case *ast.IfStmt:
							if x.Body == cur || x.Else == cur {
								conds = append(conds, x.Cond)
								if x.Init != nil {
									if as, ok := x.Init.(*ast.AssignStmt); ok {
										conds = append(conds, as.Rhs...)
									}
								}
							}
						case *ast.CaseClause:
							conds = append(conds, x.List...)
							if sw, ok := parent[parent[pn]].(*ast.SwitchStmt); ok && sw.Tag != nil {
								conds = append(conds, sw.Tag)
							}
						case *ast.BlockStmt:
							for _, st := range x.List {
								if st.Pos() >= cur.Pos() {
									break
								}
								if ifs, ok := st.(*ast.IfStmt); ok && len(ifs.Body.List) > 0 {
									switch l := ifs.Body.List[len(ifs.Body.List)-1].(type) {
									case *ast.BranchStmt:
										if l.Tok == token.CONTINUE || l.Tok == token.BREAK {
											conds = append(conds, ifs.Cond)
										}
									case *ast.ReturnStmt:
										conds = append(conds, ifs.Cond)
									}
								}
							}
						}
						cur = pn
					}
					// state variables: the accumulator, locals that live across the iterations and are updated, and
					// locals of the iteration computed from those (placeholder := acc.Kind() == …)
					stateVars := map[types.Object]bool{acc: true}
					for o, ds := range f.defs {
						v, ok := o.(*types.Var)
						if !ok || v.IsField() || inLoop(v) || elemVars[v] || posVars[v] || f.isCounter(v) || len(ds) < 2 {
							continue
						}
						if _, isParam := f.params[v]; isParam {
							continue
						}
						updatedInLoop := false
						for _, d := range ds {
							if loop.Body.Pos() <= d.pos && d.pos < loop.Body.End() {
								updatedInLoop = true
							}
						}
						if updatedInLoop {
							stateVars[v] = true
						}
					}
					for changed := true; changed; {
						changed = false
						ast.Inspect(loop.Body, func(x ast.Node) bool {
							as, ok := x.(*ast.AssignStmt)
							if !ok {
								return true
							}
							for i, l := range as.Lhs {
								id, ok := l.(*ast.Ident)
								if !ok {
									continue
								}
								o := f.objOf(id)
								if o == nil || stateVars[o] || !inLoop(o) || elemVars[o] {
									continue
								}
								dep := i < len(as.Rhs) && r2sibMentions(info, as.Rhs[i], stateVars)
								// assigned under a condition / switch over a state variable
								for n := parent[ast.Node(as)]; n != nil && n != ast.Node(loop.Body) && !dep; n = parent[n] {
									switch y := n.(type) {
									case *ast.IfStmt:
										dep = r2sibMentions(info, y.Cond, stateVars)
									case *ast.SwitchStmt:
										dep = y.Tag != nil && r2sibMentions(info, y.Tag, stateVars)
									}
								}
								if dep {
									stateVars[o] = true
									changed = true
								}
							}
							return true
						})
					}
					// the nearest guard that tests either the state or the position decides
					state, pos := false, false
					var stateNames, posNames []string
					for _, cd := range conds {
						cs, cp := false, false
						var sn, pn []string
						ast.Inspect(cd, func(x ast.Node) bool {
							id, ok := x.(*ast.Ident)
							if !ok {
								return true
							}
							v, ok := info.Uses[id].(*types.Var)
							if !ok || v.IsField() {
								return true
							}
							switch {
							case posVars[v] || f.isCounter(v):
								cp = true
								pn = append(pn, v.Name())
							case stateVars[v]:
								cs = true
								sn = append(sn, v.Name())
							}
							return true
						})
						// a length is a position in disguise (how many alternatives were kept so far)
						if strings.Contains(exprStr(cd), "len(") {
							cp, cs = true, false
							pn = append(pn, exprStr(cd))
						}
						if cs {
							state = true
							stateNames = sn
							break
						}
						if cp {
							pos = true
							posNames = pn
							break
						}
					}
					where := c.Pos(seed.Pos())
					switch {
					case state:
						oks = append(oks, fmt.Sprintf("%s (%s) under a test of %s", exprStr(seed.Lhs[0])+" = "+exprStr(seed.Rhs[0]), where, strings.Join(r3usUniq(stateNames), ", ")))
					case pos:
						problems = append(problems, fmt.Sprintf("`%s = %s` (%s) is guarded only by the position of the alternative (%s): a first alternative of type never/unknown freezes the result, the later alternatives are then checked against never (always compatible) and are not unified with each other", exprStr(seed.Lhs[0]), exprStr(seed.Rhs[0]), where, strings.Join(r3usUniq(posNames), ", ")))
					default:
						problems = append(problems, fmt.Sprintf("`%s = %s` (%s) is not guarded by any test of the accumulator's state: every alternative overwrites the type the earlier ones were checked against", exprStr(seed.Lhs[0]), exprStr(seed.Rhs[0]), where))
					}
				}
				if len(problems) > 0 {
					ob.Status = Violated
					ob.Detail = strings.Join(problems, "; ")
				} else {
					ob.Detail = "seeded " + strings.Join(oks, "; ")
				}
				out = append(out, ob)
			}
			return true
		})
	}
	return out
}

func r3usUniq(xs []string) []string {
	seen := map[string]bool{}
	var out []string
	for _, x := range xs {
		if !seen[x] {
			seen[x] = true
			out = append(out, x)
		}
	}
	sort.Strings(out)
	return out
}
