package main

import (
	"fmt"
	"go/ast"
	"go/token"
	"go/types"
	"sort"
	"strings"
)

// R-unify-seed: the accumulator that unifies the types of a list of alternatives is (re)seeded under
// a test of its own state, never under a test of the position.

func init() {
	register(&Rule{ID: "R-unify-seed", Floor: 6, Run: ruleR3UnifySeed,
		Doc: "the analyzer constructs that unify the types of a list of alternatives in a loop (match arms, list-literal elements — siblings of the two-branch constructs if/else and try/catch) keep a *unification accumulator*: a local of the analyzer's Type interface that lives across the iterations, is an operand of a TypeCheck call inside the loop and is assigned inside the loop from a term of the current alternative (the seed). Sibling agreement, as the code stands today in every member: the seed is guarded by a test of the accumulator's own STATE (it still holds its placeholder kind unknown/never/any, or a loop-carried flag says no type was fixed yet), so that candidates that fix no type (never: the alternative diverges; unknown: it had an error) are skipped and every later alternative is checked against the first real type. A seed guarded only by the POSITION of the alternative (`idx == 0`, a counter, a length) or not guarded at all freezes whatever the first alternative happened to have: if it diverges the result stays `never`, TypeCheck against never always succeeds, the remaining alternatives are not unified and follow-up checks against the result (missing default branch) cannot fire — ill-typed programs are accepted (C03), and the engines' unchecked value assertions then fail (C02). The TypeCheck may sit in a helper the accumulator is handed to; when check and seed of one iteration are moved together into a helper that receives the accumulator by pointer, that helper's body is the iteration and the pointer parameter the accumulator. Coverage of the states: TypeCheck accepts every candidate at once when the expected type is any, unknown or never (extracted from its head switch). A seed must be reachable (guards evaluated with `acc.Kind()` fixed, other conditions free; if / else, early continue, switch on the kind, a predicate helper and a named condition are followed) (a) while the accumulator still holds the kind it was initialised with — otherwise no alternative ever fixes the type — and (b) while it holds never: never is the one of these kinds no value has (unknown marks a reported error, any is the top type), so an accumulator left at never lets all later alternatives pass unchecked and types the whole construct as not completing although other alternatives complete (the compiler then emits a stray Drop behind a statement-level match: C11; a heterogeneous list literal behind a diverging first element is accepted: C03). The two-branch siblings (if/else, try/catch: a TypeCheck between the result types of two analysed blocks of the node) must compare the kind of EACH branch result with never somewhere in the function."})
}

func ruleR3UnifySeed(c *Ctx) []Obligation {
	e := r2sibEngineOf(c)
	p := c.Pkg("homescript/analyzer")
	info := p.TypesInfo
	var out []Obligation
	typeIface := func(t types.Type) (isType, viaPtr bool) {
		if pt, ok := t.(*types.Pointer); ok {
			t, viaPtr = pt.Elem(), true
		}
		n, ok := types.Unalias(t).(*types.Named)
		return ok && n.Obj().Name() == "Type" && n.Obj().Pkg() != nil && strings.HasSuffix(n.Obj().Pkg().Path(), "/analyzer/ast"), viaPtr
	}
	// functions that use a parameter as a TypeCheck operand (directly or by handing it on): fn → parameter indices
	checks := map[*types.Func]map[int]bool{}
	decls := map[*types.Func]*ast.FuncDecl{}
	for _, fd := range AllFuncDecls(p) {
		if fn, ok := info.Defs[fd.Name].(*types.Func); ok {
			decls[fn] = fd
		}
	}
	operandIdents := func(call *ast.CallExpr, visit func(v *types.Var)) {
		callee := CalleeOf(info, call)
		var args []ast.Expr
		switch {
		case callee == e.roles.typeCheck && len(call.Args) >= 2:
			args = call.Args[:2]
		case callee != nil && checks[callee] != nil:
			for i, a := range call.Args {
				if checks[callee][i] {
					args = append(args, a)
				}
			}
		}
		for _, a := range args {
			ast.Inspect(a, func(x ast.Node) bool {
				if id, ok := x.(*ast.Ident); ok {
					if v, ok := info.Uses[id].(*types.Var); ok && !v.IsField() {
						visit(v)
					}
				}
				return true
			})
		}
	}
	for changed := true; changed; {
		changed = false
		for fn, fd := range decls {
			f := r2sibFuncOf(c, p, fd)
			ast.Inspect(fd.Body, func(n ast.Node) bool {
				if call, ok := n.(*ast.CallExpr); ok {
					operandIdents(call, func(v *types.Var) {
						if i, isParam := f.params[v]; isParam {
							if ok, _ := typeIface(v.Type()); ok && !checks[fn][i] {
								if checks[fn] == nil {
									checks[fn] = map[int]bool{}
								}
								checks[fn][i] = true
								changed = true
							}
						}
					})
				}
				return true
			})
		}
	}

	var fds []*ast.FuncDecl
	for _, fd := range AllFuncDecls(p) {
		fds = append(fds, fd)
	}
	for _, fd := range fds {
		f := r2sibFuncOf(c, p, fd)
		parent := map[ast.Node]ast.Node{}
		var stack []ast.Node
		ast.Inspect(fd.Body, func(n ast.Node) bool {
			if n == nil {
				stack = stack[:len(stack)-1]
				return true
			}
			if len(stack) > 0 {
				parent[n] = stack[len(stack)-1]
			}
			stack = append(stack, n)
			return true
		})
		// one unification site: a scope (loop body / helper body), its accumulator, the variables of the current
		// alternative and the variables that encode its position
		site := func(scope *ast.BlockStmt, key string, posNode ast.Node, acc types.Object, elemVars, posVars map[types.Object]bool, declFds []*ast.FuncDecl, declAccs []types.Object) {
			inScope := func(o types.Object) bool { return scope.Pos() <= o.Pos() && o.Pos() < scope.End() }
			isAccTarget := func(l ast.Expr) bool {
				l = ast.Unparen(l)
				if st, ok := l.(*ast.StarExpr); ok {
					l = ast.Unparen(st.X)
				}
				id, ok := l.(*ast.Ident)
				return ok && info.Uses[id] == acc
			}
			var seeds []*ast.AssignStmt
			ast.Inspect(scope, func(m ast.Node) bool {
				as, ok := m.(*ast.AssignStmt)
				if !ok || as.Tok != token.ASSIGN || len(as.Lhs) != len(as.Rhs) {
					return true
				}
				for i, l := range as.Lhs {
					if isAccTarget(l) && r2sibMentions(info, as.Rhs[i], elemVars) {
						seeds = append(seeds, as)
					}
				}
				return true
			})
			if len(seeds) == 0 {
				out = append(out, Obligation{Key: key, Pos: c.Pos(posNode.Pos()), Status: Info, Detail: "checked against here but never seeded from an alternative in this scope"})
				return
			}
			ob := Obligation{Key: key, Pos: c.Pos(seeds[0].Pos()), Nontrivial: true}
			// state variables: the accumulator, locals that live across the iterations and are updated, and
			// locals of the iteration computed from those (placeholder := acc.Kind() == …)
			stateVars := map[types.Object]bool{acc: true}
			for o, ds := range f.defs {
				v, ok := o.(*types.Var)
				if !ok || v.IsField() || inScope(v) || elemVars[v] || posVars[v] || f.isCounter(v) || len(ds) < 2 {
					continue
				}
				if _, isParam := f.params[v]; isParam {
					continue
				}
				for _, d := range ds {
					if scope.Pos() <= d.pos && d.pos < scope.End() {
						stateVars[v] = true
					}
				}
			}
			for changed := true; changed; {
				changed = false
				ast.Inspect(scope, func(x ast.Node) bool {
					as, ok := x.(*ast.AssignStmt)
					if !ok {
						return true
					}
					for i, l := range as.Lhs {
						id, ok := l.(*ast.Ident)
						if !ok {
							continue
						}
						o := f.objOf(id)
						if o == nil || stateVars[o] || !inScope(o) || elemVars[o] {
							continue
						}
						dep := i < len(as.Rhs) && r2sibMentions(info, as.Rhs[i], stateVars)
						for n := parent[ast.Node(as)]; n != nil && n != ast.Node(scope) && !dep; n = parent[n] {
							switch y := n.(type) {
							case *ast.IfStmt:
								dep = r2sibMentions(info, y.Cond, stateVars)
							case *ast.SwitchStmt:
								dep = y.Tag != nil && r2sibMentions(info, y.Tag, stateVars)
							}
						}
						if dep {
							stateVars[o] = true
							changed = true
						}
					}
					return true
				})
			}
			var problems, oks []string
			for _, seed := range seeds {
				// guards: enclosing conditions up to the scope, and earlier `if c { continue / break / return }` siblings
				var conds []ast.Expr
				var cur ast.Node = seed
				for cur != nil && cur != ast.Node(scope) {
					pn := parent[cur]
					var list []ast.Stmt
					switch x := pn.(type) {
					case *ast.IfStmt:
						if x.Body == cur || x.Else == cur {
							conds = append(conds, x.Cond)
							if as, ok := x.Init.(*ast.AssignStmt); ok {
								conds = append(conds, as.Rhs...)
							}
						}
					case *ast.CaseClause:
						conds = append(conds, x.List...)
						if sw, ok := parent[parent[pn]].(*ast.SwitchStmt); ok && sw.Tag != nil {
							conds = append(conds, sw.Tag)
						}
						list = x.Body
					case *ast.BlockStmt:
						list = x.List
					}
					for _, st := range list {
						if st.Pos() >= cur.Pos() {
							break
						}
						if ifs, ok := st.(*ast.IfStmt); ok && len(ifs.Body.List) > 0 {
							switch l := ifs.Body.List[len(ifs.Body.List)-1].(type) {
							case *ast.BranchStmt:
								if l.Tok == token.CONTINUE || l.Tok == token.BREAK {
									conds = append(conds, ifs.Cond)
								}
							case *ast.ReturnStmt:
								conds = append(conds, ifs.Cond)
							}
						}
					}
					cur = pn
				}
				// the nearest guard that tests either the state or the position decides
				state, pos := false, false
				var stateNames, posNames []string
				for _, cd := range conds {
					cs, cp := false, false
					var sn, pn []string
					ast.Inspect(cd, func(x ast.Node) bool {
						id, ok := x.(*ast.Ident)
						if !ok {
							return true
						}
						v, ok := info.Uses[id].(*types.Var)
						if !ok || v.IsField() {
							return true
						}
						switch {
						case posVars[v] || f.isCounter(v):
							cp = true
							pn = append(pn, v.Name())
						case stateVars[v]:
							cs = true
							sn = append(sn, v.Name())
						}
						return true
					})
					// a length is a position in disguise (how many alternatives were kept so far)
					if strings.Contains(exprStr(cd), "len(") {
						cp, cs = true, false
						pn = append(pn, exprStr(cd))
					}
					if cs {
						state, stateNames = true, sn
						break
					}
					if cp {
						pos, posNames = true, pn
						break
					}
				}
				where := c.Pos(seed.Pos())
				switch {
				case state:
					oks = append(oks, fmt.Sprintf("%s (%s) under a test of %s", exprStr(seed.Lhs[0])+" = "+exprStr(seed.Rhs[0]), where, strings.Join(r3usUniq(stateNames), ", ")))
				case pos:
					problems = append(problems, fmt.Sprintf("`%s = %s` (%s) is guarded only by the position of the alternative (%s): a first alternative of type never/unknown freezes the result, the later alternatives are then checked against never (always compatible) and are not unified with each other", exprStr(seed.Lhs[0]), exprStr(seed.Rhs[0]), where, strings.Join(r3usUniq(posNames), ", ")))
				default:
					problems = append(problems, fmt.Sprintf("`%s = %s` (%s) is not guarded by any test of the accumulator's state: every alternative overwrites the type the earlier ones were checked against", exprStr(seed.Lhs[0]), exprStr(seed.Rhs[0]), where))
				}
			}
			if len(problems) > 0 {
				ob.Status = Violated
				ob.Detail = strings.Join(problems, "; ")
			} else {
				ob.Detail = "seeded " + strings.Join(oks, "; ")
			}
			out = append(out, ob)
			// direction of the check: the alternative is the value that is offered (got), the accumulator the type it must
			// fit (expected). TypeCheck is not symmetric (an `any` is accepted only on one side, diagnostics name the
			// operands by role): every unifier agrees on this order
			{
				var swapped, okCalls []string
				ast.Inspect(scope, func(m ast.Node) bool {
					call, ok := m.(*ast.CallExpr)
					if !ok || CalleeOf(info, call) != e.roles.typeCheck || len(call.Args) < 2 {
						return true
					}
					mentionsAcc := func(x ast.Expr) bool {
						hit := false
						ast.Inspect(x, func(y ast.Node) bool {
							if id, ok := y.(*ast.Ident); ok && info.Uses[id] == acc {
								hit = true
							}
							return !hit
						})
						return hit
					}
					a0, a1 := mentionsAcc(call.Args[0]), mentionsAcc(call.Args[1])
					e0, e1 := r2sibMentions(info, call.Args[0], elemVars), r2sibMentions(info, call.Args[1], elemVars)
					switch {
					case a1 && e0 && !a0:
						okCalls = append(okCalls, c.Pos(call.Pos()))
					case a0 && e1 && !a1:
						swapped = append(swapped, fmt.Sprintf("TypeCheck(%s, %s) at %s", exprStr(call.Args[0]), exprStr(call.Args[1]), c.Pos(call.Pos())))
					}
					return true
				})
				if len(swapped)+len(okCalls) > 0 {
					dob := Obligation{Key: key + "|accumulator is the expected operand", Pos: c.Pos(seeds[0].Pos()), Nontrivial: true}
					if len(swapped) > 0 {
						dob.Status = Violated
						dob.Detail = strings.Join(swapped, "; ") + ": the accumulator is passed as the value that is offered and the alternative as the type it must fit — the reverse of every other unifier; where `any` is involved (TypeCheck accepts an expected any, rejects an offered one outside let / cast) the wrong mixes of alternatives are accepted and rejected"
					} else {
						dob.Detail = "TypeCheck(<alternative>, <accumulator>) at " + strings.Join(okCalls, ", ")
					}
					out = append(out, dob)
				}
			}
			for i, dfd := range declFds {
				k := key
				if len(declFds) > 1 {
					k = fmt.Sprintf("%s (for %s)", key, FuncName(dfd))
				}
				out = append(out, r4usStateObligations(c, e, f, parent, scope, seeds, acc, k, dfd, info, declAccs[i])...)
			}
		}

		// form 1: loops with a loop-carried accumulator
		ast.Inspect(fd.Body, func(n ast.Node) bool {
			loop, ok := n.(*ast.RangeStmt)
			if !ok {
				return true
			}
			if len(r2sibLoopVars(info, loop)) == 0 {
				return true
			}
			elemVars := map[types.Object]bool{}
			posVars := map[types.Object]bool{}
			if id, ok := loop.Key.(*ast.Ident); ok && id.Name != "_" {
				if o := f.objOf(id); o != nil {
					posVars[o] = true
				}
			}
			if id, ok := loop.Value.(*ast.Ident); ok && id.Name != "_" {
				if o := f.objOf(id); o != nil {
					elemVars[o] = true
				}
			}
			r2sibDerived(f, loop.Body, elemVars)
			inLoop := func(o types.Object) bool { return loop.Pos() <= o.Pos() && o.Pos() < loop.End() }
			accs := map[types.Object]bool{}
			ast.Inspect(loop.Body, func(m ast.Node) bool {
				if _, ok := m.(*ast.RangeStmt); ok && m != ast.Node(loop) {
					return false // nested loops have their own accumulators
				}
				if call, ok := m.(*ast.CallExpr); ok {
					operandIdents(call, func(v *types.Var) {
						if ok, viaPtr := typeIface(v.Type()); ok && !viaPtr && !inLoop(v) {
							if _, isParam := f.params[v]; !isParam {
								accs[v] = true
							}
						}
					})
				}
				return true
			})
			var accList []types.Object
			for o := range accs {
				accList = append(accList, o)
			}
			sort.Slice(accList, func(i, j int) bool { return accList[i].Pos() < accList[j].Pos() })
			for _, acc := range accList {
				key := fmt.Sprintf("homescript/analyzer.%s|loop over %s|accumulator %s", FuncName(fd), f.pretty(f.norm(loop.X)), acc.Name())
				// check and seed of the iteration both live in a helper that gets the accumulator by pointer: form 2 decides
				seededHere := false
				ast.Inspect(loop.Body, func(m ast.Node) bool {
					if as, ok := m.(*ast.AssignStmt); ok && as.Tok == token.ASSIGN {
						for _, l := range as.Lhs {
							if id, ok := ast.Unparen(l).(*ast.Ident); ok && info.Uses[id] == acc {
								seededHere = true
							}
						}
					}
					return true
				})
				if !seededHere && r3usPassedByPointer(info, loop.Body, acc) {
					continue
				}
				site(loop.Body, key, loop, acc, elemVars, posVars, []*ast.FuncDecl{fd}, []types.Object{acc})
			}
			return true
		})

		// form 2: a helper that receives the accumulator by pointer and both checks and seeds it
		fn, _ := info.Defs[fd.Name].(*types.Func)
		if fn == nil {
			continue
		}
		var ptrParams []types.Object
		for o, i := range f.params {
			if ok, viaPtr := typeIface(o.Type()); ok && viaPtr && checks[fn][i] {
				ptrParams = append(ptrParams, o)
			}
		}
		sort.Slice(ptrParams, func(i, j int) bool { return ptrParams[i].Pos() < ptrParams[j].Pos() })
		for _, acc := range ptrParams {
			elemVars := map[types.Object]bool{}
			posVars := map[types.Object]bool{}
			for o := range f.params {
				if o == acc {
					continue
				}
				if b, ok := o.Type().Underlying().(*types.Basic); ok && b.Info()&types.IsInteger != 0 {
					posVars[o] = true
				} else {
					elemVars[o] = true
				}
			}
			r2sibDerived(f, fd.Body, elemVars)
			key := fmt.Sprintf("homescript/analyzer.%s|accumulator *%s", FuncName(fd), acc.Name())
			// the accumulator is declared by the callers that hand it in
			var dfds []*ast.FuncDecl
			var daccs []types.Object
			for _, cfd := range fds {
				ast.Inspect(cfd.Body, func(n ast.Node) bool {
					call, ok := n.(*ast.CallExpr)
					if !ok || CalleeOf(info, call) != fn || f.params[acc] >= len(call.Args) {
						return true
					}
					if u, ok := ast.Unparen(call.Args[f.params[acc]]).(*ast.UnaryExpr); ok && u.Op == token.AND {
						if id, ok := ast.Unparen(u.X).(*ast.Ident); ok {
							if o := info.Uses[id]; o != nil {
								for _, seen := range daccs {
									if seen == o {
										return true
									}
								}
								dfds = append(dfds, cfd)
								daccs = append(daccs, o)
							}
						}
					}
					return true
				})
			}
			site(fd.Body, key, fd, acc, elemVars, posVars, dfds, daccs)
		}
	}
	out = append(out, r4usPeerObligations(c, e)...)
	out = append(out, r5sibNeverResultObligations(c, e)...)
	sort.SliceStable(out, func(i, j int) bool { return out[i].Key < out[j].Key })
	return out
}

// r3usPassedByPointer: &acc is an argument of a call in the scope.
func r3usPassedByPointer(info *types.Info, scope ast.Node, acc types.Object) bool {
	hit := false
	ast.Inspect(scope, func(n ast.Node) bool {
		if call, ok := n.(*ast.CallExpr); ok {
			for _, a := range call.Args {
				if u, ok := ast.Unparen(a).(*ast.UnaryExpr); ok && u.Op == token.AND {
					if id, ok := ast.Unparen(u.X).(*ast.Ident); ok && info.Uses[id] == acc {
						hit = true
					}
				}
			}
		}
		return true
	})
	return hit
}

func r3usUniq(xs []string) []string {
	seen := map[string]bool{}
	var out []string
	for _, x := range xs {
		if !seen[x] {
			seen[x] = true
			out = append(out, x)
		}
	}
	sort.Strings(out)
	return out
}
