package main

// R-member-results (C13, C04, C18): the value a builtin member returns is
// computed the same way in both value libraries: for every member both twins
// implement as a closure, the set of normalised result expressions (locals and
// library helpers inlined, constructors named by value kind) is the same.

import (
	"fmt"
	"go/ast"
	"regexp"
	"sort"
	"strings"
)

func init() {
	register(&Rule{ID: "R-member-results", Floor: 40, Run: ruleMemberResults,
		Doc: "C13/C04/C18: for every builtin member that both value libraries implement as a closure in Fields(), the expressions the closure returns as its value — normalised: single-definition locals and library helpers inlined, parameters named by role, twin-specific names unified — are the same set in the VM library and in the interpreter library. R-twin-tables compares the members' error classes, guards and signatures; this compares what is computed: a `to_string` that formats the payload itself in one library while the other (and Display, print, string interpolation) go through Display() prints two different texts for the same value."})
}

// opaque (not executable) library helpers are rendered ‹name›(…): the name is not part of the comparison
var r5rOpaqueFns = regexp.MustCompile(`‹[^›]*›\(`)

func ruleMemberResults(c *Ctx) []Obligation {
	var obs []Obligation
	libs := r2tLibs(c)
	vm, in := libs[0], libs[1]
	results := func(l *mbLib, im *mbImpl, displayPrimitive bool) map[string][]string {
		out := map[string][]string{}
		fd := im.methods["Fields"]
		t := mbExtractTable(l.info, fd)
		if !t.ok || t.panics {
			return out
		}
		for _, e := range t.entries {
			fl, via := l.closureOf(e.val, 0)
			if fl == nil || strings.Contains(via, "→") || !(fd.Pos() <= fl.Pos() && fl.End() <= fd.End()) {
				continue
			}
			n := mbNewNormLit(l, fd, fl)
			set := map[string]bool{}
			// symbolic execution ("no callee raised an interrupt"): value ⇐ condition, independent of
			// where the code is written (locals, helpers, early returns)
			if displayPrimitive {
				// Display() has its own twin table (R-twin-tables): treated as a primitive here
				ast.Inspect(fl.Body, func(m ast.Node) bool {
					call, ok := m.(*ast.CallExpr)
					if !ok || len(call.Args) != 0 {
						return true
					}
					sel, ok := ast.Unparen(call.Fun).(*ast.SelectorExpr)
					if !ok || sel.Sel.Name != "Display" {
						return true
					}
					if t := l.info.TypeOf(sel.X); l.isValueIface(t) || l.implOfType(t) != nil {
						n.callVals[call] = mbCallVal{vals: []string{"display(" + n.str(sel.X) + ")", "nil"}, bvals: []*mbB{nil, nil}}
					}
					return true
				})
			}
			outs, _, inc := mbSymExecDepth(l, n, fl.Body.List, true, 4)
			if inc != "" {
				set["?not executable symbolically: "+inc] = true
			} else {
				form := mbSymTable(outs, func(o *mbSymOut) string {
					if o.kind == "return" && len(o.vals) >= 1 && o.vals[0] != "nil" {
						return o.vals[0]
					}
					return "" // error exits and panics are R-twin-tables' business
				})
				set[r5rOpaqueFns.ReplaceAllString(r5rStripParens(mbTwin(form)), "‹fn›(")] = true
			}
			out[e.key] = mbSortedKeys(set)
		}
		return out
	}
	for _, vi := range vm.impls {
		tn := mbLookupType(in, vi.Name())
		if tn == nil || in.byType[tn] == nil {
			continue
		}
		ii := in.byType[tn]
		a, b := results(vm, vi, false), results(in, ii, false)
		a2, b2 := results(vm, vi, true), results(in, ii, true)
		var names []string
		for k := range a {
			if _, ok := b[k]; ok {
				names = append(names, k)
			}
		}
		sort.Strings(names)
		for _, nm := range names {
			sa, sb := strings.Join(a[nm], " | "), strings.Join(b[nm], " | ")
			o := Obligation{Key: fmt.Sprintf("results|%s.%s", vi.Name(), nm), Pos: c.Pos(vi.methods["Fields"].Pos()), Nontrivial: true}
			if strings.Contains(sa, "?not executable") || strings.Contains(sb, "?not executable") {
				o.Status, o.Detail = Undecided, "vm: "+sa+" ‖ interp: "+sb
			} else if sa2, sb2 := strings.Join(a2[nm], " | "), strings.Join(b2[nm], " | "); sa != sb && sa2 == sb2 && !strings.Contains(sa2, "?not executable") {
				o.Status, o.Detail = Discharged, "both twins return {"+sa2+"} (Display() taken as a primitive: its own agreement is R-twin-tables' display table)"
			} else if sa == sb {
				o.Status, o.Detail = Discharged, "both twins return {"+sa+"}"
			} else {
				o.Status, o.Detail = Violated, fmt.Sprintf("member `%s` of %s returns {%s} in the VM library but {%s} in the interpreter library", nm, vi.Name(), sa, sb)
			}
			obs = append(obs, o)
		}
	}
	return obs
}

// r5rStripParens removes a parenthesis pair that directly wraps the whole content of another
// pair: `f((a - b))` and `f(a - b)` are the same rendering of one value.
func r5rStripParens(s string) string {
	for {
		match := map[int]int{}
		var stack []int
		for i, r := range s {
			switch r {
			case '(':
				stack = append(stack, i)
			case ')':
				if len(stack) > 0 {
					match[stack[len(stack)-1]] = i
					stack = stack[:len(stack)-1]
				}
			}
		}
		// a pair is redundant when it wraps a whole operand position: it directly follows an opening
		// bracket / parenthesis or an argument separator and is directly followed by the closing one
		// or the next separator: `f((a - b))`, `xs[(n - 1)]`, `g(a, (b + c))`
		drop := -1
		for i := 0; i < len(s); i++ {
			if s[i] != '(' {
				continue
			}
			m, ok := match[i]
			if !ok {
				continue
			}
			before := byte(0)
			for j := i - 1; j >= 0; j-- {
				if s[j] != ' ' {
					before = s[j]
					break
				}
			}
			after := byte(0)
			for j := m + 1; j < len(s); j++ {
				if s[j] != ' ' {
					after = s[j]
					break
				}
			}
			opens := before == '(' || before == '[' || before == ','
			closes := after == ')' || after == ']' || after == ','
			if i == 0 {
				opens = m == len(s)-1 // the whole string
				closes = opens
			}
			if opens && closes {
				// `f(` … `)`: the parenthesis after a callee name is a call, not grouping — `before` is then
				// an identifier character, never one of the openers, so this is a grouping pair
				drop = i
				break
			}
		}
		if drop < 0 {
			return s
		}
		m := match[drop]
		s = s[:drop] + s[drop+1:m] + s[m+1:]
	}
}
