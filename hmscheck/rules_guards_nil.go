package main

import (
	"fmt"
	"go/token"
	"go/types"
	"os"
	"sort"
	"strings"

	"golang.org/x/tools/go/ssa"
	"golang.org/x/tools/go/ssa/ssautil"
)

func init() {
	register(&Rule{ID: "R-nil-field", Floor: 90, Run: ruleNilField,
		Doc: "contradiction rule: a pointer- or interface-typed struct field that the module itself treats as optional (somewhere compared with nil, or assigned nil) must not be dereferenced — field access / *p / store through it, method call on a nil interface, unchecked type assertion, or handing it to a function that dereferences the corresponding parameter without a nil test — in lexer, analyzer, analyzer/ast, fuzzer, compiler, interpreter unless a non-nil test of the same access path dominates the use (if / switch / && / || / loop-condition form, early return on the nil branch) or a same-function assignment of a non-nil value does, with no possibly-nil write to the field in between. The code that tests the field documents that nil is a legal state; a use without the test is a nil-pointer panic for exactly the inputs the test exists for (C05: analysis is total; C02: no host crash)."})
}

var gdNilPkgs = []string{"homescript/lexer", "homescript/analyzer", "homescript/analyzer/ast", "homescript/fuzzer", "homescript/compiler", "homescript/interpreter", "homescript/parser", "homescript/parser/ast", "homescript/optimizer"}

// gdAllMod: direct + transitive write sets of every module function, computed
// once as a fixpoint over static call edges.
type gdAllMod struct {
	of map[*ssa.Function]*gdMod
}

var gdAllModCache = map[*ssa.Program]*gdAllMod{}

func gdComputeAllMod(prog *ssa.Program) *gdAllMod {
	if am, ok := gdAllModCache[prog]; ok {
		return am
	}
	am := &gdAllMod{of: map[*ssa.Function]*gdMod{}}
	gdAllModCache[prog] = am
	var fns []*ssa.Function
	callees := map[*ssa.Function][]*ssa.Function{}
	for fn := range ssautil.AllFunctions(prog) {
		if fn.Blocks == nil || fn.Pkg == nil || !strings.HasPrefix(fn.Pkg.Pkg.Path(), ModPath) {
			continue
		}
		fns = append(fns, fn)
		m := &gdMod{fields: map[*types.Var]bool{}, nilFields: map[*types.Var]bool{}}
		am.of[fn] = m
		for _, b := range fn.Blocks {
			for _, in := range b.Instrs {
				switch x := in.(type) {
				case *ssa.Store:
					if _, ok := x.Addr.(*ssa.FieldAddr); ok {
						for _, f := range gdFAChain(x.Addr) {
							m.fields[f] = true
						}
						f := gdFAChain(x.Addr)
						if !gdNonNil(x.Val, 0) {
							m.nilFields[f[len(f)-1]] = true
						}
					} else if al, ok := x.Addr.(*ssa.Alloc); ok && gdLocalOnly(al) {
					} else {
						gdAddType(&m.types, x.Addr.Type())
					}
				case *ssa.MapUpdate:
					gdAddType(&m.maps, x.Map.Type())
				case *ssa.Call:
					if bi, ok := x.Call.Value.(*ssa.Builtin); ok && (bi.Name() == "delete" || bi.Name() == "clear") && len(x.Call.Args) > 0 {
						gdAddType(&m.maps, x.Call.Args[0].Type())
					}
					if cal := x.Call.StaticCallee(); cal != nil {
						callees[fn] = append(callees[fn], cal)
					}
				}
			}
		}
		// a closure created here may run during calls made here: fold its writes in
		for _, an := range fn.AnonFuncs {
			callees[fn] = append(callees[fn], an)
		}
	}
	for changed := true; changed; {
		changed = false
		for _, fn := range fns {
			m := am.of[fn]
			for _, cal := range callees[fn] {
				cm := am.of[cal]
				if cm == nil {
					continue
				}
				for f := range cm.fields {
					if !m.fields[f] {
						m.fields[f] = true
						changed = true
					}
				}
				for f := range cm.nilFields {
					if !m.nilFields[f] {
						m.nilFields[f] = true
						changed = true
					}
				}
				for _, t := range cm.types {
					if gdAddType(&m.types, t) {
						changed = true
					}
				}
				for _, t := range cm.maps {
					if gdAddType(&m.maps, t) {
						changed = true
					}
				}
			}
		}
	}
	return am
}

// gdFieldOwners names every struct field of the module "pkg.Type.Field".
func gdFieldOwners(c *Ctx) map[*types.Var]string {
	out := map[*types.Var]string{}
	for _, p := range c.All {
		sc := p.Types.Scope()
		for _, n := range sc.Names() {
			tn, ok := sc.Lookup(n).(*types.TypeName)
			if !ok {
				continue
			}
			st, ok := tn.Type().Underlying().(*types.Struct)
			if !ok {
				continue
			}
			for i := 0; i < st.NumFields(); i++ {
				if _, dup := out[st.Field(i)]; !dup {
					out[st.Field(i)] = strings.TrimPrefix(relPkg(p.PkgPath), "homescript/") + "." + tn.Name() + "." + st.Field(i).Name()
				}
			}
		}
	}
	return out
}

func gdAddType(list *[]types.Type, t types.Type) bool {
	for _, u := range *list {
		if types.Identical(u, t) {
			return false
		}
	}
	*list = append(*list, t)
	return true
}

type gdNilEnv struct {
	c    *Ctx
	nm   *gdNamer
	keys gdKeyer
	am   *gdAllMod
	cand map[*types.Var]string // nil-able fields → evidence
	obs  []Obligation
	// (function, param index) dereferenced without a nil test
	unguardedParam map[*ssa.Parameter]string
	owners         map[*types.Var]string
	entryMemo      map[gdEntryKey]int
	entryWhy       map[gdEntryKey][]string
	// reviewed sites: fingerprint → indices into obs; index → the obligation as it would be reported
	reviewed   map[string][]int
	unreviewed map[int]Obligation
}

func gdNilable(t types.Type) bool {
	switch t.Underlying().(type) {
	case *types.Pointer, *types.Interface:
		return true
	}
	return false
}

// gdLastField: the field a value was read from (last step of its path), or nil.
func gdLastField(v ssa.Value) *types.Var {
	p := gdPathOf(v)
	if len(p.steps) == 0 {
		return nil
	}
	if s := p.steps[len(p.steps)-1]; s.kind == gdField {
		return s.field
	}
	return nil
}

// gdIsNilAssertion: every branch on this nil comparison panics on its nil edge.
func gdIsNilAssertion(cmp *ssa.BinOp) bool {
	refs := cmp.Referrers()
	if refs == nil {
		return false
	}
	n := 0
	for _, r := range *refs {
		iff, ok := r.(*ssa.If)
		if !ok {
			if _, dbg := r.(*ssa.DebugRef); dbg {
				continue
			}
			return false
		}
		b := iff.Block()
		nilEdge := b.Succs[0]
		if cmp.Op == token.NEQ {
			nilEdge = b.Succs[1]
		}
		if len(nilEdge.Instrs) == 0 {
			return false
		}
		if _, ok := nilEdge.Instrs[len(nilEdge.Instrs)-1].(*ssa.Panic); !ok {
			return false
		}
		n++
	}
	return n > 0
}

// gdIsSnapshot: the loaded value is also written back into memory somewhere.
func gdIsSnapshot(v ssa.Value) bool {
	refs := gdStrip(v).Referrers()
	if refs == nil {
		return false
	}
	for _, r := range *refs {
		if st, ok := r.(*ssa.Store); ok && st.Val == gdStrip(v) {
			return true
		}
	}
	return false
}

func gdIsNilConst(v ssa.Value) bool {
	c, ok := v.(*ssa.Const)
	return ok && c.IsNil()
}

func ruleNilField(c *Ctx) []Obligation {
	defer gdDebugPanic()
	prog := c.SSA()
	env := &gdNilEnv{c: c, nm: newGdNamer(c), cand: map[*types.Var]string{}, unguardedParam: map[*ssa.Parameter]string{}}
	env.am = gdComputeAllMod(prog)

	// 1. nil-able fields by evidence anywhere in the module
	var modFns []*ssa.Function
	for fn := range env.am.of {
		if fn.Synthetic == "" {
			modFns = append(modFns, fn)
		}
	}
	gdSortFuncs(c, modFns)
	assignedNil := map[*types.Var]bool{}
	owners := gdFieldOwners(c)
	for _, fn := range modFns {
		for _, b := range fn.Blocks {
			for _, in := range b.Instrs {
				switch x := in.(type) {
				case *ssa.BinOp:
					if x.Op != token.EQL && x.Op != token.NEQ {
						continue
					}
					var other ssa.Value
					if gdIsNilConst(x.Y) {
						other = x.X
					} else if gdIsNilConst(x.X) {
						other = x.Y
					}
					if other == nil || !gdNilable(other.Type()) {
						continue
					}
					if gdIsNilAssertion(x) {
						// `if x.F == nil { panic(…) }` asserts the invariant "never nil"
						continue
					}
					if gdIsSnapshot(other) {
						// save/restore idiom (`prev := x.F; …; if prev != nil { x.F = prev }`):
						// a test of the saved copy, not of the field's optionality at a use
						continue
					}
					if f := gdLastField(other); f != nil && env.cand[f] == "" {
						env.cand[f] = "compared with nil at " + c.Pos(x.Pos())
					}
				case *ssa.Store:
					// nil assignments are recorded for the report only: a field that is
					// reset to nil but never tested follows a set-before-use protocol
					// (Analyzer.currentModule, Compiler.currScope) and is no contradiction.
					if gdIsNilConst(x.Val) && gdNilable(x.Val.Type()) {
						if ch := gdFAChain(x.Addr); len(ch) > 0 {
							assignedNil[ch[len(ch)-1]] = true
						}
					}
				}
			}
		}
	}
	if len(env.cand) < 10 {
		fatalf("R-nil-field: only %d nil-able fields found", len(env.cand))
	}

	scope := gdFuncsOf(c, gdNilPkgs...)
	// 2. parameter summaries (fixpoint): params dereferenced without a nil test
	env.paramSummaries(modFns)
	// 3. deref sites
	for _, fn := range scope {
		env.function(fn)
	}
	gdReviewUnique(env.obs, env.reviewed, env.unreviewed)
	var names []string
	for f, ev := range env.cand {
		names = append(names, fmt.Sprintf("%s (%s)", owners[f], ev))
	}
	sort.Strings(names)
	env.obs = append(env.obs, Obligation{Key: "nil-able fields", Status: Info, Detail: fmt.Sprintf("%d optional fields (tested against nil somewhere in the module): %s", len(names), strings.Join(names, "; "))})
	var only []string
	for f := range assignedNil {
		if env.cand[f] == "" {
			only = append(only, owners[f])
		}
	}
	sort.Strings(only)
	env.obs = append(env.obs, Obligation{Key: "assigned nil, never tested", Status: Info, Detail: fmt.Sprintf("%d fields are assigned nil but never compared with nil (set-before-use protocol, no contradiction to check): %s", len(only), strings.Join(only, "; "))})
	return env.obs
}

// derefKind: how instruction in dereferences v ("" = it does not).
func gdDerefKind(in ssa.Instruction, v ssa.Value) string {
	switch x := in.(type) {
	case *ssa.UnOp:
		if x.Op == token.MUL && x.X == v {
			return "*p"
		}
	case *ssa.FieldAddr:
		if x.X == v {
			return "field access"
		}
	case *ssa.IndexAddr:
		if x.X == v {
			return "index through pointer"
		}
	case *ssa.Store:
		if x.Addr == v {
			return "store through pointer"
		}
	case *ssa.TypeAssert:
		if x.X == v && !x.CommaOk {
			return "unchecked type assertion"
		}
	case *ssa.Call:
		if x.Call.IsInvoke() && x.Call.Value == v {
			return "method call " + x.Call.Method.Name() + "() on interface"
		}
	case *ssa.Defer:
		if x.Call.IsInvoke() && x.Call.Value == v {
			return "deferred method call on interface"
		}
	case *ssa.Go:
		if x.Call.IsInvoke() && x.Call.Value == v {
			return "go method call on interface"
		}
	}
	return ""
}

// passedTo: v is handed to a static callee's parameter that is dereferenced
// without a nil test there.
func (env *gdNilEnv) passedTo(in ssa.Instruction, v ssa.Value) string {
	call, ok := in.(*ssa.Call)
	if !ok || call.Call.IsInvoke() {
		return ""
	}
	cal := call.Call.StaticCallee()
	if cal == nil || cal.Blocks == nil {
		return ""
	}
	for i, a := range call.Call.Args {
		if a == v && i < len(cal.Params) {
			if why := env.unguardedParam[cal.Params[i]]; why != "" {
				return fmt.Sprintf("passed to %s (parameter %s): %s", env.nm.funcName(cal), cal.Params[i].Name(), why)
			}
		}
	}
	return ""
}

func (env *gdNilEnv) paramSummaries(fns []*ssa.Function) {
	for changed := true; changed; {
		changed = false
		for _, fn := range fns {
			for _, p := range fn.Params {
				if env.unguardedParam[p] != "" || !gdNilable(p.Type()) {
					continue
				}
				refs := p.Referrers()
				if refs == nil {
					continue
				}
				for _, r := range *refs {
					why := gdDerefKind(r, p)
					if why == "" {
						why = env.passedTo(r, p)
					} else {
						why = why + " at " + env.c.Pos(r.Pos())
					}
					if why == "" {
						continue
					}
					if gdNilGuarded(&gdEq{}, r, p, nil) {
						continue
					}
					env.unguardedParam[p] = why
					changed = true
					break
				}
			}
		}
	}
}

func (env *gdNilEnv) function(fn *ssa.Function) {
	eq := &gdEq{mod: env.am, nilOnly: true}
	seen := map[ssa.Value]bool{}
	for _, b := range fn.Blocks {
		for _, in := range b.Instrs {
			v, ok := in.(ssa.Value)
			if !ok || seen[v] || !gdNilable(v.Type()) {
				continue
			}
			f := gdLastField(v)
			if f == nil || env.cand[f] == "" {
				continue
			}
			// v is a read of a nil-able field
			switch in.(type) {
			case *ssa.UnOp, *ssa.Field:
			default:
				continue
			}
			seen[v] = true
			refs := v.Referrers()
			if refs == nil {
				continue
			}
			for _, r := range *refs {
				why := gdDerefKind(r, v)
				if why == "" {
					why = env.passedTo(r, v)
				}
				if why == "" {
					continue
				}
				env.site(fn, eq, f, v, r, why)
			}
		}
	}
}

func (env *gdNilEnv) owner(f *types.Var) string {
	if env.owners == nil {
		env.owners = gdFieldOwners(env.c)
	}
	if n := env.owners[f]; n != "" {
		if i := strings.Index(n, "."); i >= 0 {
			return n[i+1:]
		}
		return n
	}
	return f.Name()
}

// gdNilReviewed: uses that guard dominance cannot decide, reviewed by hand
// (one construct each, with the reason). Looked up by the rename-stable
// fingerprint of the site (see gdTrapReviewed), not by the key text.
var gdNilReviewed = map[string]string{
	// analyzer.(*Analyzer).matchExpression|DefaultOrLiteral.Literal: self.expression(lit.Literal)
	"analyzer.(*Analyzer).ƒfunc(ast.MatchExpression) (ast.AnalyzedMatchExpression)|DefaultOrLiteral.Literal: $*analyzer.Analyzer.ƒfunc(ast.Expression) (ast.AnalyzedExpression)($ast.DefaultOrLiteral.Literal)": "universally quantified flag guard: the preceding loop sets containsDefault when any `lit` of the arm is not a literal and the arm is skipped (`continue`) in that case, so every lit.Literal of the second loop is non-nil; a ∀-guard carried by a flag is outside dominance reasoning",
}

// ownerShape: owner() in rename-stable form (an unexported field by its type).
func (env *gdNilEnv) ownerShape(f *types.Var) string {
	o := env.owner(f)
	if f.Exported() {
		return o
	}
	return strings.TrimSuffix(o, f.Name()) + "·" + gdTypeSig(f.Type())
}

func (env *gdNilEnv) site(fn *ssa.Function, eq *gdEq, f *types.Var, v ssa.Value, at ssa.Instruction, why string) {
	pos := at.Pos()
	if !pos.IsValid() {
		pos = v.Pos()
	}
	what := env.owner(f) + ": " + gdShort(env.nm.exprAt(pos), 60)
	key := env.keys.key(env.nm.funcName(fn), env.nm.caseCtx(pos), what)
	add := func(st Status, detail string) {
		env.obs = append(env.obs, Obligation{Key: key, Pos: env.c.Pos(pos), Status: st, Detail: detail, Nontrivial: true})
	}
	if ok, how := gdNilGuardedPath(eq, at, gdPathOf(v)); ok {
		add(Discharged, why+": dominated by a "+how+" of the same access path")
		return
	}
	if st := env.dominatingNonNilStore(eq, v); st != nil {
		add(Discharged, why+": dominated by the non-nil assignment at "+env.c.Pos(st.Pos()))
		return
	}
	if ok, how := env.entrySafeAt(eq, fn, v); ok {
		add(Discharged, why+": "+how)
		return
	}
	violated := Obligation{Key: key, Pos: env.c.Pos(pos), Status: Violated, Nontrivial: true, Detail: fmt.Sprintf("%s of %s without a dominating non-nil test or non-nil assignment (also not established by every caller); the field is optional (%s)", why, gdPathOf(v).String(), env.cand[f])}
	fp := gdJoinKey(env.nm.funcShape(fn), env.nm.caseCtx(pos), env.ownerShape(f)+": "+env.nm.shapeAt(pos))
	if os.Getenv("GD_DEBUG") != "" {
		fmt.Fprintf(os.Stderr, "fingerprint %s => %s\n", key, fp)
	}
	if reason, ok := gdNilReviewed[fp]; ok {
		if env.reviewed == nil {
			env.reviewed, env.unreviewed = map[string][]int{}, map[int]Obligation{}
		}
		env.reviewed[fp] = append(env.reviewed[fp], len(env.obs))
		env.unreviewed[len(env.obs)] = violated
		add(Info, "reviewed site (not decided by guard dominance): "+reason)
		return
	}
	add(Violated, fmt.Sprintf("%s of %s without a dominating non-nil test or non-nil assignment (also not established by every caller); the field is optional (%s)", why, gdPathOf(v).String(), env.cand[f]))
}

// ---- caller-established non-nil (entry safety) ----

// pathKey identifies a parameter-rooted deref/field path inside fn.
func gdParamPathKey(p gdPath) (int, string, bool) {
	par, ok := p.root.(*ssa.Parameter)
	if !ok || p.rootCtx != nil {
		return 0, "", false
	}
	idx := -1
	for i, q := range par.Parent().Params {
		if q == par {
			idx = i
		}
	}
	if idx < 0 {
		return 0, "", false
	}
	var sb strings.Builder
	for _, st := range p.steps {
		switch st.kind {
		case gdDeref:
			sb.WriteString("*")
		case gdField:
			if st.field == nil {
				return 0, "", false
			}
			fmt.Fprintf(&sb, ".%s", st.field.Name())
		default:
			return 0, "", false
		}
	}
	return idx, sb.String(), true
}

type gdEntryKey struct {
	fn  *ssa.Function
	idx int
	sig string
}

// entrySafeAt: v is read off a parameter of fn, every in-module call site of
// fn establishes that the corresponding path is non-nil, and nothing between
// fn's entry and the read may write nil to it.
func (env *gdNilEnv) entrySafeAt(eq *gdEq, fn *ssa.Function, v ssa.Value) (bool, string) {
	p := gdPathOf(v)
	idx, sig, ok := gdParamPathKey(p)
	if !ok {
		return false, ""
	}
	ld := gdInstrOf(gdStrip(v))
	if ld == nil || len(fn.Blocks) == 0 || len(fn.Blocks[0].Instrs) == 0 {
		return false, ""
	}
	// no possibly-nil write between entry and the read
	entry := fn.Blocks[0].Instrs[0]
	if entry != ld {
		for _, ms := range p.memSteps() {
			rd := ms
			for _, mid := range gdRegion(entry, ld) {
				if eq.clobbers(mid, rd) {
					return false, ""
				}
			}
			if eq.clobbers(entry, rd) {
				return false, ""
			}
		}
	}
	k := gdEntryKey{fn, idx, sig}
	if !env.entrySafe(k, p) {
		return false, ""
	}
	return true, "non-nil on entry: established at every call site of " + env.nm.funcName(fn) + " (" + strings.Join(env.entryWhy[k], ", ") + ")"
}

// entrySafe computes (greatest fixpoint, optimistic on recursion) whether all
// call sites of k.fn establish non-nil for the parameter path.
func (env *gdNilEnv) entrySafe(k gdEntryKey, p gdPath) bool {
	if env.entryMemo == nil {
		env.entryMemo = map[gdEntryKey]int{}
		env.entryWhy = map[gdEntryKey][]string{}
	}
	switch env.entryMemo[k] {
	case 1:
		return true
	case 2:
		return false
	case 3:
		return true // in progress: optimistic (a cycle adds no new entry)
	}
	env.entryMemo[k] = 3
	res, why := env.entrySafeCompute(k, p)
	if res {
		env.entryMemo[k] = 1
		env.entryWhy[k] = why
	} else {
		env.entryMemo[k] = 2
	}
	return res
}

func (env *gdNilEnv) entrySafeCompute(k gdEntryKey, p gdPath) (bool, []string) {
	node := env.c.CallGraph().Nodes[k.fn]
	if node == nil || len(node.In) == 0 {
		return false, nil
	}
	eq := &gdEq{mod: env.am, nilOnly: true}
	var why []string
	seen := map[ssa.CallInstruction]bool{}
	for _, e := range node.In {
		site := e.Site
		if site == nil || seen[site] {
			if site == nil {
				return false, nil
			}
			continue
		}
		seen[site] = true
		call, ok := site.(*ssa.Call)
		if !ok || call.Call.StaticCallee() != k.fn {
			return false, nil // dynamic / deferred / go call: not analysed
		}
		ctx := &gdCallCtx{call: call, callee: k.fn}
		// the path as seen from the caller, read at the call
		q := gdPath{root: p.root, steps: append([]gdStep{}, p.steps...)}
		for i := range q.steps {
			if q.steps[i].at != nil {
				q.steps[i].at = call
			}
		}
		if k.idx >= len(call.Call.Args) {
			return false, nil
		}
		ap := gdPathOf(call.Call.Args[k.idx])
		cq := gdPath{root: ap.root, rootCtx: nil}
		cq.steps = append(append([]gdStep{}, ap.steps...), q.steps...)
		_ = ctx
		caller := call.Parent()
		if ok, _ := gdNilGuardedPath(eq, call, cq); ok {
			why = append(why, env.c.Pos(call.Pos())+" tests it")
			continue
		}
		if st := gdNonNilStoreBefore(eq, call, cq); st != nil {
			why = append(why, env.c.Pos(call.Pos())+" assigns it")
			continue
		}
		// passed through from the caller's own parameter
		if idx2, sig2, ok := gdParamPathKey(cq); ok {
			clob := false
			if len(caller.Blocks) > 0 && len(caller.Blocks[0].Instrs) > 0 {
				entry := caller.Blocks[0].Instrs[0]
				for _, ms := range cq.memSteps() {
					if entry != ssa.Instruction(call) {
						for _, mid := range gdRegion(entry, call) {
							if eq.clobbers(mid, ms) {
								clob = true
							}
						}
					}
				}
			}
			if !clob && env.entrySafe(gdEntryKey{caller, idx2, sig2}, cq) {
				why = append(why, env.c.Pos(call.Pos())+" inherits it")
				continue
			}
		}
		return false, nil
	}
	return true, why
}

// gdNonNilStoreBefore: a store of a certainly non-nil value into the cell
// designated by path q dominates `at`, with no possibly-nil write in between.
func gdNonNilStoreBefore(eq *gdEq, at ssa.Instruction, q gdPath) *ssa.Store {
	if len(q.steps) < 2 || q.steps[len(q.steps)-1].kind != gdField {
		return nil
	}
	fn := at.Parent()
	ms := q.memSteps()
	if len(ms) == 0 {
		return nil
	}
	rd := ms[len(ms)-1]
	for _, b := range fn.Blocks {
		if b != at.Block() && !b.Dominates(at.Block()) {
			continue
		}
		for i, in := range b.Instrs {
			if b == at.Block() && i >= gdIndexIn(b, at) {
				break
			}
			st, ok := in.(*ssa.Store)
			if !ok || !gdNonNil(st.Val, 0) {
				continue
			}
			if _, isFA := st.Addr.(*ssa.FieldAddr); !isFA {
				continue
			}
			sp := gdDerefPath(st.Addr, st)
			// compare cells structurally, ignoring the clobber test of the final
			// cell (the store itself defines it); intermediate cells must agree
			if !eq.samePathsUpTo(sp, q) {
				continue
			}
			clob := false
			for _, mid := range gdRegion(st, at) {
				if eq.clobbers(mid, rd) {
					clob = true
					break
				}
			}
			if !clob {
				return st
			}
		}
	}
	return nil
}

// dominatingNonNilStore: a store of a certainly non-nil value to the cell v is
// loaded from, dominating the load, with no possibly-nil write in between.
func (env *gdNilEnv) dominatingNonNilStore(eq *gdEq, v ssa.Value) *ssa.Store {
	ld, ok := gdStrip(v).(*ssa.UnOp)
	if !ok || ld.Op != token.MUL {
		return nil
	}
	fn := ld.Parent()
	p := gdDerefPath(ld.X, ld)
	ms := p.memSteps()
	if len(ms) == 0 {
		return nil
	}
	rd := ms[len(ms)-1]
	for _, b := range fn.Blocks {
		if b != ld.Block() && !b.Dominates(ld.Block()) {
			continue
		}
		for i, in := range b.Instrs {
			st, ok := in.(*ssa.Store)
			if !ok {
				continue
			}
			if b == ld.Block() && i > gdIndexIn(b, ld) {
				break
			}
			if !gdNonNil(st.Val, 0) {
				continue
			}
			if st.Addr != ld.X && !eq.same(st.Addr, ld.X) {
				continue
			}
			clob := false
			for _, mid := range gdRegion(st, ld) {
				if eq.clobbers(mid, rd) {
					clob = true
					break
				}
			}
			if !clob {
				return st
			}
		}
	}
	return nil
}
