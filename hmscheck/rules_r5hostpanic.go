package main

import (
	"fmt"
	"go/ast"
	"go/types"
	"sort"
	"strings"
)

// R-host-outcome-panic: the outcome of running program code (an exception / interrupt result of a
// run) is data the program controls. A host-facing function of the VM that panics when such an
// outcome is present turns an ordinary program failure (division by zero in a global initialiser,
// a cancellation during start-up) into a crash of the host process.
func init() {
	register(&Rule{ID: "R-host-outcome-panic", Floor: 1, Run: ruleHostOutcomePanic,
		Doc: "in package runtime, outside the per-instruction dispatcher: no panic(...) is guarded by a condition that reads the outcome of a run — a value of the VM's exception-result type (the struct holding core number + interrupt), a field of the invocation result holding it, or the interrupt result of VM.Wait. Panics guarded by host-supplied data (argument count, declared signature) are not covered: they are the host's own contract violations"})
}

func ruleHostOutcomePanic(c *Ctx) []Obligation {
	p := c.Pkg("homescript/runtime")
	if p == nil {
		return []Obligation{{Key: "anchor", Status: Undecided, Detail: "package runtime not loaded", Nontrivial: true}}
	}
	info := p.TypesInfo
	// the run-outcome types: structs of this package that hold a value of the value library's interrupt interface
	// next to a core number, and structs holding a pointer to such a struct (the invocation result)
	vp := c.Pkg("homescript/runtime/value")
	var intr types.Type
	if vp != nil {
		if o := vp.Types.Scope().Lookup("VmInterrupt"); o != nil {
			intr = o.Type()
		}
	}
	if intr == nil {
		return []Obligation{{Key: "anchor", Status: Undecided, Detail: "the VM interrupt interface was not found", Nontrivial: true}}
	}
	outcome := map[*types.Named]bool{}
	for _, name := range p.Types.Scope().Names() {
		tn, ok := p.Types.Scope().Lookup(name).(*types.TypeName)
		if !ok {
			continue
		}
		st, ok := tn.Type().Underlying().(*types.Struct)
		if !ok {
			continue
		}
		hasIntr, n := false, st.NumFields()
		for i := 0; i < n; i++ {
			if types.Identical(st.Field(i).Type(), intr) {
				hasIntr = true
			}
		}
		if hasIntr && n <= 3 {
			if nm, ok := tn.Type().(*types.Named); ok {
				outcome[nm] = true
			}
		}
	}
	isOutcome := func(t types.Type) bool {
		if t == nil {
			return false
		}
		if pt, ok := t.(*types.Pointer); ok {
			t = pt.Elem()
		}
		nm, ok := t.(*types.Named)
		return ok && outcome[nm]
	}
	readsOutcome := func(e ast.Expr) string {
		found := ""
		ast.Inspect(e, func(n ast.Node) bool {
			if x, ok := n.(ast.Expr); ok && found == "" {
				if tv, ok := info.Types[x]; ok && isOutcome(tv.Type) {
					found = exprStr(x)
				}
			}
			return true
		})
		return found
	}
	var obs []Obligation
	npanics := 0
	for _, fd := range AllFuncDecls(p) {
		if fd.Body == nil {
			continue
		}
		// the dispatcher and its handlers run inside a core: their panics are the business of other rules
		if fd.Recv != nil && recvTypeName(fd.Recv.List[0].Type) == "Core" {
			continue
		}
		var stack []ast.Node
		seen := map[string]int{}
		ast.Inspect(fd.Body, func(n ast.Node) bool {
			if n == nil {
				stack = stack[:len(stack)-1]
				return true
			}
			stack = append(stack, n)
			es, ok := n.(*ast.ExprStmt)
			if !ok || !IsPanicCall(info, es) {
				return true
			}
			npanics++
			var guards []string
			for i := len(stack) - 2; i >= 0; i-- {
				switch g := stack[i].(type) {
				case *ast.IfStmt:
					if r := readsOutcome(g.Cond); r != "" {
						guards = append(guards, "`"+exprStr(g.Cond)+"` reads "+r)
					}
				case *ast.SwitchStmt:
					if g.Tag != nil {
						if r := readsOutcome(g.Tag); r != "" {
							guards = append(guards, "switch on "+r)
						}
					}
				case *ast.FuncLit:
					i = -1
				}
			}
			key := fmt.Sprintf("runtime.%s|panic", FuncName(fd))
			seen[key]++
			if seen[key] > 1 {
				key += fmt.Sprintf("#%d", seen[key])
			}
			o := Obligation{Key: key + "|does not depend on the outcome of a run", Pos: c.Pos(es.Pos()), Nontrivial: true}
			if len(guards) > 0 {
				sort.Strings(guards)
				o.Status, o.Detail = Violated, "the panic is reached when "+strings.Join(guards, "; ")+": an exception or interrupt raised by the program (or a cancellation) crashes the host instead of being returned to it"
			} else {
				o.Status, o.Detail = Discharged, "no guarding condition reads a run outcome"
			}
			obs = append(obs, o)
			return true
		})
	}
	if npanics == 0 {
		obs = append(obs, Obligation{Key: "anchor", Status: Undecided, Detail: "no panic statement found in package runtime outside Core", Nontrivial: true})
	}
	return obs
}
