package main

import (
	"fmt"
	"go/ast"
	"go/types"
	"sort"
	"strings"
)

// r6sib — part of R-analyzer-preregister: the declaration passes of a driver run in dependency order.
//
// A *driver* is a function with several top-level loops over lists of one parameter (analyzeModule over the
// lists of the parsed program), each handing the elements to a pass function. For every pass the registries it
// WRITES (map / slice fields of the analyzer's structs that the functions it reaches store into: scope.Types,
// Module.Singletons, Module.Functions …) and the registries it READS (indexed / ranged over) are computed over the
// static call graph of the package. If pass A writes a registry that pass B reads and B writes nothing A reads, the
// names A declares must exist when B runs: A's loop comes before B's. (When each reads what the other writes the
// order is a language decision and nothing is required.) Otherwise a declaration that mentions a name of the same
// module declared by the later pass is rejected as undefined (a singleton whose type names a `type` of its module).

func r6sibPassOrderObligations(c *Ctx) []Obligation {
	p := c.Pkg("homescript/analyzer")
	info := p.TypesInfo
	decl := map[*types.Func]*ast.FuncDecl{}
	calls := map[*types.Func]map[*types.Func]bool{}
	reads := map[*types.Func]map[*types.Var]bool{}
	writes := map[*types.Func]map[*types.Var]bool{}
	registry := func(x ast.Expr) *types.Var {
		sel, ok := ast.Unparen(x).(*ast.SelectorExpr)
		if !ok {
			return nil
		}
		fv, ok := info.Uses[sel.Sel].(*types.Var)
		if !ok || !fv.IsField() || fv.Pkg() != p.Types {
			return nil
		}
		switch fv.Type().Underlying().(type) {
		case *types.Map, *types.Slice:
			return fv
		}
		return nil
	}
	for _, fd := range AllFuncDecls(p) {
		fn, _ := info.Defs[fd.Name].(*types.Func)
		if fn == nil || fd.Body == nil {
			continue
		}
		decl[fn] = fd
		calls[fn], reads[fn], writes[fn] = map[*types.Func]bool{}, map[*types.Var]bool{}, map[*types.Var]bool{}
		written := map[ast.Node]bool{}
		ast.Inspect(fd.Body, func(n ast.Node) bool {
			switch x := n.(type) {
			case *ast.CallExpr:
				if cal := CalleeOf(info, x); cal != nil && cal.Pkg() == p.Types {
					calls[fn][cal] = true
				}
			case *ast.AssignStmt:
				for i, l := range x.Lhs {
					target := ast.Unparen(l)
					if ix, ok := target.(*ast.IndexExpr); ok {
						if fv := registry(ix.X); fv != nil {
							writes[fn][fv] = true
							written[ix] = true
						}
						continue
					}
					if fv := registry(target); fv != nil && i < len(x.Rhs) {
						if call, ok := ast.Unparen(x.Rhs[i]).(*ast.CallExpr); ok {
							if id, ok := ast.Unparen(call.Fun).(*ast.Ident); ok && id.Name == "append" {
								writes[fn][fv] = true
							}
						}
					}
				}
			}
			return true
		})
		ast.Inspect(fd.Body, func(n ast.Node) bool {
			switch x := n.(type) {
			case *ast.IndexExpr:
				if fv := registry(x.X); fv != nil && !written[x] {
					reads[fn][fv] = true
				}
			case *ast.RangeStmt:
				if fv := registry(x.X); fv != nil {
					reads[fn][fv] = true
				}
			}
			return true
		})
	}
	type sets struct{ r, w map[*types.Var]bool }
	closure := func(roots []*types.Func) sets {
		s := sets{map[*types.Var]bool{}, map[*types.Var]bool{}}
		seen := map[*types.Func]bool{}
		work := append([]*types.Func(nil), roots...)
		for len(work) > 0 {
			f := work[len(work)-1]
			work = work[:len(work)-1]
			if seen[f] {
				continue
			}
			seen[f] = true
			for v := range reads[f] {
				s.r[v] = true
			}
			for v := range writes[f] {
				s.w[v] = true
			}
			for g := range calls[f] {
				work = append(work, g)
			}
		}
		return s
	}
	var out []Obligation
	for _, fd := range AllFuncDecls(p) {
		fn, _ := info.Defs[fd.Name].(*types.Func)
		if fn == nil || fd.Body == nil {
			continue
		}
		f := r2sibFuncOf(c, p, fd)
		type pass struct {
			loop  *ast.RangeStmt
			list  string
			funcs []*types.Func
			s     sets
		}
		var passes []*pass
		for _, st := range fd.Body.List {
			rs, ok := st.(*ast.RangeStmt)
			if !ok {
				continue
			}
			term := f.norm(rs.X)
			if !strings.HasPrefix(term, "$") || strings.Contains(term, "(") {
				continue
			}
			ps := &pass{loop: rs, list: f.pretty(term)}
			seen := map[*types.Func]bool{}
			ast.Inspect(rs.Body, func(n ast.Node) bool {
				if call, ok := n.(*ast.CallExpr); ok {
					if cal := CalleeOf(info, call); cal != nil && cal.Pkg() == p.Types && decl[cal] != nil && len(call.Args) > 0 && !seen[cal] {
						if t := f.norm(call.Args[0]); strings.HasPrefix(t, "elem(") {
							seen[cal] = true
							ps.funcs = append(ps.funcs, cal)
						}
					}
				}
				return true
			})
			if len(ps.funcs) == 0 {
				continue
			}
			sort.Slice(ps.funcs, func(i, j int) bool { return ps.funcs[i].Name() < ps.funcs[j].Name() })
			ps.s = closure(ps.funcs)
			passes = append(passes, ps)
		}
		if len(passes) < 3 {
			continue
		}
		name := func(ps *pass) string {
			var ns []string
			for _, g := range ps.funcs {
				ns = append(ns, g.Name())
			}
			return strings.Join(ns, "+") + " over " + ps.list
		}
		inter := func(a, b map[*types.Var]bool) []string {
			var r []string
			for v := range a {
				if b[v] {
					r = append(r, v.Name())
				}
			}
			sort.Strings(r)
			return r
		}
		for i, a := range passes {
			for j, b := range passes {
				if i == j {
					continue
				}
				ab := inter(a.s.w, b.s.r) // b needs what a declares
				ba := inter(b.s.w, a.s.r)
				if len(ab) == 0 || len(ba) != 0 {
					continue
				}
				ob := Obligation{Key: fmt.Sprintf("analyzer.%s|pass %s runs before pass %s", FuncName(fd), name(a), name(b)), Pos: c.Pos(b.loop.Pos()), Nontrivial: true}
				if i < j {
					ob.Detail = fmt.Sprintf("%s declares into %s, which %s reads (and reads nothing the latter declares): its loop comes first", name(a), strings.Join(ab, ", "), name(b))
				} else {
					ob.Status = Violated
					ob.Detail = fmt.Sprintf("%s reads %s, which %s fills for the declarations of this module, but its loop (%s) runs before the loop of %s (%s): a declaration that mentions a name declared by the later pass is reported as undefined", name(b), strings.Join(ab, ", "), name(a), c.Pos(b.loop.Pos()), name(a), c.Pos(a.loop.Pos()))
				}
				out = append(out, ob)
			}
		}
	}
	sort.SliceStable(out, func(i, j int) bool { return out[i].Key < out[j].Key })
	return out
}
