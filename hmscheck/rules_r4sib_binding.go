package main

import (
	"fmt"
	"go/ast"
	"go/token"
	"go/types"
	"sort"
	"strings"
)

// R-param-binding: the element-wise compatibility check of named, typed element lists (the parameters of a function
// type, the fields of an object type) establishes, per element, the agreement every engine's binding discipline
// relies on.

func init() {
	register(&Rule{ID: "R-param-binding", Floor: 6, Run: ruleR4ParamBinding,
		Doc: "(a) binding disciplines, extracted: in the interpreter and in the compiler every loop over the analysed call arguments (elements with a Name and an Expression) that evaluates / compiles the argument expressions is a binding site; it binds BY NAME when it reads the element's Name (the tree-walking interpreter stores each argument under arg.Name, the callee's body looks its parameters up by their declared names) and BY POSITION otherwise (the compiler pushes the arguments in order, the callee pops them into its parameters in order). The analyzer names the arguments of a call after the parameters of the STATIC type of the callee. (b) hence a function value may stand in for a function type only if, position by position, the parameter names agree (some engine binds by name) and a parameter found by name sits at the same position (some engine binds by position). Every *element-wise compatibility loop* of the analyzer is enumerated: a range loop over a list of named, typed elements (struct with an identifier field and a Type field: FunctionTypeParam, ObjectTypeField) whose body calls TypeCheck. All paths through one iteration are enumerated (inner search loop explored for no / one iteration, found-markers — a pointer to the matching element, a flag, an index — tracked by value). Every path that goes on to the next element without returning an error must have (type) a TypeCheck between the Type of the current element and the Type of a counterpart G answered nil; (name) decided `cur.Name == G.Name` true — or, for parameters, tested an explicit option of the options parameter true inside the iteration (the callers that run a callback positionally only opt out of names this way); (position, parameters only) G is the element at the current index of the other list, or its index was compared equal to the current index. Object fields are bound by name in both value libraries (map keyed by the field name): type and name are required. A path that lacks one of these accepts a function value whose parameters are named differently (the interpreter then panics with 'Variable not found') or ordered differently (the VM binds the wrong values) — C02: acceptance by the analyzer implies no engine panics."})
}

type r4pbFact struct {
	kind string // nameEq, idxEq, typeOK, opt
	a, b string
	val  bool
	pos  token.Pos
}

type r4pbState struct {
	facts []r4pbFact
	vals  map[types.Object]string        // markers: "nil", "true", "false", "const:<text>", "ref:<R>", "idx:<K>"
	calls map[types.Object]*ast.CallExpr // locals holding the result of a TypeCheck call
	// an error diagnostic was produced on the path: the element is rejected
	rejected bool
}

func r4pbClone(s *r4pbState) *r4pbState {
	n := &r4pbState{vals: map[types.Object]string{}, calls: map[types.Object]*ast.CallExpr{}, rejected: s.rejected}
	n.facts = append([]r4pbFact(nil), s.facts...)
	for k, v := range s.vals {
		n.vals[k] = v
	}
	for k, v := range s.calls {
		n.calls[k] = v
	}
	return n
}

func ruleR4ParamBinding(c *Ctx) []Obligation {
	e := r2sibEngineOf(c)
	var out []Obligation
	ap := c.Pkg("homescript/analyzer/ast")
	typeObj, _ := ap.Types.Scope().Lookup("Type").(*types.TypeName)
	if typeObj == nil {
		fatalf("anchor unresolved: analyzer/ast.Type")
	}
	// ---- (a) binding disciplines of the engines ----
	argT, _ := ap.Types.Scope().Lookup("AnalyzedCallArgument").(*types.TypeName)
	if argT == nil {
		fatalf("anchor unresolved: analyzer/ast.AnalyzedCallArgument")
	}
	argSt, _ := argT.Type().Underlying().(*types.Struct)
	var nameField, exprField *types.Var
	if argSt != nil {
		for i := 0; i < argSt.NumFields(); i++ {
			fl := argSt.Field(i)
			if b, ok := fl.Type().Underlying().(*types.Basic); ok && b.Info()&types.IsString != 0 && nameField == nil {
				nameField = fl
			}
			if n, ok := fl.Type().(*types.Named); ok && n.Obj().Name() == "AnalyzedExpression" {
				exprField = fl
			}
		}
	}
	if nameField == nil || exprField == nil {
		fatalf("anchor unresolved: AnalyzedCallArgument has no name / expression field")
	}
	byName, byPos := false, false
	for _, rel := range []string{"homescript/interpreter", "homescript/compiler"} {
		p := c.Pkg(rel)
		info := p.TypesInfo
		found := 0
		for _, fd := range AllFuncDecls(p) {
			if fd.Body == nil {
				continue
			}
			nLoop := 0
			ast.Inspect(fd.Body, func(n ast.Node) bool {
				var body *ast.BlockStmt
				var listExpr ast.Expr
				switch l := n.(type) {
				case *ast.RangeStmt:
					body, listExpr = l.Body, l.X
				case *ast.ForStmt:
					body = l.Body
					// an index loop: find list[i] of the argument type in the body
					ast.Inspect(l.Body, func(m ast.Node) bool {
						if ix, ok := m.(*ast.IndexExpr); ok && listExpr == nil {
							if tv, ok := info.Types[ix.X]; ok && tv.Type != nil {
								if sl, ok := tv.Type.Underlying().(*types.Slice); ok && types.Identical(sl.Elem(), argT.Type()) {
									listExpr = ix.X
								}
							}
						}
						return true
					})
				default:
					return true
				}
				if listExpr == nil {
					return true
				}
				tv, ok := info.Types[listExpr]
				if !ok || tv.Type == nil {
					return true
				}
				sl, ok := tv.Type.Underlying().(*types.Slice)
				if !ok || !types.Identical(sl.Elem(), argT.Type()) {
					return true
				}
				// evaluates the argument expressions?
				readsExpr, readsName := false, false
				ast.Inspect(body, func(m ast.Node) bool {
					if sel, ok := m.(*ast.SelectorExpr); ok {
						switch info.Uses[sel.Sel] {
						case types.Object(exprField):
							if call, ok := parentCall(body, sel); ok && call != nil {
								readsExpr = true
							}
						case types.Object(nameField):
							readsName = true
						}
					}
					return true
				})
				if !readsExpr {
					return true
				}
				nLoop++
				found++
				how := "position"
				if readsName {
					how = "name"
					byName = true
				} else {
					byPos = true
				}
				key := fmt.Sprintf("%s.%s|argument loop %d|binding discipline", rel, FuncName(fd), nLoop)
				out = append(out, Obligation{Key: key, Pos: c.Pos(n.Pos()), Nontrivial: true,
					Detail: fmt.Sprintf("the call arguments are bound by %s (the loop %s the Name of the analysed argument)", how, map[bool]string{true: "reads", false: "never reads"}[readsName])})
				return true
			})
		}
		if found == 0 {
			out = append(out, Obligation{Key: rel + "|binding discipline", Status: Undecided, Detail: "no loop over the analysed call arguments that evaluates their expressions was found: the binding discipline of this engine is unknown"})
		}
	}

	// ---- (b) element-wise compatibility loops of the analyzer ----
	p := c.Pkg("homescript/analyzer")
	info := p.TypesInfo
	// named, typed element: struct of analyzer/ast with a Type field and a (non-pointer) identifier field
	elemIdent := func(t types.Type) (*types.Named, *types.Var, *types.Var) {
		n, ok := types.Unalias(t).(*types.Named)
		if !ok || n.Obj().Pkg() != ap.Types || strings.HasPrefix(n.Obj().Name(), "Analyzed") {
			return nil, nil, nil // components of types only; Analyzed* structs are program-tree nodes
		}
		st, ok := n.Underlying().(*types.Struct)
		if !ok {
			return nil, nil, nil
		}
		var idf, tyf *types.Var
		for i := 0; i < st.NumFields(); i++ {
			fl := st.Field(i)
			if types.Identical(fl.Type(), typeObj.Type()) && tyf == nil {
				tyf = fl
			}
			if fn, ok := fl.Type().(*types.Named); ok && fn.Obj().Name() == "SpannedIdent" && idf == nil {
				idf = fl
			}
		}
		if idf == nil || tyf == nil {
			return nil, nil, nil
		}
		return n, idf, tyf
	}
	// any struct of analyzer/ast with an identifier field and a Type field can be the counterpart (the analysed
	// parameter of a method that is compared with the parameter of a required signature)
	anyElem := func(t types.Type) (*types.Var, *types.Var) {
		if pt, ok := t.(*types.Pointer); ok {
			t = pt.Elem()
		}
		n, ok := types.Unalias(t).(*types.Named)
		if !ok || n.Obj().Pkg() != ap.Types {
			return nil, nil
		}
		st, ok := n.Underlying().(*types.Struct)
		if !ok {
			return nil, nil
		}
		var idf, tyf *types.Var
		for i := 0; i < st.NumFields(); i++ {
			fl := st.Field(i)
			if types.Identical(fl.Type(), typeObj.Type()) && tyf == nil {
				tyf = fl
			}
			if fn, ok := fl.Type().(*types.Named); ok && fn.Obj().Name() == "SpannedIdent" && idf == nil {
				idf = fl
			}
		}
		if idf == nil || tyf == nil {
			return nil, nil
		}
		return idf, tyf
	}
	for _, fd := range AllFuncDecls(p) {
		if fd.Body == nil {
			continue
		}
		f := r2sibFuncOf(c, p, fd)
		// option parameters: struct-typed parameters with bool fields
		optParams := map[types.Object]bool{}
		for o := range f.params {
			if st, ok := o.Type().Underlying().(*types.Struct); ok {
				for i := 0; i < st.NumFields(); i++ {
					if b, ok := st.Field(i).Type().Underlying().(*types.Basic); ok && b.Kind() == types.Bool {
						optParams[o] = true
					}
				}
			}
		}
		var loops []*ast.RangeStmt
		var visit func(n ast.Node, inside bool)
		visit = func(n ast.Node, inside bool) {
			ast.Inspect(n, func(m ast.Node) bool {
				if m == n {
					return true
				}
				rs, ok := m.(*ast.RangeStmt)
				if !ok {
					return true
				}
				tv, ok := info.Types[rs.X]
				if ok && tv.Type != nil {
					if sl, ok := tv.Type.Underlying().(*types.Slice); ok {
						if en, _, _ := elemIdent(sl.Elem()); en != nil && !inside {
							hasTC := false
							ast.Inspect(rs.Body, func(x ast.Node) bool {
								if call, ok := x.(*ast.CallExpr); ok && CalleeOf(info, call) == e.roles.typeCheck {
									hasTC = true
								}
								return true
							})
							if hasTC {
								loops = append(loops, rs)
								return false // nested loops belong to this one
							}
						}
					}
				}
				return true
			})
		}
		visit(fd.Body, false)
		for li, loop := range loops {
			sl := info.Types[loop.X].Type.Underlying().(*types.Slice)
			en, _, _ := elemIdent(sl.Elem())
			isParam := strings.Contains(en.Obj().Name(), "Param")
			// the disciplines that apply: parameters are bound as the engines bind call arguments; the fields of an
			// object are bound by name (both value libraries keep them in a map keyed by the field name)
			needName, needPos := true, false
			if isParam {
				needName, needPos = byName, byPos
			}
			L1 := f.norm(loop.X)
			L1name := f.pretty(L1)
			if strings.Contains(L1, "make(") || strings.Contains(L1, "local(") {
				L1name = exprStr(loop.X) // a list the function builds itself: named after its variable
			}
			var outerVal, outerKey types.Object
			if id, ok := loop.Value.(*ast.Ident); ok {
				outerVal = info.Defs[id]
			}
			if id, ok := loop.Key.(*ast.Ident); ok && id.Name != "_" {
				outerKey = info.Defs[id]
			}
			innerVal := map[types.Object]bool{}
			innerKey := map[types.Object]bool{}
			ast.Inspect(loop.Body, func(m ast.Node) bool {
				rs, ok := m.(*ast.RangeStmt)
				if !ok {
					return true
				}
				if tv, ok := info.Types[rs.X]; ok && tv.Type != nil {
					if s2, ok := tv.Type.Underlying().(*types.Slice); ok && types.Identical(s2.Elem(), sl.Elem()) && f.norm(rs.X) != L1 {
						if id, ok := rs.Value.(*ast.Ident); ok {
							innerVal[info.Defs[id]] = true
						}
						if id, ok := rs.Key.(*ast.Ident); ok && id.Name != "_" {
							innerKey[info.Defs[id]] = true
						}
					}
				}
				return true
			})
			objOf := func(id *ast.Ident) types.Object {
				if o := info.Defs[id]; o != nil {
					return o
				}
				return info.Uses[id]
			}
			// index terms: OK = the current index of the outer loop, IK = the index of the inner element
			var idxRef func(st *r4pbState, x ast.Expr) string
			idxRef = func(st *r4pbState, x ast.Expr) string {
				id, ok := ast.Unparen(x).(*ast.Ident)
				if !ok {
					return ""
				}
				o := objOf(id)
				switch {
				case o != nil && o == outerKey:
					return "OK"
				case innerKey[o]:
					return "IK"
				}
				if v, ok := st.vals[o]; ok && strings.HasPrefix(v, "idx:") {
					return v[4:]
				}
				return ""
			}
			// element references: E = the current element, I = the element of the inner search loop, P = the element
			// of the other list at the current index
			var ref func(st *r4pbState, x ast.Expr) string
			ref = func(st *r4pbState, x ast.Expr) string {
				x = ast.Unparen(x)
				switch y := x.(type) {
				case *ast.StarExpr:
					return ref(st, y.X)
				case *ast.UnaryExpr:
					if y.Op == token.AND {
						return ref(st, y.X)
					}
				case *ast.Ident:
					o := objOf(y)
					switch {
					case o != nil && o == outerVal:
						return "E"
					case innerVal[o]:
						return "I"
					}
					if v, ok := st.vals[o]; ok && strings.HasPrefix(v, "ref:") {
						return v[4:]
					}
				case *ast.IndexExpr:
					tv, ok := info.Types[y.X]
					if !ok || tv.Type == nil {
						return ""
					}
					s2, ok := tv.Type.Underlying().(*types.Slice)
					if !ok {
						return ""
					}
					if a, _ := anyElem(s2.Elem()); a == nil {
						return ""
					}
					k := idxRef(st, y.Index)
					same := f.norm(y.X) == L1
					switch {
					case k == "OK" && same:
						return "E"
					case k == "OK":
						return "P"
					case k == "IK" && !same:
						return "I"
					}
				}
				return ""
			}
			// X.<ident field>.Ident() / .String() / the field itself → the element whose name it is
			nameOf := func(st *r4pbState, x ast.Expr) string {
				x = ast.Unparen(x)
				if call, ok := x.(*ast.CallExpr); ok && len(call.Args) == 0 {
					if sel, ok := ast.Unparen(call.Fun).(*ast.SelectorExpr); ok {
						x = ast.Unparen(sel.X)
					}
				}
				sel, ok := x.(*ast.SelectorExpr)
				if !ok {
					return ""
				}
				if idf, _ := anyElem(info.TypeOf(sel.X)); idf == nil || info.Uses[sel.Sel] != types.Object(idf) {
					return ""
				}
				return ref(st, sel.X)
			}
			typeOf := func(st *r4pbState, x ast.Expr) string {
				x = ast.Unparen(x)
				for {
					// span adapters: X.Type.SetSpan(…)
					call, ok := x.(*ast.CallExpr)
					if !ok {
						break
					}
					cs, ok := ast.Unparen(call.Fun).(*ast.SelectorExpr)
					if !ok || !r2sibStripMethods[cs.Sel.Name] {
						break
					}
					x = ast.Unparen(cs.X)
				}
				sel, ok := x.(*ast.SelectorExpr)
				if !ok {
					return ""
				}
				if _, tyf := anyElem(info.TypeOf(sel.X)); tyf == nil || info.Uses[sel.Sel] != types.Object(tyf) {
					return ""
				}
				return ref(st, sel.X)
			}
			isNil := func(x ast.Expr) bool {
				id, ok := ast.Unparen(x).(*ast.Ident)
				return ok && id.Name == "nil"
			}
			w := &Walker[*r4pbState]{Clone: r4pbClone}
			w.MaxPaths = 20000
			w.IsPanic = func(s ast.Stmt) bool { return IsPanicCall(info, s) }
			assign := func(st *r4pbState, lhs *ast.Ident, rhs ast.Expr) {
				o := objOf(lhs)
				if o == nil {
					return
				}
				delete(st.vals, o)
				delete(st.calls, o)
				if rhs == nil {
					// declared without a value: the zero value
					switch o.Type().Underlying().(type) {
					case *types.Pointer, *types.Interface:
						st.vals[o] = "nil"
					case *types.Basic:
						if o.Type().Underlying().(*types.Basic).Kind() == types.Bool {
							st.vals[o] = "false"
						}
					}
					return
				}
				rhs = ast.Unparen(rhs)
				if isNil(rhs) {
					st.vals[o] = "nil"
					return
				}
				if id, ok := rhs.(*ast.Ident); ok && (id.Name == "true" || id.Name == "false") {
					st.vals[o] = id.Name
					return
				}
				if call, ok := rhs.(*ast.CallExpr); ok && CalleeOf(info, call) == e.roles.typeCheck {
					st.calls[o] = call
					return
				}
				if sel, ok := rhs.(*ast.SelectorExpr); ok {
					if id, ok := ast.Unparen(sel.X).(*ast.Ident); ok && optParams[objOf(id)] {
						st.vals[o] = "opt:" + sel.Sel.Name
						return
					}
				}
				if r := ref(st, rhs); r != "" {
					st.vals[o] = "ref:" + r
					return
				}
				if k := idxRef(st, rhs); k != "" {
					st.vals[o] = "idx:" + k
					return
				}
				if tv, ok := info.Types[rhs]; ok && tv.Value != nil {
					st.vals[o] = "const:" + tv.Value.ExactString()
				}
			}
			w.OnStmt = func(st *r4pbState, s ast.Stmt) (*r4pbState, bool) {
				switch x := s.(type) {
				case *ast.ExprStmt:
					if call, ok := ast.Unparen(x.X).(*ast.CallExpr); ok && e.roles.diagPrim[CalleeOf(info, call)] == "error" {
						st.rejected = true
					}
				case *ast.AssignStmt:
					if len(x.Lhs) == 1 {
						if sel, ok := ast.Unparen(x.Lhs[0]).(*ast.SelectorExpr); ok && info.Uses[sel.Sel] == types.Object(e.roles.diagField) {
							st.rejected = true
						}
					}
					if len(x.Lhs) == len(x.Rhs) {
						for i, l := range x.Lhs {
							if id, ok := l.(*ast.Ident); ok && (x.Tok == token.ASSIGN || x.Tok == token.DEFINE) {
								assign(st, id, x.Rhs[i])
							}
						}
					} else {
						for _, l := range x.Lhs {
							if id, ok := l.(*ast.Ident); ok {
								if o := objOf(id); o != nil {
									delete(st.vals, o)
									delete(st.calls, o)
								}
							}
						}
					}
				case *ast.DeclStmt:
					if gd, ok := x.Decl.(*ast.GenDecl); ok {
						for _, sp := range gd.Specs {
							if vs, ok := sp.(*ast.ValueSpec); ok {
								for i, n := range vs.Names {
									if i < len(vs.Values) {
										assign(st, n, vs.Values[i])
									} else if len(vs.Values) == 0 {
										assign(st, n, nil)
									}
								}
							}
						}
					}
				}
				return st, true
			}
			w.OnCond = func(st *r4pbState, cond ast.Expr, taken bool) (*r4pbState, bool) {
				cond = ast.Unparen(cond)
				add := func(kind, a, b string, val bool) {
					if kind != "opt" && b < a {
						a, b = b, a
					}
					st.facts = append(st.facts, r4pbFact{kind, a, b, val, cond.Pos()})
				}
				switch x := cond.(type) {
				case *ast.Ident:
					if o := objOf(x); o != nil {
						if v, ok := st.vals[o]; ok && (v == "true" || v == "false") {
							return st, (v == "true") == taken
						}
						if v, ok := st.vals[o]; ok && strings.HasPrefix(v, "opt:") {
							add("opt", v[4:], "", taken)
						}
					}
				case *ast.SelectorExpr:
					if id, ok := ast.Unparen(x.X).(*ast.Ident); ok && optParams[objOf(id)] {
						add("opt", x.Sel.Name, "", taken)
					}
				case *ast.BinaryExpr:
					switch x.Op {
					case token.EQL, token.NEQ:
						eq := (x.Op == token.EQL) == taken
						if a, b := nameOf(st, x.X), nameOf(st, x.Y); a != "" && b != "" {
							add("nameEq", a, b, eq)
							return st, true
						}
						if a, b := idxRef(st, x.X), idxRef(st, x.Y); a != "" && b != "" {
							add("idxEq", a, b, eq)
							return st, true
						}
						for _, pr := range [][2]ast.Expr{{x.X, x.Y}, {x.Y, x.X}} {
							if call, ok := ast.Unparen(pr[0]).(*ast.CallExpr); ok && isNil(pr[1]) && CalleeOf(info, call) == e.roles.typeCheck && len(call.Args) >= 2 {
								if a, b := typeOf(st, call.Args[0]), typeOf(st, call.Args[1]); a != "" && b != "" {
									add("typeOK", a, b, eq)
								}
								return st, true
							}
							id, ok := ast.Unparen(pr[0]).(*ast.Ident)
							if !ok {
								continue
							}
							o := objOf(id)
							if o == nil {
								continue
							}
							if isNil(pr[1]) {
								if call := st.calls[o]; call != nil && len(call.Args) >= 2 {
									if a, b := typeOf(st, call.Args[0]), typeOf(st, call.Args[1]); a != "" && b != "" {
										add("typeOK", a, b, eq)
									}
									return st, true
								}
								if v, ok := st.vals[o]; ok {
									if v == "nil" {
										return st, eq
									}
									if strings.HasPrefix(v, "ref:") {
										return st, !eq
									}
								}
								continue
							}
							// marker compared with a constant
							if tv, ok := info.Types[pr[1]]; ok && tv.Value != nil {
								if v, ok := st.vals[o]; ok {
									if strings.HasPrefix(v, "const:") {
										return st, (v[6:] == tv.Value.ExactString()) == eq
									}
									if strings.HasPrefix(v, "idx:") && strings.HasPrefix(tv.Value.ExactString(), "-") {
										return st, !eq
									}
								}
							}
						}
					case token.LSS, token.GEQ:
						// marker < 0 / marker >= 0
						if id, ok := ast.Unparen(x.X).(*ast.Ident); ok {
							if tv, ok := info.Types[x.Y]; ok && tv.Value != nil && tv.Value.ExactString() == "0" {
								if v, ok := st.vals[objOf(id)]; ok {
									neg := strings.HasPrefix(v, "const:-")
									if strings.HasPrefix(v, "const:") || strings.HasPrefix(v, "idx:") {
										return st, (neg == (x.Op == token.LSS)) == taken
									}
								}
							}
						}
					}
				case *ast.CallExpr:
					_ = x
				}
				return st, true
			}
			type verdict struct {
				at    token.Pos
				how   string
				lacks []string
			}
			var bad []verdict
			nDone := 0
			pre := r4pbKnownOptions(info, fd, loop, optParams)
			w.Exit = func(st *r4pbState, o outcome) {
				if o.kind == cReturn || o.kind == cPanic || st.rejected {
					return
				}
				nDone++
				how := "reaches the end of the iteration"
				at := loop.Body.Rbrace
				if o.kind == cContinue {
					how, at = "continues with the next element", o.at
				} else if o.kind == cBreak {
					how, at = "leaves the loop", o.at
				}
				// counterparts whose type was checked successfully
				var gs []string
				for _, ft := range st.facts {
					if ft.kind == "typeOK" && ft.val {
						g := ft.a
						if g == "E" {
							g = ft.b
						}
						if g != "E" || ft.a == "E" && ft.b == "E" {
							gs = append(gs, g)
						}
					}
				}
				has := func(kind, a, b string) bool {
					if b < a {
						a, b = b, a
					}
					for _, ft := range st.facts {
						if ft.kind == kind && ft.a == a && ft.b == b && ft.val {
							return true
						}
					}
					return false
				}
				waived := ""
				for _, ft := range st.facts {
					if ft.kind == "opt" && ft.val && !pre[ft.a] {
						waived = ft.a
					}
				}
				if len(gs) == 0 {
					bad = append(bad, verdict{at, how, []string{"type: no TypeCheck between the type of the current element and the type of a counterpart was answered nil"}})
					return
				}
				var best []string
				for i, g := range gs {
					var lacks []string
					gname := map[string]string{"I": "the element found by the search loop", "P": "the element at the same index of the other list"}[g]
					if needName && !has("nameEq", "E", g) && !(isParam && waived != "") {
						lacks = append(lacks, fmt.Sprintf("name: the name of the current element was not compared equal to the name of %s, and no option of the options parameter was tested true in the iteration", gname))
					}
					if needPos && g != "P" && !(g == "I" && has("idxEq", "IK", "OK")) {
						lacks = append(lacks, fmt.Sprintf("position: %s is not known to sit at the current index", gname))
					}
					if i == 0 || len(lacks) < len(best) {
						best = lacks
					}
				}
				if len(best) > 0 {
					bad = append(bad, verdict{at, how, best})
				}
			}
			w.Run(loop.Body, &r4pbState{vals: map[types.Object]string{}, calls: map[types.Object]*ast.CallExpr{}})
			key := fmt.Sprintf("homescript/analyzer.%s|elements of %s", FuncName(fd), L1name)
			if li > 0 {
				for _, prev := range loops[:li] {
					if f.norm(prev.X) == L1 {
						key += fmt.Sprintf(" #%d", li+1)
						break
					}
				}
			}
			var needs []string
			needs = append(needs, "type")
			if needName {
				needs = append(needs, "name")
			}
			if needPos {
				needs = append(needs, "position")
			}
			ob := Obligation{Key: key + "|every accepted element agrees in " + strings.Join(needs, ", "), Pos: c.Pos(loop.Pos()), Nontrivial: true}
			switch {
			case w.Overflow || len(w.Unsupported) > 0:
				ob.Status = Undecided
				ob.Detail = "the paths of one iteration could not be enumerated"
			case nDone == 0:
				ob.Status = Undecided
				ob.Detail = "no path completes an iteration: shape not understood"
			case len(bad) > 0:
				seen := map[string]bool{}
				var msgs []string
				for _, b := range bad {
					m := fmt.Sprintf("a path that %s (%s) lacks %s", b.how, c.Pos(b.at), strings.Join(b.lacks, " and "))
					if !seen[m] {
						seen[m] = true
						msgs = append(msgs, m)
					}
				}
				sort.Strings(msgs)
				if len(msgs) > 3 {
					msgs = append(msgs[:3], fmt.Sprintf("… (%d more)", len(msgs)-3))
				}
				ob.Status = Violated
				ob.Detail = fmt.Sprintf("%s elements (%s): %s", en.Obj().Name(), map[bool]string{true: "bound as call arguments are: by name in one engine, by position in the other", false: "bound by name"}[isParam], strings.Join(msgs, "; "))
			default:
				ob.Detail = fmt.Sprintf("%d paths complete an iteration of the loop over %s elements; each has a TypeCheck of the element's type answered nil%s%s", nDone, en.Obj().Name(),
					map[bool]string{true: map[bool]string{true: ", the names compared equal (or an option of the options parameter tested true)", false: ", the names compared equal"}[isParam], false: ""}[needName],
					map[bool]string{true: ", and the counterpart at the same index", false: ""}[needPos])
			}
			out = append(out, ob)
		}
	}
	sort.SliceStable(out, func(i, j int) bool { return out[i].Key < out[j].Key })
	return out
}

// parentCall: the selector is (part of) an argument of a call inside body.
func parentCall(body ast.Node, sel *ast.SelectorExpr) (*ast.CallExpr, bool) {
	var hit *ast.CallExpr
	ast.Inspect(body, func(n ast.Node) bool {
		call, ok := n.(*ast.CallExpr)
		if !ok {
			return true
		}
		for _, a := range call.Args {
			if a.Pos() <= sel.Pos() && sel.End() <= a.End() {
				hit = call
			}
		}
		return true
	})
	return hit, hit != nil
}

// r4pbKnownOptions: options of the options parameter whose value is already decided when the loop is reached
// (`if !options.X { return }` before it, an enclosing `if options.X`): testing them again inside the iteration
// decides nothing.
func r4pbKnownOptions(info *types.Info, fd *ast.FuncDecl, loop ast.Node, optParams map[types.Object]bool) map[string]bool {
	known := map[string]bool{}
	optOf := func(x ast.Expr) string {
		x = ast.Unparen(x)
		if u, ok := x.(*ast.UnaryExpr); ok && u.Op == token.NOT {
			x = ast.Unparen(u.X)
		}
		if sel, ok := x.(*ast.SelectorExpr); ok {
			if id, ok := ast.Unparen(sel.X).(*ast.Ident); ok && optParams[info.Uses[id]] {
				return sel.Sel.Name
			}
		}
		return ""
	}
	var chain []ast.Node
	ast.Inspect(fd.Body, func(n ast.Node) bool {
		if n == nil || loop.Pos() < n.Pos() || loop.End() > n.End() {
			return false
		}
		chain = append(chain, n)
		return true
	})
	for i, n := range chain {
		var list []ast.Stmt
		switch x := n.(type) {
		case *ast.BlockStmt:
			list = x.List
		case *ast.CaseClause:
			list = x.Body
		case *ast.IfStmt:
			if o := optOf(x.Cond); o != "" {
				known[o] = true
			}
		}
		for _, st := range list {
			if i+1 < len(chain) && st == chain[i+1] || st.Pos() >= loop.Pos() {
				break
			}
			if ifs, ok := st.(*ast.IfStmt); ok {
				if o := optOf(ifs.Cond); o != "" {
					known[o] = true
				}
			}
		}
	}
	return known
}
