package main

import (
	"fmt"
	"go/ast"
	"go/constant"
	"go/token"
	"go/types"
	"os"
	"path/filepath"
	"regexp"
	"sort"
	"strconv"
	"strings"

	"golang.org/x/tools/go/packages"
)

func init() {
	register(&Rule{ID: "R-lexeme-tables", Floor: 100, Run: ruleLexemeTables,
		Doc: "the lexeme tables agree with each other: (1) for every token kind a token→operator conversion of parser/ast maps, operator.String() equals TokenKind.String() of that kind, and where analyzer/ast declares its own operator enum the analyzer's conversion pairs operators that print the same string — a printed operator re-lexes to the same kind (C19) and error messages name the real lexeme (C06); (2) every keyword the lexer's keyword switch recognises displays as that keyword (extra spellings of one kind are aliases listed by the lexer itself), and every word-like display string of a kind the lexer does not build elsewhere is a recognised keyword; (3) every escape letter of the lexer denotes the rune Go's own escape of that letter denotes; (4) the printers' string escaping is the inverse of the lexer's escapes on what it covers, covers at least backslash and the delimiting quote, and — when applied by ranging over a map — its replacements commute (no replacement text contains another entry's key), otherwise the printed literal depends on map iteration order; (5) the operator and escape lists of grammar.ebnf contain every operator/escape the code accepts."})
}

func ruleLexemeTables(c *Ctx) []Obligation {
	r := pxDiscover(c)
	pxIndexDecls(c)
	var obs []Obligation
	add := func(key, pos string, fails []string, okDetail string, nontrivial bool) {
		o := Obligation{Key: key, Pos: pos, Nontrivial: nontrivial}
		if len(fails) > 0 {
			o.Status, o.Detail = Violated, strings.Join(fails, "; ")
		} else {
			o.Status, o.Detail = Discharged, okDetail
		}
		obs = append(obs, o)
	}

	// ---------------- (1) operators
	maps := r.opMaps()
	if len(maps) < 3 {
		fatalf("anchor unresolved: fewer than 3 token→operator conversions found in parser/ast")
	}
	codeOps := map[string]map[string]bool{} // conversion name → set of lexemes
	for _, m := range maps {
		codeOps[m.fn.Name()] = map[string]bool{}
		var ks []string
		for k := range m.m {
			ks = append(ks, k)
		}
		sort.Strings(ks)
		for _, k := range ks {
			op := m.m[k]
			var fails []string
			d, hasD := r.display[k]
			s, hasS := m.display[op]
			switch {
			case !hasD:
				fails = append(fails, fmt.Sprintf("token kind %s has no display string", k))
			case !hasS:
				fails = append(fails, fmt.Sprintf("%s.String() has no case for %s (it panics when the operator is printed)", m.enum.Obj().Name(), op))
			case d != s:
				fails = append(fails, fmt.Sprintf("%s(%s) = %s prints as %q but the token displays as %q: the printed operator lexes to a different token", m.fn.Name(), k, op, s, d))
			}
			if hasD {
				codeOps[m.fn.Name()][d] = true
			}
			add(fmt.Sprintf("operator|%s(%s)=%s prints the token's lexeme", m.fn.Name(), k, op), c.Pos(m.fd.Pos()), fails, fmt.Sprintf("%q", d), true)
		}
		// operators no token maps to
		img := map[string]bool{}
		for _, op := range m.m {
			img[op] = true
		}
		if e := c.EnumOf(m.enum); e != nil {
			for _, k := range e.Consts {
				if !img[k.Name()] {
					obs = append(obs, Obligation{Key: fmt.Sprintf("operator|%s.%s is produced from a token", m.enum.Obj().Name(), k.Name()), Pos: c.Pos(k.Pos()), Status: Info,
						Detail: fmt.Sprintf("no token kind is converted to %s by %s", k.Name(), m.fn.Name())})
				}
			}
		}
		if !m.panics {
			obs = append(obs, Obligation{Key: "operator|" + m.fn.Name() + " default clause", Pos: c.Pos(m.fd.Pos()), Status: Info, Detail: "the conversion has no panicking default: an unmapped kind silently becomes the zero operator"})
		}
	}
	// twin enums in analyzer/ast
	obs = append(obs, r.twinOperatorObligations(maps)...)

	// ---------------- (2) keywords
	obs = append(obs, r.keywordObligations()...)

	// ---------------- (3) + (4) escapes
	lexEsc, escFd, escObs := r.lexerEscapes()
	obs = append(obs, escObs...)
	obs = append(obs, r.printerEscapeObligations(lexEsc, escFd)...)

	// ---------------- (5) grammar.ebnf
	obs = append(obs, r.grammarObligations(codeOps, lexEsc)...)
	return obs
}

// ---------------------------------------------------------------------
// twin operator enums

func (r *pxRoles) twinOperatorObligations(maps []*pxOpMap) []Obligation {
	c := r.c
	var obs []Obligation
	aa := c.Pkg("homescript/analyzer/ast")
	an := c.Pkg("homescript/analyzer")
	for _, m := range maps {
		tn, _ := aa.Types.Scope().Lookup(m.enum.Obj().Name()).(*types.TypeName)
		if tn == nil {
			continue // the analyzer reuses the parser's enum: nothing to compare
		}
		twin, ok := tn.Type().(*types.Named)
		if !ok || c.EnumOf(twin) == nil {
			continue
		}
		twinDisp := pxStringerTable(aa.TypesInfo, aa.Types, twin)
		// the analyzer's conversion: a switch whose case constants have the parser
		// enum's type and whose clause assigns/returns a constant of the twin type
		pairs := map[string]string{}
		var where token.Pos
		for _, fd := range AllFuncDecls(an) {
			ast.Inspect(fd.Body, func(n ast.Node) bool {
				cc, ok := n.(*ast.CaseClause)
				if !ok || len(cc.List) == 0 {
					return true
				}
				var from []*types.Const
				for _, e := range cc.List {
					if k := ConstOf(an.TypesInfo, e); k != nil && types.Identical(k.Type(), m.enum) {
						from = append(from, k)
					}
				}
				if len(from) == 0 {
					return true
				}
				for _, s := range cc.Body {
					var e ast.Expr
					switch x := s.(type) {
					case *ast.AssignStmt:
						if len(x.Rhs) == 1 {
							e = x.Rhs[0]
						}
					case *ast.ReturnStmt:
						if len(x.Results) >= 1 {
							e = x.Results[0]
						}
					}
					if e == nil {
						continue
					}
					if k := ConstOf(an.TypesInfo, e); k != nil && types.Identical(k.Type(), twin) {
						for _, f := range from {
							pairs[f.Name()] = k.Name()
							where = cc.Pos()
						}
					}
				}
				return true
			})
		}
		how := "the analyzer's conversion switch"
		if len(pairs) == 0 {
			how = "equal constant names (no conversion switch found in package analyzer)"
			if e := c.EnumOf(m.enum); e != nil {
				for _, k := range e.Consts {
					if aa.Types.Scope().Lookup(k.Name()) != nil {
						pairs[k.Name()] = k.Name()
					}
				}
			}
		}
		e := c.EnumOf(m.enum)
		for _, k := range e.Consts {
			key := fmt.Sprintf("operator twin|parser/ast.%s.%s ↔ analyzer/ast", m.enum.Obj().Name(), k.Name())
			o := Obligation{Key: key, Pos: c.Pos(k.Pos()), Nontrivial: true}
			if where.IsValid() {
				o.Pos = c.Pos(where)
			}
			t, ok := pairs[k.Name()]
			switch {
			case !ok:
				o.Status, o.Detail = Violated, fmt.Sprintf("no analyzer/ast.%s corresponds to %s (%s)", twin.Obj().Name(), k.Name(), how)
			case m.display[k.Name()] != twinDisp[t]:
				o.Status, o.Detail = Violated, fmt.Sprintf("parser/ast prints %s as %q, analyzer/ast prints the corresponding %s as %q", k.Name(), m.display[k.Name()], t, twinDisp[t])
			default:
				o.Status, o.Detail = Discharged, fmt.Sprintf("%s ↔ %s (by %s), both print %q", k.Name(), t, how, twinDisp[t])
			}
			obs = append(obs, o)
		}
	}
	return obs
}

// ---------------------------------------------------------------------
// keywords

func (r *pxRoles) keywordObligations() []Obligation {
	c := r.c
	info := r.lex.info
	var obs []Obligation
	// the keyword switch: constant string cases, clause assigns/returns a TokenKind constant
	var sw *ast.SwitchStmt
	var host *ast.FuncDecl
	for _, fd := range AllFuncDecls(r.lex.pkg) {
		ast.Inspect(fd.Body, func(n ast.Node) bool {
			x, ok := n.(*ast.SwitchStmt)
			if !ok || x.Tag == nil {
				return true
			}
			nstr := 0
			for _, cl := range x.Body.List {
				for _, e := range cl.(*ast.CaseClause).List {
					if tv := info.Types[e]; tv.Value != nil && tv.Value.Kind() == constant.String {
						nstr++
					}
				}
			}
			if nstr >= 5 && (sw == nil || nstr > len(sw.Body.List)) {
				sw, host = x, fd
			}
			return true
		})
	}
	// the same table written as data: a map[string]TokenKind literal (package-level or local)
	var mapLit *ast.CompositeLit
	if sw == nil {
		for _, f := range r.lex.pkg.Syntax {
			ast.Inspect(f, func(n ast.Node) bool {
				cl, ok := n.(*ast.CompositeLit)
				if !ok {
					return true
				}
				mt, ok := info.TypeOf(cl).Underlying().(*types.Map)
				if !ok || !types.Identical(mt.Elem(), r.kindT) {
					return true
				}
				if b, ok := mt.Key().Underlying().(*types.Basic); !ok || b.Kind() != types.String {
					return true
				}
				if len(cl.Elts) >= 5 && (mapLit == nil || len(cl.Elts) > len(mapLit.Elts)) {
					mapLit = cl
				}
				return true
			})
		}
	}
	if sw == nil && mapLit == nil {
		return []Obligation{{Key: "keywords|keyword switch", Pos: "-", Status: Undecided, Detail: "no switch over string constants assigning token kinds (and no map[string]TokenKind literal) found in package lexer"}}
	}
	kw := map[string]string{}       // spelling → kind
	byKind := map[string][]string{} // kind → spellings
	defKind := ""
	var tableNode ast.Node = mapLit
	tablePos := token.NoPos
	hostPos := token.NoPos
	if mapLit != nil {
		tablePos, hostPos = mapLit.Pos(), mapLit.Pos()
		for _, el := range mapLit.Elts {
			kv, ok := el.(*ast.KeyValueExpr)
			if !ok {
				continue
			}
			tv := info.Types[kv.Key]
			if tv.Value == nil || tv.Value.Kind() != constant.String {
				continue
			}
			sp := constant.StringVal(tv.Value)
			kind := r.canonKind(info, kv.Value)
			if kind == "" {
				obs = append(obs, Obligation{Key: "keywords|" + sp, Pos: c.Pos(kv.Pos()), Status: Undecided, Detail: "entry does not map to a token kind constant"})
				continue
			}
			kw[sp] = kind
			byKind[kind] = append(byKind[kind], sp)
		}
		sw = &ast.SwitchStmt{Body: &ast.BlockStmt{}}
	} else {
		tableNode = sw
		tablePos, hostPos = sw.Pos(), host.Pos()
	}
	for _, cl := range sw.Body.List {
		cc := cl.(*ast.CaseClause)
		kind := ""
		for _, s := range cc.Body {
			var e ast.Expr
			switch x := s.(type) {
			case *ast.AssignStmt:
				if len(x.Rhs) == 1 {
					e = x.Rhs[0]
				}
			case *ast.ReturnStmt:
				if len(x.Results) >= 1 {
					e = x.Results[0]
				}
			}
			if e != nil {
				if k := r.canonKind(info, e); k != "" {
					kind = k
				}
			}
		}
		if cc.List == nil {
			defKind = kind
			continue
		}
		for _, e := range cc.List {
			tv := info.Types[e]
			if tv.Value == nil || tv.Value.Kind() != constant.String {
				continue
			}
			s := constant.StringVal(tv.Value)
			if kind == "" {
				obs = append(obs, Obligation{Key: "keywords|" + s, Pos: c.Pos(cc.Pos()), Status: Undecided, Detail: "clause does not assign a token kind constant"})
				continue
			}
			kw[s] = kind
			byKind[kind] = append(byKind[kind], s)
		}
	}
	var spell []string
	for s := range kw {
		spell = append(spell, s)
	}
	sort.Strings(spell)
	for _, s := range spell {
		k := kw[s]
		d, has := r.display[k]
		o := Obligation{Key: fmt.Sprintf("keyword|%q → %s", s, k), Pos: c.Pos(tablePos), Nontrivial: true}
		switch {
		case !has:
			o.Status, o.Detail = Violated, fmt.Sprintf("kind %s has no display string in TokenKind.String (formatting it panics)", k)
		case d == s:
			o.Status, o.Detail = Discharged, "display equals the spelling"
		default:
			// alias: another spelling of the same kind must equal the display
			ok := false
			for _, other := range byKind[k] {
				if other == d {
					ok = true
				}
			}
			if ok {
				o.Status, o.Detail = Discharged, fmt.Sprintf("alias of %q, which the lexer lists for the same kind", d)
			} else {
				o.Status, o.Detail = Violated, fmt.Sprintf("the lexer turns %q into %s, which displays (and is printed) as %q — and %q is not itself a spelling of %s: text printed from the kind does not lex back to it", s, k, d, d, k)
			}
		}
		obs = append(obs, o)
	}
	// converse: word-like displays must be keywords unless the kind is built elsewhere in the lexer
	builtElsewhere := map[string]bool{}
	if defKind != "" {
		builtElsewhere[defKind] = true
	}
	stringFd := c.MustFunc("homescript/lexer", "TokenKind", "String")
	precFd := r.decls[r.powerFn()]
	for _, f := range r.lex.pkg.Syntax {
		ast.Inspect(f, func(n ast.Node) bool {
			if n == nil {
				return true
			}
			if n == tableNode || n == ast.Node(stringFd) || n == ast.Node(precFd) {
				return false
			}
			if gd, ok := n.(*ast.GenDecl); ok && gd.Tok == token.CONST {
				return false
			}
			if e, ok := n.(ast.Expr); ok {
				if k := r.canonKind(info, e); k != "" {
					builtElsewhere[k] = true
				}
			}
			return true
		})
	}
	var kinds []string
	for k := range r.display {
		kinds = append(kinds, k)
	}
	sort.Strings(kinds)
	for _, k := range kinds {
		d := r.display[k]
		if !isAlphaWord(d) || builtElsewhere[k] {
			continue
		}
		o := Obligation{Key: fmt.Sprintf("keyword kind|%s %q is recognised", k, d), Pos: c.Pos(hostPos), Nontrivial: true}
		if kw[d] == k {
			o.Status, o.Detail = Discharged, "the keyword switch maps the display string to this kind"
		} else if kw[d] != "" {
			o.Status, o.Detail = Violated, fmt.Sprintf("the keyword switch maps %q to %s, not to %s", d, kw[d], k)
		} else {
			o.Status, o.Detail = Violated, fmt.Sprintf("kind %s displays as the word %q but the lexer's keyword switch has no case %q (spellings of this kind: %v): the keyword cannot be written", k, d, d, byKind[k])
		}
		obs = append(obs, o)
	}
	return obs
}

// ---------------------------------------------------------------------
// escapes

// lexerEscapes extracts letter → rune from the lexer's escape switch: a switch
// over the current rune in a method that returns (rune, *errors.Error).
func (r *pxRoles) lexerEscapes() (map[rune]rune, *ast.FuncDecl, []Obligation) {
	c := r.c
	info := r.lex.info
	var obs []Obligation
	esc := map[rune]rune{}
	var host *ast.FuncDecl
	for _, fd := range AllFuncDecls(r.lex.pkg) {
		fn, _ := info.Defs[fd.Name].(*types.Func)
		if fn == nil {
			continue
		}
		sig := fn.Type().(*types.Signature)
		if sig.Results().Len() != 2 || r.errIndex(sig) != 1 {
			continue
		}
		if b, ok := sig.Results().At(0).Type().(*types.Basic); !ok || b.Kind() != types.Int32 {
			continue
		}
		ast.Inspect(fd.Body, func(n ast.Node) bool {
			sw, ok := n.(*ast.SwitchStmt)
			if !ok || sw.Tag == nil {
				return true
			}
			tag := ast.Unparen(sw.Tag)
			if id, isId := tag.(*ast.Ident); isId {
				// `ch := *self.currentChar; switch ch`
				if def := pxLocalDefsOf(info, fd).single(info.Uses[id]); def != nil {
					tag = ast.Unparen(def)
				}
			}
			st, ok := tag.(*ast.StarExpr)
			if !ok {
				return true
			}
			sel, ok := st.X.(*ast.SelectorExpr)
			if !ok || info.Uses[sel.Sel] != r.lex.curF {
				return true
			}
			for _, cl := range sw.Body.List {
				cc := cl.(*ast.CaseClause)
				if cc.List == nil {
					continue
				}
				var val *rune
				for _, s := range cc.Body {
					var rhs ast.Expr
					switch x := s.(type) {
					case *ast.AssignStmt:
						if len(x.Rhs) == 1 && len(x.Lhs) == 1 {
							rhs = x.Rhs[0]
						}
					case *ast.ReturnStmt:
						// `case 'n': return '\n', nil`
						if len(x.Results) == 2 {
							rhs = x.Results[0]
						}
					}
					if rhs != nil {
						if tv := info.Types[rhs]; tv.Value != nil && tv.Value.Kind() == constant.Int {
							n, _ := constant.Int64Val(tv.Value)
							rv := rune(n)
							val = &rv
						}
					}
				}
				if val == nil {
					continue // numeric escapes (\x, \u, octal): delegated, not a letter→rune row
				}
				for _, e := range cc.List {
					if tv := info.Types[e]; tv.Value != nil {
						n, _ := constant.Int64Val(constant.ToInt(tv.Value))
						esc[rune(n)] = *val
						host = fd
					}
				}
			}
			return true
		})
	}
	// the same table written as data: map[rune]rune literals of the lexer package
	// (letter → rune), e.g. `simpleEscapes[*self.currentChar]`
	for _, f := range r.lex.pkg.Syntax {
		var encl *ast.FuncDecl
		ast.Inspect(f, func(n ast.Node) bool {
			if fd, ok := n.(*ast.FuncDecl); ok {
				encl = fd
			}
			cl, ok := n.(*ast.CompositeLit)
			if !ok {
				return true
			}
			mt, ok := info.TypeOf(cl).Underlying().(*types.Map)
			if !ok {
				return true
			}
			kb, ok1 := mt.Key().Underlying().(*types.Basic)
			vb, ok2 := mt.Elem().Underlying().(*types.Basic)
			if !ok1 || !ok2 || kb.Kind() != types.Int32 || vb.Kind() != types.Int32 || len(cl.Elts) < 3 {
				return true
			}
			for _, el := range cl.Elts {
				kv, ok := el.(*ast.KeyValueExpr)
				if !ok {
					continue
				}
				k, v := info.Types[kv.Key], info.Types[kv.Value]
				if k.Value == nil || v.Value == nil {
					continue
				}
				kn, _ := constant.Int64Val(constant.ToInt(k.Value))
				vn, _ := constant.Int64Val(constant.ToInt(v.Value))
				esc[rune(kn)] = rune(vn)
				if host == nil {
					host = encl
					if host == nil {
						// package-level table: anchor at the escape method that has the rune/error signature
						for _, fd := range AllFuncDecls(r.lex.pkg) {
							if fn, _ := info.Defs[fd.Name].(*types.Func); fn != nil {
								sig := fn.Type().(*types.Signature)
								if sig.Results().Len() == 2 && r.errIndex(sig) == 1 {
									if b, ok := sig.Results().At(0).Type().(*types.Basic); ok && b.Kind() == types.Int32 && host == nil {
										refers := false
										ast.Inspect(fd.Body, func(m ast.Node) bool {
											if id, ok := m.(*ast.Ident); ok {
												if v, ok := info.Uses[id].(*types.Var); ok && v.Pkg() != nil && v.Parent() == v.Pkg().Scope() && types.Identical(v.Type(), info.TypeOf(cl)) {
													refers = true
												}
											}
											return true
										})
										if refers {
											host = fd
										}
									}
								}
							}
						}
					}
				}
			}
			return true
		})
	}
	if host == nil || len(esc) < 3 {
		return esc, nil, []Obligation{{Key: "escapes|lexer escape switch", Pos: "-", Status: Undecided, Detail: "no (rune, *errors.Error) method of the lexer switches over the current rune assigning rune constants, and no map[rune]rune table"}}
	}
	var letters []rune
	for l := range esc {
		letters = append(letters, l)
	}
	sort.Slice(letters, func(i, j int) bool { return letters[i] < letters[j] })
	for _, l := range letters {
		o := Obligation{Key: fmt.Sprintf("escape|lexer \\%c denotes Go's \\%c", l, l), Pos: c.Pos(host.Pos()), Nontrivial: true}
		want, ok := pxGoEscape(l)
		switch {
		case !ok:
			o.Status, o.Detail = Violated, fmt.Sprintf("\\%c is not an escape Go knows; the lexer maps it to %q", l, esc[l])
		case want != esc[l]:
			o.Status, o.Detail = Violated, fmt.Sprintf("\\%c yields %q in the lexer but denotes %q", l, esc[l], want)
		default:
			o.Status, o.Detail = Discharged, fmt.Sprintf("%q", want)
		}
		obs = append(obs, o)
	}
	return esc, host, obs
}

func pxGoEscape(letter rune) (rune, bool) {
	for _, q := range []byte{'"', '\''} {
		v, _, tail, err := strconv.UnquoteChar("\\"+string(letter), q)
		if err == nil && tail == "" {
			return v, true
		}
	}
	return 0, false
}

type pxPrinter struct {
	pkg      *packages.Package
	typ      *types.Named
	stringFd *ast.FuncDecl
	quote    string // delimiter found in the format string
	escaper  *types.Func
	raw      bool // the value is formatted verbatim
}

// stringLiteralPrinters finds, in both AST packages, the String method of the
// string-literal node: parser/ast's is the struct the parser builds in its
// `case lexer.String` clause; analyzer/ast's is the type whose Kind() returns
// the same-named kind constant.
func (r *pxRoles) stringLiteralPrinters() ([]*pxPrinter, []Obligation) {
	c := r.c
	var obs []Obligation
	// the string kind, by role: the kind the constructor reached from
	// NextToken's case for the double quote hands to newToken
	strKind := ""
	_, _, cases, _ := nextTokenCases(c, r.lex)
	for _, nc := range cases {
		isQuote := false
		for _, ch := range nc.runes {
			if ch == '"' {
				isQuote = true
			}
		}
		if !isQuote || nc.ctor == nil {
			continue
		}
		if fd := r.decls[nc.ctor]; fd != nil {
			ast.Inspect(fd.Body, func(n ast.Node) bool {
				if call, ok := n.(*ast.CallExpr); ok && CalleeOf(r.lex.info, call) == r.lex.newToken && len(call.Args) > 0 {
					if k := r.canonKind(r.lex.info, call.Args[0]); k != "" {
						strKind = k
					}
				}
				return true
			})
		}
	}
	if strKind == "" {
		return nil, []Obligation{{Key: "escapes|string token kind", Pos: "-", Status: Undecided, Detail: "cannot identify the token kind of string literals (constructor reached from NextToken's '\"' case)"}}
	}
	var pType *types.Named
	for _, fd := range AllFuncDecls(r.pkg) {
		ast.Inspect(fd.Body, func(n ast.Node) bool {
			cc, ok := n.(*ast.CaseClause)
			if !ok || len(cc.List) != 1 || r.canonKind(r.info, cc.List[0]) != strKind {
				return true
			}
			// the node is built in the clause, or in the parser method the clause hands over to
			// (`case lexer.String: return self.stringLiteral()`), a few levels deep
			var scan func(root ast.Node, depth int, seen map[*ast.FuncDecl]bool)
			scan = func(root ast.Node, depth int, seen map[*ast.FuncDecl]bool) {
				ast.Inspect(root, func(m ast.Node) bool {
					if cl, ok := m.(*ast.CompositeLit); ok && pType == nil {
						if nt, ok := r.info.Types[cl].Type.(*types.Named); ok && nt.Obj().Pkg() != nil && strings.HasSuffix(nt.Obj().Pkg().Path(), "/parser/ast") {
							if _, isStruct := nt.Underlying().(*types.Struct); isStruct {
								pType = nt
							}
						}
					}
					return pType == nil
				})
				if pType != nil || depth >= 2 {
					return
				}
				ast.Inspect(root, func(m ast.Node) bool {
					if call, ok := m.(*ast.CallExpr); ok && pType == nil {
						if g := CalleeOf(r.info, call); g != nil && r.declPkg[g] == r.pkg {
							if gd := r.decls[g]; gd != nil && gd.Body != nil && !seen[gd] && !r.isNext(g) && !r.expectF[g] {
								seen[gd] = true
								scan(gd.Body, depth+1, seen)
							}
						}
					}
					return pType == nil
				})
			}
			for _, s := range cc.Body {
				scan(s, 0, map[*ast.FuncDecl]bool{})
			}
			return true
		})
	}
	if pType == nil {
		return nil, []Obligation{{Key: "escapes|string literal node", Pos: "-", Status: Undecided, Detail: "the parser clause for string tokens builds no parser/ast node"}}
	}
	kindConst := func(pk *packages.Package, t *types.Named) string {
		for i := 0; i < t.NumMethods(); i++ {
			if m := t.Method(i); m.Name() == "Kind" {
				if fd := pxFuncDeclOf(pk.TypesInfo, m); fd != nil && len(fd.Body.List) == 1 {
					if ret, ok := fd.Body.List[0].(*ast.ReturnStmt); ok && len(ret.Results) == 1 {
						if k := ConstOf(pk.TypesInfo, ret.Results[0]); k != nil {
							return k.Name()
						}
					}
				}
			}
		}
		return ""
	}
	pp := c.Pkg("homescript/parser/ast")
	want := kindConst(pp, pType)
	var out []*pxPrinter
	mk := func(pk *packages.Package, t *types.Named) {
		p := &pxPrinter{pkg: pk, typ: t}
		for i := 0; i < t.NumMethods(); i++ {
			if m := t.Method(i); m.Name() == "String" {
				p.stringFd = pxFuncDeclOf(pk.TypesInfo, m)
			}
		}
		if p.stringFd == nil {
			obs = append(obs, Obligation{Key: "escapes|" + pk.Types.Name() + "." + t.Obj().Name() + ".String", Pos: c.Pos(t.Obj().Pos()), Status: Undecided, Detail: "no String method"})
			return
		}
		out = append(out, p)
	}
	mk(pp, pType)
	ap := c.Pkg("homescript/analyzer/ast")
	found := false
	for _, name := range ap.Types.Scope().Names() {
		tn, ok := ap.Types.Scope().Lookup(name).(*types.TypeName)
		if !ok {
			continue
		}
		nt, ok := tn.Type().(*types.Named)
		if !ok {
			continue
		}
		if _, isStruct := nt.Underlying().(*types.Struct); !isStruct {
			continue
		}
		if want != "" && kindConst(ap, nt) == want {
			mk(ap, nt)
			found = true
		}
	}
	if !found {
		obs = append(obs, Obligation{Key: "escapes|analyzer/ast string literal node", Pos: "-", Status: Undecided, Detail: "no analyzer/ast type has Kind() == " + want})
	}
	return out, obs
}

func (r *pxRoles) printerEscapeObligations(lexEsc map[rune]rune, escFd *ast.FuncDecl) []Obligation {
	c := r.c
	printers, obs := r.stringLiteralPrinters()
	// inverse of the lexer's table
	inv := map[rune]rune{}
	for l, v := range lexEsc {
		if _, dup := inv[v]; !dup || l < inv[v] {
			inv[v] = l
		}
	}
	var shown []string
	for _, p := range printers {
		info := p.pkg.TypesInfo
		pname := p.pkg.Types.Name() + "." + p.typ.Obj().Name()
		if strings.HasSuffix(p.pkg.PkgPath, "/analyzer/ast") {
			pname = "analyzer/ast." + p.typ.Obj().Name()
		} else {
			pname = "parser/ast." + p.typ.Obj().Name()
		}
		// how is the string field formatted? The printed text is evaluated as a
		// concatenation (constant pieces, the value passed through a function, the raw
		// value), whichever way it is spelled: Sprintf with a constant format, `+`,
		// a local holding an intermediate piece.
		key := "escapes|" + pname + ".String"
		pos := c.Pos(p.stringFd.Pos())
		shape, why := pxPrintedShape(c, info, p.stringFd)
		if shape == nil {
			obs = append(obs, Obligation{Key: key + "|shape", Pos: pos, Status: Undecided, Detail: why})
			continue
		}
		p.quote = shape.quote
		format := shape.quote + "%s" + shape.quote
		valueArg := shape.value
		p.escaper, p.raw = shape.escaper, shape.raw
		inlineTable := shape.inline
		if p.raw || (p.escaper == nil && inlineTable == nil) {
			obs = append(obs, Obligation{Key: key + "|escapes backslash and the delimiting quote", Pos: pos, Status: Violated, Nontrivial: true,
				Detail: fmt.Sprintf("the literal is printed as %s with the raw value %s: a value containing %s or a backslash prints as text that lexes to a different string or does not lex at all (e.g. the value a%sb prints as %sa%sb%s)", strconv.Quote(format), exprStr(valueArg), p.quote, p.quote, p.quote, p.quote, p.quote)})
			shown = append(shown, pname+": raw")
			continue
		}
		var efd *ast.FuncDecl
		var epos, ekey, ename string
		if p.escaper != nil {
			efd = pxFuncDeclOf(info, p.escaper)
			if efd == nil {
				obs = append(obs, Obligation{Key: key + "|escaper", Pos: pos, Status: Undecided, Detail: "escaping function " + p.escaper.Name() + " is not declared in this package"})
				continue
			}
			epos = c.Pos(efd.Pos())
			ename = p.escaper.Name()
			ekey = "escapes|" + strings.TrimSuffix(pname, "."+p.typ.Obj().Name()) + "." + ename
		} else {
			// the replacement is applied in String() itself
			efd = p.stringFd
			epos = pos
			ename = "String (inline)"
			ekey = key
		}
		// the table: a map[string]string composite literal (or a slice of pairs)
		type row struct{ from, to string }
		var rows []row
		viaMapRange, viaReplacer := false, false
		var tableObj types.Object
		// the function body plus the initialisers of package-level variables it refers to
		// (a replacer or table hoisted out of the function is the same table)
		scanNodes := []ast.Node{efd.Body}
		// the helpers the escaping function delegates to (string → string functions of
		// the same package, a few levels): a wrapper around the table is the same table
		{
			seenFn := map[*types.Func]bool{p.escaper: true}
			frontier := []*ast.FuncDecl{efd}
			for depth := 0; depth < 3 && len(frontier) > 0; depth++ {
				var next []*ast.FuncDecl
				for _, f := range frontier {
					ast.Inspect(f.Body, func(n ast.Node) bool {
						call, ok := n.(*ast.CallExpr)
						if !ok {
							return true
						}
						g := CalleeOf(info, call)
						if g == nil || seenFn[g] || !pxIsStringToString(g) {
							return true
						}
						seenFn[g] = true
						if gd := pxFuncDeclOf(info, g); gd != nil && gd.Body != nil {
							scanNodes = append(scanNodes, gd.Body)
							next = append(next, gd)
						}
						return true
					})
				}
				frontier = next
			}
		}
		for _, root := range append([]ast.Node(nil), scanNodes...) {
			pxCollectPkgVarInits(c, info, root, &scanNodes)
		}
		pxScan := func(fn func(n ast.Node) bool) {
			for _, nd := range scanNodes {
				ast.Inspect(nd, fn)
			}
		}
		pxScan(func(n ast.Node) bool {
			switch x := n.(type) {
			case *ast.CompositeLit:
				if _, ok := info.Types[x].Type.Underlying().(*types.Map); ok {
					for _, el := range x.Elts {
						kv, ok := el.(*ast.KeyValueExpr)
						if !ok {
							continue
						}
						k, v := info.Types[kv.Key], info.Types[kv.Value]
						if k.Value != nil && v.Value != nil && k.Value.Kind() == constant.String && v.Value.Kind() == constant.String {
							rows = append(rows, row{constant.StringVal(k.Value), constant.StringVal(v.Value)})
						}
					}
				}
			case *ast.AssignStmt:
				if len(x.Lhs) == 1 && len(x.Rhs) == 1 {
					if cl, ok := x.Rhs[0].(*ast.CompositeLit); ok {
						if _, ok := info.Types[cl].Type.Underlying().(*types.Map); ok {
							if id, ok := x.Lhs[0].(*ast.Ident); ok {
								tableObj = info.Defs[id]
							}
						}
					}
				}
			case *ast.RangeStmt:
				if _, ok := info.Types[x.X].Type.Underlying().(*types.Map); ok {
					viaMapRange = true
				}
			case *ast.CallExpr:
				if g := CalleeOf(info, x); g != nil && g.Pkg() != nil && g.Pkg().Path() == "strings" && g.Name() == "NewReplacer" {
					viaReplacer = true
					for i := 0; i+1 < len(x.Args); i += 2 {
						k, v := info.Types[x.Args[i]], info.Types[x.Args[i+1]]
						if k.Value != nil && v.Value != nil {
							rows = append(rows, row{constant.StringVal(k.Value), constant.StringVal(v.Value)})
						}
					}
				}
			}
			return true
		})
		_ = tableObj
		if len(rows) == 0 {
			obs = append(obs, Obligation{Key: ekey + "|table", Pos: epos, Status: Undecided, Detail: "no constant replacement table (map literal or strings.NewReplacer) found in the escaping function"})
			continue
		}
		sort.Slice(rows, func(i, j int) bool { return rows[i].from < rows[j].from })
		var tab []string
		has := map[string]bool{}
		for _, rw := range rows {
			has[rw.from] = true
			tab = append(tab, fmt.Sprintf("%q→%q", rw.from, rw.to))
			// (i) inverse of the lexer
			o := Obligation{Key: fmt.Sprintf("%s|entry %q is the inverse of a lexer escape", ekey, rw.from), Pos: epos, Nontrivial: true}
			fr := []rune(rw.from)
			to := []rune(rw.to)
			switch {
			case len(fr) != 1:
				o.Status, o.Detail = Undecided, "replacement key is not a single rune"
			case len(to) != 2 || to[0] != '\\':
				o.Status, o.Detail = Violated, fmt.Sprintf("%q is replaced by %q, which is not a backslash escape", rw.from, rw.to)
			default:
				back, known := lexEsc[to[1]]
				if !known {
					o.Status, o.Detail = Violated, fmt.Sprintf("%q is printed as %q but the lexer has no escape \\%c", rw.from, rw.to, to[1])
				} else if back != fr[0] {
					o.Status, o.Detail = Violated, fmt.Sprintf("%q is printed as %q, which the lexer reads back as %q (the inverse of the lexer's table gives \\%c)", rw.from, rw.to, back, inv[fr[0]])
				} else {
					o.Status, o.Detail = Discharged, fmt.Sprintf("%q → %q → %q", rw.from, rw.to, back)
				}
			}
			obs = append(obs, o)
		}
		shown = append(shown, fmt.Sprintf("%s via %s {%s}", pname, ename, strings.Join(tab, ", ")))
		// (ii) mandatory entries
		{
			var fails []string
			if !has["\\"] {
				fails = append(fails, fmt.Sprintf("backslash is not escaped: the value a\\nb (backslash, n) prints as %sa\\nb%s and lexes back as a, LF, b; a value ending in a backslash swallows the closing quote", p.quote, p.quote))
			}
			if !has[p.quote] {
				fails = append(fails, "the delimiting quote "+p.quote+" is not escaped")
			}
			o := Obligation{Key: ekey + "|escapes backslash and the delimiting quote", Pos: epos, Nontrivial: true}
			if len(fails) > 0 {
				o.Status, o.Detail = Violated, strings.Join(fails, "; ")
			} else {
				o.Status, o.Detail = Discharged, "both present"
			}
			obs = append(obs, o)
		}
		// (iii) order independence
		{
			o := Obligation{Key: ekey + "|replacements are order-independent", Pos: epos, Nontrivial: true}
			switch {
			case viaReplacer:
				o.Status, o.Detail = Discharged, "strings.NewReplacer performs one simultaneous pass"
			case viaMapRange:
				var fails []string
				for i, a := range rows {
					for j, b := range rows {
						if i == j {
							continue
						}
						if strings.Contains(a.to, b.from) {
							fails = append(fails, fmt.Sprintf("the replacement %q→%q produces text containing the key %q of another entry: when the map is ranged in the order (%q, %q) the result is escaped twice, in the other order once — the printed literal depends on Go's random map order", a.from, a.to, b.from, a.from, b.from))
						}
						if i < j && (strings.Contains(a.from, b.from) || strings.Contains(b.from, a.from)) {
							fails = append(fails, fmt.Sprintf("keys %q and %q overlap", a.from, b.from))
						}
					}
				}
				if len(fails) > 0 {
					o.Status, o.Detail = Violated, strings.Join(pxDedupe(fails), " || ")
				} else {
					o.Status, o.Detail = Discharged, fmt.Sprintf("applied by ranging over a map of %d entries; no replacement text contains another entry's key", len(rows))
				}
			default:
				o.Status, o.Detail = Undecided, "the table is applied neither by ranging over a map nor by strings.NewReplacer: order of application unknown to this rule"
			}
			obs = append(obs, o)
		}
	}
	obs = append(obs, Obligation{Key: "summary|string literal printers", Pos: "-", Status: Info, Detail: strings.Join(shown, " ; ")})
	return obs
}

// ---------------------------------------------------------------------
// grammar.ebnf (lexical part)

var pxEbnfRule = regexp.MustCompile(`(?s)([A-Za-z_]+)\s*=\s*(.*?);`)

func pxParseEbnf(src string) map[string][]string {
	// strip comments
	for {
		i := strings.Index(src, "(*")
		if i < 0 {
			break
		}
		j := strings.Index(src[i:], "*)")
		if j < 0 {
			break
		}
		src = src[:i] + src[i+j+2:]
	}
	out := map[string][]string{}
	// tokens: 'x' | "x" | NAME | punctuation
	i := 0
	var name string
	var body []string
	state := 0 // 0 want name, 1 want '=', 2 in body
	for i < len(src) {
		ch := src[i]
		switch {
		case ch == '\'' || ch == '"':
			j := strings.IndexByte(src[i+1:], ch)
			if j < 0 {
				i = len(src)
				continue
			}
			if state == 2 {
				body = append(body, "T:"+src[i+1:i+1+j])
			}
			i += j + 2
		case ch == ';':
			if state == 2 {
				out[name] = body
			}
			state, body = 0, nil
			i++
		case ch == '=' && state == 1:
			state = 2
			i++
		case ch >= 'A' && ch <= 'Z' || ch >= 'a' && ch <= 'z' || ch == '_':
			j := i
			for j < len(src) && (src[j] >= 'A' && src[j] <= 'Z' || src[j] >= 'a' && src[j] <= 'z' || src[j] == '_' || src[j] >= '0' && src[j] <= '9') {
				j++
			}
			w := src[i:j]
			switch state {
			case 0:
				name, state = w, 1
			case 2:
				body = append(body, "N:"+w)
			}
			i = j
		case ch == '?':
			j := strings.IndexByte(src[i+1:], '?')
			if j < 0 {
				i = len(src)
				continue
			}
			i += j + 2
		default:
			i++
		}
	}
	return out
}

func pxEbnfTerminals(g map[string][]string, name string, seen map[string]bool) []string {
	if seen[name] {
		return nil
	}
	seen[name] = true
	var out []string
	for _, t := range g[name] {
		if strings.HasPrefix(t, "T:") {
			out = append(out, t[2:])
		} else {
			out = append(out, pxEbnfTerminals(g, t[2:], seen)...)
		}
	}
	return out
}

func (r *pxRoles) grammarObligations(codeOps map[string]map[string]bool, lexEsc map[rune]rune) []Obligation {
	c := r.c
	path := filepath.Join(c.RepoDir, "grammar.ebnf")
	b, err := os.ReadFile(path)
	if err != nil {
		return []Obligation{{Key: "grammar|grammar.ebnf", Pos: "grammar.ebnf", Status: Undecided, Detail: "cannot read the grammar: " + err.Error()}}
	}
	g := pxParseEbnf(string(b))
	var obs []Obligation
	// which production lists which conversion's operators: the production whose
	// terminals overlap most with the conversion's lexemes
	var prods []string
	for n := range g {
		if strings.HasSuffix(n, "_OPERATOR") {
			prods = append(prods, n)
		}
	}
	sort.Strings(prods)
	if len(prods) == 0 {
		return []Obligation{{Key: "grammar|operator productions", Pos: "grammar.ebnf", Status: Undecided, Detail: "grammar.ebnf has no *_OPERATOR productions"}}
	}
	var convs []string
	for n := range codeOps {
		convs = append(convs, n)
	}
	sort.Strings(convs)
	for _, conv := range convs {
		set := codeOps[conv]
		best, bestN := "", 0
		for _, p := range prods {
			n := 0
			for _, t := range pxEbnfTerminals(g, p, map[string]bool{}) {
				if set[t] {
					n++
				}
			}
			// prefer the smallest production that covers the most
			if n > bestN || (n == bestN && n > 0 && len(pxEbnfTerminals(g, p, map[string]bool{})) < len(pxEbnfTerminals(g, best, map[string]bool{}))) {
				best, bestN = p, n
			}
		}
		if best == "" {
			obs = append(obs, Obligation{Key: "grammar|operators of " + conv, Pos: "grammar.ebnf", Status: Info, Detail: "no *_OPERATOR production of grammar.ebnf lists any lexeme of this conversion (member operators are written inline in the grammar)"})
			continue
		}
		gset := map[string]bool{}
		for _, t := range pxEbnfTerminals(g, best, map[string]bool{}) {
			gset[t] = true
		}
		var lex []string
		for l := range set {
			lex = append(lex, l)
		}
		sort.Strings(lex)
		for _, l := range lex {
			o := Obligation{Key: fmt.Sprintf("grammar|%s lists %q (%s)", best, l, conv), Pos: "grammar.ebnf"}
			if gset[l] {
				o.Status, o.Detail = Discharged, "listed"
			} else {
				o.Status, o.Detail = Violated, fmt.Sprintf("the parser accepts %q through %s but production %s of grammar.ebnf does not list it", l, conv, best)
			}
			obs = append(obs, o)
		}
		var extra []string
		for t := range gset {
			if !set[t] {
				extra = append(extra, t)
			}
		}
		sort.Strings(extra)
		if len(extra) > 0 {
			obs = append(obs, Obligation{Key: "grammar|" + best + " lists only implemented operators", Pos: "grammar.ebnf", Status: Info,
				Detail: fmt.Sprintf("grammar.ebnf lists %q under %s, which %s does not map (documentation is ahead of / differs from the code)", extra, best, conv)})
		}
	}
	// escapes
	if body, ok := g["ESCAPE_CHAR"]; ok {
		gset := map[string]bool{}
		for _, t := range body {
			if strings.HasPrefix(t, "T:") {
				gset[t[2:]] = true
			}
		}
		var letters []string
		for l := range lexEsc {
			letters = append(letters, string(l))
		}
		sort.Strings(letters)
		var missing []string
		for _, l := range letters {
			if !gset[l] {
				missing = append(missing, l)
			}
		}
		for t := range gset {
			if _, ok := lexEsc[[]rune(t)[0]]; !ok {
				obs = append(obs, Obligation{Key: "grammar|ESCAPE_CHAR " + t + " is implemented", Pos: "grammar.ebnf", Status: Violated, Detail: "grammar.ebnf documents the escape \\" + t + " but the lexer rejects it"})
			} else {
				obs = append(obs, Obligation{Key: "grammar|ESCAPE_CHAR " + t + " is implemented", Pos: "grammar.ebnf", Status: Discharged, Detail: "lexer has the escape"})
			}
		}
		if len(missing) > 0 {
			obs = append(obs, Obligation{Key: "grammar|ESCAPE_CHAR lists every lexer escape", Pos: "grammar.ebnf", Status: Info, Detail: fmt.Sprintf("the lexer also accepts the escapes %q, which ESCAPE_CHAR does not list", missing)})
		}
	} else {
		obs = append(obs, Obligation{Key: "grammar|ESCAPE_CHAR", Pos: "grammar.ebnf", Status: Undecided, Detail: "production ESCAPE_CHAR not found"})
	}
	return obs
}

// ---------------------------------------------------------------------
// printed shape of the string-literal node

// pxShape: the text String() produces is  quote · f(value) · quote.
type pxShape struct {
	quote   string
	value   ast.Expr    // the expression holding the node's string value
	raw     bool        // value printed verbatim
	escaper *types.Func // value passed through this declared function
	inline  ast.Node    // value passed through a replacer applied in String() itself
}

type pxStrPart struct {
	lit     string // constant text (kind "lit")
	kind    string // "lit", "raw", "esc", "inline", "unknown"
	expr    ast.Expr
	escaper *types.Func
	site    ast.Node
	why     string
}

func pxIsStringToString(g *types.Func) bool {
	sig, ok := g.Type().(*types.Signature)
	if !ok || sig.Params().Len() != 1 || sig.Results().Len() != 1 {
		return false
	}
	isStr := func(t types.Type) bool {
		b, ok := t.Underlying().(*types.Basic)
		return ok && b.Kind() == types.String
	}
	return isStr(sig.Params().At(0).Type()) && isStr(sig.Results().At(0).Type())
}

// pxCollectPkgVarInits appends the initialisers of the package-level variables root mentions.
func pxCollectPkgVarInits(c *Ctx, info *types.Info, root ast.Node, out *[]ast.Node) {
	seen := map[*types.Var]bool{}
	ast.Inspect(root, func(n ast.Node) bool {
		id, ok := n.(*ast.Ident)
		if !ok {
			return true
		}
		v, ok := info.Uses[id].(*types.Var)
		if !ok || v.Pkg() == nil || v.Parent() != v.Pkg().Scope() || seen[v] {
			return true
		}
		seen[v] = true
		for _, pk := range c.All {
			if pk.Types != v.Pkg() {
				continue
			}
			for _, f := range pk.Syntax {
				for _, d := range f.Decls {
					gd, ok := d.(*ast.GenDecl)
					if !ok {
						continue
					}
					for _, sp := range gd.Specs {
						if vs, ok := sp.(*ast.ValueSpec); ok {
							for i, nm := range vs.Names {
								if pk.TypesInfo.Defs[nm] == v && i < len(vs.Values) {
									*out = append(*out, vs.Values[i])
								}
							}
						}
					}
				}
			}
		}
		return true
	})
}

// pxPrintedShape evaluates every return of String() to a concatenation and
// requires all of them to be quote · (raw | escaped) value · quote.
func pxPrintedShape(c *Ctx, info *types.Info, fd *ast.FuncDecl) (*pxShape, string) {
	recv := pxRecvObj(info, fd)
	// single definitions of string locals
	defs := map[types.Object]ast.Expr{}
	multi := map[types.Object]bool{}
	ast.Inspect(fd.Body, func(n ast.Node) bool {
		if _, ok := n.(*ast.FuncLit); ok {
			return false
		}
		switch x := n.(type) {
		case *ast.AssignStmt:
			if len(x.Lhs) != len(x.Rhs) {
				for _, l := range x.Lhs {
					if id, ok := l.(*ast.Ident); ok {
						if o := info.ObjectOf(id); o != nil {
							multi[o] = true
						}
					}
				}
				return true
			}
			for i, l := range x.Lhs {
				id, ok := l.(*ast.Ident)
				if !ok {
					continue
				}
				o := info.ObjectOf(id)
				if o == nil {
					continue
				}
				if _, dup := defs[o]; dup || x.Tok != token.DEFINE && x.Tok != token.ASSIGN {
					multi[o] = true
				}
				defs[o] = x.Rhs[i]
			}
		case *ast.ValueSpec:
			for i, nm := range x.Names {
				if o := info.Defs[nm]; o != nil && i < len(x.Values) {
					if _, dup := defs[o]; dup {
						multi[o] = true
					}
					defs[o] = x.Values[i]
				}
			}
		case *ast.IncDecStmt:
			if id, ok := x.X.(*ast.Ident); ok {
				if o := info.ObjectOf(id); o != nil {
					multi[o] = true
				}
			}
		}
		return true
	})
	var eval func(e ast.Expr, depth int) []pxStrPart
	unknown := func(e ast.Expr, why string) []pxStrPart {
		return []pxStrPart{{kind: "unknown", expr: e, why: why}}
	}
	isRecvField := func(e ast.Expr) bool {
		sel, ok := ast.Unparen(e).(*ast.SelectorExpr)
		if !ok {
			return false
		}
		id, ok := ast.Unparen(sel.X).(*ast.Ident)
		if !ok || recv == nil || info.Uses[id] != recv {
			return false
		}
		b, ok := info.TypeOf(e).Underlying().(*types.Basic)
		return ok && b.Kind() == types.String
	}
	eval = func(e ast.Expr, depth int) []pxStrPart {
		e = ast.Unparen(e)
		if depth > 8 {
			return unknown(e, "too deep")
		}
		if tv, ok := info.Types[e]; ok && tv.Value != nil && tv.Value.Kind() == constant.String {
			return []pxStrPart{{kind: "lit", lit: constant.StringVal(tv.Value)}}
		}
		if isRecvField(e) {
			return []pxStrPart{{kind: "raw", expr: e}}
		}
		switch x := e.(type) {
		case *ast.BinaryExpr:
			if x.Op == token.ADD {
				return append(eval(x.X, depth+1), eval(x.Y, depth+1)...)
			}
		case *ast.Ident:
			o := info.Uses[x]
			if o != nil && !multi[o] && defs[o] != nil {
				return eval(defs[o], depth+1)
			}
		case *ast.CallExpr:
			// string(x) conversion of a string
			if tv, ok := info.Types[x.Fun]; ok && tv.IsType() && len(x.Args) == 1 {
				if b, ok := info.TypeOf(x.Args[0]).Underlying().(*types.Basic); ok && b.Kind() == types.String {
					return eval(x.Args[0], depth+1)
				}
			}
			g := CalleeOf(info, x)
			if g == nil {
				break
			}
			pkgPath := ""
			if g.Pkg() != nil {
				pkgPath = g.Pkg().Path()
			}
			sig := g.Type().(*types.Signature)
			switch {
			case pkgPath == "fmt" && (g.Name() == "Sprintf") && len(x.Args) >= 1:
				tv := info.Types[x.Args[0]]
				if tv.Value == nil || tv.Value.Kind() != constant.String {
					return unknown(e, "format is not a constant")
				}
				format := constant.StringVal(tv.Value)
				var out []pxStrPart
				arg := 1
				lit := ""
				for i := 0; i < len(format); i++ {
					if format[i] != '%' {
						lit += string(format[i])
						continue
					}
					if i+1 >= len(format) {
						return unknown(e, "dangling % in format")
					}
					i++
					switch format[i] {
					case '%':
						lit += "%"
					case 's', 'v':
						if arg >= len(x.Args) {
							return unknown(e, "format has more verbs than arguments")
						}
						if lit != "" {
							out = append(out, pxStrPart{kind: "lit", lit: lit})
							lit = ""
						}
						out = append(out, eval(x.Args[arg], depth+1)...)
						arg++
					default:
						return unknown(e, fmt.Sprintf("format verb %%%c is not understood", format[i]))
					}
				}
				if lit != "" {
					out = append(out, pxStrPart{kind: "lit", lit: lit})
				}
				return out
			case pkgPath == "fmt" && g.Name() == "Sprint" && len(x.Args) == 1:
				return eval(x.Args[0], depth+1)
			case pkgPath == "strings" && sig.Recv() != nil && g.Name() == "Replace" && len(x.Args) == 1:
				// (*strings.Replacer).Replace(v): the table is applied in place
				inner := eval(x.Args[0], depth+1)
				if len(inner) == 1 && inner[0].kind == "raw" {
					return []pxStrPart{{kind: "inline", expr: inner[0].expr, site: x}}
				}
				return unknown(e, "replacer applied to something else than the node's value")
			case len(x.Args) == 1 && pxIsStringToString(g):
				inner := eval(x.Args[0], depth+1)
				if len(inner) == 1 && inner[0].kind == "raw" {
					return []pxStrPart{{kind: "esc", expr: inner[0].expr, escaper: g, site: x}}
				}
				if len(inner) == 1 && (inner[0].kind == "esc" || inner[0].kind == "inline") {
					return unknown(e, "the value is passed through two escaping steps")
				}
				return unknown(e, g.Name()+"() is applied to something else than the node's value")
			}
		}
		return unknown(e, "the piece "+exprStr(e)+" is not understood")
	}
	var shape *pxShape
	nret := 0
	why := ""
	bad := false
	ast.Inspect(fd.Body, func(n ast.Node) bool {
		if _, ok := n.(*ast.FuncLit); ok {
			return false
		}
		ret, ok := n.(*ast.ReturnStmt)
		if !ok || len(ret.Results) != 1 || bad {
			return true
		}
		nret++
		parts := eval(ret.Results[0], 0)
		// merge adjacent constant pieces
		var m []pxStrPart
		for _, p := range parts {
			if p.kind == "lit" && len(m) > 0 && m[len(m)-1].kind == "lit" {
				m[len(m)-1].lit += p.lit
				continue
			}
			if p.kind == "lit" && p.lit == "" {
				continue
			}
			m = append(m, p)
		}
		for _, p := range m {
			if p.kind == "unknown" {
				bad, why = true, "String() is not a quoted rendering of the value: "+p.why
				return true
			}
		}
		if len(m) != 3 || m[0].kind != "lit" || m[2].kind != "lit" || m[1].kind == "lit" {
			bad, why = true, fmt.Sprintf("String() does not render quote · value · quote (%d pieces)", len(m))
			return true
		}
		q := m[0].lit
		if (q != `"` && q != `'`) || m[2].lit != q {
			bad, why = true, fmt.Sprintf("the value is delimited by %q … %q, not by one quote character on each side", m[0].lit, m[2].lit)
			return true
		}
		sh := &pxShape{quote: q, value: m[1].expr}
		switch m[1].kind {
		case "raw":
			sh.raw = true
		case "esc":
			sh.escaper = m[1].escaper
		case "inline":
			sh.inline = m[1].site
		}
		if shape != nil && (shape.quote != sh.quote || shape.raw != sh.raw || shape.escaper != sh.escaper || (shape.inline == nil) != (sh.inline == nil)) {
			bad, why = true, "the returns of String() render the value in different ways"
			return true
		}
		shape = sh
		return true
	})
	if bad {
		return nil, why
	}
	if shape == nil {
		return nil, "String() has no single-result return"
	}
	return shape, ""
}
