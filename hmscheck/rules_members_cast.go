package main

// Cast matrix extraction (part of R-twin-tables): symbolic evaluation of
// DeepCast / deepCastRecursive of one value library for a fixed
// (value kind, target type kind, allowCasts, payload sample) cell, by path
// enumeration with constant propagation. The result of a cell is the set of
// outcome labels of the feasible paths.

import (
	"fmt"
	"go/ast"
	"go/constant"
	"go/token"
	"go/types"
	"regexp"
	"sort"
	"strings"
)

type mbCastFn struct {
	l       *mbLib
	fd      *ast.FuncDecl
	fn      *types.Func
	valP    types.Object // parameter of type Value
	typP    types.Object // parameter of the analyzer's Type
	allowP  types.Object // the bool parameter
	norm    *mbNorm
	errType string // "interrupt" | name of the non-interrupt error struct
	an      *mbAn
}

// bindRecArgs: how a recursive call is named in forms rendered by n:
// value argument → type argument.
func (cf *mbCastFn) bindRecArgs(n *mbNorm) {
	l, an := cf.l, cf.an
	n.recArgs = func(call *ast.CallExpr) string {
		var vs, ts string
		for _, a := range call.Args {
			t := l.info.TypeOf(a)
			switch {
			case l.isValueIface(t):
				vs = n.str(a)
			case an.isTypeIface(t) || an.byType[mbNamedObj(t)] != nil:
				ts = n.str(a)
			}
		}
		// the type operand: a selector path of the target type (`p:Type.Inner`)
		// is kept; a part of the target type that is found by a search or a
		// lookup (the declared type of the field with this name) is "a part of
		// the target type" however it is looked up
		if !mbPureChainRe.MatchString(ts) && strings.Contains(ts, "p:Type") {
			ts = "⊂p:Type"
		}
		return vs + " as " + ts
	}
}

var mbPureChainRe = regexp.MustCompile(`^p:[A-Za-z_.*]*Type(#\d+)?(\.[A-Za-z_]\w*|\.‹[^›]*›)*$`)

func (cf *mbCastFn) normOf(st *mbCastState) *mbNorm {
	if st != nil && st.norm != nil {
		return st.norm
	}
	return cf.norm
}

type mbCastState struct {
	v, t      constant.Value
	allow     bool
	sample    constant.Value
	sampleImp *mbImpl
	env       map[types.Object]constant.Value
	rec       []string
	conds     []string // decisions taken on conditions the cell does not determine
	depth     int
	norm      *mbNorm // normaliser of the function the path is in
	// parameters of an executed helper that stand for the cast function's own
	// (value, type, allowCasts) parameters
	alias map[types.Object]types.Object
}

// res: the cast function's parameter that o stands for (o itself otherwise).
func (s *mbCastState) res(o types.Object) types.Object {
	for i := 0; i < 4; i++ {
		t, ok := s.alias[o]
		if !ok {
			break
		}
		o = t
	}
	return o
}

func (s *mbCastState) clone() *mbCastState {
	o := *s
	o.env = make(map[types.Object]constant.Value, len(s.env))
	for k, v := range s.env {
		o.env[k] = v
	}
	o.rec = append([]string(nil), s.rec...)
	o.conds = append([]string(nil), s.conds...)
	o.alias = make(map[types.Object]types.Object, len(s.alias))
	for k, v := range s.alias {
		o.alias[k] = v
	}
	return &o
}

// enter: the state in which the body of helper hd runs when called by `call`
// in state st: parameters that receive the cast function's value / type /
// allowCasts parameter are aliases of them, parameters that receive a constant
// are bound to it.
func (cf *mbCastFn) enter(st *mbCastState, call *ast.CallExpr, hd *ast.FuncDecl) *mbCastState {
	info := cf.l.info
	ns := st.clone()
	ns.norm = cf.normOf(st).subNorm(call, hd, 0)
	ns.norm.selfFn = cf.fn
	cf.bindRecArgs(ns.norm)
	i := 0
	for _, f := range hd.Type.Params.List {
		for _, nm := range f.Names {
			if i < len(call.Args) {
				po := info.Defs[nm]
				a := ast.Unparen(call.Args[i])
				bound := false
				if id, ok := a.(*ast.Ident); ok {
					switch src := st.res(info.Uses[id]); src {
					case cf.valP, cf.typP, cf.allowP:
						if src != nil {
							ns.alias[po] = src
							bound = true
						}
					}
				}
				if !bound {
					if v := cf.eval(st, a); v != nil {
						ns.env[po] = v
					} else {
						delete(ns.env, po)
					}
				}
			}
			i++
		}
	}
	return ns
}

// helperOf: call is a call of a library function with a body that is neither
// the cast function itself nor a value / interrupt constructor.
func (cf *mbCastFn) helperOf(call *ast.CallExpr) *ast.FuncDecl {
	if cf.isSelfCall(call) != nil {
		return nil
	}
	fn := CalleeOf(cf.l.info, call)
	if fn == nil {
		return nil
	}
	hd := cf.l.decls[fn]
	if hd == nil || hd.Body == nil || hd.Recv != nil {
		return nil
	}
	if cf.l.ctorOf(fn) != nil || cf.l.errClass(call) != "" {
		return nil
	}
	return hd
}

// mbFindCast resolves the recursive worker behind the exported DeepCast.
func mbFindCast(l *mbLib, an *mbAn) *mbCastFn {
	var entry *ast.FuncDecl
	for fn, fd := range l.decls {
		if fn.Name() == "DeepCast" && fd.Recv == nil {
			entry = fd
		}
	}
	if entry == nil {
		fatalf("anchor unresolved: %s.DeepCast", l.rel)
	}
	// follow `return worker(...)` when the body is a single delegation
	fd := entry
	for hop := 0; hop < 3; hop++ {
		// the body is a delegation: `return worker(…)`, possibly preceded by
		// plain definitions of locals (`at := span`)
		if len(fd.Body.List) == 0 {
			break
		}
		plain := true
		for _, st := range fd.Body.List[:len(fd.Body.List)-1] {
			switch st.(type) {
			case *ast.AssignStmt, *ast.DeclStmt:
			default:
				plain = false
			}
		}
		if !plain {
			break
		}
		r, ok := fd.Body.List[len(fd.Body.List)-1].(*ast.ReturnStmt)
		if !ok || len(r.Results) != 1 {
			break
		}
		call, ok := ast.Unparen(r.Results[0]).(*ast.CallExpr)
		if !ok {
			break
		}
		next := l.decls[CalleeOf(l.info, call)]
		if next == nil {
			break
		}
		fd = next
	}
	cf := &mbCastFn{l: l, fd: fd}
	cf.fn, _ = l.info.Defs[fd.Name].(*types.Func)
	for _, f := range fd.Type.Params.List {
		t := l.info.TypeOf(f.Type)
		for _, nm := range f.Names {
			o := l.info.Defs[nm]
			switch {
			case l.isValueIface(t):
				cf.valP = o
			case an.isTypeIface(t):
				cf.typP = o
			default:
				if b, ok := t.Underlying().(*types.Basic); ok && b.Kind() == types.Bool {
					cf.allowP = o
				}
			}
		}
	}
	if cf.valP == nil || cf.typP == nil || cf.allowP == nil {
		fatalf("anchor unresolved: parameters (Value, Type, bool) of %s.%s", l.rel, fd.Name.Name)
	}
	cf.norm = mbNewNorm(l, fd)
	cf.an = an
	cf.bindRecArgs(cf.norm)
	sig := cf.fn.Type().(*types.Signature)
	cf.errType = "interrupt"
	if ptr, ok := sig.Results().At(1).Type().(*types.Pointer); ok {
		if !types.Identical(ptr.Elem(), l.intrT) {
			cf.errType = types.TypeString(ptr.Elem(), func(*types.Package) string { return "" })
		}
	}
	return cf
}

func mbNamedObj(t types.Type) *types.TypeName {
	if n, ok := types.Unalias(t).(*types.Named); ok {
		return n.Obj()
	}
	return nil
}

// eval: constant value of e in state st, or nil.
func (cf *mbCastFn) eval(st *mbCastState, e ast.Expr) constant.Value {
	info := cf.l.info
	e = ast.Unparen(e)
	if tv, ok := info.Types[e]; ok && tv.Value != nil {
		return tv.Value
	}
	switch x := e.(type) {
	case *ast.Ident:
		o := info.Uses[x]
		if st.res(o) == cf.allowP {
			return constant.MakeBool(st.allow)
		}
		if v, ok := st.env[o]; ok {
			return v
		}
	case *ast.UnaryExpr:
		v := cf.eval(st, x.X)
		if v == nil {
			return nil
		}
		switch x.Op {
		case token.NOT:
			if v.Kind() == constant.Bool {
				return constant.MakeBool(!constant.BoolVal(v))
			}
		case token.SUB, token.ADD:
			return constant.UnaryOp(x.Op, v, 0)
		}
	case *ast.BinaryExpr:
		a, b := cf.eval(st, x.X), cf.eval(st, x.Y)
		switch x.Op {
		case token.LAND:
			if (a != nil && a.Kind() == constant.Bool && !constant.BoolVal(a)) || (b != nil && b.Kind() == constant.Bool && !constant.BoolVal(b)) {
				return constant.MakeBool(false)
			}
			if a != nil && b != nil {
				return constant.MakeBool(constant.BoolVal(a) && constant.BoolVal(b))
			}
			return nil
		case token.LOR:
			if (a != nil && a.Kind() == constant.Bool && constant.BoolVal(a)) || (b != nil && b.Kind() == constant.Bool && constant.BoolVal(b)) {
				return constant.MakeBool(true)
			}
			if a != nil && b != nil {
				return constant.MakeBool(constant.BoolVal(a) || constant.BoolVal(b))
			}
			return nil
		}
		if a == nil || b == nil {
			return nil
		}
		switch x.Op {
		case token.EQL, token.NEQ, token.LSS, token.LEQ, token.GTR, token.GEQ:
			if a.Kind() == constant.Bool || b.Kind() == constant.Bool {
				if x.Op == token.EQL {
					return constant.MakeBool(constant.BoolVal(a) == constant.BoolVal(b))
				}
				if x.Op == token.NEQ {
					return constant.MakeBool(constant.BoolVal(a) != constant.BoolVal(b))
				}
				return nil
			}
			return constant.MakeBool(constant.Compare(a, x.Op, b))
		case token.ADD, token.SUB, token.MUL:
			return constant.BinaryOp(a, x.Op, b)
		}
	case *ast.CallExpr:
		// conversions
		if tv, ok := info.Types[x.Fun]; ok && tv.IsType() && len(x.Args) == 1 {
			v := cf.eval(st, x.Args[0])
			if v == nil {
				return nil
			}
			if b, ok := tv.Type.Underlying().(*types.Basic); ok {
				switch {
				case b.Info()&types.IsInteger != 0:
					if v.Kind() == constant.Float {
						f, _ := constant.Float64Val(v)
						return constant.MakeInt64(int64(f))
					}
					return constant.ToInt(v)
				case b.Info()&types.IsFloat != 0:
					return constant.ToFloat(v)
				}
			}
			return nil
		}
		// a one-line helper of the library (`return <expr>`): its expression
		// with the parameters bound
		if hd := cf.helperOf(x); hd != nil && st.depth < 3 && len(hd.Body.List) == 1 {
			if r, ok := hd.Body.List[0].(*ast.ReturnStmt); ok && len(r.Results) == 1 {
				ns := cf.enter(st, x, hd)
				ns.depth = st.depth + 1
				return cf.eval(ns, r.Results[0])
			}
		}
		// val.Kind() / typ.Kind()
		if sel, ok := x.Fun.(*ast.SelectorExpr); ok && sel.Sel.Name == "Kind" && len(x.Args) == 0 {
			if id, ok := ast.Unparen(sel.X).(*ast.Ident); ok {
				switch st.res(info.Uses[id]) {
				case cf.valP:
					return st.v
				case cf.typP:
					return st.t
				}
			}
		}
	case *ast.SelectorExpr:
		// val.(T).F — the scalar payload of the value under cast
		if st.sample != nil {
			base := ast.Unparen(x.X)
			if ta, ok := base.(*ast.TypeAssertExpr); ok {
				if id, ok := ast.Unparen(ta.X).(*ast.Ident); ok && st.res(info.Uses[id]) == cf.valP {
					if im := cf.l.implOfType(info.TypeOf(ta.Type)); im != nil && im == st.sampleImp {
						return st.sample
					}
				}
			}
		}
	}
	return nil
}

func (cf *mbCastFn) isSelfCall(e ast.Expr) *ast.CallExpr {
	call, ok := ast.Unparen(e).(*ast.CallExpr)
	if !ok {
		return nil
	}
	fn := CalleeOf(cf.l.info, call)
	if fn == nil {
		return nil
	}
	if fn == cf.fn || (fn.Name() == "DeepCast" && fn.Pkg() == cf.l.pkg.Types) {
		return call
	}
	return nil
}

// cell evaluates one matrix cell; returns the sorted set of outcome labels.
func (cf *mbCastFn) cell(v, t constant.Value, allow bool, sample constant.Value, sampleImp *mbImpl) (labels []string, errClasses map[string]bool, undecided string) {
	info := cf.l.info
	set := map[string]bool{}
	errClasses = map[string]bool{}
	init := &mbCastState{v: v, t: t, allow: allow, sample: sample, sampleImp: sampleImp, env: map[types.Object]constant.Value{}}
	noteRec := func(st *mbCastState, e ast.Expr) {
		ast.Inspect(e, func(n ast.Node) bool {
			if ce, ok := n.(ast.Expr); ok {
				if call := cf.isSelfCall(ce); call != nil {
					st.rec = append(st.rec, "recurse("+cf.normOf(st).recArgs(call)+")")
					return false
				}
			}
			return true
		})
	}
	overflow, unsupported := false, token.NoPos
	var run func(fd *ast.FuncDecl, st *mbCastState)
	run = func(fd *ast.FuncDecl, start *mbCastState) {
		w := &Walker[*mbCastState]{
			Clone:   func(s *mbCastState) *mbCastState { return s.clone() },
			IsPanic: func(s ast.Stmt) bool { return IsPanicCall(info, s) },
			OnCond: func(st *mbCastState, cond ast.Expr, taken bool) (*mbCastState, bool) {
				if v := cf.eval(st, cond); v != nil && v.Kind() == constant.Bool {
					return st, constant.BoolVal(v) == taken
				}
				// not decided by the cell: remembered for the error outcomes (under
				// which data conditions the cast fails is part of the cell)
				// Only kind tests are kept (the matrix is a table over kinds: a test
				// of the kind of a part — the declared type of a field, an element —
				// refines the cell); how a part is found (search loop, lookup table,
				// found-flags) is not part of it.
				if mbMentionsKind(cf.l.info, cond) {
					st.conds = append(st.conds, cf.normOf(st).strB(cond, 0, !taken))
				}
				return st, true
			},
			OnCase: func(st *mbCastState, sw *ast.SwitchStmt, vals, others []ast.Expr) (*mbCastState, bool) {
				tag := cf.eval(st, sw.Tag)
				if tag == nil {
					return st, true
				}
				match := func(list []ast.Expr) (hit bool, unknown bool) {
					for _, ve := range list {
						cv := cf.eval(st, ve)
						if cv == nil {
							unknown = true
							continue
						}
						if tag.Kind() == constant.Bool || cv.Kind() == constant.Bool {
							if tag.Kind() == cv.Kind() && constant.BoolVal(tag) == constant.BoolVal(cv) {
								hit = true
							}
							continue
						}
						if constant.Compare(tag, token.EQL, cv) {
							hit = true
						}
					}
					return
				}
				if vals == nil {
					hit, unknown := match(others)
					return st, !hit || unknown
				}
				hit, unknown := match(vals)
				return st, hit || unknown
			},
			OnStmt: func(st *mbCastState, s ast.Stmt) (*mbCastState, bool) {
				switch x := s.(type) {
				case *ast.AssignStmt:
					for _, r := range x.Rhs {
						noteRec(st, r)
					}
					for i, lhs := range x.Lhs {
						id, ok := lhs.(*ast.Ident)
						if !ok {
							continue
						}
						o := info.Defs[id]
						if o == nil {
							o = info.Uses[id]
						}
						if o == nil {
							continue
						}
						if len(x.Lhs) == len(x.Rhs) && (x.Tok == token.DEFINE || x.Tok == token.ASSIGN) {
							if v := cf.eval(st, x.Rhs[i]); v != nil {
								st.env[o] = v
								continue
							}
						}
						delete(st.env, o)
					}
				case *ast.DeclStmt:
					if gd, ok := x.Decl.(*ast.GenDecl); ok {
						for _, sp := range gd.Specs {
							vs, ok := sp.(*ast.ValueSpec)
							if !ok {
								continue
							}
							for i, nm := range vs.Names {
								o := info.Defs[nm]
								if i < len(vs.Values) {
									if v := cf.eval(st, vs.Values[i]); v != nil {
										st.env[o] = v
									}
									continue
								}
								if b, ok := o.Type().Underlying().(*types.Basic); ok {
									switch {
									case b.Info()&types.IsBoolean != 0:
										st.env[o] = constant.MakeBool(false)
									case b.Info()&types.IsInteger != 0:
										st.env[o] = constant.MakeInt64(0)
									case b.Info()&types.IsFloat != 0:
										st.env[o] = constant.MakeFloat64(0)
									case b.Info()&types.IsString != 0:
										st.env[o] = constant.MakeString("")
									}
								}
							}
						}
					}
				case *ast.ReturnStmt:
					for _, r := range x.Results {
						noteRec(st, r)
					}
				case *ast.ExprStmt:
					noteRec(st, x.X)
				}
				return st, true
			},
			Exit: func(st *mbCastState, o outcome) {
				lab := ""
				switch o.kind {
				case cPanic:
					lab = "PANIC"
				case cReturn:
					// `return helper(…)`: a case split off into its own function
					if len(o.ret.Results) == 1 && st.depth < 3 {
						if call, ok := ast.Unparen(o.ret.Results[0]).(*ast.CallExpr); ok {
							if hd := cf.helperOf(call); hd != nil {
								ns := cf.enter(st, call, hd)
								ns.depth = st.depth + 1
								run(hd, ns)
								return
							}
						}
					}
					lab = cf.classify(st, o.ret, errClasses)
				default:
					lab = "falls off the end"
				}
				if lab == "" {
					return
				}
				if lab == "error" {
					cs := mbUniq(st.conds)
					sort.Strings(cs)
					if len(cs) > 0 {
						lab += " ⇐ " + strings.Join(cs, " ∧ ")
					}
				}
				rec := mbUniq(st.rec)
				sort.Strings(rec)
				if len(rec) > 0 && !strings.HasPrefix(lab, "delegate") {
					lab += " after " + strings.Join(rec, ", ")
				}
				set[lab] = true
			},
		}
		w.Run(fd.Body, start)
		if w.Overflow {
			overflow = true
		}
		if len(w.Unsupported) > 0 && unsupported == token.NoPos {
			unsupported = w.Unsupported[0]
		}
	}
	run(cf.fd, init)
	if overflow {
		return nil, errClasses, "path enumeration overflow"
	}
	if unsupported != token.NoPos {
		return nil, errClasses, "unsupported control flow at " + cf.l.c.Pos(unsupported)
	}
	for s := range set {
		labels = append(labels, s)
	}
	sort.Strings(labels)
	return labels, errClasses, ""
}

// classify one return statement of the cast function.
func (cf *mbCastFn) classify(st *mbCastState, r *ast.ReturnStmt, errClasses map[string]bool) string {
	info := cf.l.info
	if len(r.Results) == 1 {
		if call := cf.isSelfCall(r.Results[0]); call != nil {
			return "delegate:recurse(" + cf.normOf(st).recArgs(call) + ")"
		}
		return "return " + cf.normOf(st).str(r.Results[0])
	}
	if len(r.Results) != 2 {
		return "return ?"
	}
	r0, r1 := ast.Unparen(r.Results[0]), ast.Unparen(r.Results[1])
	if mbIsNil(info, r0) {
		// error
		if id, ok := r1.(*ast.Ident); ok {
			_ = id
			return "" // propagated error of a recursive call: not an outcome of this cell
		}
		cls := cf.l.errClass(r1)
		if cls == "" {
			cls = mbTwin(types.TypeString(info.TypeOf(r1), func(*types.Package) string { return "" }))
		}
		errClasses[cls] = true
		return "error"
	}
	if !mbIsNil(info, r1) {
		return "return " + cf.normOf(st).str(r0) + ", " + cf.normOf(st).str(r1)
	}
	// success
	if u, ok := r0.(*ast.UnaryExpr); ok && u.Op == token.AND {
		if id, ok := ast.Unparen(u.X).(*ast.Ident); ok && st.res(info.Uses[id]) == cf.valP {
			return "identity"
		}
	}
	if cc := cf.l.valueOfCall(r0); cc != nil {
		call := r0.(*ast.CallExpr)
		if cc.none {
			return "none"
		}
		name := mbShortKind(cc.impl.KindName())
		if len(call.Args) == 1 {
			a := ast.Unparen(call.Args[0])
			if u, ok := a.(*ast.UnaryExpr); ok && u.Op == token.AND {
				if id, ok := ast.Unparen(u.X).(*ast.Ident); ok && st.res(info.Uses[id]) == cf.valP {
					return "wrap-unchecked→" + name
				}
			}
			if v := cf.eval(st, a); v != nil {
				return "convert→" + name + "(" + v.String() + ")"
			}
			as := cf.normOf(st).str(a)
			if strings.Contains(as, "rec(") {
				// a container rebuilt from the recursively cast parts: how the parts
				// are collected (search loop, lookup table, helper) is not part of
				// the cell; the recursion itself is recorded by "after recurse(…)"
				return "rebuild→" + name
			}
			return "build→" + name + "(" + as + ")"
		}
		// method constructor on the cast value (IntoAnyObject)
		var as []string
		for _, a := range call.Args {
			as = append(as, cf.normOf(st).str(a))
		}
		return "build→" + name + "(" + strings.Join(as, ", ") + ") via " + cf.normOf(st).str(call.Fun)
	}
	return "return " + cf.normOf(st).str(r0)
}

// mbScalarSamples: payload samples for value structs with one basic-typed
// field (sign abstraction {neg, zero, pos} / {false, true}).
func mbScalarSamples(im *mbImpl) (names []string, vals []constant.Value) {
	if im == nil || im.st.NumFields() != 1 {
		return nil, nil
	}
	b, ok := im.st.Field(0).Type().Underlying().(*types.Basic)
	if !ok {
		return nil, nil
	}
	switch {
	case b.Info()&types.IsBoolean != 0:
		return []string{"false", "true"}, []constant.Value{constant.MakeBool(false), constant.MakeBool(true)}
	case b.Info()&types.IsInteger != 0:
		return []string{"neg", "zero", "pos"}, []constant.Value{constant.MakeInt64(-2), constant.MakeInt64(0), constant.MakeInt64(3)}
	case b.Info()&types.IsFloat != 0:
		return []string{"neg", "zero", "pos"}, []constant.Value{constant.MakeFloat64(-2.5), constant.MakeFloat64(0), constant.MakeFloat64(3.5)}
	}
	return nil, nil
}

type mbCastCell struct {
	label string
	errs  map[string]bool
	und   string
}

// matrix evaluates every cell (value kind x type kind); the two settings of
// allowCasts are merged into one label when they agree.
func (cf *mbCastFn) matrix(an *mbAn) map[string]*mbCastCell {
	out := map[string]*mbCastCell{}
	implOfKind := map[string]*mbImpl{}
	for _, im := range cf.l.impls {
		if im.kind != nil {
			implOfKind[im.kind.Name()] = im
		}
	}
	for _, vk := range cf.l.kinds.Consts {
		im := implOfKind[vk.Name()]
		snames, svals := mbScalarSamples(im)
		for _, tkName := range an.kinds {
			tk := an.byKind[tkName].kind
			key := fmt.Sprintf("%s as %s", mbShortKind(vk.Name()), mbShortKind(tkName))
			cell := &mbCastCell{errs: map[string]bool{}}
			var perAllow []string
			for _, allow := range []bool{false, true} {
				lab := ""
				if len(svals) == 0 {
					labs, errs, und := cf.cell(vk.Val(), tk.Val(), allow, nil, nil)
					lab = strings.Join(labs, " | ")
					if und != "" {
						cell.und = und
					}
					for e := range errs {
						cell.errs[e] = true
					}
				} else {
					var per []string
					same := true
					for i, sv := range svals {
						labs, errs, und := cf.cell(vk.Val(), tk.Val(), allow, sv, im)
						if und != "" {
							cell.und = und
						}
						for e := range errs {
							cell.errs[e] = true
						}
						per = append(per, strings.Join(labs, " | "))
						if i > 0 && per[i] != per[0] {
							same = false
						}
					}
					if same {
						lab = per[0]
					} else {
						var parts []string
						for i := range per {
							parts = append(parts, snames[i]+"⇒"+per[i])
						}
						lab = strings.Join(parts, "; ")
					}
				}
				perAllow = append(perAllow, lab)
			}
			if perAllow[0] == perAllow[1] {
				cell.label = perAllow[0]
			} else {
				cell.label = "[strict] " + perAllow[0] + " / [as-cast] " + perAllow[1]
			}
			out[key] = cell
		}
	}
	return out
}

// mbMentionsKind: the expression calls a parameterless method Kind().
func mbMentionsKind(info *types.Info, e ast.Expr) bool {
	found := false
	ast.Inspect(e, func(n ast.Node) bool {
		if call, ok := n.(*ast.CallExpr); ok && len(call.Args) == 0 {
			if sel, ok := call.Fun.(*ast.SelectorExpr); ok && sel.Sel.Name == "Kind" {
				if s, ok := info.Selections[sel]; ok && s.Kind() == types.MethodVal {
					found = true
				}
			}
		}
		return !found
	})
	return found
}
