package main

// Shared helpers of the r2emit rule group (R-hostcall-order, R-frame-slots,
// R-vm-typestate, R-spawn-clone, R-fn-preregister, R-mangle-unique).

import (
	"fmt"
	"go/ast"
	"go/constant"
	"go/token"
	"go/types"
	"sort"
	"strings"
)

// ------------------------------------------------------------- loop shapes

// r2Loop describes a counted loop over one collection.
type r2Loop struct {
	stmt   ast.Stmt
	body   *ast.BlockStmt
	coll   ast.Expr     // the collection ranged over (A in `range A`, `range A[s:]`, `i < len(A)`)
	dir    int          // +1 ascending, -1 descending, 0 unknown
	start  ast.Expr     // lowest index covered when it is not 0 (nil = 0)
	startC *int64       // its value when constant
	full   bool         // covers the whole collection (from `start`)
	idx    types.Object // index variable (may be nil)
	val    types.Object // element variable of a range loop (may be nil)
}

func r2IsLenOf(info *types.Info, e ast.Expr) ast.Expr {
	e = vmStripConv(info, e)
	call, ok := e.(*ast.CallExpr)
	if !ok || len(call.Args) != 1 {
		return nil
	}
	if id, ok := call.Fun.(*ast.Ident); ok {
		if b, ok := info.Uses[id].(*types.Builtin); ok && b.Name() == "len" {
			return call.Args[0]
		}
	}
	return nil
}

func r2ConstInt(info *types.Info, e ast.Expr) (int64, bool) {
	if e == nil {
		return 0, false
	}
	if tv, ok := info.Types[e]; ok && tv.Value != nil {
		if v := constant.ToInt(tv.Value); v.Kind() == constant.Int {
			if n, exact := constant.Int64Val(v); exact {
				return n, true
			}
		}
	}
	return 0, false
}

// r2LoopOf classifies a for / range statement; nil when it is not a loop.
func r2LoopOf(info *types.Info, s ast.Stmt) *r2Loop {
	switch x := s.(type) {
	case *ast.LabeledStmt:
		return r2LoopOf(info, x.Stmt)
	case *ast.RangeStmt:
		l := &r2Loop{stmt: x, body: x.Body, dir: +1, full: true}
		l.coll = ast.Unparen(x.X)
		if sl, ok := l.coll.(*ast.SliceExpr); ok {
			if sl.High != nil || sl.Max != nil {
				l.full = false
			}
			l.start = sl.Low
			l.coll = ast.Unparen(sl.X)
		}
		if x.Key != nil {
			l.idx = vmObjOf(info, x.Key)
		}
		if x.Value != nil {
			l.val = vmObjOf(info, x.Value)
		}
		if _, isMap := info.TypeOf(x.X).Underlying().(*types.Map); isMap {
			// key/value of a map: idx is the key
			l.dir = 0
		}
		return l
	case *ast.ForStmt:
		l := &r2Loop{stmt: x, body: x.Body}
		as, ok := x.Init.(*ast.AssignStmt)
		if !ok || len(as.Lhs) != 1 || len(as.Rhs) != 1 {
			return l
		}
		l.idx = vmObjOf(info, as.Lhs[0])
		cond, ok := ast.Unparen(x.Cond).(*ast.BinaryExpr)
		if !ok || l.idx == nil || vmObjOf(info, cond.X) != l.idx {
			return l
		}
		post, ok := x.Post.(*ast.IncDecStmt)
		if !ok || vmObjOf(info, post.X) != l.idx {
			return l
		}
		init := vmStripConv(info, as.Rhs[0])
		switch {
		case post.Tok == token.INC && (cond.Op == token.LSS || cond.Op == token.NEQ):
			// i := s; i < len(A); i++
			if a := r2LenLikeG(info, cond.Y); a != nil {
				l.coll, l.dir, l.full = ast.Unparen(a), +1, true
				if n, ok := r2ConstInt(info, init); !ok || n != 0 {
					l.start = init
					if ok {
						l.startC = &n
					}
				}
			}
		case post.Tok == token.INC && cond.Op == token.LEQ:
			// i := s; i <= len(A)-1; i++
			if be, ok := vmStripConv(info, cond.Y).(*ast.BinaryExpr); ok && be.Op == token.SUB {
				if n, ok := r2ConstInt(info, be.Y); ok && n == 1 {
					if a := r2LenLikeG(info, be.X); a != nil {
						l.coll, l.dir, l.full = ast.Unparen(a), +1, true
						if n, ok := r2ConstInt(info, init); !ok || n != 0 {
							l.start = init
						}
					}
				}
			}
		case post.Tok == token.DEC:
			// i := len(A)-1; i >= 0 (or i > -1); i--
			lo, okLo := r2ConstInt(info, cond.Y)
			if a := r2LenLikeG(info, init); a != nil && okLo {
				// i := len(A); i > 0 (or i >= 1); i--   (element index is i-1)
				if (cond.Op == token.GTR && lo == 0) || (cond.Op == token.GEQ && lo == 1) {
					l.coll, l.dir, l.full = ast.Unparen(a), -1, true
				}
				return l
			}
			if be, ok := init.(*ast.BinaryExpr); ok && be.Op == token.SUB && okLo {
				if n, ok := r2ConstInt(info, be.Y); ok && n == 1 {
					if a := r2LenLikeG(info, be.X); a != nil {
						l.coll, l.dir, l.full = ast.Unparen(a), -1, true
						first := lo
						if cond.Op == token.GTR {
							first = lo + 1
						} else if cond.Op != token.GEQ {
							l.full = false
						}
						if first != 0 {
							// covers [first, len): remember the lower end as start
							l.start = cond.Y
							l.startC = &first
						}
					}
				}
			}
		}
		r2PreferIndexedBase(info, l)
		return l
	}
	return nil
}

// r2LoopCtx: the analysed tree (one per process); lets the loop classifier
// look through expression-bodied length accessors.
var r2LoopCtx *Ctx

func r2LenLikeG(info *types.Info, e ast.Expr) ast.Expr {
	return r2LenLike(r2LoopCtx, info, e)
}

// r2PreferIndexedBase: when the loop bound came from an accessor (`i < node.ArgCount()`), the
// collection is the expression the body indexes with the loop variable (`args[i]`).
func r2PreferIndexedBase(info *types.Info, l *r2Loop) {
	if l.coll == nil || l.idx == nil || l.body == nil {
		return
	}
	if _, ok := info.Types[l.coll]; ok && r2ExprInBody(l) {
		return
	}
	var base ast.Expr
	n := 0
	ast.Inspect(l.body, func(m ast.Node) bool {
		if ix, ok := m.(*ast.IndexExpr); ok && vmObjOf(info, ix.Index) == l.idx {
			if base == nil || exprStr(base) != exprStr(ix.X) {
				n++
			}
			base = ix.X
		}
		return true
	})
	if n == 1 {
		l.coll = ast.Unparen(base)
	}
}

// r2ExprInBody: the collection expression is written in the loop statement itself (not taken
// from another function's body).
func r2ExprInBody(l *r2Loop) bool {
	return l.coll.Pos() >= l.stmt.Pos() && l.coll.End() <= l.stmt.End()
}

func r2DirStr(d int) string {
	switch d {
	case +1:
		return "ascending"
	case -1:
		return "descending"
	}
	return "unknown order"
}

// r2SameField: both expressions denote the same struct field (module.Functions vs. m.Functions).
func r2SameField(info *types.Info, a, b ast.Expr) bool {
	fa, fb := vmFieldOf(info, a), vmFieldOf(info, b)
	return fa != nil && fa == fb
}

// r2SameColl: same field, or same variable.
func r2SameColl(ia *types.Info, a ast.Expr, ib *types.Info, b ast.Expr) bool {
	if a == nil || b == nil {
		return false
	}
	if fa, fb := vmFieldOf(ia, a), vmFieldOf(ib, b); fa != nil || fb != nil {
		if fa != fb {
			return false
		}
		// the owner paths must agree textually up to local naming; compare the selector chain of field objects
		return r2FieldChain(ia, a) == r2FieldChain(ib, b)
	}
	oa, ob := vmObjOf(ia, a), vmObjOf(ib, b)
	return oa != nil && oa == ob
}

// r2FieldChain renders the chain of struct fields of a selector path ("TriggerArguments.List"),
// ignoring the root variable.
func r2FieldChain(info *types.Info, e ast.Expr) string {
	var parts []string
	for {
		e = ast.Unparen(e)
		switch x := e.(type) {
		case *ast.SelectorExpr:
			if s := info.Selections[x]; s != nil {
				parts = append([]string{s.Obj().Name()}, parts...)
				e = x.X
				continue
			}
		case *ast.StarExpr:
			e = x.X
			continue
		case *ast.IndexExpr:
			parts = append([]string{"[]"}, parts...)
			e = x.X
			continue
		case *ast.CallExpr:
			// method call on a path: node.Ident.Ident()
			if sel, ok := x.Fun.(*ast.SelectorExpr); ok && len(x.Args) == 0 {
				parts = append([]string{sel.Sel.Name + "()"}, parts...)
				e = sel.X
				continue
			}
		}
		break
	}
	return strings.Join(parts, ".")
}

// ------------------------------------------------------------- linear forms

type r2Lin struct {
	c int
	s map[string]int
}

func r2LinC(c int) r2Lin { return r2Lin{c: c} }
func r2LinS(sym string, k int) r2Lin {
	return r2Lin{s: map[string]int{sym: k}}
}
func (a r2Lin) add(b r2Lin) r2Lin {
	out := r2Lin{c: a.c + b.c}
	if len(a.s)+len(b.s) > 0 {
		out.s = map[string]int{}
		for k, v := range a.s {
			out.s[k] += v
		}
		for k, v := range b.s {
			out.s[k] += v
		}
		for k, v := range out.s {
			if v == 0 {
				delete(out.s, k)
			}
		}
	}
	return out
}
func (a r2Lin) isConst() bool { return len(a.s) == 0 }

// nonNeg: the form is >= 0 for all non-negative symbol values.
func (a r2Lin) nonNeg() bool {
	if a.c < 0 {
		return false
	}
	for _, v := range a.s {
		if v < 0 {
			return false
		}
	}
	return true
}
func (a r2Lin) String() string {
	var ks []string
	for k := range a.s {
		ks = append(ks, k)
	}
	sort.Strings(ks)
	out := fmt.Sprintf("%d", a.c)
	for _, k := range ks {
		out += fmt.Sprintf(" %+d*%s", a.s[k], k)
	}
	return out
}

// less: a is pointwise <= b (used to pick the worst path)
func (a r2Lin) lessEq(b r2Lin) bool {
	d := b.add(r2Lin{c: -a.c, s: r2neg(a.s)})
	return d.nonNeg()
}
func r2neg(m map[string]int) map[string]int {
	o := map[string]int{}
	for k, v := range m {
		o[k] = -v
	}
	return o
}

// ------------------------------------------------------------------ misc

// r2EnclosingClause returns the "case X" label of the top-level enum switch
// clause of fd that contains pos ("" when none).
func r2EnclosingClause(c *Ctx, fn *vmFn, pos token.Pos) string {
	for _, sw := range vmTopSwitches(c, fn.info, fn.fd.Body) {
		for _, cl := range sw.Body.List {
			cc := cl.(*ast.CaseClause)
			if pos < cc.Pos() || pos >= cc.End() {
				continue
			}
			if cc.List == nil {
				return "default"
			}
			var v []string
			for _, x := range cc.List {
				if k := ConstOf(fn.info, x); k != nil {
					v = append(v, k.Name())
				} else {
					v = append(v, exprStr(x))
				}
			}
			return "case " + strings.Join(v, ",")
		}
	}
	return ""
}

func r2UnitKey(c *Ctx, fn *vmFn, pos token.Pos) string {
	if cl := r2EnclosingClause(c, fn, pos); cl != "" {
		return fn.name + "|" + cl
	}
	return fn.name
}

// r2IsBuiltin: the call is a call of the named builtin.
func r2IsBuiltin(info *types.Info, call *ast.CallExpr, name string) bool {
	if id, ok := ast.Unparen(call.Fun).(*ast.Ident); ok {
		if b, ok := info.Uses[id].(*types.Builtin); ok && b.Name() == name {
			return true
		}
	}
	return false
}

// r2Parents builds the child → parent map of a subtree.
func r2Parents(root ast.Node) map[ast.Node]ast.Node {
	par := map[ast.Node]ast.Node{}
	var stack []ast.Node
	ast.Inspect(root, func(n ast.Node) bool {
		if n == nil {
			stack = stack[:len(stack)-1]
			return true
		}
		if len(stack) > 0 {
			par[n] = stack[len(stack)-1]
		}
		stack = append(stack, n)
		return true
	})
	return par
}

// ---------------------------------------------------------------- emission sites

// r2Emission: one instruction appended by a call — of the insert primitive, of
// a forwarding wrapper (a function that passes its Instruction parameter on to
// the primitive: `add(instr, span)`, `insert → appendTo(fn, instr, span)`), or
// of a single-instruction emission helper (`emitNamed(op, name, span)`,
// `emitDrop(c, span)`), with the helper's parameters replaced by the
// arguments of the call.
type r2Emission struct {
	op     *types.Const // nil when the opcode is not a constant at this site
	opExpr ast.Expr     // the opcode expression as seen at the call (after substitution)
	args   []ast.Expr   // the instruction's operands (without the opcode), after substitution
	ctor   *ast.CallExpr
	call   *ast.CallExpr
}

type r2EmitIndex struct {
	roles   *vmCompilerRoles
	forward map[*types.Func]int // function → index of the Instruction parameter it hands to the primitive
	instrT  types.Type
	single  map[*types.Func]*r2SingleEmit
	busy    map[*types.Func]bool
}

type r2SingleEmit struct {
	fn     *vmFn
	em     *r2Emission // in the helper's own terms
	params []types.Object
}

var r2EmitIndexCache = map[*Ctx]*r2EmitIndex{}

func r2EmitIdx(c *Ctx) *r2EmitIndex {
	if x := r2EmitIndexCache[c]; x != nil {
		return x
	}
	roles := vmCompRoles(c)
	x := &r2EmitIndex{roles: roles, forward: map[*types.Func]int{}, single: map[*types.Func]*r2SingleEmit{}, busy: map[*types.Func]bool{}}
	if o := c.Pkg("homescript/compiler").Types.Scope().Lookup("Instruction"); o != nil {
		x.instrT = o.Type()
	} else {
		fatalf("anchor unresolved: compiler.Instruction")
	}
	// the primitive's instruction parameter
	sig := roles.insert.Type().(*types.Signature)
	for i := 0; i < sig.Params().Len(); i++ {
		if types.Identical(sig.Params().At(i).Type(), x.instrT) {
			x.forward[roles.insert] = i
		}
	}
	// forwarding wrappers (fixpoint)
	for changed := true; changed; {
		changed = false
		for _, fn := range roles.fns {
			obj, _ := fn.info.Defs[fn.fd.Name].(*types.Func)
			if obj == nil {
				continue
			}
			if _, done := x.forward[obj]; done {
				continue
			}
			params := vmParamObjs(fn)
			ast.Inspect(fn.fd.Body, func(n ast.Node) bool {
				call, ok := n.(*ast.CallExpr)
				if !ok {
					return true
				}
				g := CalleeOf(fn.info, call)
				idx, isFwd := x.forward[g]
				if g == nil || !isFwd || idx >= len(call.Args) {
					return true
				}
				ao := vmObjOf(fn.info, call.Args[idx])
				for pi, po := range params {
					if po != nil && po == ao && types.Identical(po.Type(), x.instrT) {
						if _, done := x.forward[obj]; !done {
							x.forward[obj] = pi
							changed = true
						}
					}
				}
				return true
			})
		}
	}
	r2EmitIndexCache[c] = x
	return x
}

// isForward: g appends the instruction it is given (primitive or forwarding wrapper).
func (x *r2EmitIndex) isForward(g *types.Func) bool {
	if g == nil {
		return false
	}
	_, ok := x.forward[g]
	return ok
}

// instrExpr resolves an instruction expression: a constructor call, or a local assigned exactly once from one.
func (x *r2EmitIndex) instrExpr(fn *vmFn, e ast.Expr) *ast.CallExpr {
	e = ast.Unparen(e)
	if call, ok := e.(*ast.CallExpr); ok {
		return call
	}
	if o := vmObjOf(fn.info, e); o != nil {
		if def := vmSingleDef(fn, o); def != nil {
			if call, ok := ast.Unparen(def).(*ast.CallExpr); ok {
				return call
			}
		}
	}
	return nil
}

// singleOf: g is a helper whose body (simple statements only) emits exactly one instruction.
func (x *r2EmitIndex) singleOf(g *types.Func) *r2SingleEmit {
	if s, ok := x.single[g]; ok {
		return s
	}
	x.single[g] = nil
	fn := x.roles.byObj[g]
	if fn == nil || x.busy[g] || x.isForward(g) || !x.roles.emitters[g] {
		return nil
	}
	x.busy[g] = true
	defer delete(x.busy, g)
	var em *r2Emission
	n := 0
	for _, s := range fn.fd.Body.List {
		switch y := s.(type) {
		case *ast.ExprStmt:
			if call, ok := ast.Unparen(y.X).(*ast.CallExpr); ok {
				if h := CalleeOf(fn.info, call); h != nil && x.roles.emitters[h] {
					e, ok := x.of(fn, call)
					if !ok {
						return nil
					}
					em = e
					n++
				}
			}
		case *ast.AssignStmt, *ast.DeclStmt, *ast.ReturnStmt:
			// simple statements; must not emit themselves
			emits := false
			ast.Inspect(y, func(m ast.Node) bool {
				if call, ok := m.(*ast.CallExpr); ok {
					if h := CalleeOf(fn.info, call); h != nil && x.roles.emitters[h] {
						if rs, isRet := s.(*ast.ReturnStmt); isRet && len(rs.Results) == 1 && ast.Unparen(rs.Results[0]) == ast.Expr(call) {
							if e, ok := x.of(fn, call); ok {
								em = e
								n++
								return true
							}
						}
						emits = true
					}
				}
				return true
			})
			if emits {
				return nil
			}
		default:
			return nil
		}
	}
	if n != 1 || em == nil {
		return nil
	}
	s := &r2SingleEmit{fn: fn, em: em, params: vmParamObjs(fn)}
	x.single[g] = s
	return s
}

// of: the instruction a call appends (see r2Emission).
func (x *r2EmitIndex) of(fn *vmFn, call *ast.CallExpr) (*r2Emission, bool) {
	g := CalleeOf(fn.info, call)
	if g == nil {
		return nil, false
	}
	if idx, ok := x.forward[g]; ok {
		if idx >= len(call.Args) {
			return nil, false
		}
		ctor := x.instrExpr(fn, call.Args[idx])
		if ctor == nil {
			return &r2Emission{call: call}, true
		}
		em := &r2Emission{call: call, ctor: ctor}
		for _, a := range ctor.Args {
			if types.Identical(fn.info.TypeOf(a), x.roles.opType) {
				em.opExpr = a
				em.op = ConstOf(fn.info, a)
				continue
			}
			em.args = append(em.args, a)
		}
		if em.opExpr == nil {
			// constructor with a fixed opcode
			if cfn := x.roles.byObj[CalleeOf(fn.info, ctor)]; cfn != nil {
				ast.Inspect(cfn.fd.Body, func(n ast.Node) bool {
					if kv, isKV := n.(*ast.KeyValueExpr); isKV {
						if k := ConstOf(cfn.info, kv.Value); k != nil && types.Identical(k.Type(), x.roles.opType) {
							em.op = k
						}
					}
					return true
				})
			}
		}
		return em, true
	}
	s := x.singleOf(g)
	if s == nil {
		return nil, false
	}
	// substitute the helper's parameters
	subst := func(e ast.Expr) ast.Expr {
		if e == nil {
			return nil
		}
		if o := vmObjOf(s.fn.info, e); o != nil {
			for i, po := range s.params {
				if po == o && i < len(call.Args) {
					return call.Args[i]
				}
			}
		}
		return e
	}
	em := &r2Emission{call: call, ctor: s.em.ctor, op: s.em.op}
	em.opExpr = subst(s.em.opExpr)
	if em.op == nil && em.opExpr != nil {
		em.op = ConstOf(fn.info, em.opExpr)
	}
	for _, a := range s.em.args {
		em.args = append(em.args, subst(a))
	}
	return em, true
}

// r2LenLike: e denotes the length of a collection: len(A), or a call of an
// expression-bodied accessor that returns one (`node.ArgCount()`); returns A.
func r2LenLike(c *Ctx, info *types.Info, e ast.Expr) ast.Expr {
	if a := r2IsLenOf(info, e); a != nil {
		return a
	}
	call, ok := vmStripConv(info, e).(*ast.CallExpr)
	if !ok || c == nil {
		return nil
	}
	if callee := vmDeclIndex(c).of(CalleeOf(info, call)); callee != nil && len(call.Args) == 0 {
		if body := vmExprBodied(callee); body != nil {
			return r2IsLenOf(callee.info, body)
		}
	}
	return nil
}

// r2FieldOrAlias: the struct field an expression denotes, also through a local that is
// assigned exactly once from the field (`scopes := self.varScopes`).
func r2FieldOrAlias(fn *vmFn, e ast.Expr) *types.Var {
	if f := vmFieldOf(fn.info, e); f != nil {
		return f
	}
	if o := vmObjOf(fn.info, e); o != nil {
		if def := vmSingleDef(fn, o); def != nil {
			return vmFieldOf(fn.info, vmStripConv(fn.info, def))
		}
	}
	return nil
}
