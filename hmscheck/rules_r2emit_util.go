package main

// Shared helpers of the r2emit rule group (R-hostcall-order, R-frame-slots,
// R-vm-typestate, R-spawn-clone, R-fn-preregister, R-mangle-unique).

import (
	"fmt"
	"go/ast"
	"go/constant"
	"go/token"
	"go/types"
	"sort"
	"strings"
)

// ------------------------------------------------------------- loop shapes

// r2Loop describes a counted loop over one collection.
type r2Loop struct {
	stmt   ast.Stmt
	body   *ast.BlockStmt
	coll   ast.Expr     // the collection ranged over (A in `range A`, `range A[s:]`, `i < len(A)`)
	dir    int          // +1 ascending, -1 descending, 0 unknown
	start  ast.Expr     // lowest index covered when it is not 0 (nil = 0)
	startC *int64       // its value when constant
	full   bool         // covers the whole collection (from `start`)
	idx    types.Object // index variable (may be nil)
	val    types.Object // element variable of a range loop (may be nil)
}

func r2IsLenOf(info *types.Info, e ast.Expr) ast.Expr {
	e = vmStripConv(info, e)
	call, ok := e.(*ast.CallExpr)
	if !ok || len(call.Args) != 1 {
		return nil
	}
	if id, ok := call.Fun.(*ast.Ident); ok {
		if b, ok := info.Uses[id].(*types.Builtin); ok && b.Name() == "len" {
			return call.Args[0]
		}
	}
	return nil
}

func r2ConstInt(info *types.Info, e ast.Expr) (int64, bool) {
	if e == nil {
		return 0, false
	}
	if tv, ok := info.Types[e]; ok && tv.Value != nil {
		if v := constant.ToInt(tv.Value); v.Kind() == constant.Int {
			if n, exact := constant.Int64Val(v); exact {
				return n, true
			}
		}
	}
	return 0, false
}

// r2LoopOf classifies a for / range statement; nil when it is not a loop.
func r2LoopOf(info *types.Info, s ast.Stmt) *r2Loop {
	switch x := s.(type) {
	case *ast.LabeledStmt:
		return r2LoopOf(info, x.Stmt)
	case *ast.RangeStmt:
		l := &r2Loop{stmt: x, body: x.Body, dir: +1, full: true}
		l.coll = ast.Unparen(x.X)
		if sl, ok := l.coll.(*ast.SliceExpr); ok {
			if sl.High != nil || sl.Max != nil {
				l.full = false
			}
			l.start = sl.Low
			l.coll = ast.Unparen(sl.X)
		}
		if x.Key != nil {
			l.idx = vmObjOf(info, x.Key)
		}
		if x.Value != nil {
			l.val = vmObjOf(info, x.Value)
		}
		if _, isMap := info.TypeOf(x.X).Underlying().(*types.Map); isMap {
			// key/value of a map: idx is the key
			l.dir = 0
		}
		return l
	case *ast.ForStmt:
		l := &r2Loop{stmt: x, body: x.Body}
		as, ok := x.Init.(*ast.AssignStmt)
		if !ok || len(as.Lhs) != 1 || len(as.Rhs) != 1 {
			return l
		}
		l.idx = vmObjOf(info, as.Lhs[0])
		cond, ok := ast.Unparen(x.Cond).(*ast.BinaryExpr)
		if !ok || l.idx == nil || vmObjOf(info, cond.X) != l.idx {
			return l
		}
		post, ok := x.Post.(*ast.IncDecStmt)
		if !ok || vmObjOf(info, post.X) != l.idx {
			return l
		}
		init := vmStripConv(info, as.Rhs[0])
		switch {
		case post.Tok == token.INC && (cond.Op == token.LSS || cond.Op == token.NEQ):
			// i := s; i < len(A); i++
			if a := r2IsLenOf(info, cond.Y); a != nil {
				l.coll, l.dir, l.full = ast.Unparen(a), +1, true
				if n, ok := r2ConstInt(info, init); !ok || n != 0 {
					l.start = init
					if ok {
						l.startC = &n
					}
				}
			}
		case post.Tok == token.INC && cond.Op == token.LEQ:
			// i := s; i <= len(A)-1; i++
			if be, ok := vmStripConv(info, cond.Y).(*ast.BinaryExpr); ok && be.Op == token.SUB {
				if n, ok := r2ConstInt(info, be.Y); ok && n == 1 {
					if a := r2IsLenOf(info, be.X); a != nil {
						l.coll, l.dir, l.full = ast.Unparen(a), +1, true
						if n, ok := r2ConstInt(info, init); !ok || n != 0 {
							l.start = init
						}
					}
				}
			}
		case post.Tok == token.DEC:
			// i := len(A)-1; i >= 0 (or i > -1); i--
			lo, okLo := r2ConstInt(info, cond.Y)
			if a := r2IsLenOf(info, init); a != nil && okLo {
				// i := len(A); i > 0 (or i >= 1); i--   (element index is i-1)
				if (cond.Op == token.GTR && lo == 0) || (cond.Op == token.GEQ && lo == 1) {
					l.coll, l.dir, l.full = ast.Unparen(a), -1, true
				}
				return l
			}
			if be, ok := init.(*ast.BinaryExpr); ok && be.Op == token.SUB && okLo {
				if n, ok := r2ConstInt(info, be.Y); ok && n == 1 {
					if a := r2IsLenOf(info, be.X); a != nil {
						l.coll, l.dir, l.full = ast.Unparen(a), -1, true
						first := lo
						if cond.Op == token.GTR {
							first = lo + 1
						} else if cond.Op != token.GEQ {
							l.full = false
						}
						if first != 0 {
							// covers [first, len): remember the lower end as start
							l.start = cond.Y
							l.startC = &first
						}
					}
				}
			}
		}
		return l
	}
	return nil
}

func r2DirStr(d int) string {
	switch d {
	case +1:
		return "ascending"
	case -1:
		return "descending"
	}
	return "unknown order"
}

// r2SameField: both expressions denote the same struct field (module.Functions vs. m.Functions).
func r2SameField(info *types.Info, a, b ast.Expr) bool {
	fa, fb := vmFieldOf(info, a), vmFieldOf(info, b)
	return fa != nil && fa == fb
}

// r2SameColl: same field, or same variable.
func r2SameColl(ia *types.Info, a ast.Expr, ib *types.Info, b ast.Expr) bool {
	if a == nil || b == nil {
		return false
	}
	if fa, fb := vmFieldOf(ia, a), vmFieldOf(ib, b); fa != nil || fb != nil {
		if fa != fb {
			return false
		}
		// the owner paths must agree textually up to local naming; compare the selector chain of field objects
		return r2FieldChain(ia, a) == r2FieldChain(ib, b)
	}
	oa, ob := vmObjOf(ia, a), vmObjOf(ib, b)
	return oa != nil && oa == ob
}

// r2FieldChain renders the chain of struct fields of a selector path ("TriggerArguments.List"),
// ignoring the root variable.
func r2FieldChain(info *types.Info, e ast.Expr) string {
	var parts []string
	for {
		e = ast.Unparen(e)
		switch x := e.(type) {
		case *ast.SelectorExpr:
			if s := info.Selections[x]; s != nil {
				parts = append([]string{s.Obj().Name()}, parts...)
				e = x.X
				continue
			}
		case *ast.StarExpr:
			e = x.X
			continue
		case *ast.IndexExpr:
			parts = append([]string{"[]"}, parts...)
			e = x.X
			continue
		case *ast.CallExpr:
			// method call on a path: node.Ident.Ident()
			if sel, ok := x.Fun.(*ast.SelectorExpr); ok && len(x.Args) == 0 {
				parts = append([]string{sel.Sel.Name + "()"}, parts...)
				e = sel.X
				continue
			}
		}
		break
	}
	return strings.Join(parts, ".")
}

// ------------------------------------------------------------- linear forms

type r2Lin struct {
	c int
	s map[string]int
}

func r2LinC(c int) r2Lin { return r2Lin{c: c} }
func r2LinS(sym string, k int) r2Lin {
	return r2Lin{s: map[string]int{sym: k}}
}
func (a r2Lin) add(b r2Lin) r2Lin {
	out := r2Lin{c: a.c + b.c}
	if len(a.s)+len(b.s) > 0 {
		out.s = map[string]int{}
		for k, v := range a.s {
			out.s[k] += v
		}
		for k, v := range b.s {
			out.s[k] += v
		}
		for k, v := range out.s {
			if v == 0 {
				delete(out.s, k)
			}
		}
	}
	return out
}
func (a r2Lin) isConst() bool { return len(a.s) == 0 }

// nonNeg: the form is >= 0 for all non-negative symbol values.
func (a r2Lin) nonNeg() bool {
	if a.c < 0 {
		return false
	}
	for _, v := range a.s {
		if v < 0 {
			return false
		}
	}
	return true
}
func (a r2Lin) String() string {
	var ks []string
	for k := range a.s {
		ks = append(ks, k)
	}
	sort.Strings(ks)
	out := fmt.Sprintf("%d", a.c)
	for _, k := range ks {
		out += fmt.Sprintf(" %+d*%s", a.s[k], k)
	}
	return out
}

// less: a is pointwise <= b (used to pick the worst path)
func (a r2Lin) lessEq(b r2Lin) bool {
	d := b.add(r2Lin{c: -a.c, s: r2neg(a.s)})
	return d.nonNeg()
}
func r2neg(m map[string]int) map[string]int {
	o := map[string]int{}
	for k, v := range m {
		o[k] = -v
	}
	return o
}

// ------------------------------------------------------------------ misc

// r2EnclosingClause returns the "case X" label of the top-level enum switch
// clause of fd that contains pos ("" when none).
func r2EnclosingClause(c *Ctx, fn *vmFn, pos token.Pos) string {
	for _, sw := range vmTopSwitches(c, fn.info, fn.fd.Body) {
		for _, cl := range sw.Body.List {
			cc := cl.(*ast.CaseClause)
			if pos < cc.Pos() || pos >= cc.End() {
				continue
			}
			if cc.List == nil {
				return "default"
			}
			var v []string
			for _, x := range cc.List {
				if k := ConstOf(fn.info, x); k != nil {
					v = append(v, k.Name())
				} else {
					v = append(v, exprStr(x))
				}
			}
			return "case " + strings.Join(v, ",")
		}
	}
	return ""
}

func r2UnitKey(c *Ctx, fn *vmFn, pos token.Pos) string {
	if cl := r2EnclosingClause(c, fn, pos); cl != "" {
		return fn.name + "|" + cl
	}
	return fn.name
}

// r2IsBuiltin: the call is a call of the named builtin.
func r2IsBuiltin(info *types.Info, call *ast.CallExpr, name string) bool {
	if id, ok := ast.Unparen(call.Fun).(*ast.Ident); ok {
		if b, ok := info.Uses[id].(*types.Builtin); ok && b.Name() == name {
			return true
		}
	}
	return false
}

// r2Parents builds the child → parent map of a subtree.
func r2Parents(root ast.Node) map[ast.Node]ast.Node {
	par := map[ast.Node]ast.Node{}
	var stack []ast.Node
	ast.Inspect(root, func(n ast.Node) bool {
		if n == nil {
			stack = stack[:len(stack)-1]
			return true
		}
		if len(stack) > 0 {
			par[n] = stack[len(stack)-1]
		}
		stack = append(stack, n)
		return true
	})
	return par
}
