package main

// Script-value taint (used by R-trap-guard to keep the enumeration tight).
//
// A Go integer/string is *script-controlled* when it is data-dependent on the
// payload of a run-time value: a read of a basic-typed field (`Inner`) of a
// struct type that implements the value library's `Value` interface
// (ValueInt.Inner, ValueFloat.Inner, ValueString.Inner, …). This covers
// `args[i].(ValueInt).Inner`, `(*self.pop()).(value.ValueInt).Inner`, and the
// operands popped in the opcode handlers. Taint flows through conversions,
// arithmetic, phis, captured/address-taken locals, and across static calls
// inside the module (argument → parameter, returned value → call result).
// It does not flow through heap fields other than those payload fields, nor
// through dynamic calls.

import (
	"go/token"
	"go/types"

	"golang.org/x/tools/go/ssa"
)

type gdTaint struct {
	val   map[ssa.Value]bool
	cell  map[ssa.Value]bool // Alloc / FreeVar whose content is tainted
	ret   map[*ssa.Function]map[int]bool
	src   map[*types.Var]bool // payload fields
	funcs []*ssa.Function
}

// gdPayloadFields finds the basic-typed fields of every struct type of the
// given value packages that implements that package's `Value` interface.
func gdPayloadFields(c *Ctx, valuePkgs ...string) map[*types.Var]bool {
	out := map[*types.Var]bool{}
	for _, rel := range valuePkgs {
		p := c.Pkg(rel).Types
		vo, _ := p.Scope().Lookup("Value").(*types.TypeName)
		if vo == nil {
			fatalf("anchor unresolved: %s.Value interface", rel)
		}
		iface, ok := vo.Type().Underlying().(*types.Interface)
		if !ok {
			fatalf("anchor unresolved: %s.Value is not an interface", rel)
		}
		for _, name := range p.Scope().Names() {
			tn, ok := p.Scope().Lookup(name).(*types.TypeName)
			if !ok || tn.IsAlias() {
				continue
			}
			st, ok := tn.Type().Underlying().(*types.Struct)
			if !ok {
				continue
			}
			if !types.Implements(tn.Type(), iface) && !types.Implements(types.NewPointer(tn.Type()), iface) {
				continue
			}
			for i := 0; i < st.NumFields(); i++ {
				f := st.Field(i)
				if b, ok := f.Type().Underlying().(*types.Basic); ok && b.Info()&(types.IsNumeric|types.IsString) != 0 {
					out[f] = true
				}
			}
		}
	}
	if len(out) < 4 {
		fatalf("anchor unresolved: fewer than 4 value payload fields found (%d)", len(out))
	}
	return out
}

func newGdTaint(src map[*types.Var]bool, funcs []*ssa.Function) *gdTaint {
	t := &gdTaint{val: map[ssa.Value]bool{}, cell: map[ssa.Value]bool{}, ret: map[*ssa.Function]map[int]bool{}, src: src, funcs: funcs}
	t.run()
	return t
}

func (t *gdTaint) tainted(v ssa.Value) bool { return t.val[v] }

func (t *gdTaint) run() {
	inScope := map[*ssa.Function]bool{}
	for _, f := range t.funcs {
		inScope[f] = true
	}
	for changed := true; changed; {
		changed = false
		mark := func(v ssa.Value) {
			if v != nil && !t.val[v] {
				t.val[v] = true
				changed = true
			}
		}
		markCell := func(v ssa.Value) {
			if v != nil && !t.cell[v] {
				t.cell[v] = true
				changed = true
			}
		}
		for _, fn := range t.funcs {
			for _, b := range fn.Blocks {
				for _, in := range b.Instrs {
					switch x := in.(type) {
					case *ssa.Field:
						if f := gdStructField(x.X.Type(), x.Field); t.src[f] {
							mark(x)
						}
					case *ssa.UnOp:
						switch x.Op {
						case token.MUL:
							if fa, ok := x.X.(*ssa.FieldAddr); ok {
								if f := gdStructField(fa.X.Type(), fa.Field); t.src[f] {
									mark(x)
								}
							}
							if t.cell[x.X] {
								mark(x)
							}
						case token.SUB, token.XOR:
							if t.val[x.X] {
								mark(x)
							}
						}
					case *ssa.Convert:
						if t.val[x.X] {
							mark(x)
						}
					case *ssa.ChangeType:
						if t.val[x.X] {
							mark(x)
						}
					case *ssa.BinOp:
						switch x.Op {
						case token.ADD, token.SUB, token.MUL, token.QUO, token.REM, token.AND, token.OR, token.XOR, token.SHL, token.SHR, token.AND_NOT:
							if t.val[x.X] || t.val[x.Y] {
								mark(x)
							}
						}
					case *ssa.Phi:
						for _, e := range x.Edges {
							if t.val[e] {
								mark(x)
							}
						}
					case *ssa.Store:
						if t.val[x.Val] {
							switch a := x.Addr.(type) {
							case *ssa.Alloc:
								markCell(a)
							case *ssa.FreeVar:
								markCell(a)
							}
						}
					case *ssa.MakeClosure:
						if cl, ok := x.Fn.(*ssa.Function); ok {
							for i, bnd := range x.Bindings {
								if i < len(cl.FreeVars) {
									if t.cell[bnd] {
										markCell(cl.FreeVars[i])
									}
									if t.cell[cl.FreeVars[i]] {
										markCell(bnd)
									}
									if t.val[bnd] {
										mark(cl.FreeVars[i])
									}
								}
							}
						}
					case *ssa.Extract:
						if call, ok := x.Tuple.(*ssa.Call); ok {
							if cal := call.Call.StaticCallee(); cal != nil && t.ret[cal][x.Index] {
								mark(x)
							}
						}
					case *ssa.Call:
						cal := x.Call.StaticCallee()
						if cal == nil || !inScope[cal] {
							continue
						}
						args := x.Call.Args
						for i, a := range args {
							if i < len(cal.Params) && t.val[a] {
								mark(cal.Params[i])
							}
						}
						if t.ret[cal][0] && x.Call.Signature().Results().Len() == 1 {
							mark(x)
						}
					case *ssa.Return:
						for i, r := range x.Results {
							if t.val[r] {
								if t.ret[fn] == nil {
									t.ret[fn] = map[int]bool{}
								}
								if !t.ret[fn][i] {
									t.ret[fn][i] = true
									changed = true
								}
							}
						}
					}
				}
			}
		}
	}
}
