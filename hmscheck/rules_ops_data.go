package main

import (
	"go/ast"
	"go/constant"
	"go/token"
	"go/types"
)

// Tables written as data. An operator table may be spelled as control flow
// (`switch op { case A, B: ... }`) or as data (`var allowed =
// map[Kind]map[Op]bool{...}`, `[]Op{A, B}` + slices.Contains, `map[Op]Opcode`).
// The evaluator treats a composite literal of map / slice / array type whose
// keys and elements are side-effect free as a value (ovTable) that can be
// indexed with an assumed dimension constant, so both spellings give the same
// extracted relation. Package-level tables are used only when nothing in the
// module assigns to them or takes their address.

func (g *opsEng) indexPkgVars() {
	g.pkgVars = map[*types.Var]*opsPkgVar{}
	isPkgLevel := func(v *types.Var) bool {
		return v != nil && !v.IsField() && v.Pkg() != nil && v.Parent() == v.Pkg().Scope()
	}
	for _, p := range g.c.All {
		info := p.TypesInfo
		for _, f := range p.Syntax {
			for _, d := range f.Decls {
				gd, ok := d.(*ast.GenDecl)
				if !ok || gd.Tok != token.VAR {
					continue
				}
				for _, sp := range gd.Specs {
					vs, ok := sp.(*ast.ValueSpec)
					if !ok || len(vs.Values) != len(vs.Names) {
						continue
					}
					for i, n := range vs.Names {
						v, _ := info.Defs[n].(*types.Var)
						if v == nil {
							continue
						}
						switch v.Type().Underlying().(type) {
						case *types.Map, *types.Slice, *types.Array:
							g.pkgVars[v] = &opsPkgVar{init: vs.Values[i], info: info}
						}
					}
				}
			}
		}
	}
	if len(g.pkgVars) == 0 {
		return
	}
	for _, p := range g.c.All {
		info := p.TypesInfo
		root := func(e ast.Expr) *types.Var {
			for {
				switch x := ast.Unparen(e).(type) {
				case *ast.IndexExpr:
					e = x.X
					continue
				case *ast.StarExpr:
					e = x.X
					continue
				case *ast.SliceExpr:
					e = x.X
					continue
				case *ast.Ident:
					v, _ := info.Uses[x].(*types.Var)
					return v
				case *ast.SelectorExpr:
					if v, ok := info.Uses[x.Sel].(*types.Var); ok && isPkgLevel(v) {
						return v
					}
					e = x.X
					continue
				}
				return nil
			}
		}
		mark := func(e ast.Expr) {
			if v := root(e); isPkgLevel(v) {
				if pv := g.pkgVars[v]; pv != nil {
					pv.mutated = true
				}
			}
		}
		// element stores `table[K] = v` written as statements of an init function complete the table's
		// initialisation (they run before any other code of the module can read it); they are kept as
		// entries, in order, instead of disqualifying the table
		initStore := map[*ast.AssignStmt]bool{}
		for _, f := range p.Syntax {
			for _, d := range f.Decls {
				fd, ok := d.(*ast.FuncDecl)
				if !ok || fd.Recv != nil || fd.Name.Name != "init" || fd.Body == nil {
					continue
				}
				for _, s := range fd.Body.List {
					as, ok := s.(*ast.AssignStmt)
					if !ok || as.Tok != token.ASSIGN || len(as.Lhs) != 1 || len(as.Rhs) != 1 {
						continue
					}
					ix, ok := ast.Unparen(as.Lhs[0]).(*ast.IndexExpr)
					if !ok {
						continue
					}
					var v *types.Var
					switch x := ast.Unparen(ix.X).(type) {
					case *ast.Ident:
						v, _ = info.Uses[x].(*types.Var)
					}
					if !isPkgLevel(v) || g.pkgVars[v] == nil {
						continue
					}
					if _, isMap := v.Type().Underlying().(*types.Map); !isMap {
						continue
					}
					initStore[as] = true
					g.pkgVars[v].stores = append(g.pkgVars[v].stores, [2]ast.Expr{ix.Index, as.Rhs[0]})
				}
			}
		}
		for _, f := range p.Syntax {
			ast.Inspect(f, func(n ast.Node) bool {
				switch x := n.(type) {
				case *ast.AssignStmt:
					if initStore[x] {
						return true
					}
					for _, l := range x.Lhs {
						mark(l)
					}
				case *ast.IncDecStmt:
					mark(x.X)
				case *ast.UnaryExpr:
					if x.Op == token.AND {
						mark(x.X)
					}
				case *ast.RangeStmt:
					if x.Tok == token.ASSIGN {
						if x.Key != nil {
							mark(x.Key)
						}
						if x.Value != nil {
							mark(x.Value)
						}
					}
				case *ast.CallExpr:
					// delete(m, k), clear(m)
					if id, ok := ast.Unparen(x.Fun).(*ast.Ident); ok {
						if b, ok := info.Uses[id].(*types.Builtin); ok && (b.Name() == "delete" || b.Name() == "clear") && len(x.Args) > 0 {
							mark(x.Args[0])
						}
					}
				}
				return true
			})
		}
	}
}

// pkgTable: the table a package-level variable is initialised with (unknown
// when it is not such a table or may be modified). The initialiser is a
// composite literal, or a call of a parameterless function (or function
// literal) of the module that builds the table: a literal, element stores with
// constant keys, and a return.
func (ev *opsEv) pkgTable(v *types.Var) opsVal {
	g := ev.cfg.g
	if v == nil || v.IsField() || v.Pkg() == nil || v.Parent() != v.Pkg().Scope() {
		return opsVal{}
	}
	if g.pkgVars == nil {
		g.indexPkgVars()
	}
	pv := g.pkgVars[v]
	if pv == nil || pv.mutated {
		return opsVal{}
	}
	if pv.done {
		return pv.val
	}
	pv.done = true // also guards against initialisers that refer to themselves
	var res opsVal
	switch x := ast.Unparen(pv.init).(type) {
	case *ast.CompositeLit:
		res = g.tableOf(pv.info, x)
	case *ast.CallExpr:
		if len(x.Args) != 0 {
			break
		}
		var body *ast.BlockStmt
		var end token.Pos
		info := pv.info
		if lit, ok := ast.Unparen(x.Fun).(*ast.FuncLit); ok {
			body, end = lit.Body, lit.End()
		} else if cal := CalleeOf(pv.info, x); cal != nil {
			if fd := g.decls[cal]; fd != nil && fd.Recv == nil {
				body, end, info = fd.Body, fd.End(), g.info(fd)
			}
		}
		if body == nil {
			break
		}
		// walked without any assumption: the builder does not depend on the dispatched node
		cfg := &opsCfg{g: g, maxDepth: 2, nodeDims: map[*types.TypeName]*types.Const{}, opndDims: map[*types.TypeName]*types.Const{}}
		paths, ok := g.walkBody(cfg, body, end, info, nil, 0, 0)
		if !ok {
			break
		}
		var tbl *opsTable
		for _, p := range paths {
			if p.out == cPanic {
				continue
			}
			if len(p.ret) != 1 || p.ret[0].k != ovTable || (tbl != nil && tbl != p.ret[0].tbl) {
				tbl = nil
				break
			}
			tbl = p.ret[0].tbl
		}
		if tbl != nil {
			res = opsVal{k: ovTable, tbl: tbl}
		}
	}
	if res.k == ovTable && len(pv.stores) > 0 {
		if !res.tbl.isMap {
			res = opsVal{}
		} else {
			t := res.tbl
			for _, st := range pv.stores {
				t = t.with(st[0], st[1])
			}
			res = opsVal{k: ovTable, tbl: t}
		}
	}
	pv.val = res
	return res
}

// with: the map table after the element store t[key] = val (a later entry
// overrides an earlier one with the same key: lookups run last to first).
func (t *opsTable) with(key, val ast.Expr) *opsTable {
	n := *t
	n.keys = append(append([]ast.Expr(nil), t.keys...), key)
	n.vals = append(append([]ast.Expr(nil), t.vals...), val)
	return &n
}

// tableOf: the composite literal as a table (no events are produced: the
// caller has evaluated the elements if it cares about them).
func (g *opsEng) tableOf(info *types.Info, cl *ast.CompositeLit) opsVal {
	lt := info.TypeOf(cl)
	if lt == nil {
		return opsVal{}
	}
	t := &opsTable{info: info}
	switch u := lt.Underlying().(type) {
	case *types.Map:
		t.isMap = true
		t.elemT = u.Elem()
		for _, el := range cl.Elts {
			kv, ok := el.(*ast.KeyValueExpr)
			if !ok {
				return opsVal{}
			}
			t.keys = append(t.keys, kv.Key)
			t.vals = append(t.vals, kv.Value)
		}
	case *types.Slice, *types.Array:
		if s, ok := u.(*types.Slice); ok {
			t.elemT = s.Elem()
		} else {
			t.elemT = u.(*types.Array).Elem()
		}
		keyed := 0
		for _, el := range cl.Elts {
			if kv, ok := el.(*ast.KeyValueExpr); ok {
				// indexed literal ([...]T{K: v}): looked up like a map
				keyed++
				t.keys = append(t.keys, kv.Key)
				t.vals = append(t.vals, kv.Value)
				continue
			}
			t.vals = append(t.vals, el)
		}
		if keyed > 0 {
			if keyed != len(cl.Elts) {
				return opsVal{} // mixed positional / indexed elements: not modelled
			}
			t.isMap = true
		}
	default:
		return opsVal{}
	}
	return opsVal{k: ovTable, tbl: t}
}

func opsSameKey(a, b opsVal) (same, known bool) {
	switch {
	case a.k == ovConst && b.k == ovConst:
		return opsSameConst(a.c, b.c), true
	case a.k == ovLit && b.k == ovLit:
		if a.lit.Kind() != b.lit.Kind() || a.lit.Kind() == constant.Unknown {
			return false, true
		}
		return constant.Compare(a.lit, token.EQL, b.lit), true
	case (a.k == ovConst && b.k == ovLit) || (a.k == ovLit && b.k == ovConst):
		va, vb := a.lit, b.lit
		if a.k == ovConst {
			va = a.c.Val()
		}
		if b.k == ovConst {
			vb = b.c.Val()
		}
		if va.Kind() != vb.Kind() {
			return false, true
		}
		return constant.Compare(va, token.EQL, vb), true
	}
	return false, false
}

// pureEval evaluates an expression of a table in the table's own file
// context, discarding events.
func (ev *opsEv) pureEval(t *opsTable, e ast.Expr) opsVal {
	sub := &opsEv{cfg: ev.cfg, info: t.info, depth: ev.depth}
	return sub.eval(&opsSt{env: map[types.Object]opsVal{}}, e)
}

func opsZeroOf(t types.Type) opsVal {
	switch u := t.Underlying().(type) {
	case *types.Basic:
		switch {
		case u.Info()&types.IsBoolean != 0:
			return opsVal{k: ovLit, lit: constant.MakeBool(false)}
		case u.Info()&types.IsString != 0:
			return opsVal{k: ovLit, lit: constant.MakeString("")}
		case u.Info()&types.IsNumeric != 0:
			if _, named := types.Unalias(t).(*types.Named); !named {
				return opsVal{k: ovLit, lit: constant.MakeInt64(0)}
			}
		}
	case *types.Pointer, *types.Interface, *types.Map, *types.Slice, *types.Signature, *types.Chan:
		return opsVal{k: ovNil}
	}
	return opsVal{}
}

// lookup: t[key]; found reports whether the key is present, known whether
// that could be decided.
func (ev *opsEv) lookup(st *opsSt, t *opsTable, key opsVal) (val opsVal, found, known bool) {
	if key.k != ovConst && key.k != ovLit {
		return opsVal{}, false, false
	}
	if !t.isMap {
		if key.k != ovLit || key.lit.Kind() != constant.Int {
			return opsVal{}, false, false
		}
		i, ok := constant.Int64Val(key.lit)
		if !ok || i < 0 || int(i) >= len(t.vals) {
			return opsVal{}, false, false
		}
		return ev.pureEval(t, t.vals[i]), true, true
	}
	for i := len(t.keys) - 1; i >= 0; i-- {
		same, ok := opsSameKey(ev.pureEval(t, t.keys[i]), key)
		if !ok {
			return opsVal{}, false, false
		}
		if same {
			return ev.pureEval(t, t.vals[i]), true, true
		}
	}
	return opsZeroOf(t.elemT), false, true
}

// contains: is the constant an element of the slice table / a key of the map table.
func (ev *opsEv) contains(t *opsTable, key opsVal) (has, known bool) {
	if key.k != ovConst && key.k != ovLit {
		return false, false
	}
	list := t.vals
	if t.isMap {
		list = t.keys
	}
	for _, e := range list {
		same, ok := opsSameKey(ev.pureEval(t, e), key)
		if !ok {
			return false, false
		}
		if same {
			return true, true
		}
	}
	return false, true
}

// nonNilResult: result i of fn is never nil (every return statement yields an
// address, a composite value or the result of such a function).
func (g *opsEng) nonNilResults(fn *types.Func) int {
	if g.nonNil == nil {
		g.nonNil = map[*types.Func]int{}
	}
	if v, ok := g.nonNil[fn]; ok {
		return v
	}
	g.nonNil[fn] = 0
	fd := g.decls[fn]
	if fd == nil {
		return 0
	}
	sig := fn.Type().(*types.Signature)
	if sig.Results().Len() == 0 || sig.Results().Len() > 30 {
		return 0
	}
	info := g.info(fd)
	mask := 1<<sig.Results().Len() - 1
	// locals assigned exactly once from a non-nil expression
	var nonNilExpr func(e ast.Expr) bool
	nonNilExpr = func(e ast.Expr) bool {
		switch x := ast.Unparen(e).(type) {
		case *ast.UnaryExpr:
			return x.Op == token.AND
		case *ast.CompositeLit, *ast.FuncLit, *ast.BasicLit:
			return true
		case *ast.CallExpr:
			if opsIsBuiltin(info, x, "new") || opsIsBuiltin(info, x, "make") {
				return true
			}
			if cal := CalleeOf(info, x); cal != nil {
				if cs, ok := cal.Type().(*types.Signature); ok && cs.Results().Len() == 1 {
					return g.nonNilResults(cal)&1 != 0
				}
			}
		}
		return false
	}
	any := false
	ast.Inspect(fd.Body, func(n ast.Node) bool {
		if _, ok := n.(*ast.FuncLit); ok {
			return false
		}
		rs, ok := n.(*ast.ReturnStmt)
		if !ok {
			return true
		}
		any = true
		if len(rs.Results) != sig.Results().Len() {
			if len(rs.Results) == 1 {
				// return f(): results of another call
				if call, ok := ast.Unparen(rs.Results[0]).(*ast.CallExpr); ok {
					if cal := CalleeOf(info, call); cal != nil {
						mask &= g.nonNilResults(cal)
						return true
					}
				}
			}
			mask = 0
			return true
		}
		for i, r := range rs.Results {
			if !nonNilExpr(r) {
				mask &^= 1 << i
			}
		}
		return true
	})
	if !any {
		mask = 0
	}
	g.nonNil[fn] = mask
	return mask
}
