package main

// r2print: R-rebuild-all-paths (every child of the input node reaches the
// output of a rebuilder on every path) and R-block-empty (a decision that a
// block is empty looks at its statements AND its trailing expression).

import (
	"fmt"
	"go/ast"
	"go/token"
	"go/types"
	"sort"
	"strings"

	"golang.org/x/tools/go/packages"
)

func init() {
	register(&Rule{ID: "R-rebuild-all-paths", Floor: 34, Run: ruleR2pRebuild,
		Doc: "Optimizer and fuzzer rebuild the analysed tree: functions that receive a node (struct, list, or an interface value dispatched by kind) and return nodes. For every such function / dispatch clause and every path to a return: " +
			"the returned value contains the input node — as a whole (passed on, wrapped in a literal, handed to another rebuilder) or through EVERY child field of its struct (recursively for by-value component structs such as blocks: " +
			"Statements AND Expression) — unless the path established that the child is absent (nil test, empty list, loop over it not entered). The value of the result is tracked symbolically: composite literals, append, element and field stores, " +
			"calls that return nodes, locals aliasing a part of the input (`body := self.Block(node.Body)` stands for node.Body, so `body.Statements` alone is a partial use). Where the function produces alternatives — its result list is handed to a " +
			"selector ([]T -> T, ChoseRandom) directly or through spread-appends of other producers — every single alternative must contain the whole input. Returning nil / an unrelated node for some kind, or dropping an element of the input list " +
			"on a path that is not excluded by constants of the function's own locals, is reported. R-traversal's literal completeness only checks that the fields of the output are set, not that the input's children reach them. " +
			"Necessary: a child that does not reach the output is code of the program that the optimised / transformed program no longer executes."})
	register(&Rule{ID: "R-block-empty", Floor: 2, Run: ruleR2pBlockEmpty,
		Doc: "A block of either AST has two places that hold code: the statement list and the optional trailing expression. Wherever the module decides that a block's statement list is empty (len(X.Statements) == 0 / > 0 false / < 1 …), " +
			"every path that carries this decision to a return also looks at X's trailing expression (nil test or any use of X.Expression) or hands X on as a whole. Necessary: `for i in 0..3 { println(i) }` has no statements and a trailing " +
			"expression; a decision taken on the statement list alone treats it as an empty body."})
}

type r2pAtoms map[string]bool

type r2pElem struct {
	bare    []string // delimited children of the input that the alternative holds outside any delimiters
	missing []string
	pos     string
	what    string
}

func r2pUnion(as ...r2pAtoms) r2pAtoms {
	out := r2pAtoms{}
	for _, a := range as {
		for k := range a {
			out[k] = true
		}
	}
	return out
}

type r2pRebuild struct {
	*r2pEnv
	mv       *r3pMoves       // R-context-move collector (rules_r3print_move.go), may be nil
	dl       *r4pDelims      // R-rebuild-delimiters collector (rules_r4print_delims.go), may be nil
	unit     *r2pRebuildUnit // the unit under analysis
	variants map[*types.Func]bool
	resType  types.Type // result type of the function under analysis (variant producers: the list type)
	isVar    bool
	root     string
	rootType types.Type
}

func (rb *r2pRebuild) nodeCarrying(t types.Type) bool {
	if t == nil {
		return false
	}
	m := rb.m
	for depth := 0; depth < 5; depth++ {
		switch x := types.Unalias(t).(type) {
		case *types.Pointer:
			t = x.Elem()
			continue
		case *types.Slice:
			t = x.Elem()
			continue
		case *types.Array:
			t = x.Elem()
			continue
		case *types.Map:
			t = x.Elem()
			continue
		case *types.Named:
			if m.codeIfc[x] {
				return true
			}
			if s := m.structs[x]; s != nil && !s.IsSem && s.T != m.identT {
				return true
			}
			return false
		}
		return false
	}
	return false
}

func r2pDeref(t types.Type) types.Type {
	for {
		t = types.Unalias(t)
		if p, ok := t.(*types.Pointer); ok {
			t = p.Elem()
			continue
		}
		return t
	}
}

// eval: the parts of the input that flow into the value of x; derived != "" when the value
// is the rebuilt image of exactly that access path (same type in, same type out).
func (rb *r2pRebuild) eval(st *r2pState, x ast.Expr) (r2pAtoms, string) {
	info := rb.info
	x = ast.Unparen(x)
	if p := rb.rawPathOf(st, x); p != "" {
		return r2pAtoms{r2pNorm(p): true}, p
	}
	switch y := x.(type) {
	case *ast.Ident:
		if o := info.Uses[y]; o != nil {
			return st.atoms[o], ""
		}
	case *ast.StarExpr:
		a, _ := rb.eval(st, y.X)
		return a, ""
	case *ast.UnaryExpr:
		a, _ := rb.eval(st, y.X)
		return a, ""
	case *ast.IndexExpr:
		a, _ := rb.eval(st, y.X)
		return a, ""
	case *ast.SliceExpr:
		a, _ := rb.eval(st, y.X)
		return a, ""
	case *ast.TypeAssertExpr:
		a, _ := rb.eval(st, y.X)
		return a, ""
	case *ast.SelectorExpr:
		if sel := info.Selections[y]; sel != nil && sel.Kind() == types.FieldVal {
			a, d := rb.eval(st, y.X)
			if d != "" {
				// a field of the rebuilt image of a part of the input: that field of the part
				return r2pAtoms{r2pNorm(d) + "." + y.Sel.Name: true}, d + "." + y.Sel.Name
			}
			return a, "" // a field of a value built here: over-approximated by the whole value
		}
	case *ast.CompositeLit:
		var as []r2pAtoms
		for _, el := range y.Elts {
			if kv, ok := el.(*ast.KeyValueExpr); ok {
				el = kv.Value
			}
			a, _ := rb.eval(st, el)
			as = append(as, a)
		}
		if rb.mv != nil {
			rb.mv.onLiteral(rb, st, y)
		}
		return r2pUnion(as...), ""
	case *ast.CallExpr:
		if tv, ok := info.Types[y.Fun]; ok && tv.IsType() {
			if len(y.Args) == 1 {
				return rb.eval(st, y.Args[0])
			}
			return nil, ""
		}
		if id, ok := ast.Unparen(y.Fun).(*ast.Ident); ok {
			if b, ok := info.Uses[id].(*types.Builtin); ok {
				if b.Name() == "append" {
					var as []r2pAtoms
					for _, a := range y.Args {
						v, _ := rb.eval(st, a)
						as = append(as, v)
					}
					return r2pUnion(as...), ""
				}
				return nil, ""
			}
		}
		rt := info.TypeOf(y)
		if tup, ok := rt.(*types.Tuple); ok {
			carries := false
			for i := 0; i < tup.Len(); i++ {
				if rb.nodeCarrying(tup.At(i).Type()) {
					carries = true
				}
			}
			if !carries {
				return nil, ""
			}
		} else if !rb.nodeCarrying(rt) {
			return nil, ""
		}
		if rb.mv != nil {
			rb.mv.onCall(rb, st, y)
		}
		var as []r2pAtoms
		contributors, derived := 0, ""
		exprs := y.Args
		if se, ok := ast.Unparen(y.Fun).(*ast.SelectorExpr); ok {
			if sel := info.Selections[se]; sel != nil && sel.Kind() == types.MethodVal && rb.nodeCarrying(info.TypeOf(se.X)) {
				exprs = append([]ast.Expr{se.X}, y.Args...)
			}
		}
		for _, a := range exprs {
			if !rb.nodeCarrying(info.TypeOf(a)) {
				continue
			}
			v, d := rb.eval(st, a)
			if len(v) > 0 {
				contributors++
				derived = ""
				if d != "" && types.Identical(r2pDeref(info.TypeOf(a)), r2pDeref(rt)) {
					derived = d
				}
			}
			as = append(as, v)
		}
		if contributors != 1 {
			derived = ""
		}
		return r2pUnion(as...), derived
	}
	return nil, ""
}

// childFields: the code-carrying fields of the struct directly carried by t (through pointers / slices / maps), nil when t is an interface.
func (rb *r2pRebuild) childFields(t types.Type) (*travStruct, []*travField) {
	for depth := 0; depth < 5 && t != nil; depth++ {
		switch x := types.Unalias(t).(type) {
		case *types.Pointer:
			t = x.Elem()
		case *types.Slice:
			t = x.Elem()
		case *types.Array:
			t = x.Elem()
		case *types.Map:
			t = x.Elem()
		case *types.Named:
			s := rb.m.structs[x]
			if s == nil || s.IsSem {
				return nil, nil
			}
			return s, travRequiredChildren(rb.m, s)
		default:
			return nil, nil
		}
	}
	return nil, nil
}

func r2pHas(a r2pAtoms, p string) bool {
	for h := range a {
		if h == p || strings.HasPrefix(p, h+".") {
			return true
		}
	}
	return false
}

// missing: the parts of the input at path p (of type t) that do not reach a value with atoms a.
func (rb *r2pRebuild) missing(st *r2pState, p string, t types.Type, a r2pAtoms, depth int) []string {
	if r2pHas(a, p) || st.emptyUpTo(p) {
		return nil
	}
	s, kids := rb.childFields(t)
	if s == nil || depth > 4 {
		return []string{p}
	}
	var out []string
	for _, f := range kids {
		out = append(out, rb.missing(st, p+"."+f.Name, f.Var.Type(), a, depth+1)...)
	}
	return out
}

func (rb *r2pRebuild) elemOf(st *r2pState, x ast.Expr) r2pElem {
	a, _ := rb.eval(st, x)
	what := exprStr(x)
	if len(what) > 60 {
		what = what[:57] + "..."
	}
	el := r2pElem{missing: rb.missing(st, rb.root, rb.rootType, a, 0), pos: fmt.Sprintf("line %d", rb.line(x.Pos())), what: what}
	if rb.dl != nil {
		el.bare = rb.dl.bareChildren(rb, st, x)
	}
	return el
}

// elemsOf: the alternatives held by a list-valued expression of the producer's result type.
func (rb *r2pRebuild) elemsOf(st *r2pState, x ast.Expr) []r2pElem {
	x = ast.Unparen(x)
	switch y := x.(type) {
	case *ast.Ident:
		if o := rb.info.Uses[y]; o != nil {
			return st.elems[o]
		}
	case *ast.CompositeLit:
		var out []r2pElem
		for _, el := range y.Elts {
			if kv, ok := el.(*ast.KeyValueExpr); ok {
				el = kv.Value
			}
			out = append(out, rb.elemOf(st, el))
		}
		return out
	case *ast.CallExpr:
		if r2pIsBuiltin(rb.info, y, "append") && len(y.Args) > 0 {
			out := append([]r2pElem(nil), rb.elemsOf(st, y.Args[0])...)
			rest := y.Args[1:]
			if y.Ellipsis.IsValid() && len(rest) > 0 {
				out = append(out, rb.elemsOf(st, rest[len(rest)-1])...)
				rest = rest[:len(rest)-1]
			}
			for _, a := range rest {
				out = append(out, rb.elemOf(st, a))
			}
			return out
		}
		// the list returned by another producer: its alternatives are checked there
	}
	return nil
}

func (rb *r2pRebuild) isResultList(t types.Type) bool {
	return rb.isVar && t != nil && rb.resType != nil && types.Identical(types.Unalias(t), types.Unalias(rb.resType))
}

func (rb *r2pRebuild) assignIdent(st *r2pState, id *ast.Ident, rhs ast.Expr, a r2pAtoms, derived string) {
	if id.Name == "_" {
		return
	}
	o := rb.objOf(id)
	if o == nil {
		return
	}
	if rhs != nil && rb.isResultList(o.Type()) {
		st.elems[o] = rb.elemsOf(st, rhs)
	} else {
		delete(st.elems, o)
	}
	rb.noteAssign(st, o, rhs)
	if rb.mv != nil && rhs != nil {
		rb.mv.onAssign(rb, st, o, rhs)
	}
	if _, aliased := st.alias[o]; !aliased {
		if derived != "" {
			st.alias[o] = derived
		} else if _, isRoot := rb.roots[o]; isRoot {
			st.alias[o] = "" // the parameter no longer stands for the input
		}
	}
	st.atoms[o] = a
	if rb.dl != nil {
		if rhs != nil {
			st.bare[o] = rb.dl.bareAtoms(rb, st, rhs)
		} else {
			delete(st.bare, o)
		}
	}
}

func (rb *r2pRebuild) onStmt(st *r2pState, s ast.Stmt) (*r2pState, bool) {
	info := rb.info
	switch x := s.(type) {
	case *ast.AssignStmt:
		rb.noteFieldStores(st, x)
		if len(x.Lhs) != len(x.Rhs) {
			if len(x.Rhs) == 1 {
				a, _ := rb.eval(st, x.Rhs[0])
				for _, l := range x.Lhs {
					if id, ok := ast.Unparen(l).(*ast.Ident); ok {
						var v r2pAtoms
						if o := rb.objOf(id); o != nil && rb.nodeCarrying(o.Type()) {
							v = a
						}
						rb.assignIdent(st, id, nil, v, "")
					}
				}
			}
			return st, true
		}
		type val struct {
			a r2pAtoms
			d string
		}
		vals := make([]val, len(x.Rhs))
		for i, r := range x.Rhs {
			a, d := rb.eval(st, r)
			vals[i] = val{a, d}
		}
		for i, l := range x.Lhs {
			l = ast.Unparen(l)
			if id, ok := l.(*ast.Ident); ok {
				if x.Tok == token.ASSIGN || x.Tok == token.DEFINE {
					rb.assignIdent(st, id, x.Rhs[i], vals[i].a, vals[i].d)
				} else if o := rb.objOf(id); o != nil {
					delete(st.konst, o)
				}
				continue
			}
			// store into a part of a local: x.F = e, x.F.G = e, x[i] = e, *x = e
			base := l
			var fields []string
			for {
				switch b := ast.Unparen(base).(type) {
				case *ast.SelectorExpr:
					fields = append(fields, b.Sel.Name)
					base = b.X
					continue
				case *ast.IndexExpr:
					fields = append(fields, "[]")
					base = b.X
					continue
				case *ast.StarExpr:
					base = b.X
					continue
				}
				break
			}
			id, ok := ast.Unparen(base).(*ast.Ident)
			if !ok {
				continue
			}
			o := info.Uses[id]
			if o == nil {
				continue
			}
			ap, aliased := st.alias[o]
			if !aliased {
				if rp, isRoot := rb.roots[o]; isRoot {
					ap, aliased = rp, true
				}
			}
			if aliased && ap != "" && len(fields) == 1 && r2pNorm(vals[i].d) == r2pNorm(ap)+"."+fields[0] {
				continue // x.F = rebuild(x.F): x still stands for the same part of the input
			}
			if aliased && ap != "" && len(fields) == 1 && fields[0] != "[]" {
				// one field of an image of the input is replaced: the other children still flow
				na := r2pAtoms{}
				if _, kids := rb.childFields(o.Type()); kids != nil {
					for _, f := range kids {
						if f.Name != fields[0] {
							na[r2pNorm(ap)+"."+f.Name] = true
						}
					}
				}
				st.atoms[o] = r2pUnion(na, vals[i].a)
				st.alias[o] = ""
				if rb.dl != nil {
					// the copy still holds the other children in the positions of its own struct
					nb := r2pAtoms{}
					s0, kids := rb.childFields(o.Type())
					for _, f := range kids {
						if f.Name == fields[0] {
							continue
						}
						if ok, _ := rb.dl.delimited(s0, f.Name); !ok {
							nb[r2pNorm(ap)+"."+f.Name] = true
						}
					}
					st.bare[o] = r2pUnion(nb, rb.dl.storeBare(rb, st, o, fields, x.Rhs[i]))
				}
				continue
			}
			if aliased && ap != "" {
				st.atoms[o] = r2pUnion(r2pAtoms{r2pNorm(ap): true}, vals[i].a)
				if rb.dl != nil {
					st.bare[o] = r2pUnion(r2pAtoms{r2pNorm(ap): true}, rb.dl.storeBare(rb, st, o, fields, x.Rhs[i]))
				}
				continue
			}
			st.atoms[o] = r2pUnion(st.atoms[o], vals[i].a)
			if rb.dl != nil {
				prev, ok := st.bare[o]
				if !ok {
					prev = st.atoms[o]
				}
				st.bare[o] = r2pUnion(prev, rb.dl.storeBare(rb, st, o, fields, x.Rhs[i]))
			}
		}
	case *ast.DeclStmt:
		if gd, ok := x.Decl.(*ast.GenDecl); ok {
			for _, sp := range gd.Specs {
				vs, ok := sp.(*ast.ValueSpec)
				if !ok {
					continue
				}
				for i, n := range vs.Names {
					if i < len(vs.Values) {
						a, d := rb.eval(st, vs.Values[i])
						rb.assignIdent(st, n, vs.Values[i], a, d)
					} else {
						rb.assignIdent(st, n, nil, nil, "")
					}
				}
			}
		}
	case *ast.IncDecStmt:
		if id, ok := ast.Unparen(x.X).(*ast.Ident); ok {
			delete(st.konst, rb.objOf(id))
		}
	}
	return st, true
}

// ---------------------------------------------------------------------------
// variant producers
// ---------------------------------------------------------------------------

func r2pVariantProducers(m *travModel, p *packages.Package) map[*types.Func]bool {
	info := p.TypesInfo
	out := map[*types.Func]bool{}
	isSelector := func(call *ast.CallExpr) bool {
		sg, ok := types.Unalias(info.TypeOf(call.Fun)).(*types.Signature)
		if !ok || sg.Results().Len() != 1 || sg.Params().Len() < 1 {
			return false
		}
		sl, ok := types.Unalias(sg.Params().At(0).Type()).(*types.Slice)
		return ok && types.Identical(sl.Elem(), sg.Results().At(0).Type())
	}
	moduleCallee := func(x ast.Expr) *types.Func {
		call, ok := ast.Unparen(x).(*ast.CallExpr)
		if !ok {
			return nil
		}
		f := CalleeOf(info, call)
		if f == nil || m.decls[f] == nil {
			return nil
		}
		return f
	}
	for _, fd := range AllFuncDecls(p) {
		ast.Inspect(fd.Body, func(n ast.Node) bool {
			call, ok := n.(*ast.CallExpr)
			if !ok || len(call.Args) == 0 || !isSelector(call) {
				return true
			}
			if f := moduleCallee(call.Args[0]); f != nil {
				out[f] = true
			}
			if id, ok := ast.Unparen(call.Args[0]).(*ast.Ident); ok {
				o := info.Uses[id]
				ast.Inspect(fd.Body, func(n2 ast.Node) bool {
					as, ok := n2.(*ast.AssignStmt)
					if !ok || len(as.Lhs) != len(as.Rhs) {
						return true
					}
					for i, l := range as.Lhs {
						lid, ok := ast.Unparen(l).(*ast.Ident)
						if !ok || (info.Uses[lid] != o && info.Defs[lid] != o) {
							continue
						}
						if f := moduleCallee(as.Rhs[i]); f != nil {
							out[f] = true
						}
					}
					return true
				})
			}
			return true
		})
	}
	for changed := true; changed; {
		changed = false
		for f := range out {
			d := m.decls[f]
			if d == nil {
				continue
			}
			di := d.Pkg.TypesInfo
			ast.Inspect(d.Fd.Body, func(n ast.Node) bool {
				switch x := n.(type) {
				case *ast.CallExpr:
					if r2pIsBuiltin(di, x, "append") && x.Ellipsis.IsValid() && len(x.Args) >= 2 {
						if call, ok := ast.Unparen(x.Args[len(x.Args)-1]).(*ast.CallExpr); ok {
							if g := CalleeOf(di, call); g != nil && m.decls[g] != nil && !out[g] &&
								types.Identical(di.TypeOf(call), f.Type().(*types.Signature).Results().At(0).Type()) {
								out[g] = true
								changed = true
							}
						}
					}
				case *ast.ReturnStmt:
					if len(x.Results) == 1 {
						if call, ok := ast.Unparen(x.Results[0]).(*ast.CallExpr); ok {
							if g := CalleeOf(di, call); g != nil && m.decls[g] != nil && !out[g] && g != f {
								out[g] = true
								changed = true
							}
						}
					}
				}
				return true
			})
		}
	}
	return out
}

// ---------------------------------------------------------------------------
// the rule
// ---------------------------------------------------------------------------

type r2pRebuildUnit struct {
	perSwitch map[ast.Stmt]map[*ast.CaseClause]bool
	key       string
	pos       token.Pos
	root      string
	rootType  types.Type
	host      ast.Stmt
	clause    *ast.CaseClause
	skip      map[ast.Node]bool
	desc      string
}

func ruleR2pRebuild(c *Ctx) []Obligation {
	return r2pRebuildAll(c, nil, nil)
}

// r2pRebuildAll runs the rebuild analysis over optimizer and fuzzer; mv (optional) collects the context moves.
func r2pRebuildAll(c *Ctx, mv *r3pMoves, dl *r4pDelims) []Obligation {
	m := travGetModel(c)
	r := &travRun{c: c, m: m, tc: newTravCollector(m), hasUnit: map[string]bool{}}
	var obs []Obligation
	keyCount := map[string]int{}
	pkgs := []string{"homescript/optimizer", "homescript/fuzzer"}
	if dl != nil && len(dl.pkgs) > 0 {
		pkgs = dl.pkgs
	}
	for _, rel := range pkgs {
		if !c.HasPkg(rel) {
			continue
		}
		p := c.Pkg(rel)
		variants := r2pVariantProducers(m, p)
		for _, fd := range AllFuncDecls(p) {
			fn, _ := p.TypesInfo.Defs[fd.Name].(*types.Func)
			if fn == nil {
				continue
			}
			sg := fn.Type().(*types.Signature)
			if sg.Results().Len() == 0 {
				continue
			}
			env := r2pNewEnv(c, m, p, fd)
			rb := &r2pRebuild{r2pEnv: env, mv: mv, dl: dl, variants: variants, resType: sg.Results().At(0).Type(), isVar: variants[fn]}
			if !rb.nodeCarrying(rb.resType) {
				continue
			}
			_, resIsList := types.Unalias(rb.resType).(*types.Slice)
			var units []*r2pRebuildUnit
			ds := r.dispatches(p, fd)
			for i := 0; i < sg.Params().Len(); i++ {
				pv := sg.Params().At(i)
				if pv.Name() == "" || pv.Name() == "_" || !rb.nodeCarrying(pv.Type()) {
					continue
				}
				base := travFuncKey(p, fd) + "|param " + pv.Name()
				pt := types.Unalias(pv.Type())
				_, isSlice := pt.(*types.Slice)
				_, isMap := pt.(*types.Map)
				if resIsList && !isSlice && !isMap && !rb.isVar {
					obs = append(obs, Obligation{Key: base + "|every child reaches the output", Pos: c.Pos(fd.Pos()), Status: Info,
						Detail: "the function maps one node to a list of nodes and the list is not handed to a selector: neither a one-to-one rebuild nor a producer of alternatives — not decided here"})
					continue
				}
				if n, ok := r2pDeref(pt).(*types.Named); ok && m.codeIfc[n] {
					found := false
					// one unit per node kind: in every dispatch over this parameter the kind enters the clause(s) naming it
					var kinds []*travStruct
					seenKind := map[*travStruct]bool{}
					for _, d := range ds {
						if d.subject != pv {
							continue
						}
						for _, cc := range d.clauses {
							for _, s := range d.kinds[cc] {
								if !s.IsSem && !seenKind[s] {
									seenKind[s] = true
									kinds = append(kinds, s)
								}
							}
						}
					}
					for _, s := range kinds {
						found = true
						label := s.Short()
						if s.Kind != nil {
							label = s.Kind.Name()
						}
						per := map[ast.Stmt]map[*ast.CaseClause]bool{}
						skip := map[ast.Node]bool{}
						var first *ast.CaseClause
						for _, d := range ds {
							if d.subject != pv {
								continue
							}
							set := map[*ast.CaseClause]bool{}
							for _, cc := range d.clauses {
								for _, s2 := range d.kinds[cc] {
									if s2 == s {
										set[cc] = true
										if first == nil {
											first = cc
										}
									}
								}
							}
							per[d.sw] = set
						}
						units = append(units, &r2pRebuildUnit{key: base + "|case " + label + "|every child reaches the output", pos: first.Pos(),
							root: pv.Name(), rootType: s.T, perSwitch: per, skip: skip, desc: s.Short()})
					}
					if !found {
						units = append(units, &r2pRebuildUnit{key: base + "|every child reaches the output", pos: fd.Pos(), root: pv.Name(), rootType: pv.Type(), desc: types.TypeString(pv.Type(), travQual)})
					}
					continue
				}
				units = append(units, &r2pRebuildUnit{key: base + "|every child reaches the output", pos: fd.Pos(), root: pv.Name(), rootType: pv.Type(), desc: types.TypeString(pv.Type(), travQual)})
			}
			for _, u := range units {
				keyCount[u.key]++
				if n := keyCount[u.key]; n > 1 {
					u.key = fmt.Sprintf("%s#%d", u.key, n)
				}
				obs = append(obs, rb.run(u))
			}
		}
	}
	sort.SliceStable(obs, func(i, j int) bool { return obs[i].Key < obs[j].Key })
	return obs
}

func (rb *r2pRebuild) run(u *r2pRebuildUnit) Obligation {
	c := rb.c
	info := rb.info
	rb.root, rb.rootType, rb.unit = u.root, u.rootType, u
	if rb.dl != nil {
		rb.dl.begin(rb, u)
	}
	body, loops := r2pWrap(rb.fd.Body)
	rb.loops = loops
	filter := &r2pClauseFilter{loops: loops, host: u.host, clause: u.clause, skip: u.skip, perSwitch: u.perSwitch}
	type witness struct {
		what, trace string
	}
	var viol []witness
	seenViol := map[string]bool{}
	npaths := 0
	w := &Walker[*r2pState]{
		Clone:  r2pClone,
		OnStmt: rb.onStmt,
		OnCond: func(st *r2pState, cond ast.Expr, taken bool) (*r2pState, bool) {
			if rb.mv != nil && rb.mv.onCond(rb, st, cond, taken) {
				return st, true
			}
			return st, rb.applyCond(st, cond, taken)
		},
		OnCase: func(st *r2pState, sw *ast.SwitchStmt, vals []ast.Expr, others []ast.Expr) (*r2pState, bool) {
			cc := r2pClauseOf(sw, vals)
			if cc == nil {
				return st, filter.allowNone(sw)
			}
			if !filter.allow(sw, cc) {
				return st, false
			}
			if vals != nil {
				st.trace = append(st.trace, fmt.Sprintf("%s is %s (line %d)", exprStr(sw.Tag), exprStr(vals[0]), rb.line(cc.Pos())))
			}
			return st, true
		},
		OnTypeCase: func(st *r2pState, sw *ast.TypeSwitchStmt, cc *ast.CaseClause) (*r2pState, bool) {
			if !filter.allow(sw, cc) {
				return st, false
			}
			if as, ok := sw.Assign.(*ast.AssignStmt); ok {
				if ta, ok := ast.Unparen(as.Rhs[0]).(*ast.TypeAssertExpr); ok {
					var occ ast.Node = cc
					if o := loops.orig[cc]; o != nil {
						occ = o
					}
					if obj := info.Implicits[occ]; obj != nil {
						a, _ := rb.eval(st, ta.X)
						st.atoms[obj] = a
						if p := rb.rawPathOf(st, ta.X); p != "" {
							st.alias[obj] = p
						}
					}
				}
			}
			if cc.List != nil {
				st.trace = append(st.trace, fmt.Sprintf("type case %s (line %d)", exprStr(cc.List[0]), rb.line(cc.Pos())))
			}
			return st, true
		},
		OnRange: func(st *r2pState, r *ast.RangeStmt) (*r2pState, bool) {
			rb.onRange(st, r)
			if v, ok := r.Value.(*ast.Ident); ok && v.Name != "_" {
				if o := rb.objOf(v); o != nil {
					a, _ := rb.eval(st, r.X)
					st.atoms[o] = a
					delete(st.elems, o)
					if rb.dl != nil {
						st.bare[o] = rb.dl.bareAtoms(rb, st, r.X)
					}
				}
			}
			return st, true
		},
		IsPanic: func(s ast.Stmt) bool { return IsPanicCall(info, s) },
		Exit: func(st *r2pState, o outcome) {
			if o.kind != cReturn || o.ret == nil || len(o.ret.Results) == 0 || !st.feasible() {
				return
			}
			npaths++
			res := o.ret.Results[0]
			if rb.isVar {
				for _, el := range rb.elemsOf(st, res) {
					if rb.dl != nil && len(el.bare) > 0 {
						rb.dl.note(u, el.bare, fmt.Sprintf("the alternative `%s` produced at %s", el.what, el.pos), st.traceStr())
					}
					if len(el.missing) == 0 {
						continue
					}
					k := el.pos + strings.Join(el.missing, ",")
					if seenViol[k] {
						continue
					}
					seenViol[k] = true
					viol = append(viol, witness{fmt.Sprintf("the alternative `%s` produced at %s does not contain %s of the input", el.what, el.pos, strings.Join(el.missing, ", ")), st.traceStr()})
				}
				return
			}
			if rb.dl != nil {
				if b := rb.dl.bareChildren(rb, st, res); len(b) > 0 {
					rb.dl.note(u, b, fmt.Sprintf("the value returned at line %d (`%s`)", rb.line(o.at), r2pShort(exprStr(res))), st.traceStr())
				}
			}
			a, _ := rb.eval(st, res)
			if ms := rb.missing(st, rb.root, rb.rootType, a, 0); len(ms) > 0 {
				k := fmt.Sprint(rb.line(o.at)) + strings.Join(ms, ",")
				if seenViol[k] {
					return
				}
				seenViol[k] = true
				viol = append(viol, witness{fmt.Sprintf("the value returned at line %d (`%s`) does not contain %s of the input; it is made of [%s]", rb.line(o.at), r2pShort(exprStr(res)), strings.Join(ms, ", "), strings.Join(r2pSorted(a), ", ")), st.traceStr()})
			}
		},
	}
	w.Run(body, r2pNewState())
	ob := Obligation{Key: u.key, Pos: c.Pos(u.pos), Nontrivial: true}
	mode := "one-to-one rebuild"
	if rb.isVar {
		mode = "producer of alternatives"
	}
	_, kids := rb.childFields(u.rootType)
	var kn []string
	for _, f := range kids {
		kn = append(kn, f.Name)
	}
	desc := fmt.Sprintf("[rebuild, %s] input %s %s (children: %s)", mode, u.root, u.desc, strings.Join(kn, ", "))
	switch {
	case w.Overflow || len(w.Unsupported) > 0:
		ob.Status, ob.Detail = Undecided, desc+": path enumeration gave up"
	case len(viol) > 0:
		ob.Status = Violated
		ob.Detail = fmt.Sprintf("%s: on the path [%s] %s; %d such findings on %d paths", desc, viol[0].trace, viol[0].what, len(viol), npaths)
	case npaths == 0:
		ob.Status, ob.Detail = Info, desc+": no returning path"
	default:
		ob.Status, ob.Detail = Discharged, fmt.Sprintf("%s: the input reaches the output as a whole or through every child (or the child is absent) on all %d returning paths", desc, npaths)
	}
	return ob
}

func r2pShort(s string) string {
	s = strings.Join(strings.Fields(s), " ")
	if len(s) > 70 {
		return s[:67] + "..."
	}
	return s
}

// ---------------------------------------------------------------------------
// R-block-empty
// ---------------------------------------------------------------------------

func ruleR2pBlockEmpty(c *Ctx) []Obligation {
	m := travGetModel(c)
	var obs []Obligation
	// block structs: list field + single trailing field
	type blockT struct{ list, single string }
	blocks := map[*travStruct]blockT{}
	for _, s := range m.sortedStructs() {
		if !m.isBlockType(s.T) {
			continue
		}
		var b blockT
		for _, f := range s.Fields {
			ft := types.Unalias(f.Var.Type())
			if sl, ok := ft.(*types.Slice); ok {
				if e := travNamed(sl.Elem()); e != nil && m.codeIfc[e] {
					b.list = f.Name
				}
			} else if e, ok := ft.(*types.Named); ok && m.codeIfc[e] {
				b.single = f.Name
			}
		}
		if b.list != "" && b.single != "" {
			blocks[s] = b
		}
	}
	if len(blocks) == 0 {
		return []Obligation{{Key: "<anchor>|block structs", Status: Undecided, Detail: "no block-shaped struct (statement list + trailing expression) found in the AST packages"}}
	}
	// a length test of the list field of a block-typed expression
	lenTest := func(info *types.Info, atom ast.Expr) (x ast.Expr, s *travStruct, emptyWhenTrue bool, ok bool) {
		be, isBin := ast.Unparen(atom).(*ast.BinaryExpr)
		if !isBin {
			return
		}
		a, b, op := be.X, be.Y, be.Op
		if _, isLit := r2pIntLit(a); isLit {
			a, b = b, a
			switch op {
			case token.LSS:
				op = token.GTR
			case token.GTR:
				op = token.LSS
			case token.LEQ:
				op = token.GEQ
			case token.GEQ:
				op = token.LEQ
			}
		}
		call, isCall := ast.Unparen(a).(*ast.CallExpr)
		k, isLit := r2pIntLit(b)
		if !isCall || !isLit || !r2pIsBuiltin(info, call, "len") || len(call.Args) != 1 {
			return
		}
		se, isSel := ast.Unparen(call.Args[0]).(*ast.SelectorExpr)
		if !isSel {
			return
		}
		bs := m.structs[travNamed(info.TypeOf(se.X))]
		if bs == nil || blocks[bs].list != se.Sel.Name {
			return
		}
		switch {
		case op == token.EQL && k == 0, op == token.LSS && k == 1, op == token.LEQ && k == 0:
			return se.X, bs, true, true
		case op == token.NEQ && k == 0, op == token.GTR && k == 0, op == token.GEQ && k == 1:
			return se.X, bs, false, true
		}
		return
	}
	for _, p := range c.All {
		info := p.TypesInfo
		for _, fd := range AllFuncDecls(p) {
			// sites
			type site struct {
				x   string
				s   *travStruct
				pos token.Pos
			}
			var sites []site
			seenSite := map[string]bool{}
			ast.Inspect(fd.Body, func(n ast.Node) bool {
				if e, ok := n.(ast.Expr); ok {
					if x, s, _, ok := lenTest(info, e); ok && !seenSite[exprStr(x)] {
						seenSite[exprStr(x)] = true
						sites = append(sites, site{exprStr(x), s, e.Pos()})
					}
				}
				return true
			})
			if len(sites) == 0 {
				continue
			}
			type bst struct {
				empty map[string]string // X -> trace of the decision
				seen  map[string]bool   // X -> trailing expression looked at / X handed on
			}
			// uses of X.single or of X as a whole inside a node
			uses := func(n ast.Node, st *bst) {
				var stack []ast.Node
				ast.Inspect(n, func(nn ast.Node) bool {
					if nn == nil {
						stack = stack[:len(stack)-1]
						return true
					}
					var parent ast.Node
					if len(stack) > 0 {
						parent = stack[len(stack)-1]
					}
					stack = append(stack, nn)
					e, ok := nn.(ast.Expr)
					if !ok {
						return true
					}
					xs := exprStr(e)
					for _, si := range sites {
						if xs != si.x {
							continue
						}
						if pse, ok := parent.(*ast.SelectorExpr); ok && pse.X == e {
							if pse.Sel.Name == blocks[si.s].single {
								st.seen[si.x] = true
							}
							// another field (the list, the span): not a look at the trailing expression
						} else if _, decided := st.empty[si.x]; decided {
							st.seen[si.x] = true // handed on / copied as a whole after the decision
						}
					}
					return true
				})
			}
			type wit struct{ trace string }
			bad := map[string]*wit{}
			paths := 0
			cloneB := func(s *bst) *bst { return &bst{empty: r2pCopyMap(s.empty), seen: r2pCopyMap(s.seen)} }
			w := &Walker[*bst]{
				Clone: cloneB,
				OnStmt: func(st *bst, s ast.Stmt) (*bst, bool) {
					uses(s, st)
					return st, true
				},
				OnCond: func(st *bst, cond ast.Expr, taken bool) (*bst, bool) {
					if x, _, emptyWhenTrue, ok := lenTest(info, cond); ok {
						if emptyWhenTrue == taken {
							st.empty[exprStr(x)] = fmt.Sprintf("%s is %v (line %d)", exprStr(cond), taken, c.Fset.Position(cond.Pos()).Line)
						}
						return st, true
					}
					uses(cond, st)
					return st, true
				},
				OnCase: func(st *bst, sw *ast.SwitchStmt, vals []ast.Expr, others []ast.Expr) (*bst, bool) {
					if sw.Tag != nil {
						uses(sw.Tag, st)
					}
					return st, true
				},
				OnRange: func(st *bst, r *ast.RangeStmt) (*bst, bool) {
					uses(r.X, st)
					return st, true
				},
				IsPanic: func(s ast.Stmt) bool { return IsPanicCall(info, s) },
				Exit: func(st *bst, o outcome) {
					if o.kind == cPanic {
						return
					}
					paths++
					for x, tr := range st.empty {
						if !st.seen[x] && bad[x] == nil {
							line := c.Fset.Position(fd.End()).Line
							if o.at.IsValid() {
								line = c.Fset.Position(o.at).Line
							}
							bad[x] = &wit{fmt.Sprintf("%s; the path ends at line %d", tr, line)}
						}
					}
				},
			}
			w.Run(fd.Body, &bst{empty: map[string]string{}, seen: map[string]bool{}})
			for _, si := range sites {
				b := blocks[si.s]
				ob := Obligation{Key: fmt.Sprintf("%s|len(%s.%s)|an empty statement list is not taken for an empty block", travFuncKeyAny(p, fd), si.x, b.list), Pos: c.Pos(si.pos), Nontrivial: true}
				switch {
				case w.Overflow:
					ob.Status, ob.Detail = Undecided, "path enumeration gave up"
				case bad[si.x] != nil:
					ob.Status = Violated
					ob.Detail = fmt.Sprintf("%s decides that %s.%s is empty [%s] and reaches the end of that path without looking at %s.%s (the trailing expression of the %s) or handing %s on: a block such as `{ f(x) }` has no statements and is not empty",
						FuncName(fd), si.x, b.list, bad[si.x].trace, si.x, b.single, si.s.Short(), si.x)
				default:
					ob.Status, ob.Detail = Discharged, fmt.Sprintf("every path of %s that takes %s.%s for empty also looks at %s.%s or hands the block on (%d paths)", FuncName(fd), si.x, b.list, si.x, b.single, paths)
				}
				obs = append(obs, ob)
			}
		}
	}
	return obs
}

func travFuncKeyAny(p *packages.Package, fd *ast.FuncDecl) string {
	return strings.TrimPrefix(relPkg(p.PkgPath), "homescript/") + "." + FuncName(fd)
}
